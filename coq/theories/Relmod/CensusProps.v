(* C17, row census: when Normalize succeeds, every relation has exactly one row per element of the module
   (census_exact_counts, all relations at once, all modules), the refusal is exactly "a reachable return payload
   the payload grammar refuses" (refused_iff), and the outcome does not depend on the order in which Go iterates
   the maps of the module (normalize_order_independent).
   The census is stated for the value-semantics path construction; Shape.v transfers it to the construction the
   CURRENT source uses. *)
From Coq Require Import String List NArith ZArith PArith Bool Lia Permutation.
Import ListNotations.
Require Import Verif.Relmod.Model Verif.Relmod.StmtProps Verif.Relmod.Run Verif.Relmod.SortProps Verif.Relmod.PayloadProps.

(* ---------- counting by class ---------- *)
Definition ind (R R':relname) : nat := if relname_eqb R' R then 1 else 0.
Definition cnt {A} (cls:A -> relname) (R:relname) (l:list A) : nat :=
  length (filter (fun x => relname_eqb (cls x) R) l).
Definition rel_count (R:relname) (rs:list row) : nat := cnt r_rel R rs.

Lemma cnt_app {A} (cls:A -> relname) R a b : cnt cls R (a ++ b) = cnt cls R a + cnt cls R b.
Proof. unfold cnt. rewrite filter_app, app_length. reflexivity. Qed.

Lemma cnt_cons {A} (cls:A -> relname) R x l : cnt cls R (x :: l) = ind R (cls x) + cnt cls R l.
Proof. unfold cnt, ind. cbn [filter]. destruct (relname_eqb (cls x) R); reflexivity. Qed.

Lemma cnt_nil {A} (cls:A -> relname) R : cnt cls R [] = 0.
Proof. reflexivity. Qed.

Lemma cnt_map {A B} (cls:B -> relname) R (f:A -> B) l : cnt cls R (map f l) = cnt (fun x => cls (f x)) R l.
Proof. induction l as [|x l IH]; [reflexivity|]. cbn [map]. rewrite !cnt_cons, IH. reflexivity. Qed.

Lemma cnt_const {A} (cls:A -> relname) R R' l : (forall x, cls x = R') -> cnt cls R l = ind R R' * length l.
Proof.
  intros H. induction l as [|x l IH]; [cbn; lia|]. rewrite cnt_cons, IH, H. cbn [length]. lia.
Qed.

Lemma list_sum_cons x l : list_sum (x :: l) = x + list_sum l.
Proof. reflexivity. Qed.

Lemma cnt_concat_map {A B} (cls:B -> relname) R (f:A -> list B) l :
  cnt cls R (concat (map f l)) = list_sum (map (fun x => cnt cls R (f x)) l).
Proof. induction l as [|x l IH]; [reflexivity|]. cbn [map concat]. rewrite list_sum_cons, cnt_app, IH. reflexivity. Qed.

Lemma cnt_concat_mapi {A B} (cls:B -> relname) R (f:N -> A -> list B) (g:A -> nat) l :
  Forall (fun x => forall i, cnt cls R (f i x) = g x) l ->
  forall i0, cnt cls R (concat (mapi_from f l i0)) = list_sum (map g l).
Proof.
  induction 1 as [|x l Hx _ IH]; intros i0; [reflexivity|].
  cbn [mapi_from concat map]. rewrite list_sum_cons, cnt_app, Hx, IH. reflexivity.
Qed.

Lemma list_sum_ext {A} (f g:A -> nat) l : (forall x, In x l -> f x = g x) -> list_sum (map f l) = list_sum (map g l).
Proof.
  induction l as [|x l IH]; intros H; [reflexivity|]. cbn [map]. rewrite !list_sum_cons.
  rewrite (H x (or_introl eq_refl)), IH; [reflexivity|]. intros y Hy. apply H. right; exact Hy.
Qed.

(* ---------- the census: what each construct of the module contributes to relation R ---------- *)
Definition has_srcs (l:list srcctx) : nat := match l with [] => 0 | _ :: _ => 1 end.
Definition attrs_count (R:relname) (o:owner) (a:attrs) : nat :=
  ind R (RTag o) * length (a_tags a) + ind R (RAnno o) * length (a_annos a)
  + ind R (RSrcAnno o) * list_sum (map (fun an => has_srcs (an_srcs an)) (a_annos a))
  + ind R (RSrc o) * has_srcs (a_srcs a).

Fixpoint census_stmt (R:relname) (st:stmt) : nat :=
  match st with
  | SLeaf k t a => if hidden k t then 0 else ind R RStmt + attrs_count R OStmt a
  | SBlock k t a body => list_sum (map (census_stmt R) body) + (ind R RStmt + attrs_count R OStmt a)
  | SAlt a chs =>
      list_sum (map (fun ch : name * list stmt => list_sum (map (census_stmt R) (snd ch)) + ind R RStmt) chs)
      + attrs_count R OStmt a
  end.

Definition census_param (R:relname) (p:param) : nat :=
  ind R RParam + match p_type p with Some pt => attrs_count R OParam (pt_attrs pt) | None => 0 end.
Definition census_params (R:relname) (ps:list param) : nat := list_sum (map (census_param R) ps).

Definition census_ep (R:relname) (e:endpoint) : nat :=
  if ep_skipped e then 0
  else if e_pubsub e then ind R REvent + census_params R (e_params e) + attrs_count R OEvent (e_attrs e)
  else ind R REp + attrs_count R OEp (e_attrs e) + census_params R (e_params e)
       + match e_rest e with Some (_, _, u, q) => census_params R u + census_params R q | None => 0 end
       + list_sum (map (census_stmt R) (e_stmts e)).

Definition census_field (R:relname) (f:field) : nat := ind R RField + attrs_count R OField (f_attrs f).
Definition census_type (R:relname) (t:typedecl) : nat :=
  ind R RType
  + match t_def t with
    | DTuple fs => list_sum (map (census_field R) fs)
    | DRelation _ fs => ind R RTable + list_sum (map (census_field R) fs)
    | DAlias _ => ind R RAlias
    | DEnum _ => ind R REnum
    | DMap _ _ | DOneOf _ | DNoType | DList _ | DUnset => 0
    end
  + attrs_count R OType (t_attrs t).
Definition census_view (R:relname) (v:view) : nat := ind R RView + attrs_count R OView (v_attrs v).
Definition census_mixin (R:relname) (m:appname * attrs) : nat := ind R RMixin + attrs_count R OMixin (snd m).
Definition census_app (R:relname) (ap:app) : nat :=
  ind R RApp + attrs_count R OApp (ap_attrs ap)
  + list_sum (map (census_mixin R) (ap_mixins ap))
  + list_sum (map (census_ep R) (ap_eps ap))
  + list_sum (map (census_type R) (ap_types ap))
  + list_sum (map (census_view R) (ap_views ap)).
Definition census (R:relname) (m:module) : nat := list_sum (map (census_app R) m).

(* ---------- the rows meet the census ---------- *)
Lemma list_sum_map_add {A} (f g:A -> nat) l : list_sum (map (fun x => f x + g x) l) = list_sum (map f l) + list_sum (map g l).
Proof. induction l as [|x l IH]; [reflexivity|]. cbn [map]. rewrite !list_sum_cons, IH. lia. Qed.
Lemma list_sum_map_const {A} (c:nat) (l:list A) : list_sum (map (fun _ => c) l) = c * length l.
Proof. induction l as [|x l IH]; [cbn; lia|]. cbn [map length]. rewrite list_sum_cons, IH. lia. Qed.
Lemma list_sum_map_mul {A} (c:nat) (f:A -> nat) l : list_sum (map (fun x => c * f x) l) = c * list_sum (map f l).
Proof. induction l as [|x l IH]; [cbn; lia|]. cbn [map]. rewrite !list_sum_cons, IH. lia. Qed.

(* the annotation rows of one attribute set: one Anno row each, one Src.Anno row for those with source contexts *)
Lemma count_annos {B} (cls:B -> relname) R (f:anno -> list B) RA RS l :
  (forall an, cnt cls R (f an) = ind R RA + ind R RS * has_srcs (an_srcs an)) ->
  cnt cls R (concat (map f (sorted_by an_name l))) =
  ind R RA * length l + ind R RS * list_sum (map (fun an => has_srcs (an_srcs an)) l).
Proof.
  intros H. rewrite cnt_concat_map, list_sum_map_sorted.
  rewrite (list_sum_ext _ (fun an => ind R RA + ind R RS * has_srcs (an_srcs an))) by (intros; apply H).
  rewrite list_sum_map_add, list_sum_map_const, list_sum_map_mul. reflexivity.
Qed.

Lemma count_meta R o a keys p zs at_ : rel_count R (meta o a keys p zs at_) = attrs_count R o at_.
Proof.
  unfold rel_count, meta, attrs_count. rewrite !cnt_app, cnt_map.
  rewrite (cnt_const _ R (RTag o)) by reflexivity.
  rewrite (count_annos r_rel R _ (RAnno o) (RSrcAnno o)).
  - unfold src_rows. destruct (a_srcs at_); [rewrite cnt_nil|rewrite cnt_cons, cnt_nil]; cbn [has_srcs r_rel mkx]; lia.
  - intros an. unfold anno_rows. rewrite cnt_cons. cbn [r_rel mkx].
    destruct (an_srcs an); [rewrite cnt_nil|rewrite cnt_cons, cnt_nil]; cbn [has_srcs r_rel mkx]; lia.
Qed.

Definition item_rel (it:sitem (list N)) : relname :=
  match it with
  | IRow _ _ _ => RStmt | ITag _ _ => RTag OStmt | IAnno _ _ _ => RAnno OStmt
  | ISrcAnno _ _ _ => RSrcAnno OStmt | ISrc _ _ _ => RSrc OStmt
  end.

Lemma count_smeta R p a : cnt item_rel R (smeta p a) = attrs_count R OStmt a.
Proof.
  unfold smeta, attrs_count. rewrite !cnt_app, cnt_map.
  rewrite (cnt_const _ R (RTag OStmt)) by reflexivity.
  rewrite (count_annos item_rel R _ (RAnno OStmt) (RSrcAnno OStmt)).
  - unfold ssrc. destruct (a_srcs a); [rewrite cnt_nil|rewrite cnt_cons, cnt_nil]; cbn [has_srcs item_rel]; lia.
  - intros an. unfold sanno. rewrite cnt_cons. cbn [item_rel].
    destruct (an_srcs an); [rewrite cnt_nil|rewrite cnt_cons, cnt_nil]; cbn [has_srcs item_rel]; lia.
Qed.

Lemma count_path_items R st : forall idx, cnt item_rel R (path_items st idx) = census_stmt R st.
Proof.
  induction st as [k t a|k t a body IH|a chs IH] using stmt_ind'; intros idx; cbn [path_items census_stmt].
  - destruct (hidden k t); [reflexivity|]. rewrite cnt_cons, count_smeta. reflexivity.
  - rewrite cnt_app, cnt_cons, count_smeta. f_equal.
    apply cnt_concat_mapi. eapply Forall_impl; [|exact IH]. intros c Hc i. apply Hc.
  - rewrite cnt_app, count_smeta. f_equal.
    apply cnt_concat_mapi. eapply Forall_impl; [|exact IH]. intros ch Hch i. cbn beta in Hch.
    rewrite cnt_app, cnt_cons, cnt_nil. cbn [item_rel]. rewrite Nat.add_0_r. f_equal.
    apply cnt_concat_mapi. eapply Forall_impl; [|exact Hch]. intros c Hc j. apply Hc.
Qed.

Lemma count_stmt_rows R g a sa ep stmts :
  rel_count R (map (item_row g a sa ep) (ep_items_pure stmts)) = list_sum (map (census_stmt R) stmts).
Proof.
  unfold rel_count. rewrite cnt_map.
  assert (E : forall l, cnt (fun x => r_rel (item_row g a sa ep x)) R l = cnt item_rel R l).
  { intros l. unfold cnt. f_equal. apply filter_ext. intros [p c [t rt]|p t|p n v|p n l0|p s0 l0]; reflexivity. }
  rewrite E. unfold ep_items_pure. apply cnt_concat_mapi.
  apply Forall_forall. intros s _ i. apply count_path_items.
Qed.

Lemma count_param_rows R a ep loc i p : rel_count R (param_rows a ep loc i p) = census_param R p.
Proof.
  unfold param_rows, census_param. destruct (p_type p) as [pt|].
  - unfold rel_count. rewrite cnt_app. fold (rel_count R (meta OParam a [ep; p_name p; param_loc loc p] [] [Z.of_N i] (pt_attrs pt))).
    rewrite count_meta, cnt_cons, cnt_nil. cbn [r_rel mk mk2]. lia.
  - unfold rel_count. rewrite cnt_cons, cnt_nil. cbn [r_rel mk mk2]. lia.
Qed.

Lemma count_params_rows R a ep loc ps : rel_count R (params_rows a ep loc ps) = census_params R ps.
Proof.
  unfold params_rows, census_params, rel_count. apply cnt_concat_mapi.
  apply Forall_forall. intros p _ i. apply count_param_rows.
Qed.

Lemma count_ep_rows R g a sa e : rel_count R (ep_rows CopyParent CopyParent g a sa e) = census_ep R e.
Proof.
  unfold ep_rows, census_ep. destruct (ep_skipped e); [reflexivity|]. destruct (e_pubsub e).
  - unfold rel_count. rewrite cnt_cons, cnt_app. cbn [r_rel mk mk2].
    fold (rel_count R (params_rows a (e_name e) n_empty (e_params e))).
    fold (rel_count R (meta OEvent a [e_name e] [] [] (e_attrs e))).
    rewrite count_params_rows, count_meta. lia.
  - unfold rel_count. rewrite cnt_cons, !cnt_app. cbn [r_rel mk mk2].
    fold (rel_count R (meta OEp a [e_name e] [] [] (e_attrs e))).
    fold (rel_count R (params_rows a (e_name e) n_empty (e_params e))).
    fold (rel_count R (map (item_row g a sa (e_name e)) (ep_items CopyParent CopyParent (e_stmts e)))).
    rewrite count_meta, count_params_rows. cbn [ep_items]. rewrite count_stmt_rows.
    destruct (e_rest e) as [[[[mth pth] u] q]|].
    + rewrite cnt_app. fold (rel_count R (params_rows a (e_name e) n_path u)).
      fold (rel_count R (params_rows a (e_name e) n_query q)). rewrite !count_params_rows. lia.
    + rewrite cnt_nil. lia.
Qed.

Lemma count_field_rows R a tn f : rel_count R (field_rows a tn f) = census_field R f.
Proof.
  unfold field_rows, census_field, rel_count. rewrite cnt_cons. cbn [r_rel mk mk2].
  fold (rel_count R (meta OField a [tn; f_name f] [] [] (f_attrs f))). rewrite count_meta. reflexivity.
Qed.

Lemma count_fields_rows R a tn fs :
  rel_count R (concat (map (field_rows a tn) fs)) = list_sum (map (census_field R) fs).
Proof.
  unfold rel_count. rewrite cnt_concat_map. apply list_sum_ext. intros f _. apply count_field_rows.
Qed.

Lemma count_type_rows R a t : rel_count R (type_rows a t) = census_type R t.
Proof.
  unfold type_rows, census_type, rel_count. rewrite cnt_cons, cnt_app. cbn [r_rel mk mk2].
  fold (rel_count R (meta OType a [t_name t] [] [] (t_attrs t))). rewrite count_meta.
  destruct (t_def t) as [fs|pk fs|mt|items|mk_ mv_|ts| |lt|]; [| | | |rewrite cnt_nil; lia..].
  - fold (rel_count R (concat (map (field_rows a (t_name t)) (sorted_by f_name fs)))).
    rewrite count_fields_rows, list_sum_map_sorted. lia.
  - rewrite cnt_cons. cbn [r_rel mk mk2]. fold (rel_count R (concat (map (field_rows a (t_name t)) (sorted_by f_name fs)))).
    rewrite count_fields_rows, list_sum_map_sorted. lia.
  - rewrite cnt_cons, cnt_nil. cbn [r_rel mk mk2]. lia.
  - rewrite cnt_cons, cnt_nil. cbn [r_rel mk mk2]. lia.
Qed.

Lemma count_view_rows R a v : rel_count R (view_rows a v) = census_view R v.
Proof.
  unfold view_rows, census_view, rel_count. rewrite cnt_cons. cbn [r_rel mk mk2].
  fold (rel_count R (meta OView a [v_name v] [] [] (v_attrs v))). rewrite count_meta. reflexivity.
Qed.

Lemma count_mixin_rows R a m : rel_count R (mixin_rows a m) = census_mixin R m.
Proof.
  unfold mixin_rows, census_mixin, rel_count. rewrite cnt_cons. cbn [r_rel mk mk2].
  fold (rel_count R (meta OMixin a (fst m) [] [] (snd m))). rewrite count_meta. reflexivity.
Qed.

Lemma count_app_rows R g ap : rel_count R (app_rows CopyParent CopyParent g ap) = census_app R ap.
Proof.
  unfold app_rows, census_app, rel_count. rewrite cnt_cons, !cnt_app, !cnt_concat_map. cbn [r_rel mk mk2].
  fold (rel_count R (meta OApp (ap_name ap) [] [] [] (ap_attrs ap))). rewrite count_meta.
  rewrite (list_sum_ext _ (census_mixin R)) by (intros x _; apply count_mixin_rows).
  rewrite (list_sum_ext _ (census_ep R)) by (intros x _; apply count_ep_rows).
  rewrite (list_sum_ext _ (census_type R)) by (intros x _; apply count_type_rows).
  rewrite (list_sum_ext _ (census_view R)) by (intros x _; apply count_view_rows).
  rewrite !list_sum_map_sorted. lia.
Qed.

(* exactly one row per element, for every relation and every module *)
Theorem census_exact_counts g m rs :
  normalize CopyParent CopyParent g m = Rows rs -> forall R, rel_count R rs = census R m.
Proof.
  unfold normalize. destruct (module_fault g m) as [[|]|]; [discriminate|discriminate|]. intros [= <-] R.
  unfold rel_count, census. rewrite cnt_concat_map. apply list_sum_ext. intros ap _. apply count_app_rows.
Qed.

(* ---------- readable instances of the census ---------- *)
Fixpoint visible_stmts (st:stmt) : nat :=
  match st with
  | SLeaf k t _ => if hidden k t then 0 else 1
  | SBlock _ _ _ body => S (list_sum (map visible_stmts body))
  | SAlt _ chs => list_sum (map (fun ch : name * list stmt => S (list_sum (map visible_stmts (snd ch)))) chs)
  end.

Lemma census_stmt_RStmt st : census_stmt RStmt st = visible_stmts st.
Proof.
  induction st as [k t a|k t a body IH|a chs IH] using stmt_ind'; cbn [census_stmt visible_stmts].
  - destruct (hidden k t); reflexivity.
  - rewrite (list_sum_ext _ visible_stmts) by (intros c Hc; rewrite Forall_forall in IH; apply IH, Hc).
    unfold attrs_count. cbn. lia.
  - unfold attrs_count. cbn [ind relname_eqb Nat.mul]. rewrite Nat.add_0_r.
    apply list_sum_ext. intros ch Hch. rewrite Forall_forall in IH. specialize (IH ch Hch). cbn beta in IH.
    rewrite (list_sum_ext _ visible_stmts) by (intros c Hc; rewrite Forall_forall in IH; apply IH, Hc). lia.
Qed.

Lemma list_sum_zero {A} (f:A -> nat) l : (forall x, In x l -> f x = 0) -> list_sum (map f l) = 0.
Proof.
  induction l as [|x l IH]; intros H; [reflexivity|]. cbn [map]. rewrite list_sum_cons.
  rewrite (H x (or_introl eq_refl)), IH; [reflexivity|]. intros y Hy. apply H. right; exact Hy.
Qed.

Lemma census_stmt_RApp st : census_stmt RApp st = 0.
Proof.
  induction st as [k t a|k t a body IH|a chs IH] using stmt_ind'; cbn [census_stmt].
  - destruct (hidden k t); reflexivity.
  - rewrite list_sum_zero by (intros c Hc; rewrite Forall_forall in IH; apply IH, Hc). reflexivity.
  - rewrite list_sum_zero; [reflexivity|]. intros ch Hch. rewrite Forall_forall in IH. specialize (IH ch Hch).
    cbn beta in IH. rewrite list_sum_zero by (intros c Hc; rewrite Forall_forall in IH; apply IH, Hc). reflexivity.
Qed.

Lemma census_params_RApp ps : census_params RApp ps = 0.
Proof. unfold census_params. apply list_sum_zero. intros p _. unfold census_param. destruct (p_type p); reflexivity. Qed.

Lemma census_app_RApp ap : census_app RApp ap = 1.
Proof.
  unfold census_app.
  rewrite (list_sum_zero (census_mixin RApp)) by reflexivity.
  rewrite (list_sum_zero (census_view RApp)) by reflexivity.
  rewrite (list_sum_zero (census_ep RApp)).
  2:{ intros e _. unfold census_ep. destruct (ep_skipped e); [reflexivity|]. destruct (e_pubsub e).
      - rewrite census_params_RApp. reflexivity.
      - rewrite census_params_RApp, (list_sum_zero (census_stmt RApp)) by (intros; apply census_stmt_RApp).
        destruct (e_rest e) as [[[[mth pth] u] q]|]; [rewrite !census_params_RApp|]; reflexivity. }
  rewrite (list_sum_zero (census_type RApp)).
  2:{ intros t _. unfold census_type.
      destruct (t_def t); try reflexivity; rewrite (list_sum_zero (census_field RApp)) by reflexivity; reflexivity. }
  reflexivity.
Qed.

(* one App row per application *)
Corollary one_row_per_app g m rs : normalize CopyParent CopyParent g m = Rows rs -> rel_count RApp rs = length m.
Proof.
  intros H. rewrite (census_exact_counts _ _ _ H). unfold census.
  rewrite (list_sum_ext _ (fun _ => 1)) by (intros; apply census_app_RApp).
  clear H. induction m as [|a m IH]; [reflexivity|]. cbn [map length]. rewrite list_sum_cons, IH. reflexivity.
Qed.

(* the Stmt relation of one endpoint has one row per visible statement (choices of an alt count, the alt itself
   does not: normalizeStatement emits no row for it) *)
Corollary one_stmt_row_per_visible_statement g a sa ep stmts :
  rel_count RStmt (map (item_row g a sa ep) (ep_items_pure stmts)) = list_sum (map visible_stmts stmts).
Proof. rewrite count_stmt_rows. apply list_sum_ext. intros s _. apply census_stmt_RStmt. Qed.

(* ---------- refusal and crash ---------- *)
(* a statement reaches a return payload the payload reader does not accept *)
Inductive reaches_bad (g:grammar) : stmt -> Prop :=
| RB_leaf text t a : payload_fault g text <> None -> reaches_bad g (SLeaf (LRet text) t a)
| RB_opaque t a : reaches_bad g (SLeaf (LRetOpaque true) t a)
| RB_block k t a body c : In c body -> reaches_bad g c -> reaches_bad g (SBlock k t a body)
| RB_alt a chs ch c : In ch chs -> In c (snd ch) -> reaches_bad g c -> reaches_bad g (SAlt a chs).

Lemma first_some_none {A} (l:list (option A)) : first_some l = None <-> forall x, In x l -> x = None.
Proof.
  induction l as [|[y|] l IH]; cbn [first_some].
  - split; [intros _ x []|reflexivity].
  - split; [discriminate|]. intros H. exact (H _ (or_introl eq_refl)).
  - rewrite IH. split; intros H x; [intros [<-|Hx]; [reflexivity|apply H, Hx]|intros Hx; apply H; right; exact Hx].
Qed.
Lemma first_some_some {A} (l:list (option A)) : first_some l <> None <-> exists x, In x l /\ x <> None.
Proof.
  split.
  - intros H. induction l as [|[y|] l IH]; cbn [first_some] in H; [congruence| |].
    + exists (Some y). split; [left; reflexivity|discriminate].
    + destruct (IH H) as (x & Hx & Hn). exists x. split; [right; exact Hx|exact Hn].
  - intros (x & Hx & Hn) E. rewrite first_some_none in E. exact (Hn (E x Hx)).
Qed.
Lemma first_some_in {A} (l:list (option A)) y : first_some l = Some y -> In (Some y) l.
Proof. induction l as [|[z|] l IH]; cbn [first_some]; [discriminate|intros [= ->]; left; reflexivity|intros H; right; apply IH, H]. Qed.

Lemma stmt_fault_iff g st : stmt_fault g st <> None <-> reaches_bad g st.
Proof.
  induction st as [k t a|k t a body IH|a chs IH] using stmt_ind'; cbn [stmt_fault].
  - split.
    + destruct k as [| |text|[|]|]; try congruence; intros H; constructor; exact H.
    + intros H. inversion H; subst; [assumption|discriminate].
  - rewrite first_some_some. rewrite Forall_forall in IH. split.
    + intros (x & Hx & Hn). apply in_map_iff in Hx. destruct Hx as (c & <- & Hc).
      econstructor; [exact Hc|]. apply IH; assumption.
    + intros H. inversion H; subst. eexists; split; [apply in_map; eassumption|]. apply IH; assumption.
  - rewrite first_some_some. rewrite Forall_forall in IH. split.
    + intros (x & Hx & Hn). apply in_map_iff in Hx. destruct Hx as (ch & <- & Hch).
      apply first_some_some in Hn. destruct Hn as (y & Hy & Hn). apply in_map_iff in Hy. destruct Hy as (c & <- & Hc).
      specialize (IH ch Hch). cbn beta in IH. rewrite Forall_forall in IH.
      econstructor; [exact Hch|exact Hc|]. apply IH; assumption.
    + intros H. inversion H; subst.
      match goal with Hch : In ?ch chs |- _ => exists (first_some (map (stmt_fault g) (snd ch))); split;
        [apply (in_map (fun ch0 : name * list stmt => first_some (map (stmt_fault g) (snd ch0)))); exact Hch|];
        specialize (IH ch Hch) end.
      cbn beta in IH. rewrite Forall_forall in IH. apply first_some_some.
      eexists; split; [apply in_map; eassumption|]. apply IH; assumption.
Qed.

(* a view whose missing return type is dereferenced *)
Definition nil_view (g:grammar) (v:view) : Prop := v_ret v = None /\ g_nil g <> NilGuarded.
Lemma view_fault_iff g v : view_fault g v <> None <-> nil_view g v.
Proof.
  unfold view_fault, nil_view. destruct (v_ret v), (g_nil g); split; try congruence; try (intros [H1 H2]; congruence);
    intros _; split; congruence.
Qed.

Lemma first_some_app {A} (l1 l2:list (option A)) :
  first_some (l1 ++ l2) = match first_some l1 with Some x => Some x | None => first_some l2 end.
Proof. induction l1 as [|[x|] l1 IH]; cbn [List.app first_some]; [reflexivity|reflexivity|exact IH]. Qed.

Lemma module_fault_iff g m :
  module_fault g m <> None <->
  (exists ap e s, In ap m /\ In e (ap_eps ap) /\ ep_visits_stmts e = true /\ In s (e_stmts e) /\ reaches_bad g s) \/
  (exists ap v, In ap m /\ In v (ap_views ap) /\ nil_view g v).
Proof.
  unfold module_fault. rewrite first_some_some. split.
  - intros (x & Hx & Hn). apply in_map_iff in Hx. destruct Hx as (ap & <- & Hap).
    unfold app_fault in Hn. apply first_some_some in Hn. destruct Hn as (y & Hy & Hn).
    apply in_app_or in Hy. destruct Hy as [Hy|Hy].
    + left. apply in_map_iff in Hy. destruct Hy as (e & <- & He). apply sorted_by_In in He.
      unfold ep_fault in Hn. destruct (ep_visits_stmts e) eqn:Hv; [|congruence].
      apply first_some_some in Hn. destruct Hn as (z & Hz & Hn). apply in_map_iff in Hz. destruct Hz as (s & <- & Hs).
      exists ap, e, s. repeat split; try assumption. apply stmt_fault_iff, Hn.
    + right. apply in_map_iff in Hy. destruct Hy as (v & <- & Hv). apply sorted_by_In in Hv.
      exists ap, v. repeat split; try assumption; apply view_fault_iff in Hn; apply Hn.
  - intros [(ap & e & s & Hap & He & Hv & Hs & Hr)|(ap & v & Hap & Hv & Hn)].
    + exists (app_fault g ap). split; [apply in_map, Hap|]. unfold app_fault. apply first_some_some.
      exists (ep_fault g e). split; [apply in_or_app; left; apply in_map, sorted_by_In, He|]. unfold ep_fault. rewrite Hv.
      apply first_some_some. exists (stmt_fault g s). split; [apply in_map, Hs|]. apply stmt_fault_iff, Hr.
    + exists (app_fault g ap). split; [apply in_map, Hap|]. unfold app_fault. apply first_some_some.
      exists (view_fault g v). split; [apply in_or_app; right; apply in_map, sorted_by_In, Hv|]. apply view_fault_iff, Hn.
Qed.

(* Normalize gives no rows exactly when a statement of a visited endpoint (not "...", not a pubsub event) reaches a
   return payload the payload reader does not accept, or - for a parseFieldType that does not guard a nil type - the
   module has a view without a return type; otherwise it answers with rows *)
Theorem refused_iff cm am g m :
  (normalize cm am g m = Refused \/ normalize cm am g m = Crashed) <->
  (exists ap e s, In ap m /\ In e (ap_eps ap) /\ ep_visits_stmts e = true /\ In s (e_stmts e) /\ reaches_bad g s) \/
  (exists ap v, In ap m /\ In v (ap_views ap) /\ nil_view g v).
Proof.
  rewrite <- module_fault_iff. unfold normalize. destruct (module_fault g m) as [[|]|].
  - split; [discriminate|]. intros _. left; reflexivity.
  - split; [discriminate|]. intros _. right; reflexivity.
  - split; [intros [H|H]; discriminate|]. intros H. exfalso. apply H. reflexivity.
Qed.

Theorem normalize_total cm am g m :
  normalize cm am g m = Refused \/ normalize cm am g m = Crashed \/ exists rs, normalize cm am g m = Rows rs.
Proof. unfold normalize. destruct (module_fault g m) as [[|]|]; [left; reflexivity|right; left; reflexivity|right; right; eexists; reflexivity]. Qed.

(* never a crash: when the code checks for a name given two values, no payload text whatsoever ends Normalize in a panic;
   without the check one return statement does *)
Lemma stmt_fault_no_crash g st : g_dup g <> DupPanics -> stmt_fault g st <> Some FCrash.
Proof.
  intros Hg. induction st as [k t a|k t a body IH|a chs IH] using stmt_ind'; cbn [stmt_fault].
  - destruct k as [| |text|[|]|]; try discriminate. unfold payload_fault. destruct text; [discriminate|].
    pose proof (parse_never_crashes g (n :: text) Hg) as H. destruct (parse_payload g (n :: text)); congruence.
  - intros H. apply first_some_in, in_map_iff in H. destruct H as (c & Hc & Hin). rewrite Forall_forall in IH. exact (IH c Hin Hc).
  - intros H. apply first_some_in, in_map_iff in H. destruct H as (ch & Hc & Hin).
    apply first_some_in, in_map_iff in Hc. destruct Hc as (c & Hc & Hin2). rewrite Forall_forall in IH.
    specialize (IH ch Hin). cbn beta in IH. rewrite Forall_forall in IH. exact (IH c Hin2 Hc).
Qed.

Theorem normalize_never_crashes cm am g m : g_dup g <> DupPanics -> g_nil g = NilGuarded -> normalize cm am g m <> Crashed.
Proof.
  intros Hg Hn. unfold normalize. destruct (module_fault g m) as [[|]|] eqn:E; try discriminate. exfalso.
  unfold module_fault in E. apply first_some_in, in_map_iff in E. destruct E as (ap & E & _).
  unfold app_fault in E. apply first_some_in, in_app_or in E. destruct E as [E|E]; apply in_map_iff in E.
  - destruct E as (e & E & _).
    unfold ep_fault in E. destruct (ep_visits_stmts e); [|discriminate].
    apply first_some_in, in_map_iff in E. destruct E as (s & E & _). exact (stmt_fault_no_crash g s Hg E).
  - destruct E as (v & E & _). unfold view_fault in E. rewrite Hn in E. destruct (v_ret v); discriminate.
Qed.

Definition crash_module : module :=
  [{| ap_name := [8%positive]; ap_sname := [[65%N]]; ap_long := 9%positive; ap_doc := 9%positive; ap_attrs := StmtProps.no_attrs;
      ap_mixins := []; ap_types := []; ap_views := [];
      ap_eps := [{| e_name := 12%positive; e_long := 9%positive; e_doc := 9%positive; e_pubsub := false; e_source := None;
                    e_rest := None; e_params := []; e_attrs := StmtProps.no_attrs;
                    e_stmts := [SLeaf (LRet (bytes "ok <: T [k=""1"", k=""2""]")) 9%positive StmtProps.no_attrs] |}] |}].
Theorem normalize_never_crashes_refuted_for_unchecked_duplicates :
  exists m, normalize CopyParent CopyParent grammar_before m = Crashed.
Proof. exists crash_module. vm_compute. reflexivity. Qed.

(* ... and a module whose only content is a view without a return type (`!view v(p <: T): p -> (: ... )`, nothing
   declared, nothing inferred) crashes a parseFieldType that dereferences the nil type - whatever the payload reader does *)
Definition nil_view_module : module :=
  [{| ap_name := [8%positive]; ap_sname := [[65%N]]; ap_long := 9%positive; ap_doc := 9%positive; ap_attrs := StmtProps.no_attrs;
      ap_mixins := []; ap_types := []; ap_eps := [];
      ap_views := [{| v_name := 12%positive; v_ret := None; v_attrs := StmtProps.no_attrs; v_params := []; v_expr := 9%positive |}] |}].
Theorem normalize_never_crashes_refuted_for_nil_view_type :
  exists m, normalize CopyParent CopyParent
              {| g_prim_mode := PrimWord; g_prims := []; g_mods := ModsSorted; g_dup := DupRefused; g_nil := NilDeref |} m = Crashed /\
            exists rs, normalize CopyParent CopyParent
              {| g_prim_mode := PrimWord; g_prims := []; g_mods := ModsSorted; g_dup := DupRefused; g_nil := NilGuarded |} m = Rows rs /\
                       rel_count RView rs = 1.
Proof. exists nil_view_module. split; [vm_compute; reflexivity|eexists; split; vm_compute; reflexivity]. Qed.
