(* C17, determinism: the maps of the module (Endpoints, Types, Views, AttrDefs of a tuple / relation, the annotations
   of an attribute set) reach the model as lists in the order Go happened to iterate them. Since the code walks each
   of them through sortedKeys (modelled by sorted_by), Normalize is a FUNCTION of the module: two readings of the same
   maps give the same outcome - the same rows in the same order, not merely the same rows up to permutation.
   The hypothesis NoDup (map key l) is what "l lists a Go map" means. *)
From Coq Require Import List NArith ZArith PArith Bool Lia Permutation.
Import ListNotations.
Require Import Verif.Relmod.Model Verif.Relmod.SortProps.

Lemma existsb_perm {A} (f:A -> bool) l l' : Permutation l l' -> existsb f l = existsb f l'.
Proof.
  intros H. destruct (existsb f l) eqn:E1, (existsb f l') eqn:E2; try reflexivity.
  - apply existsb_exists in E1. destruct E1 as (x & Hx & Hf).
    assert (existsb f l' = true) by (apply existsb_exists; exists x; split; [eapply Permutation_in; eassumption|exact Hf]).
    congruence.
  - apply existsb_exists in E2. destruct E2 as (x & Hx & Hf).
    assert (existsb f l = true) by (apply existsb_exists; exists x; split; [eapply Permutation_in; [apply Permutation_sym|]; eassumption|exact Hf]).
    congruence.
Qed.

(* sorting two lists related elementwise by a relation that preserves keys keeps them related *)
Lemma insert_by_Forall2 {A} (k:A -> positive) (R:A -> A -> Prop) (HR : forall x y, R x y -> k x = k y) x y l l' :
  R x y -> Forall2 R l l' -> Forall2 R (insert_by k x l) (insert_by k y l').
Proof.
  intros Hxy. induction 1 as [|a b l l' Hab Hll IH]; cbn [insert_by]; [constructor; [exact Hxy|constructor]|].
  rewrite <- (HR _ _ Hxy), <- (HR _ _ Hab). destruct (Pos.leb (k x) (k a)).
  - constructor; [exact Hxy|]. constructor; assumption.
  - constructor; [exact Hab|exact IH].
Qed.

Lemma sorted_by_Forall2 {A} (k:A -> positive) (R:A -> A -> Prop) (HR : forall x y, R x y -> k x = k y) l l' :
  Forall2 R l l' -> Forall2 R (sorted_by k l) (sorted_by k l').
Proof.
  induction 1 as [|a b l l' Hab _ IH]; cbn [sorted_by]; [constructor|]. apply insert_by_Forall2; assumption.
Qed.

Lemma map_Forall2_eq {A B} (R:A -> A -> Prop) (f:A -> B) l l' :
  (forall x y, R x y -> f x = f y) -> Forall2 R l l' -> map f l = map f l'.
Proof. intros H. induction 1 as [|a b l l' Hab _ IH]; cbn [map]; [reflexivity|]. rewrite (H _ _ Hab), IH. reflexivity. Qed.

(* annotations of one attribute set *)
Theorem meta_order_independent o a keys p zs at_ at_' :
  a_tags at_ = a_tags at_' -> a_srcs at_ = a_srcs at_' ->
  NoDup (map an_name (a_annos at_)) -> Permutation (a_annos at_) (a_annos at_') ->
  meta o a keys p zs at_ = meta o a keys p zs at_'.
Proof.
  intros Ht Hs Hnd Hp. unfold meta. rewrite Ht, Hs.
  rewrite (sorted_by_perm_eq an_name (a_annos at_) (a_annos at_') Hnd Hp). reflexivity.
Qed.

(* two readings of the same Go maps *)
Inductive tdef_equiv : tdef -> tdef -> Prop :=
| TE_tuple fs fs' : NoDup (map f_name fs) -> Permutation fs fs' -> tdef_equiv (DTuple fs) (DTuple fs')
| TE_rel pk fs fs' : NoDup (map f_name fs) -> Permutation fs fs' -> tdef_equiv (DRelation pk fs) (DRelation pk fs')
| TE_same d : tdef_equiv d d.
Definition type_equiv (t t':typedecl) : Prop :=
  t_name t = t_name t' /\ t_doc t = t_doc t' /\ t_opt t = t_opt t' /\ t_attrs t = t_attrs t' /\ tdef_equiv (t_def t) (t_def t').
Definition app_equiv (ap ap':app) : Prop :=
  ap_name ap = ap_name ap' /\ ap_sname ap = ap_sname ap' /\ ap_long ap = ap_long ap' /\ ap_doc ap = ap_doc ap' /\ ap_attrs ap = ap_attrs ap' /\
  ap_mixins ap = ap_mixins ap' /\
  (NoDup (map e_name (ap_eps ap)) /\ Permutation (ap_eps ap) (ap_eps ap')) /\
  (NoDup (map t_name (ap_types ap)) /\ exists l, Permutation (ap_types ap) l /\ Forall2 type_equiv l (ap_types ap')) /\
  (NoDup (map v_name (ap_views ap)) /\ Permutation (ap_views ap) (ap_views ap')).

Lemma type_rows_equiv a t t' : type_equiv t t' -> type_rows a t = type_rows a t'.
Proof.
  destruct t as [n dc o d at_], t' as [n' dc' o' d' at_']. unfold type_equiv. cbn [t_name t_doc t_opt t_attrs t_def].
  intros (Hn & Hdc & Ho & Ha & Hd). subst n' dc' o' at_'. unfold type_rows. cbn [t_name t_doc t_opt t_attrs t_def].
  destruct Hd as [fs fs' Hnd Hp|pk fs fs' Hnd Hp|d]; [| |reflexivity];
    rewrite (sorted_by_perm_eq f_name fs fs' Hnd Hp); reflexivity.
Qed.

Lemma app_rows_equiv cm am g ap ap' : app_equiv ap ap' -> app_rows cm am g ap = app_rows cm am g ap'.
Proof.
  intros (Hn & Hsn & Hl & Hd & Ha & Hm & (Hne & He) & (Hnt & l & Hp & Hf) & (Hnv & Hv)). unfold app_rows.
  rewrite Hn, Hsn, Hl, Hd, Ha, Hm.
  rewrite (sorted_by_perm_eq e_name _ _ Hne He), (sorted_by_perm_eq v_name _ _ Hnv Hv), (sorted_by_perm_eq t_name _ _ Hnt Hp).
  assert (E : map (type_rows (ap_name ap')) (sorted_by t_name l) = map (type_rows (ap_name ap')) (sorted_by t_name (ap_types ap'))).
  { eapply map_Forall2_eq; [intros x y Hxy; apply type_rows_equiv, Hxy|].
    apply sorted_by_Forall2; [|exact Hf]. intros x y Hxy. apply Hxy. }
  rewrite E. reflexivity.
Qed.

Lemma module_fault_equiv g m m' : Forall2 app_equiv m m' -> module_fault g m = module_fault g m'.
Proof.
  unfold module_fault. intros H. f_equal. eapply map_Forall2_eq; [|exact H]. intros ap ap' Hap.
  destruct Hap as (_ & _ & _ & _ & _ & _ & (Hne & He) & _ & (Hnv & Hv)). unfold app_fault.
  rewrite (sorted_by_perm_eq e_name _ _ Hne He), (sorted_by_perm_eq v_name _ _ Hnv Hv). reflexivity.
Qed.

Theorem normalize_order_independent cm am g m m' :
  Forall2 app_equiv m m' -> normalize cm am g m = normalize cm am g m'.
Proof.
  intros H. unfold normalize. rewrite <- (module_fault_equiv _ _ _ H). destruct (module_fault g m) as [[|]|]; try reflexivity.
  f_equal. f_equal. eapply map_Forall2_eq; [|exact H]. intros x y Hxy. apply app_rows_equiv, Hxy.
Qed.

(* non-vacuity: two different iteration orders of one application *)
Definition ex_attrs : attrs := {| a_tags := [7%positive]; a_annos := []; a_srcs := [] |}.
Definition ex_f1 : field := {| f_name := 20%positive; f_ty := MPrim 30%positive; f_opt := false; f_constraints := []; f_attrs := ex_attrs |}.
Definition ex_f2 : field := {| f_name := 21%positive; f_ty := MPrim 31%positive; f_opt := true; f_constraints := []; f_attrs := ex_attrs |}.
Definition ex_t (fs:list field) : typedecl := {| t_name := 10%positive; t_doc := 9%positive; t_opt := false; t_def := DTuple fs; t_attrs := ex_attrs |}.
Definition ex_t2 : typedecl := {| t_name := 11%positive; t_doc := 9%positive; t_opt := false; t_def := DEnum [(40%positive, 1%Z)]; t_attrs := ex_attrs |}.
Definition ex_app (ts:list typedecl) : app :=
  {| ap_name := [8%positive]; ap_sname := [[65%N]]; ap_long := 9%positive; ap_doc := 9%positive; ap_attrs := ex_attrs; ap_mixins := []; ap_eps := [];
     ap_types := ts; ap_views := [] |}.
Example order_independent_nonvacuous :
  Forall2 app_equiv [ex_app [ex_t [ex_f1; ex_f2]; ex_t2]] [ex_app [ex_t2; ex_t [ex_f2; ex_f1]]] /\
  [ex_app [ex_t [ex_f1; ex_f2]; ex_t2]] <> [ex_app [ex_t2; ex_t [ex_f2; ex_f1]]].
Proof.
  split; [|discriminate].
  constructor; [|constructor]. unfold app_equiv. cbn [ex_app ap_name ap_sname ap_long ap_doc ap_attrs ap_mixins ap_eps ap_types ap_views map].
  repeat split; try reflexivity; try apply Permutation_refl; try constructor.
  - intros [H|[]]; discriminate.
  - constructor; [intros []|constructor].
  - exists [ex_t2; ex_t [ex_f1; ex_f2]]. split; [apply perm_swap|].
    constructor; [repeat split; constructor|]. constructor; [|constructor].
    repeat split. cbn. apply TE_tuple; [|apply perm_swap].
    cbn. constructor; [intros [H|[]]; discriminate|]. constructor; [intros []|constructor].
Qed.
