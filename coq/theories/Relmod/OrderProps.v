(* C17, determinism: the maps of the module (Endpoints, Types, Views, AttrDefs of a tuple / relation) reach the
   model as lists in the order Go happened to iterate them. Whatever that order is, Normalize refuses the same
   modules and otherwise yields the same rows up to row order (the relations are sets for the transform scripts). *)
From Coq Require Import List NArith ZArith PArith Bool Lia Permutation.
Import ListNotations.
Require Import Verif.Relmod.Model.

Lemma Permutation_concat_map2 {A B} (R:A -> A -> Prop) (f g:A -> list B) l l' :
  (forall x y, R x y -> Permutation (f x) (g y)) -> Forall2 R l l' ->
  Permutation (concat (map f l)) (concat (map g l')).
Proof.
  intros H. induction 1 as [|x y l l' Hxy _ IH]; [constructor|].
  cbn [map concat]. apply Permutation_app; [apply H, Hxy|exact IH].
Qed.

Lemma Permutation_concat_map {A B} (f:A -> list B) l l' :
  Permutation l l' -> Permutation (concat (map f l)) (concat (map f l')).
Proof.
  induction 1 as [|x l l' _ IH|x y l|l l' l'' _ IH1 _ IH2]; cbn [map concat].
  - constructor.
  - apply Permutation_app_head, IH.
  - rewrite !app_assoc. apply Permutation_app_tail, Permutation_app_comm.
  - eapply Permutation_trans; eassumption.
Qed.

Lemma existsb_perm {A} (f:A -> bool) l l' : Permutation l l' -> existsb f l = existsb f l'.
Proof.
  intros H. destruct (existsb f l) eqn:E1, (existsb f l') eqn:E2; try reflexivity.
  - apply existsb_exists in E1. destruct E1 as (x & Hx & Hf).
    assert (existsb f l' = true) by (apply existsb_exists; exists x; split; [eapply Permutation_in; eassumption|exact Hf]).
    congruence.
  - apply existsb_exists in E2. destruct E2 as (x & Hx & Hf).
    assert (existsb f l = true) by (apply existsb_exists; exists x; split; [eapply Permutation_in; [apply Permutation_sym|]; eassumption|exact Hf]).
    congruence.
Qed.

(* two readings of the same Go maps *)
Inductive tdef_equiv : tdef -> tdef -> Prop :=
| TE_tuple fs fs' : Permutation fs fs' -> tdef_equiv (DTuple fs) (DTuple fs')
| TE_rel pk fs fs' : Permutation fs fs' -> tdef_equiv (DRelation pk fs) (DRelation pk fs')
| TE_same d : tdef_equiv d d.
Definition type_equiv (t t':typedecl) : Prop :=
  t_name t = t_name t' /\ t_opt t = t_opt t' /\ t_attrs t = t_attrs t' /\ tdef_equiv (t_def t) (t_def t').
Definition app_equiv (ap ap':app) : Prop :=
  ap_name ap = ap_name ap' /\ ap_attrs ap = ap_attrs ap' /\ ap_mixins ap = ap_mixins ap' /\
  Permutation (ap_eps ap) (ap_eps ap') /\
  (exists l, Permutation (ap_types ap) l /\ Forall2 type_equiv l (ap_types ap')) /\
  Permutation (ap_views ap) (ap_views ap').

Lemma type_rows_equiv a t t' : type_equiv t t' -> Permutation (type_rows a t) (type_rows a t').
Proof.
  destruct t as [n o d at_], t' as [n' o' d' at_']. unfold type_equiv. cbn [t_name t_opt t_attrs t_def].
  intros (Hn & Ho & Ha & Hd). subst n' o' at_'. unfold type_rows. cbn [t_name t_opt t_attrs t_def].
  apply perm_skip, Permutation_app_tail. destruct Hd as [fs fs' Hp|pk fs fs' Hp|d].
  - apply Permutation_concat_map, Hp.
  - apply perm_skip, Permutation_concat_map, Hp.
  - apply Permutation_refl.
Qed.

Lemma app_rows_equiv cm am ap ap' : app_equiv ap ap' -> Permutation (app_rows cm am ap) (app_rows cm am ap').
Proof.
  intros (Hn & Ha & Hm & He & (l & Hp & Hf) & Hv). unfold app_rows. rewrite Hn, Ha, Hm.
  apply perm_skip, Permutation_app_head, Permutation_app_head.
  apply Permutation_app; [apply Permutation_concat_map, He|].
  apply Permutation_app; [|apply Permutation_concat_map, Hv].
  eapply Permutation_trans; [apply Permutation_concat_map, Hp|].
  eapply Permutation_concat_map2; [|exact Hf]. intros x y Hxy. apply type_rows_equiv, Hxy.
Qed.

Lemma module_bad_equiv m m' : Forall2 app_equiv m m' -> module_bad m = module_bad m'.
Proof.
  unfold module_bad. induction 1 as [|ap ap' m m' Hap _ IH]; [reflexivity|]. cbn [existsb]. rewrite IH. f_equal.
  destruct Hap as (_ & _ & _ & He & _). apply existsb_perm, He.
Qed.

Definition same_outcome (a b:outcome) : Prop :=
  match a, b with
  | Refused, Refused => True
  | Rows x, Rows y => Permutation x y
  | _, _ => False
  end.

Theorem normalize_order_independent cm am m m' :
  Forall2 app_equiv m m' -> same_outcome (normalize cm am m) (normalize cm am m').
Proof.
  intros H. unfold normalize. rewrite <- (module_bad_equiv _ _ H). destruct (module_bad m); [exact I|].
  cbn [same_outcome]. eapply Permutation_concat_map2; [|exact H]. intros x y Hxy. apply app_rows_equiv, Hxy.
Qed.

(* non-vacuity: two different iteration orders of one application *)
Definition ex_attrs : attrs := {| a_tags := [7%positive]; a_annos := [] |}.
Definition ex_f1 : field := {| f_name := 20%positive; f_ty := MPrim 30%positive; f_opt := false; f_constraints := []; f_attrs := ex_attrs |}.
Definition ex_f2 : field := {| f_name := 21%positive; f_ty := MPrim 31%positive; f_opt := true; f_constraints := []; f_attrs := ex_attrs |}.
Definition ex_t (fs:list field) : typedecl := {| t_name := 10%positive; t_opt := false; t_def := DTuple fs; t_attrs := ex_attrs |}.
Definition ex_t2 : typedecl := {| t_name := 11%positive; t_opt := false; t_def := DEnum [(40%positive, 1%Z)]; t_attrs := ex_attrs |}.
Definition ex_app (ts:list typedecl) : app :=
  {| ap_name := [8%positive]; ap_attrs := ex_attrs; ap_mixins := []; ap_eps := []; ap_types := ts; ap_views := [] |}.
Example order_independent_nonvacuous :
  Forall2 app_equiv [ex_app [ex_t [ex_f1; ex_f2]; ex_t2]] [ex_app [ex_t2; ex_t [ex_f2; ex_f1]]] /\
  normalize CopyParent CopyParent [ex_app [ex_t [ex_f1; ex_f2]; ex_t2]] <> normalize CopyParent CopyParent [ex_app [ex_t2; ex_t [ex_f2; ex_f1]]].
Proof.
  split; [|vm_compute; discriminate].
  constructor; [|constructor]. repeat split; try reflexivity; try apply Permutation_refl.
  exists [ex_t2; ex_t [ex_f1; ex_f2]]. split; [apply perm_swap|].
  constructor; [repeat split; constructor|]. constructor; [|constructor].
  repeat split. cbn. apply TE_tuple, perm_swap.
Qed.
