(* C17, statement rows: position paths built with value semantics (the code after the fix) are pairwise
   distinct and the Stmt relation is exactly the graph of "the statement at position p of the forest"
   (so the forest can be rebuilt from the rows); with append-into-shared-capacity (the code before the
   fix) this is false, with a computed witness. *)
From Coq Require Import List NArith ZArith PArith Bool Lia.
Import ListNotations.
Require Import Verif.Relmod.Model.

Definition item_path {P} (it:sitem P) : P :=
  match it with IRow p _ _ | ITag p _ | IAnno p _ _ | ISrcAnno p _ _ | ISrc p _ _ => p end.
Definition is_row {P} (it:sitem P) : bool := match it with IRow _ _ _ => true | _ => false end.
Definition row_paths (its:list (sitem (list N))) : list (list N) := map item_path (filter is_row its).

(* ---------- induction principle for the nested statement type ---------- *)
Section StmtInd.
  Variable P : stmt -> Prop.
  Hypothesis Hleaf : forall k t a, P (SLeaf k t a).
  Hypothesis Hblock : forall k t a body, Forall P body -> P (SBlock k t a body).
  Hypothesis Halt : forall a chs, Forall (fun ch : name * list stmt => Forall P (snd ch)) chs -> P (SAlt a chs).
  Fixpoint stmt_ind' (s:stmt) : P s :=
    match s with
    | SLeaf k t a => Hleaf k t a
    | SBlock k t a body =>
        Hblock k t a body ((fix go (l:list stmt) : Forall P l :=
                              match l with [] => Forall_nil _ | c :: l' => Forall_cons _ (stmt_ind' c) (go l') end) body)
    | SAlt a chs =>
        Halt a chs ((fix go (l:list (name * list stmt)) : Forall (fun ch => Forall P (snd ch)) l :=
                       match l with
                       | [] => Forall_nil _
                       | ch :: l' =>
                           Forall_cons _
                             ((fix go2 (b:list stmt) : Forall P b :=
                                 match b with [] => Forall_nil _ | c :: b' => Forall_cons _ (stmt_ind' c) (go2 b') end) (snd ch))
                             (go l')
                       end) chs)
    end.
End StmtInd.

(* ---------- indexed maps ---------- *)
Lemma In_concat_mapi {A B} (f:N -> A -> list B) l : forall i0 y,
  In y (concat (mapi_from f l i0)) <-> exists k x, nth_error l k = Some x /\ In y (f (i0 + N.of_nat k)%N x).
Proof.
  induction l as [|x l IH]; intros i0 y; cbn [mapi_from concat].
  - split; [intros []|intros (k & x & H & _); destruct k; discriminate].
  - rewrite in_app_iff, IH. split.
    + intros [H|(k & x' & Hn & Hin)].
      * exists 0%nat, x. cbn [nth_error N.of_nat]. rewrite N.add_0_r. auto.
      * exists (S k), x'. cbn [nth_error]. split; [exact Hn|].
        replace (i0 + N.of_nat (S k))%N with (N.succ i0 + N.of_nat k)%N by lia. exact Hin.
    + intros (k & x' & Hn & Hin). destruct k as [|k].
      * cbn [nth_error] in Hn. injection Hn as <-. cbn [N.of_nat] in Hin. rewrite N.add_0_r in Hin. left; exact Hin.
      * right. exists k, x'. split; [exact Hn|].
        replace (N.succ i0 + N.of_nat k)%N with (i0 + N.of_nat (S k))%N by lia. exact Hin.
Qed.

Lemma NoDup_app_intro {A} (l1 l2:list A) :
  NoDup l1 -> NoDup l2 -> (forall x, In x l1 -> In x l2 -> False) -> NoDup (l1 ++ l2).
Proof.
  induction l1 as [|a l1 IH]; intros H1 H2 Hd; cbn [List.app]; [exact H2|].
  inversion H1 as [|? ? Hn H1']; subst. constructor.
  - rewrite in_app_iff. intros [H|H]; [exact (Hn H)|exact (Hd a (or_introl eq_refl) H)].
  - apply IH; [exact H1'|exact H2|]. intros x Hx1 Hx2. exact (Hd x (or_intror Hx1) Hx2).
Qed.

Lemma NoDup_concat_mapi {A B} (f:N -> A -> list B) l : forall i0,
  (forall k x, nth_error l k = Some x -> NoDup (f (i0 + N.of_nat k)%N x)) ->
  (forall k1 k2 x1 x2 y, nth_error l k1 = Some x1 -> nth_error l k2 = Some x2 -> k1 <> k2 ->
     In y (f (i0 + N.of_nat k1)%N x1) -> In y (f (i0 + N.of_nat k2)%N x2) -> False) ->
  NoDup (concat (mapi_from f l i0)).
Proof.
  induction l as [|x l IH]; intros i0 Hnd Hdis; cbn [mapi_from concat]; [constructor|].
  apply NoDup_app_intro.
  - specialize (Hnd 0%nat x eq_refl). cbn [N.of_nat] in Hnd. rewrite N.add_0_r in Hnd. exact Hnd.
  - apply IH.
    + intros k x' Hn. specialize (Hnd (S k) x' Hn).
      replace (i0 + N.of_nat (S k))%N with (N.succ i0 + N.of_nat k)%N in Hnd by lia. exact Hnd.
    + intros k1 k2 x1 x2 y H1 H2 Hne Hi1 Hi2.
      apply (Hdis (S k1) (S k2) x1 x2 y H1 H2); [congruence| |].
      * replace (i0 + N.of_nat (S k1))%N with (N.succ i0 + N.of_nat k1)%N by lia. exact Hi1.
      * replace (i0 + N.of_nat (S k2))%N with (N.succ i0 + N.of_nat k2)%N by lia. exact Hi2.
  - intros y Hy1 Hy2. apply In_concat_mapi in Hy2. destruct Hy2 as (k & x' & Hn & Hin).
    apply (Hdis 0%nat (S k) x x' y eq_refl Hn); [discriminate| |].
    + cbn [N.of_nat]. rewrite N.add_0_r. exact Hy1.
    + replace (i0 + N.of_nat (S k))%N with (N.succ i0 + N.of_nat k)%N by lia. exact Hin.
Qed.

Lemma row_paths_app a b : row_paths (a ++ b) = row_paths a ++ row_paths b.
Proof. unfold row_paths. rewrite filter_app, map_app. reflexivity. Qed.

Lemma row_paths_concat_mapi {A} (f:N -> A -> list (sitem (list N))) l : forall i0,
  row_paths (concat (mapi_from f l i0)) = concat (mapi_from (fun i x => row_paths (f i x)) l i0).
Proof.
  induction l as [|x l IH]; intros i0; cbn [mapi_from concat]; [reflexivity|].
  rewrite row_paths_app, IH. reflexivity.
Qed.

(* what normalizeStatementMeta emits: no Stmt row, every item at the path it was given *)
Lemma smeta_items {P} (q:P) a it : In it (smeta q a) -> is_row it = false /\ item_path it = q.
Proof.
  unfold smeta. rewrite !in_app_iff, in_map_iff, in_concat. intros [(x & <- & _)|[(l & Hl & Hin)|Hin]].
  - split; reflexivity.
  - apply in_map_iff in Hl. destruct Hl as (an & <- & _). unfold sanno in Hin.
    destruct Hin as [<-|Hin]; [split; reflexivity|]. destruct (an_srcs an); [destruct Hin|].
    destruct Hin as [<-|[]]. split; reflexivity.
  - unfold ssrc in Hin. destruct (a_srcs a); [destruct Hin|]. destruct Hin as [<-|[]]. split; reflexivity.
Qed.

Lemma row_paths_smeta p a : row_paths (smeta p a) = [].
Proof.
  unfold row_paths. assert (H : filter is_row (smeta p a) = []); [|rewrite H; reflexivity].
  generalize (smeta_items p a). induction (smeta p a) as [|it l IH]; intros H; [reflexivity|].
  cbn [filter]. rewrite (proj1 (H it (or_introl eq_refl))). apply IH. intros x Hx. apply H. right; exact Hx.
Qed.

Lemma not_row_in_smeta {P} (q:P) a p c t : ~ In (IRow p c t) (smeta q a).
Proof. intros H. apply smeta_items in H. destruct H as [H _]. discriminate. Qed.

(* ---------- the statement at a position ---------- *)
Inductive node_at : stmt -> list N -> Z -> label -> Prop :=
| NA_leaf k t a : hidden k t = false -> node_at (SLeaf k t a) [] (leaf_code k t) (leaf_label k t)
| NA_block k t a body : node_at (SBlock k t a body) [] (block_code k) (t, None)
| NA_child k t a body i c r cd tx :
    nth_error body i = Some c -> node_at c r cd tx -> node_at (SBlock k t a body) (N.of_nat i :: r) cd tx
| NA_choice a chs i ch :
    nth_error chs i = Some ch -> node_at (SAlt a chs) [N.of_nat i] choice_code (fst ch, None)
| NA_choice_child a chs i ch j c r cd tx :
    nth_error chs i = Some ch -> nth_error (snd ch) j = Some c -> node_at c r cd tx ->
    node_at (SAlt a chs) (N.of_nat i :: N.of_nat j :: r) cd tx.

(* the statement at position p of an endpoint's statement list *)
Definition forest_at (l:list stmt) (p:list N) (cd:Z) (tx:label) : Prop :=
  exists i s r, p = N.of_nat i :: r /\ nth_error l i = Some s /\ node_at s r cd tx.

Lemma Forall_nth {A} (P:A -> Prop) l k x : Forall P l -> nth_error l k = Some x -> P x.
Proof. intros H Hn. rewrite Forall_forall in H. apply H. eapply nth_error_In, Hn. Qed.

(* every path produced below idx extends idx *)
Lemma path_items_prefix st : forall idx it, In it (path_items st idx) -> exists r, item_path it = idx ++ r.
Proof.
  induction st as [k t a|k t a body IH|a chs IH] using stmt_ind'; intros idx it Hin; cbn [path_items] in Hin.
  - destruct (hidden k t); [destruct Hin|]. destruct Hin as [<-|Hin]; [exists []; cbn; rewrite app_nil_r; reflexivity|].
    apply smeta_items in Hin. destruct Hin as [_ ->]. exists []. rewrite app_nil_r. reflexivity.
  - rewrite in_app_iff in Hin. destruct Hin as [Hin|Hin].
    + apply In_concat_mapi in Hin. destruct Hin as (i & c & Hn & Hin).
      destruct (Forall_nth _ _ _ _ IH Hn _ _ Hin) as (r & ->). rewrite <- app_assoc. eexists; reflexivity.
    + destruct Hin as [<-|Hin]; [exists []; cbn; rewrite app_nil_r; reflexivity|].
      apply smeta_items in Hin. destruct Hin as [_ ->]. exists []. rewrite app_nil_r. reflexivity.
  - rewrite in_app_iff in Hin. destruct Hin as [Hin|Hin].
    + apply In_concat_mapi in Hin. destruct Hin as (i & ch & Hn & Hin). rewrite in_app_iff in Hin.
      destruct Hin as [Hin|[<-|[]]].
      * apply In_concat_mapi in Hin. destruct Hin as (j & c & Hn2 & Hin).
        pose proof (Forall_nth _ _ _ _ IH Hn) as IHch. cbn beta in IHch.
        destruct (Forall_nth _ _ _ _ IHch Hn2 _ _ Hin) as (r & ->). rewrite <- !app_assoc. eexists; reflexivity.
      * cbn [item_path]. eexists; reflexivity.
    + assert (Hl : exists r, last_choice_path idx (length chs) = idx ++ r).
      { unfold last_choice_path. destruct (length chs); [exists []; rewrite app_nil_r; reflexivity|eexists; reflexivity]. }
      destruct Hl as (r & Hl). apply smeta_items in Hin. destruct Hin as [_ ->]. exists r. exact Hl.
Qed.

(* the Stmt rows below idx are exactly the visible statements of st, at their positions *)
Lemma path_items_rows st : forall idx p cd tx,
  In (IRow p cd tx) (path_items st idx) <-> exists r, p = idx ++ r /\ node_at st r cd tx.
Proof.
  induction st as [k t a|k t a body IH|a chs IH] using stmt_ind'; intros idx p cd tx; cbn [path_items].
  - destruct (hidden k t) eqn:Hh.
    + split; [intros []|]. intros (r & _ & Hn). inversion Hn; congruence.
    + split.
      * intros [H|H]; [|destruct (not_row_in_smeta _ _ _ _ _ H)]. injection H as <- <- <-.
        exists []. rewrite app_nil_r. split; [reflexivity|constructor; exact Hh].
      * intros (r & -> & Hn). inversion Hn; subst. rewrite app_nil_r. left; reflexivity.
  - rewrite in_app_iff, In_concat_mapi. split.
    + intros [(i & c & Hn & Hin)|[H|H]].
      * apply (Forall_nth _ _ _ _ IH Hn) in Hin. destruct Hin as (r & -> & Hna).
        exists (N.of_nat i :: r). rewrite <- app_assoc. split; [reflexivity|]. econstructor; eassumption.
      * injection H as <- <- <-. exists []. rewrite app_nil_r. split; [reflexivity|constructor].
      * destruct (not_row_in_smeta _ _ _ _ _ H).
    + intros (r & -> & Hn). inversion Hn; subst.
      * right; left. rewrite app_nil_r. reflexivity.
      * left. exists i, c. split; [assumption|]. apply (Forall_nth _ _ _ _ IH H6).
        exists r0. rewrite <- app_assoc. split; [reflexivity|assumption].
  - rewrite in_app_iff, In_concat_mapi. split.
    + intros [(i & ch & Hn & Hin)|H]; [|destruct (not_row_in_smeta _ _ _ _ _ H)].
      rewrite in_app_iff, In_concat_mapi in Hin. destruct Hin as [(j & c & Hn2 & Hin)|[H|[]]].
      * pose proof (Forall_nth _ _ _ _ IH Hn) as IHch. cbn beta in IHch.
        apply (Forall_nth _ _ _ _ IHch Hn2) in Hin. destruct Hin as (r & -> & Hna).
        exists (N.of_nat i :: N.of_nat j :: r). rewrite <- !app_assoc. split; [reflexivity|].
        econstructor; eassumption.
      * injection H as <- <- <-. exists [N.of_nat i]. split; [reflexivity|]. econstructor; eassumption.
    + intros (r & -> & Hn). inversion Hn; subst.
      * left. exists i, ch. split; [assumption|]. rewrite in_app_iff. right. left. reflexivity.
      * left. exists i, ch. split; [assumption|]. rewrite in_app_iff. left. apply In_concat_mapi.
        exists j, c. split; [assumption|].
        pose proof (Forall_nth _ _ _ _ IH H1) as IHch. cbn beta in IHch.
        apply (Forall_nth _ _ _ _ IHch H2). exists r0. rewrite <- !app_assoc. split; [reflexivity|assumption].
Qed.

Lemma in_row_paths its p : In p (row_paths its) -> exists it, In it its /\ item_path it = p.
Proof.
  unfold row_paths. rewrite in_map_iff. intros (it & <- & Hin). apply filter_In in Hin. exists it. tauto.
Qed.

Lemma of_nat_inj_neq i j : i <> j -> N.of_nat i <> N.of_nat j.
Proof. intros H E. apply H. apply Nat2N.inj, E. Qed.

(* the position paths of the Stmt rows of one statement are pairwise distinct *)
Lemma path_items_nodup st : forall idx, NoDup (row_paths (path_items st idx)).
Proof.
  induction st as [k t a|k t a body IH|a chs IH] using stmt_ind'; intros idx; cbn [path_items].
  - destruct (hidden k t); [constructor|]. unfold row_paths at 1. cbn [filter is_row map item_path].
    fold (row_paths (smeta idx a)). rewrite row_paths_smeta. constructor; [intros []|constructor].
  - rewrite row_paths_app, row_paths_concat_mapi. apply NoDup_app_intro.
    + apply NoDup_concat_mapi.
      * intros i c Hn. apply (Forall_nth _ _ _ _ IH Hn).
      * intros k1 k2 c1 c2 y Hn1 Hn2 Hne Hy1 Hy2.
        apply in_row_paths in Hy1, Hy2. destruct Hy1 as (it1 & Hi1 & <-), Hy2 as (it2 & Hi2 & E).
        apply path_items_prefix in Hi1, Hi2. destruct Hi1 as (r1 & E1), Hi2 as (r2 & E2).
        rewrite E2, E1, <- !app_assoc in E. apply app_inv_head in E. cbn in E. injection E as E _.
        rewrite ?N.add_0_l in E. exact (of_nat_inj_neq _ _ Hne (eq_sym E)).
    + unfold row_paths at 1. cbn [filter is_row map item_path]. fold (row_paths (smeta idx a)).
      rewrite row_paths_smeta. constructor; [intros []|constructor].
    + intros y Hy1 Hy2. unfold row_paths at 1 in Hy2. cbn [filter is_row map item_path] in Hy2.
      fold (row_paths (smeta idx a)) in Hy2. rewrite row_paths_smeta in Hy2. destruct Hy2 as [<-|[]].
      apply In_concat_mapi in Hy1. destruct Hy1 as (i & c & Hn & Hy1).
      apply in_row_paths in Hy1. destruct Hy1 as (it & Hi & E). apply path_items_prefix in Hi.
      destruct Hi as (r & E1). rewrite E1, <- app_assoc in E. rewrite <- (app_nil_r idx) in E at 2.
      apply app_inv_head in E. discriminate.
  - rewrite row_paths_app, row_paths_smeta, app_nil_r, row_paths_concat_mapi.
    assert (Hchoice : forall i (ch:name * list stmt), nth_error chs i = Some ch ->
              forall y, In y (row_paths (concat (mapi_from (fun j c => path_items c ((idx ++ [(0 + N.of_nat i)%N]) ++ [j])) (snd ch) 0%N)
                                           ++ [IRow (idx ++ [(0 + N.of_nat i)%N]) choice_code (fst ch, None)])) ->
              exists r, y = idx ++ N.of_nat i :: r).
    { intros i ch Hn y Hy. rewrite row_paths_app in Hy. apply in_app_iff in Hy. rewrite N.add_0_l in Hy. destruct Hy as [Hy|Hy].
      - apply in_row_paths in Hy. destruct Hy as (it & Hi & <-). apply In_concat_mapi in Hi.
        destruct Hi as (j & c & Hn2 & Hi). apply path_items_prefix in Hi. destruct Hi as (r & ->).
        rewrite <- !app_assoc. eexists; reflexivity.
      - cbn in Hy. destruct Hy as [<-|[]]. eexists; reflexivity. }
    apply NoDup_concat_mapi.
    + intros i ch Hn. rewrite row_paths_app. apply NoDup_app_intro.
      * rewrite row_paths_concat_mapi. apply NoDup_concat_mapi.
        -- intros j c Hn2. pose proof (Forall_nth _ _ _ _ IH Hn) as IHch. cbn beta in IHch.
           apply (Forall_nth _ _ _ _ IHch Hn2).
        -- intros k1 k2 c1 c2 y Hn1 Hn2 Hne Hy1 Hy2.
           apply in_row_paths in Hy1, Hy2. destruct Hy1 as (it1 & Hi1 & <-), Hy2 as (it2 & Hi2 & E).
           apply path_items_prefix in Hi1, Hi2. destruct Hi1 as (r1 & E1), Hi2 as (r2 & E2).
           rewrite E2, E1, <- !app_assoc in E. apply app_inv_head in E. cbn in E. injection E as E _.
           rewrite ?N.add_0_l in E. exact (of_nat_inj_neq _ _ Hne (eq_sym E)).
      * cbn. constructor; [intros []|constructor].
      * intros y Hy1 Hy2. cbn in Hy2. destruct Hy2 as [<-|[]].
        apply in_row_paths in Hy1. destruct Hy1 as (it & Hi & E). apply In_concat_mapi in Hi.
        destruct Hi as (j & c & Hn2 & Hi). apply path_items_prefix in Hi. destruct Hi as (r & E1).
        rewrite E1 in E. apply (f_equal (@length N)) in E. rewrite !app_length in E. cbn [length] in E. lia.
    + intros k1 k2 ch1 ch2 y Hn1 Hn2 Hne Hy1 Hy2.
      destruct (Hchoice _ _ Hn1 _ Hy1) as (r1 & E1). destruct (Hchoice _ _ Hn2 _ Hy2) as (r2 & E2).
      rewrite E1 in E2. apply app_inv_head in E2. injection E2 as E _. exact (of_nat_inj_neq _ _ Hne E).
Qed.

(* ---------- headline, for one endpoint's statement list ---------- *)
Theorem stmt_paths_unique (stmts:list stmt) : NoDup (row_paths (ep_items_pure stmts)).
Proof.
  unfold ep_items_pure. rewrite row_paths_concat_mapi. apply NoDup_concat_mapi.
  - intros i s _. apply path_items_nodup.
  - intros k1 k2 s1 s2 y _ _ Hne Hy1 Hy2.
    apply in_row_paths in Hy1, Hy2. destruct Hy1 as (it1 & Hi1 & <-), Hy2 as (it2 & Hi2 & E).
    apply path_items_prefix in Hi1, Hi2. destruct Hi1 as (r1 & E1), Hi2 as (r2 & E2).
    rewrite E2, E1 in E. cbn in E. injection E as E _. rewrite ?N.add_0_l in E.
    exact (of_nat_inj_neq _ _ Hne (eq_sym E)).
Qed.

Theorem stmt_rows_are_the_forest (stmts:list stmt) p cd tx :
  In (IRow p cd tx) (ep_items_pure stmts) <-> forest_at stmts p cd tx.
Proof.
  unfold ep_items_pure, forest_at. rewrite In_concat_mapi. split.
  - intros (i & s & Hn & Hin). apply path_items_rows in Hin. destruct Hin as (r & -> & Hna).
    exists i, s, r. rewrite N.add_0_l. auto.
  - intros (i & s & r & -> & Hn & Hna). exists i, s. split; [exact Hn|]. apply path_items_rows.
    exists r. rewrite N.add_0_l. auto.
Qed.

(* a row's position determines the row: two Stmt rows of one endpoint with the same path are the same row *)
Ltac inj_nat := repeat match goal with E : N.of_nat _ = N.of_nat _ |- _ => apply Nat2N.inj in E; subst end.
Ltac same_nth := repeat match goal with
  | A : nth_error ?l ?i = Some ?x, B : nth_error ?l ?i = Some ?y |- _ => rewrite A in B; inversion B; subst; clear B
  end.

Lemma node_at_fun st : forall r c1 t1 c2 t2, node_at st r c1 t1 -> node_at st r c2 t2 -> c1 = c2 /\ t1 = t2.
Proof.
  induction st as [k t a|k t a body IH|a chs IH] using stmt_ind'; intros r c1 t1 c2 t2 H1 H2.
  - inversion H1; inversion H2; subst; auto.
  - inversion H1; subst; inversion H2; subst; auto. inj_nat. same_nth.
    match goal with Hn : nth_error body _ = Some _ |- _ => eapply (Forall_nth _ _ _ _ IH Hn); eassumption end.
  - inversion H1; subst; inversion H2; subst; inj_nat; same_nth; auto.
    match goal with Hn : nth_error chs _ = Some _ |- _ => pose proof (Forall_nth _ _ _ _ IH Hn) as IHch end.
    cbn beta in IHch.
    match goal with Hn : nth_error (snd _) _ = Some _ |- _ => eapply (Forall_nth _ _ _ _ IHch Hn); eassumption end.
Qed.

Theorem forest_at_fun stmts p c1 t1 c2 t2 : forest_at stmts p c1 t1 -> forest_at stmts p c2 t2 -> c1 = c2 /\ t1 = t2.
Proof.
  intros (i & s & r & -> & Hn & H1) (i' & s' & r' & E & Hn' & H2). injection E as E <-.
  apply Nat2N.inj in E. subst i'. rewrite Hn in Hn'. injection Hn' as <-. eapply node_at_fun; eassumption.
Qed.

(* ---------- before the fix: append(parentIndex, i) into shared spare capacity ---------- *)
Definition no_attrs : attrs := {| a_tags := []; a_annos := []; a_srcs := [] |}.
Definition act (t:positive) : stmt := SLeaf LAction t no_attrs.
Definition cond (t:positive) (b:list stmt) : stmt := SBlock BCond t no_attrs b.
(* if a: if b: if c: [if d: x ; y1 ; y2]  (the probed input) *)
Definition witness_nested : list stmt :=
  [cond 10 [cond 11 [cond 12 [cond 13 [act 20]; act 21; act 22]]]]%positive.

Theorem shared_append_paths_collide :
  row_paths (ep_items ShareAppend ShareAppend witness_nested) =
    [[0;0;0;0;0]; [0;0;0;2]; [0;0;0;2]; [0;0;0;2]; [0;0;0]; [0;0]; [0]]%N.
Proof. vm_compute. reflexivity. Qed.

Theorem stmt_paths_unique_refuted_for_shared_append :
  exists stmts, ~ NoDup (row_paths (ep_items ShareAppend ShareAppend stmts)).
Proof.
  exists witness_nested. rewrite shared_append_paths_collide. intros H.
  inversion H as [|? ? _ H1]; subst. inversion H1 as [|? ? Hn _]; subst. apply Hn. left; reflexivity.
Qed.

(* the same input with fresh child paths *)
Example copy_parent_paths_distinct :
  row_paths (ep_items CopyParent CopyParent witness_nested) =
    [[0;0;0;0;0]; [0;0;0;0]; [0;0;0;1]; [0;0;0;2]; [0;0;0]; [0;0]; [0]]%N.
Proof. vm_compute. reflexivity. Qed.

(* alt choices collide in the same way (statement.StmtIndex = append(statement.StmtIndex, i)) *)
Definition witness_alt : list stmt :=
  [cond 10 [cond 11 [SAlt no_attrs [(30, [act 20]); (31, [act 21])]]]]%positive.
Example shared_alt_choice_paths_collide :
  row_paths (ep_items ShareAppend ShareAppend witness_alt) =
    [[0;0;0;0;0]; [0;0;0;1]; [0;0;0;1;0]; [0;0;0;1]; [0;0]; [0]]%N.
Proof. vm_compute. reflexivity. Qed.
