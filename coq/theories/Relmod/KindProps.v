(* C17, what the relational model does NOT carry of types, constraints and views - stated on the module, for every
   module - and what it does carry of a field's constraints.

   normalizeType has arms for Tuple, Relation, Primitive / Sequence / Set / TypeRef (an Alias row) and Enum; a map, a
   one-of (`!union`), a list, a no-type or a type without a kind leaves a Type row only. parseFieldType answers nil for
   enum / relation / map / one-of / unset kinds in a field, parameter, alias or view position and looks through a list.
   normalizeField folds the constraint list into one (Length of the last constraint that has one, Precision and Scale of
   the LAST constraint) and never looks at Range, BitWidth, Resolution. normalizeView looks at the return type only.

   `erase` rewrites a module into the canonical form of what survives: every type in canonical spelling (`canon_ty` =
   unparse of parse_field_type: references resolved, lists looked through, the nil kinds collapsed into MUnset), every
   constraint list replaced by its fold, the row-less type kinds collapsed into DUnset, view parameters and
   expressions removed.
     rows_blind_to_erasure : normalize (erase m) = normalize m                      (every module)
     erase_idempotent      : erase (erase m) = erase m
   so the rows are a function of `erase m` - and the concrete pairs below (compiled shapes: int32 vs int64, two unions,
   two views) show modules that differ and have the same rows: the "same constraints" / "same kinds" reading of the
   property is REFUTED for bit widths, ranges, union members, map / one-of fields and view signatures, and holds
   (constraint_fold_spec, single_constraint_exact) for length, precision and scale. *)
From Coq Require Import List NArith ZArith PArith Bool Lia.
Import ListNotations.
Require Import Verif.Relmod.Model Verif.Relmod.SortProps.

(* ---------- the constraint fold, declaratively ---------- *)
Definition has_len (c:constr) : bool := match c_len c with Some _ => true | None => false end.
(* the length of the last constraint that has one; precision and scale of the last constraint *)
Definition last_len (cs:list constr) : Z * Z :=
  match find has_len (rev cs) with
  | Some c => match c_len c with Some p => p | None => (0, 0)%Z end
  | None => (0, 0)%Z
  end.
Definition last_prec_scale (cs:list constr) : Z * Z :=
  match rev cs with c :: _ => (c_prec c, c_scale c) | [] => (0, 0)%Z end.

Definition fold_step (acc:Z*Z*Z*Z) (c:constr) : Z*Z*Z*Z :=
  let '(lmin, lmax, _, _) := acc in
  match c_len c with
  | Some (mn, mx) => (mn, mx, c_prec c, c_scale c)
  | None => (lmin, lmax, c_prec c, c_scale c)
  end.
Lemma field_constraint_unfold cs :
  field_constraint cs = let '(lmin, lmax, pr, sc) := fold_left fold_step cs (0, 0, 0, 0)%Z in [lmin; lmax; pr; sc].
Proof. reflexivity. Qed.

Lemma fold_step_snoc cs c acc : fold_left fold_step (cs ++ [c]) acc = fold_step (fold_left fold_step cs acc) c.
Proof. rewrite fold_left_app. reflexivity. Qed.

Theorem constraint_fold_spec cs :
  field_constraint cs = [fst (last_len cs); snd (last_len cs); fst (last_prec_scale cs); snd (last_prec_scale cs)].
Proof.
  rewrite field_constraint_unfold.
  assert (H : fold_left fold_step cs (0, 0, 0, 0)%Z =
              (fst (last_len cs), snd (last_len cs), fst (last_prec_scale cs), snd (last_prec_scale cs))).
  { induction cs as [|c cs IH] using rev_ind; [reflexivity|].
    rewrite fold_step_snoc, IH. unfold last_len, last_prec_scale. rewrite rev_app_distr. cbn [rev List.app find fst snd].
    unfold fold_step, has_len. destruct (c_len c) as [[mn mx]|] eqn:E; cbn beta iota; rewrite ?E; reflexivity. }
  rewrite H. reflexivity.
Qed.

(* a field with ONE constraint (what the compiler writes for `string(5)`, `string(2..5)`, `decimal(10.2)`): its
   length, precision and scale are the row's numbers *)
Theorem single_constraint_exact c :
  field_constraint [c] =
  [match c_len c with Some (mn, _) => mn | None => 0%Z end; match c_len c with Some (_, mx) => mx | None => 0%Z end;
   c_prec c; c_scale c].
Proof. unfold field_constraint. cbn [fold_left]. destruct (c_len c) as [[mn mx]|]; reflexivity. Qed.

(* several constraints (loaded models only): the last one's precision and scale win even when they are unset *)
Example later_constraint_resets_precision :
  field_constraint [{| c_len := None; c_prec := 10; c_scale := 2; c_range := None; c_bits := 0; c_res := None |};
                    {| c_len := Some (0, 5)%Z; c_prec := 0; c_scale := 0; c_range := None; c_bits := 0; c_res := None |}]
  = [0; 5; 0; 0]%Z.
Proof. reflexivity. Qed.

(* ---------- canonical spelling of what parseFieldType keeps ---------- *)
Fixpoint unparse (t:ty) : mtype :=
  match t with
  | TyNil => MUnset
  | TyPrim p => MPrim p
  | TyTuple => MTuple
  | TyRef a p => MRef (Some a) None p
  | TySet t' => MSet (unparse t')
  | TySeq t' => MSeq (unparse t')
  end.
Definition canon_ty (a:appname) (t:mtype) : mtype := unparse (parse_field_type a t).

Lemma parse_unparse a t : parse_field_type a (unparse t) = t.
Proof. induction t; cbn [unparse parse_field_type]; congruence. Qed.
Lemma parse_canon a t : parse_field_type a (canon_ty a t) = parse_field_type a t.
Proof. apply parse_unparse. Qed.
Lemma canon_canon a t : canon_ty a (canon_ty a t) = canon_ty a t.
Proof. unfold canon_ty. rewrite parse_unparse. reflexivity. Qed.

Definition no_extra (c:constr) : bool :=
  match c_range c, c_res c with None, None => Z.eqb (c_bits c) 0 | _, _ => false end.
Definition canon_constrs (cs:list constr) : list constr :=
  match field_constraint cs with
  | [mn; mx; p; s] =>
      if (Z.eqb mn 0 && Z.eqb mx 0 && Z.eqb p 0 && Z.eqb s 0)%bool then []
      else [{| c_len := Some (mn, mx); c_prec := p; c_scale := s; c_range := None; c_bits := 0; c_res := None |}]
  | _ => []
  end.
Lemma field_constraint_canon cs : field_constraint (canon_constrs cs) = field_constraint cs.
Proof.
  unfold canon_constrs. rewrite (constraint_fold_spec cs).
  destruct (last_len cs) as [mn mx], (last_prec_scale cs) as [p s]. cbn [fst snd].
  destruct (Z.eqb_spec mn 0), (Z.eqb_spec mx 0), (Z.eqb_spec p 0), (Z.eqb_spec s 0); subst; reflexivity.
Qed.
Lemma canon_constrs_idem cs : canon_constrs (canon_constrs cs) = canon_constrs cs.
Proof. unfold canon_constrs at 1. rewrite field_constraint_canon. reflexivity. Qed.

(* ---------- erase ---------- *)
Definition erase_param (a:appname) (p:param) : param :=
  {| p_name := p_name p;
     p_type := match p_type p with
               | Some pt => Some {| pt_ty := canon_ty a (pt_ty pt); pt_opt := pt_opt pt; pt_attrs := pt_attrs pt |}
               | None => None
               end |}.
Definition erase_ep (a:appname) (e:endpoint) : endpoint :=
  {| e_name := e_name e; e_long := e_long e; e_doc := e_doc e; e_pubsub := e_pubsub e; e_source := e_source e;
     e_rest := match e_rest e with
               | Some (m, pa, url, query) => Some (m, pa, map (erase_param a) url, map (erase_param a) query)
               | None => None
               end;
     e_params := map (erase_param a) (e_params e); e_attrs := e_attrs e; e_stmts := e_stmts e |}.
Definition erase_field (a:appname) (f:field) : field :=
  {| f_name := f_name f; f_ty := canon_ty a (f_ty f); f_opt := f_opt f; f_constraints := canon_constrs (f_constraints f);
     f_attrs := f_attrs f |}.
Definition erase_def (a:appname) (d:tdef) : tdef :=
  match d with
  | DTuple fs => DTuple (map (erase_field a) fs)
  | DRelation pk fs => DRelation pk (map (erase_field a) fs)
  | DAlias t => DAlias (canon_ty a t)
  | DEnum items => DEnum items
  | DMap _ _ | DOneOf _ | DNoType | DList _ | DUnset => DUnset
  end.
Definition erase_type (a:appname) (t:typedecl) : typedecl :=
  {| t_name := t_name t; t_doc := t_doc t; t_opt := t_opt t; t_def := erase_def a (t_def t); t_attrs := t_attrs t |}.
Definition erase_view (a:appname) (v:view) : view :=
  {| v_name := v_name v; v_ret := option_map (canon_ty a) (v_ret v); v_attrs := v_attrs v; v_params := []; v_expr := n_empty |}.
Definition erase_app (ap:app) : app :=
  let a := ap_name ap in
  {| ap_name := a; ap_sname := ap_sname ap; ap_long := ap_long ap; ap_doc := ap_doc ap; ap_attrs := ap_attrs ap;
     ap_mixins := ap_mixins ap; ap_eps := map (erase_ep a) (ap_eps ap); ap_types := map (erase_type a) (ap_types ap);
     ap_views := map (erase_view a) (ap_views ap) |}.
Definition erase (m:module) : module := map erase_app m.

(* ---------- sorting commutes with a key-preserving map ---------- *)
Lemma insert_by_map {A} (k:A -> positive) (f:A -> A) (Hk : forall x, k (f x) = k x) x l :
  insert_by k (f x) (map f l) = map f (insert_by k x l).
Proof.
  induction l as [|y l IH]; cbn [insert_by map]; [reflexivity|]. rewrite !Hk.
  destruct (Pos.leb (k x) (k y)); cbn [map]; [reflexivity|]. rewrite IH. reflexivity.
Qed.
Lemma sorted_by_map {A} (k:A -> positive) (f:A -> A) (Hk : forall x, k (f x) = k x) l :
  sorted_by k (map f l) = map f (sorted_by k l).
Proof. induction l as [|x l IH]; cbn [sorted_by map]; [reflexivity|]. rewrite IH. apply insert_by_map, Hk. Qed.

Lemma map_map_ext {A B} (f:A -> A) (g h:A -> B) l : (forall x, g (f x) = h x) -> map g (map f l) = map h l.
Proof. intros H. rewrite map_map. apply map_ext, H. Qed.

(* ---------- the rows do not see what erase removes ---------- *)
Lemma param_loc_erase a loc p : param_loc loc (erase_param a p) = param_loc loc p.
Proof. unfold param_loc, erase_param. cbn [p_type]. destruct (p_type p) as [pt|]; reflexivity. Qed.

Lemma param_rows_erase a ep loc i p : param_rows a ep loc i (erase_param a p) = param_rows a ep loc i p.
Proof.
  unfold param_rows. rewrite param_loc_erase. unfold erase_param. cbn [p_type p_name].
  destruct (p_type p) as [pt|]; [|reflexivity]. cbn [pt_attrs pt_opt pt_ty]. rewrite parse_canon. reflexivity.
Qed.

Lemma mapi_from_map {A B C} (f:N -> B -> C) (g:A -> B) l : forall i, mapi_from f (map g l) i = mapi_from (fun i x => f i (g x)) l i.
Proof. induction l as [|x l IH]; intros i; cbn [mapi_from map]; [reflexivity|]. rewrite IH. reflexivity. Qed.
Lemma mapi_from_ext {A B} (f g:N -> A -> B) l : (forall i x, f i x = g i x) -> forall i, mapi_from f l i = mapi_from g l i.
Proof. intros H. induction l as [|x l IH]; intros i; cbn [mapi_from]; [reflexivity|]. rewrite H, IH. reflexivity. Qed.

Lemma params_rows_erase a ep loc ps : params_rows a ep loc (map (erase_param a) ps) = params_rows a ep loc ps.
Proof.
  unfold params_rows. rewrite mapi_from_map. f_equal. apply mapi_from_ext. intros i x. apply param_rows_erase.
Qed.

Lemma ep_rows_erase cm am g a sa e : ep_rows cm am g a sa (erase_ep a e) = ep_rows cm am g a sa e.
Proof.
  unfold ep_rows, ep_skipped, erase_ep. cbn [e_name e_pubsub e_params e_attrs e_long e_doc e_source e_stmts e_rest].
  rewrite params_rows_erase.
  destruct (e_rest e) as [[[[m pa] url] query]|]; [|reflexivity]. rewrite !params_rows_erase. reflexivity.
Qed.

Lemma field_rows_erase a tn f : field_rows a tn (erase_field a f) = field_rows a tn f.
Proof.
  unfold field_rows, erase_field. cbn [f_name f_opt f_constraints f_ty f_attrs].
  rewrite field_constraint_canon, parse_canon. reflexivity.
Qed.

Lemma fields_rows_erase a tn fs :
  concat (map (field_rows a tn) (sorted_by f_name (map (erase_field a) fs))) = concat (map (field_rows a tn) (sorted_by f_name fs)).
Proof.
  rewrite (sorted_by_map f_name (erase_field a)) by reflexivity. f_equal. apply map_map_ext. apply field_rows_erase.
Qed.

Lemma type_rows_erase a t : type_rows a (erase_type a t) = type_rows a t.
Proof.
  unfold type_rows, erase_type. cbn [t_name t_doc t_opt t_def t_attrs].
  destruct (t_def t) as [fs|pk fs|mt|items|mk_ mv_|ts| |lt|]; cbn [erase_def]; try reflexivity.
  - rewrite fields_rows_erase. reflexivity.
  - rewrite fields_rows_erase. reflexivity.
  - rewrite parse_canon. reflexivity.
Qed.

Lemma view_rows_erase a v : view_rows a (erase_view a v) = view_rows a v.
Proof.
  unfold view_rows, view_ty, erase_view. cbn [v_name v_ret v_attrs]. destruct (v_ret v); cbn [option_map]; [rewrite parse_canon|]; reflexivity.
Qed.

Lemma app_rows_erase cm am g ap : app_rows cm am g (erase_app ap) = app_rows cm am g ap.
Proof.
  unfold app_rows, erase_app. cbn [ap_name ap_sname ap_long ap_doc ap_attrs ap_mixins ap_eps ap_types ap_views].
  rewrite (sorted_by_map e_name (erase_ep (ap_name ap))) by reflexivity.
  rewrite (sorted_by_map t_name (erase_type (ap_name ap))) by reflexivity.
  rewrite (sorted_by_map v_name (erase_view (ap_name ap))) by reflexivity.
  rewrite (map_map_ext (erase_ep (ap_name ap)) _ (ep_rows cm am g (ap_name ap) (ap_sname ap))) by (intros; apply ep_rows_erase).
  rewrite (map_map_ext (erase_type (ap_name ap)) _ (type_rows (ap_name ap))) by (intros; apply type_rows_erase).
  rewrite (map_map_ext (erase_view (ap_name ap)) _ (view_rows (ap_name ap))) by (intros; apply view_rows_erase).
  reflexivity.
Qed.

Lemma app_fault_erase g ap : app_fault g (erase_app ap) = app_fault g ap.
Proof.
  unfold app_fault, erase_app. cbn [ap_eps ap_views].
  rewrite (sorted_by_map e_name (erase_ep (ap_name ap))) by reflexivity.
  rewrite (sorted_by_map v_name (erase_view (ap_name ap))) by reflexivity. f_equal. f_equal.
  - apply map_map_ext. intros e. reflexivity.
  - apply map_map_ext. intros v. unfold view_fault, erase_view. cbn [v_ret]. destruct (v_ret v); reflexivity.
Qed.

Theorem rows_blind_to_erasure cm am g m : normalize cm am g (erase m) = normalize cm am g m.
Proof.
  unfold normalize, module_fault, erase.
  rewrite (map_map_ext erase_app (app_fault g) (app_fault g)) by (intros; apply app_fault_erase).
  rewrite (map_map_ext erase_app (app_rows cm am g) (app_rows cm am g)) by (intros; apply app_rows_erase).
  reflexivity.
Qed.

(* erase reaches a fixed point at once: the canonical form is canonical *)
Lemma erase_param_idem a p : erase_param a (erase_param a p) = erase_param a p.
Proof. unfold erase_param. cbn [p_type p_name]. destruct (p_type p) as [pt|]; [|reflexivity]. cbn [pt_ty pt_opt pt_attrs]. rewrite canon_canon. reflexivity. Qed.
Lemma map_idem {A} (f:A -> A) l : (forall x, f (f x) = f x) -> map f (map f l) = map f l.
Proof. intros H. rewrite map_map. apply map_ext, H. Qed.
Lemma erase_ep_idem a e : erase_ep a (erase_ep a e) = erase_ep a e.
Proof.
  unfold erase_ep. cbn [e_name e_long e_doc e_pubsub e_source e_rest e_params e_attrs e_stmts].
  rewrite (map_idem _ _ (erase_param_idem a)).
  destruct (e_rest e) as [[[[m pa] url] query]|]; [|reflexivity]. rewrite !(map_idem _ _ (erase_param_idem a)). reflexivity.
Qed.
Lemma erase_field_idem a f : erase_field a (erase_field a f) = erase_field a f.
Proof. unfold erase_field. cbn [f_name f_ty f_opt f_constraints f_attrs]. rewrite canon_canon, canon_constrs_idem. reflexivity. Qed.
Lemma erase_type_idem a t : erase_type a (erase_type a t) = erase_type a t.
Proof.
  unfold erase_type. cbn [t_name t_doc t_opt t_def t_attrs]. f_equal.
  destruct (t_def t); cbn [erase_def]; try reflexivity.
  - rewrite (map_idem _ _ (erase_field_idem a)). reflexivity.
  - rewrite (map_idem _ _ (erase_field_idem a)). reflexivity.
  - rewrite canon_canon. reflexivity.
Qed.
Lemma erase_view_idem a v : erase_view a (erase_view a v) = erase_view a v.
Proof. unfold erase_view. cbn [v_name v_ret v_attrs]. destruct (v_ret v); cbn [option_map]; [rewrite canon_canon|]; reflexivity. Qed.
Theorem erase_idempotent m : erase (erase m) = erase m.
Proof.
  unfold erase. apply map_idem. intros ap. unfold erase_app. cbn [ap_name ap_sname ap_long ap_doc ap_attrs ap_mixins ap_eps ap_types ap_views].
  rewrite (map_idem _ _ (erase_ep_idem _)), (map_idem _ _ (erase_type_idem _)), (map_idem _ _ (erase_view_idem _)). reflexivity.
Qed.

(* ---------- what is lost, as pairs of compiled-shape modules with the same rows ---------- *)
Definition kx_attrs : attrs := {| a_tags := []; a_annos := []; a_srcs := [] |}.
Definition kx_g : grammar := {| g_prim_mode := PrimWord; g_prims := []; g_mods := ModsSorted; g_dup := DupRefused; g_nil := NilGuarded |}.
Definition kx_app (types:list typedecl) (views:list view) : module :=
  [{| ap_name := [8%positive]; ap_sname := []; ap_long := n_empty; ap_doc := n_empty; ap_attrs := kx_attrs; ap_mixins := [];
      ap_eps := []; ap_types := types; ap_views := views |}].
Definition kx_type (n:positive) (d:tdef) : typedecl := {| t_name := n; t_doc := n_empty; t_opt := false; t_def := d; t_attrs := kx_attrs |}.
(* what the parser writes for a field `x <: int32` / `x <: int64`: primitive INT, one constraint with the bit width
   and the range of the machine type *)
Definition kx_int (bits:Z) (lo hi:Z) : field :=
  {| f_name := 20%positive; f_ty := MPrim 30%positive; f_opt := false;
     f_constraints := [{| c_len := None; c_prec := 0; c_scale := 0; c_range := Some (Some (CVInt lo), Some (CVInt hi)); c_bits := bits; c_res := None |}];
     f_attrs := kx_attrs |}.
Definition kx_int32 := kx_int 32 (-2147483648) 2147483647.
Definition kx_int64 := kx_int 64 (-9223372036854775808) 9223372036854775807.
Definition kx_plain_int : field :=
  {| f_name := 20%positive; f_ty := MPrim 30%positive; f_opt := false; f_constraints := []; f_attrs := kx_attrs |}.
Definition kx_norm := normalize CopyParent CopyParent kx_g.

(* `x <: int32`, `x <: int64` and `x <: int` give the same Field row: bit width and range do not reach the rows *)
Theorem field_bit_width_and_range_dropped :
  kx_norm (kx_app [kx_type 10 (DTuple [kx_int32])] []) = kx_norm (kx_app [kx_type 10 (DTuple [kx_int64])] []) /\
  kx_norm (kx_app [kx_type 10 (DTuple [kx_int32])] []) = kx_norm (kx_app [kx_type 10 (DTuple [kx_plain_int])] []) /\
  kx_app [kx_type 10 (DTuple [kx_int32])] [] <> kx_app [kx_type 10 (DTuple [kx_int64])] [] /\
  (exists rs, kx_norm (kx_app [kx_type 10 (DTuple [kx_int32])] []) = Rows rs /\ rs <> []).
Proof.
  split; [vm_compute; reflexivity|]. split; [vm_compute; reflexivity|]. split; [vm_compute; discriminate|].
  eexists; split; [vm_compute; reflexivity|discriminate].
Qed.

(* `!union U: A, B` and `!union U: C` (and a map, a no-type, a type without a kind): a Type row and nothing else *)
Theorem union_members_dropped :
  let u1 := DOneOf [MRef None None [40%positive]; MRef None None [41%positive]] in
  let u2 := DOneOf [MPrim 30%positive] in
  kx_norm (kx_app [kx_type 10 u1] []) = kx_norm (kx_app [kx_type 10 u2] []) /\
  kx_norm (kx_app [kx_type 10 u1] []) = kx_norm (kx_app [kx_type 10 (DMap (MPrim 30%positive) (MPrim 31%positive))] []) /\
  kx_norm (kx_app [kx_type 10 u1] []) = kx_norm (kx_app [kx_type 10 (DTuple [])] []) /\
  kx_app [kx_type 10 u1] [] <> kx_app [kx_type 10 u2] [].
Proof. cbv zeta. repeat split; try (vm_compute; reflexivity). vm_compute; discriminate. Qed.

(* a field whose type is a map, a one-of, an enum or a relation has FieldType nil, like a field without a type *)
Theorem nil_kinds_in_field_position_collapse a :
  forall t, In t [MEnumT; MRelationT; MMap (MPrim 30%positive) (MPrim 31%positive); MOneOf [MPrim 30%positive]; MNoType; MUnset] ->
  parse_field_type a t = TyNil.
Proof. intros t H. cbn [In] in H. repeat (destruct H as [<-|H]; [reflexivity|]). destruct H. Qed.

(* a view's parameters and expression do not reach the rows *)
Theorem view_signature_dropped :
  let v1 := {| v_name := 50%positive; v_ret := Some (MPrim 30%positive); v_attrs := kx_attrs;
               v_params := [{| p_name := 51%positive; p_type := Some {| pt_ty := MPrim 30%positive; pt_opt := false; pt_attrs := kx_attrs |} |}];
               v_expr := 60%positive |} in
  let v2 := {| v_name := 50%positive; v_ret := Some (MPrim 30%positive); v_attrs := kx_attrs; v_params := []; v_expr := 61%positive |} in
  kx_norm (kx_app [] [v1]) = kx_norm (kx_app [] [v2]) /\ kx_app [] [v1] <> kx_app [] [v2].
Proof. cbv zeta. split; [vm_compute; reflexivity|vm_compute; discriminate]. Qed.

(* non-vacuity of rows_blind_to_erasure: erase changes this module *)
Example erase_changes_something :
  erase (kx_app [kx_type 10 (DTuple [kx_int32])] []) <> kx_app [kx_type 10 (DTuple [kx_int32])] [] /\
  erase (kx_app [kx_type 10 (DTuple [kx_int32])] []) = kx_app [kx_type 10 (DTuple [kx_plain_int])] [].
Proof. split; [vm_compute; discriminate|vm_compute; reflexivity]. Qed.
