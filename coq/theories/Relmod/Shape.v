(* C17: the shape table regenerated from pkg/arrai/relmod/normalize.go (Gen/RelmodShape.v) meets the model.
   The `reflexivity` lemmas are the proof obligations against the CURRENT source: they stop checking when a
   child's position path is again built by appending into the parent's slice, when a statement kind stops
   handing its nested statements to normalizeChildren (e.g. the "skip rows under for each" change), or when
   normalizeApp / normalizeEndpoint / normalizeEvent drop or add a normalize* call. *)
From Coq Require Import String List Bool NArith.
Import ListNotations.
Require Import Verif.Relmod.Model Verif.Relmod.StmtProps Verif.Relmod.Run Verif.Relmod.CensusProps Verif.Relmod.Rebuild Verif.Gen.RelmodShape.
Local Open Scope string_scope.
Local Open Scope list_scope.

Lemma child_paths_are_fresh : child_index_mode = CopyParent.
Proof. reflexivity. Qed.

Lemma alt_paths_are_fresh : alt_index_mode = CopyParent.
Proof. reflexivity. Qed.

(* every block kind of the model's SBlock recurses into its body, as path_items does *)
Lemma all_block_kinds_visited : children_visited = [BCond; BLoop; BLoopN; BForeach; BGroup].
Proof. reflexivity. Qed.

Lemma alt_shape : (alt_visits_choice_children && alt_appends_choice_row) = true.
Proof. reflexivity. Qed.

Lemma statement_tail_shape : (statement_appends_row && statement_calls_meta) = true.
Proof. reflexivity. Qed.

(* the order of app_rows / ep_rows in Model.v *)
Lemma app_calls_shape :
  app_calls = ["normalizeAppMeta"; "normalizeMixin"; "normalizeEndpoint"; "normalizeType"; "normalizeView"].
Proof. reflexivity. Qed.

Lemma endpoint_calls_shape :
  endpoint_calls = ["normalizeEvent"; "normalizeEndpointMeta"; "normalizeParam"; "normalizeParam"; "normalizeParam";
                    "normalizeStatement"].
Proof. reflexivity. Qed.

Lemma event_calls_shape : event_calls = ["normalizeParam"; "normalizeEventMeta"].
Proof. reflexivity. Qed.

(* every `range` of normalize.go goes over a slice or over sortedKeys(map): Model.v's sorted_by walks *)
Lemma every_map_walk_is_sorted : unsorted_map_ranges = [].
Proof. reflexivity. Qed.

(* the statement rows of the CURRENT source: the value-semantics construction *)
Lemma current_ep_items stmts : ep_items child_index_mode alt_index_mode stmts = ep_items_pure stmts.
Proof. rewrite child_paths_are_fresh, alt_paths_are_fresh. reflexivity. Qed.

Theorem current_stmt_paths_unique stmts : NoDup (row_paths (ep_items child_index_mode alt_index_mode stmts)).
Proof. rewrite current_ep_items. apply stmt_paths_unique. Qed.

Theorem current_stmt_rows_are_the_forest stmts p cd tx :
  In (IRow p cd tx) (ep_items child_index_mode alt_index_mode stmts) <-> forest_at stmts p cd tx.
Proof. rewrite current_ep_items. apply stmt_rows_are_the_forest. Qed.

(* the headline of the design section: paths unique AND the rows are the forest; hence two statement lists with the
   same Stmt rows have the same visible statement at every position (the forest can be rebuilt from the rows) *)
Theorem current_stmt_paths_unique_and_tree stmts :
  NoDup (row_paths (ep_items child_index_mode alt_index_mode stmts)) /\
  (forall p cd tx, In (IRow p cd tx) (ep_items child_index_mode alt_index_mode stmts) <-> forest_at stmts p cd tx).
Proof. split; [apply current_stmt_paths_unique|intros; apply current_stmt_rows_are_the_forest]. Qed.

Theorem current_stmt_rows_determine_forest s1 s2 :
  (forall p cd tx, In (IRow p cd tx) (ep_items child_index_mode alt_index_mode s1) <->
                   In (IRow p cd tx) (ep_items child_index_mode alt_index_mode s2)) ->
  forall p cd tx, forest_at s1 p cd tx <-> forest_at s2 p cd tx.
Proof.
  intros H p cd tx. rewrite <- !current_stmt_rows_are_the_forest. apply H.
Qed.

(* one row per element of the module, in every relation, for the CURRENT source *)
Theorem current_census_exact_counts m rs :
  normalize child_index_mode alt_index_mode m = Rows rs -> forall R, rel_count R rs = census R m.
Proof. rewrite child_paths_are_fresh, alt_paths_are_fresh. apply census_exact_counts. Qed.

Theorem current_one_row_per_app m rs :
  normalize child_index_mode alt_index_mode m = Rows rs -> rel_count RApp rs = length m.
Proof. rewrite child_paths_are_fresh, alt_paths_are_fresh. apply one_row_per_app. Qed.

Theorem current_one_stmt_row_per_visible_statement a ep stmts :
  rel_count RStmt (map (item_row a ep) (ep_items child_index_mode alt_index_mode stmts)) = list_sum (map visible_stmts stmts).
Proof. rewrite current_ep_items. apply one_stmt_row_per_visible_statement. Qed.

(* the round trip for the CURRENT source *)
Theorem current_rows_lossless m rs :
  normalize child_index_mode alt_index_mode m = Rows rs -> rebuild rs = project m.
Proof. rewrite child_paths_are_fresh, alt_paths_are_fresh. apply rows_lossless. Qed.

Theorem current_rows_determine_projection m1 m2 rs :
  normalize child_index_mode alt_index_mode m1 = Rows rs -> normalize child_index_mode alt_index_mode m2 = Rows rs ->
  project m1 = project m2.
Proof. rewrite child_paths_are_fresh, alt_paths_are_fresh. apply rows_determine_projection. Qed.
