(* C17: the shape table regenerated from pkg/arrai/relmod/normalize.go (Gen/RelmodShape.v) meets the model.
   The `reflexivity` lemmas are the proof obligations against the CURRENT source: they stop checking when a
   child's position path is again built by appending into the parent's slice, when a statement kind stops
   handing its nested statements to normalizeChildren (e.g. the "skip rows under for each" change), or when
   normalizeApp / normalizeEndpoint / normalizeEvent drop or add a normalize* call. *)
From Coq Require Import String List Bool NArith.
Import ListNotations.
Require Import Verif.Relmod.Model Verif.Relmod.PayloadProps Verif.Relmod.StmtProps Verif.Relmod.Run Verif.Relmod.CensusProps Verif.Relmod.Rebuild Verif.Relmod.KindProps Verif.Relmod.SetProps Verif.Gen.RelmodShape.
Local Open Scope string_scope.
Local Open Scope list_scope.

Lemma child_paths_are_fresh : child_index_mode = CopyParent.
Proof. reflexivity. Qed.

Lemma alt_paths_are_fresh : alt_index_mode = CopyParent.
Proof. reflexivity. Qed.

(* every block kind of the model's SBlock recurses into its body, as path_items does *)
Lemma all_block_kinds_visited : children_visited = [BCond; BLoop; BLoopN; BForeach; BGroup].
Proof. reflexivity. Qed.

Lemma alt_shape : (alt_visits_choice_children && alt_appends_choice_row) = true.
Proof. reflexivity. Qed.

Lemma statement_tail_shape : (statement_appends_row && statement_calls_meta) = true.
Proof. reflexivity. Qed.

(* the order of app_rows / ep_rows in Model.v *)
Lemma app_calls_shape :
  app_calls = ["normalizeAppMeta"; "normalizeMixin"; "normalizeEndpoint"; "normalizeType"; "normalizeView"].
Proof. reflexivity. Qed.

Lemma endpoint_calls_shape :
  endpoint_calls = ["normalizeEvent"; "normalizeEndpointMeta"; "normalizeParam"; "normalizeParam"; "normalizeParam";
                    "normalizeStatement"].
Proof. reflexivity. Qed.

Lemma event_calls_shape : event_calls = ["normalizeParam"; "normalizeEventMeta"].
Proof. reflexivity. Qed.

(* every `range` of normalize.go goes over a slice or over sortedKeys(map): Model.v's sorted_by walks *)
Lemma every_map_walk_is_sorted : unsorted_map_ranges = [].
Proof. reflexivity. Qed.

(* ---- the return-payload reader and the annotation value conversion (pkg/arrai/relmod/relmod.go) ---- *)
(* PRIMITIVE is one regular expression ending in \b, the modifiers are sorted, a name with two values is refused *)
Lemma payload_grammar_shape :
  g_prim_mode payload_grammar = PrimWord /\ g_mods payload_grammar = ModsSorted /\ g_dup payload_grammar = DupRefused.
Proof. repeat split; reflexivity. Qed.
(* parseFieldType answers nil for a nil type (the return type of a view that declares none) *)
Lemma nil_type_is_guarded : g_nil payload_grammar = NilGuarded.
Proof. reflexivity. Qed.
Lemma payload_primitives_wordy : Forall wordy (g_prims payload_grammar).
Proof. repeat constructor; try discriminate. Qed.
(* the rules Payload.v transliterates, the post-processing function, the functions around them: as pinned *)
Definition pinned_payload_rules : string := "\payload //grammar.parse({://grammar.lang.wbnf: payload -> (status (""<:"" type)? | (status ""<:"")? type) attr?; type -> sequence | set | PRIMITIVE | ref (?=""["") | ref attr? $ | raw attr? $; sequence -> ""sequence of "" type; set -> ""set of "" type; ref -> (app=([^\s.:]+):""::"" ""."")? type=[^\s.]+; raw -> [^\[\n]+\b; PRIMITIVE -> <PRIMITIVE>; status -> (""ok""|""error""|[1-5][0-9][0-9]); attr -> %!Array(nvp|modifier); nvp_item -> str | array=%!Array(nvp_item) | dict=%!Dict(nvp_item); nvp -> name=\w+ ""="" nvp_item; modifier -> ""~"" name=[\w\+]+; str -> ('""' ([^""\\] | [\\][\\brntu'""])* '""' | ""'"" ([^''])* ""'"") { .wrapRE -> /{()}; }; .wrapRE -> /{\s*()\s*}; .macro Array(child) { ""["" (child):"","" ""]"" } .macro Dict(child) { ""{"" entry=(key=child "":"" value=child):"","" ""}"" } :}, ""payload"", payload)".
Definition pinned_payload_tx : string := "\ast let rec buildNvp = \nvp cond nvp { (array: (nvp_item: i, ...), ...): (a: i => (:.@, @item: buildNvp(.@item))), (dict: (entry: i, ...), ...): (d: i => ( @ : buildNvp(.@item.key.nvp_item), @value: buildNvp(.@item.value.nvp_item) )), (str: ('': s, ...), ...): //eval.value(//seq.join('', s)), _: //eval.value(//seq.join('', nvp.'')) }; let rec type = \t cond t { (:set, ...): (set: type(set.type)), (:sequence, ...): (sequence: type(sequence.type)), (:PRIMITIVE, ...): (primitive: PRIMITIVE.'' rank (:.@)), (:ref, ...): ( appName: ref.app?:[] >> (.'' rank (:.@)), typePath: [ref.type.'' rank (:.@)], ), (:raw, ...): (primitive: 'any'), # TODO: encode raw.'' rank (:.@) _: t, }; ( status: ast.status?.'':'' rank (:.@), type: type(ast.type?:()), nvp: ast.attr?:(ast.type?.attr?:()).nvp?:{} => (@: (.@item.name.'' rank (:.@)), @value: buildNvp(.@item.nvp_item)), modifier: ast.attr?:(ast.type?.attr?:()).modifier?:{} => (.@item.name.'' rank (:.@)) )".
Definition pinned_fn_text : list (string * string) := [("unpackType", "func unpackType(tuple rel.Tuple, appName []string) interface{} { if name, ok := tuple.Get(""primitive""); ok { return TypePrimitive{Primitive: name.String()} } else if set, ok := tuple.Get(""set""); ok { return TypeSet{unpackType(set.(rel.Tuple), appName)} } else if seq, ok := tuple.Get(""sequence""); ok { return TypeSequence{unpackType(seq.(rel.Tuple), appName)} } else if tuple.HasName(""typePath"") { ctx := context.Background() name := arrai.ToStrings(tuple.MustGet(""appName"").Export(ctx)) if len(name) == 0 { name = appName } return TypeRef{ AppName: name, TypePath: arrai.ToStrings(tuple.MustGet(""typePath"").Export(ctx)), } } else { panic(fmt.Errorf(""unknown type: %T %s"", tuple, tuple)) } }");
  ("attrToValue", "func attrToValue(a *sysl.Attribute) rel.Value { switch a.Attribute.(type) { case *sysl.Attribute_S: return rel.NewString([]rune(a.GetS())) case *sysl.Attribute_I: return rel.NewNumber(float64(a.GetI())) case *sysl.Attribute_N: return rel.NewNumber(a.GetN()) case *sysl.Attribute_A: as := a.GetA().Elt vs := make([]rel.Value, 0, len(as)) for _, elt := range as { vs = append(vs, attrToValue(elt)) } return rel.NewArray(vs...) default: panic(fmt.Errorf(fmt.Sprintf(""unknown attr type: %x"", a))) } }");
  ("tags", "func tags(attrs map[string]*sysl.Attribute) []string { var tags []string for attrName, attr := range attrs { if attrName == tagAttr { if _, ok := attr.GetAttribute().(*sysl.Attribute_A); !ok { panic(fmt.Errorf(fmt.Sprintf(""patterns attr not an array: %x"", attr))) } for _, elt := range attr.GetA().Elt { if _, ok := elt.GetAttribute().(*sysl.Attribute_S); !ok { panic(fmt.Errorf(fmt.Sprintf(""pattern value not a string: %x"", elt))) } tags = append(tags, elt.GetS()) } } } return tags }");
  ("annos", "func annos(attrs map[string]*sysl.Attribute) map[string]interface{} { annos := map[string]interface{}{} for name, attr := range attrs { if name == tagAttr { continue } annos[name] = attrToValue(attr) } return annos }");
  ("parseFieldType", "func parseFieldType(appName []string, t *sysl.Type) interface{} { if t == nil { return nil } switch t := t.Type.(type) { case *sysl.Type_Primitive_: return TypePrimitive{Primitive: t.Primitive.String()} case *sysl.Type_Tuple_: return TypeTuple{} case *sysl.Type_TypeRef: ref := t.TypeRef if ref.Ref.Appname != nil { return TypeRef{AppName: ref.Ref.Appname.Part, TypePath: ref.Ref.Path} } else if ref.Context != nil { return TypeRef{AppName: ref.Context.Appname.Part, TypePath: ref.Ref.Path} } return TypeRef{AppName: appName, TypePath: ref.Ref.Path} case *sysl.Type_Set: ft := parseFieldType(appName, t.Set) return TypeSet{Set: ft} case *sysl.Type_Sequence: ft := parseFieldType(appName, t.Sequence) return TypeSequence{Sequence: ft} case *sysl.Type_NoType_: return nil case *sysl.Type_List_: return parseFieldType(appName, t.List.Type) default: return nil } }")].
Lemma payload_rules_as_modelled : payload_rules = pinned_payload_rules.
Proof. reflexivity. Qed.
Lemma payload_tx_as_modelled : payload_tx = pinned_payload_tx.
Proof. reflexivity. Qed.
Lemma payload_status_default_ok : payload_status_default = "ok".
Proof. reflexivity. Qed.
Lemma relmod_functions_as_modelled : relmod_fn_text = pinned_fn_text.
Proof. reflexivity. Qed.

(* normalizeType (which kinds of type get a Table / Alias / Enum row and fields, which get a Type row only),
   normalizeField (the constraint fold: Length when present, Precision and Scale of every constraint in turn; Range,
   BitWidth, Resolution never read), normalizeView (RetType only) and normalizeParam as Model.v / KindProps.v
   transliterate them; BuildTransformInput / buildModel (pkg/arrai/transform/utils.go): the `rel` member of every model
   handed to a transform script is *relmod.Normalize(module) and a refusal of Normalize is the refusal of the command *)
Definition pinned_normalize_fn_text : list (string * string) := [("normalizeType", "func normalizeType(s *Schema, app *sysl.Application, typ *sysl.Type, typeName string) { s.Type = append(s.Type, Type{ AppName: app.Name.Part, TypeName: typeName, TypeDocstring: typ.Docstring, TypeOpt: typ.Opt, }) var fields map[string]*sysl.Type switch tv := typ.Type.(type) { case *sysl.Type_Tuple_: fields = tv.Tuple.AttrDefs case *sysl.Type_Relation_: table := Table{ AppName: app.Name.Part, TypeName: typeName, } if typ.GetRelation().PrimaryKey != nil { table.Pk = typ.GetRelation().PrimaryKey.AttrName } s.Table = append(s.Table, table) fields = tv.Relation.AttrDefs case *sysl.Type_Primitive_, *sysl.Type_Sequence, *sysl.Type_Set, *sysl.Type_TypeRef: s.Alias = append(s.Alias, Alias{ AppName: app.Name.Part, TypeName: typeName, AliasType: parseFieldType(app.Name.Part, typ), }) case *sysl.Type_Enum_: e := Enum{ AppName: app.Name.Part, TypeName: typeName, EnumItems: typ.GetEnum().Items, } s.Enum = append(s.Enum, e) } for _, fieldName := range sortedKeys(fields) { field := fields[fieldName] normalizeField(s, app, typeName, field, fieldName) } normalizeTypeMeta(s, app, typ, typeName) }");
  ("normalizeField", "func normalizeField(s *Schema, app *sysl.Application, typeName string, field *sysl.Type, fieldName string) { fc := FieldConstraint{} if field.Constraint != nil { for _, c := range field.Constraint { if c.Length != nil { fc.Length = FieldConstraintLength{ Min: c.Length.Min, Max: c.Length.Max, } } fc.Precision = c.Precision fc.Scale = c.Scale } } s.Field = append(s.Field, Field{ AppName: app.Name.Part, TypeName: typeName, FieldName: fieldName, FieldOpt: field.Opt, FieldType: parseFieldType(app.Name.Part, field), FieldConstraint: fc, }) normalizeFieldMeta(s, app, typeName, field, fieldName) }");
  ("normalizeView", "func normalizeView(s *Schema, app *sysl.Application, view *sysl.View, viewName string) { s.View = append(s.View, View{ AppName: app.Name.Part, ViewName: viewName, ViewType: parseFieldType(app.Name.Part, view.RetType), }) normalizeViewMeta(s, app, view, viewName) }");
  ("normalizeParam", "func normalizeParam( s *Schema, app *sysl.Application, ep *sysl.Endpoint, paramName string, paramType *sysl.Type, paramIndex int, paramLoc string, ) { if paramLoc == """" { paramLoc = ""method"" if paramType != nil { tags := tags(paramType.Attrs) if len(tags) > 0 { paramLoc = tags[0] } } } param := Param{ AppName: app.Name.Part, EpName: ep.Name, ParamName: paramName, ParamLoc: paramLoc, ParamIndex: paramIndex, } if paramType == nil { param.ParamOpt = false param.ParamType = TypePrimitive{Primitive: ""any""} } else { param.ParamType = parseFieldType(app.Name.Part, paramType) param.ParamOpt = paramType.Opt normalizeParamMeta(s, app, ep, paramName, paramType, paramLoc, paramIndex) } s.Param = append(s.Param, param) }")].
Definition pinned_transform_fn_text : list (string * string) := [("BuildTransformInput", "func BuildTransformInput(modules []*sysl.Module, modulePaths []string) (rel.Tuple, error) { models := make([]syslModel, 0, len(modules)) for i, module := range modules { modPath := ""stdin"" if len(modulePaths) > i { modPath = modulePaths[i] } mod, err := buildModel(module, modPath) if err != nil { return nil, err } models = append(models, mod) } input, err := rel.NewTupleFromMap(map[string]interface{}{""models"": models}) if err != nil { return nil, err } return input, nil }");
  ("buildModel", "func buildModel(module *sysl.Module, path string) (syslModel, error) { docMod, err := arrai.SyslModuleToValue(module) if err != nil { return syslModel{}, err } relMod, err := relmod.Normalize(context.Background(), module) if err != nil { return syslModel{}, err } return syslModel{path: path, doc: docMod, rel: *relMod}, nil }")].
Lemma type_field_view_functions_as_modelled : normalize_fn_text = pinned_normalize_fn_text.
Proof. reflexivity. Qed.
Lemma transform_input_as_modelled : transform_fn_text = pinned_transform_fn_text.
Proof. reflexivity. Qed.

(* every primitive the grammar lists is read as that primitive: at the level of the PRIMITIVE rule for every rest of
   the input that starts at a word boundary (a theorem), and as the type of the whole payload "ok <: p" (computed over
   the finite list of the source - exhaustive, not sampled) *)
Theorem current_primitive_rule_accepts p r :
  In p (g_prims payload_grammar) -> at_boundary r -> primitive payload_grammar (p ++ r) = Some (p, skip_ws r).
Proof.
  intros Hin Hr. unfold primitive. rewrite (proj1 payload_grammar_shape).
  assert (Hp : wordy p). { pose proof payload_primitives_wordy as H. rewrite Forall_forall in H. apply H, Hin. }
  assert (E : skip_ws (p ++ r) = p ++ r).
  { destruct Hp as [Hn Hw]. destruct p as [|c p]; [congruence|]. cbn [List.app skip_ws]. inversion Hw as [|? ? Hc _]; subst.
    assert (is_ws c = false); [|rewrite H; reflexivity].
    unfold is_word, is_digit, is_ws in *. destruct (N.eqb_spec c 9), (N.eqb_spec c 10), (N.eqb_spec c 12), (N.eqb_spec c 13), (N.eqb_spec c 32);
      subst; try discriminate; reflexivity. }
  rewrite E. apply word_primitive_accepts; [apply payload_primitives_wordy|exact Hin|exact Hr].
Qed.
Definition accepts_as_primitive (g:grammar) (p:str) : bool :=
  match parse_payload g (bytes "ok <: " ++ p) with
  | POk py => match py_type py with Some (PTPrim q) => str_eqb p q | _ => false end
  | _ => false
  end.
Theorem current_listed_primitives_accepted : forall p, In p (g_prims payload_grammar) -> accepts_as_primitive payload_grammar p = true.
Proof.
  assert (H : forallb (accepts_as_primitive payload_grammar) (g_prims payload_grammar) = true) by (vm_compute; reflexivity).
  rewrite forallb_forall in H. exact H.
Qed.

Theorem current_never_crashes m : normalize child_index_mode alt_index_mode payload_grammar m <> Crashed.
Proof. apply normalize_never_crashes; [rewrite (proj2 (proj2 payload_grammar_shape)); discriminate|exact nil_type_is_guarded]. Qed.

(* for the current source the second disjunct of refused_iff is empty: only a payload the reader does not accept refuses *)
Theorem current_refused_iff m :
  (normalize child_index_mode alt_index_mode payload_grammar m = Refused \/
   normalize child_index_mode alt_index_mode payload_grammar m = Crashed) <->
  exists ap e s, In ap m /\ In e (ap_eps ap) /\ ep_visits_stmts e = true /\ In s (e_stmts e) /\ reaches_bad payload_grammar s.
Proof.
  rewrite refused_iff. split; [|intros H; left; exact H].
  intros [H|(ap & v & _ & _ & _ & Hn)]; [exact H|]. exfalso. apply Hn, nil_type_is_guarded.
Qed.

Theorem current_payload_canonical s py : parse_payload payload_grammar s = POk py -> pay_canonical py.
Proof. apply parse_ok_canonical. Qed.

(* the statement rows of the CURRENT source: the value-semantics construction *)
Lemma current_ep_items stmts : ep_items child_index_mode alt_index_mode stmts = ep_items_pure stmts.
Proof. rewrite child_paths_are_fresh, alt_paths_are_fresh. reflexivity. Qed.

Theorem current_stmt_paths_unique stmts : NoDup (row_paths (ep_items child_index_mode alt_index_mode stmts)).
Proof. rewrite current_ep_items. apply stmt_paths_unique. Qed.

Theorem current_stmt_rows_are_the_forest stmts p cd tx :
  In (IRow p cd tx) (ep_items child_index_mode alt_index_mode stmts) <-> forest_at stmts p cd tx.
Proof. rewrite current_ep_items. apply stmt_rows_are_the_forest. Qed.

(* the headline of the design section: paths unique AND the rows are the forest; hence two statement lists with the
   same Stmt rows have the same visible statement at every position (the forest can be rebuilt from the rows) *)
Theorem current_stmt_paths_unique_and_tree stmts :
  NoDup (row_paths (ep_items child_index_mode alt_index_mode stmts)) /\
  (forall p cd tx, In (IRow p cd tx) (ep_items child_index_mode alt_index_mode stmts) <-> forest_at stmts p cd tx).
Proof. split; [apply current_stmt_paths_unique|intros; apply current_stmt_rows_are_the_forest]. Qed.

Theorem current_stmt_rows_determine_forest s1 s2 :
  (forall p cd tx, In (IRow p cd tx) (ep_items child_index_mode alt_index_mode s1) <->
                   In (IRow p cd tx) (ep_items child_index_mode alt_index_mode s2)) ->
  forall p cd tx, forest_at s1 p cd tx <-> forest_at s2 p cd tx.
Proof.
  intros H p cd tx. rewrite <- !current_stmt_rows_are_the_forest. apply H.
Qed.

(* one row per element of the module, in every relation, for the CURRENT source *)
Theorem current_census_exact_counts m rs :
  normalize child_index_mode alt_index_mode payload_grammar m = Rows rs -> forall R, rel_count R rs = census R m.
Proof. rewrite child_paths_are_fresh, alt_paths_are_fresh. apply census_exact_counts. Qed.

Theorem current_one_row_per_app m rs :
  normalize child_index_mode alt_index_mode payload_grammar m = Rows rs -> rel_count RApp rs = List.length m.
Proof. rewrite child_paths_are_fresh, alt_paths_are_fresh. apply one_row_per_app. Qed.

Theorem current_one_stmt_row_per_visible_statement g a sa ep stmts :
  rel_count RStmt (map (item_row g a sa ep) (ep_items child_index_mode alt_index_mode stmts)) = list_sum (map visible_stmts stmts).
Proof. rewrite current_ep_items. apply one_stmt_row_per_visible_statement. Qed.

(* the relations are sets for a transform script: the Stmt relation keeps one element per visible statement *)
Theorem current_stmt_set_exact g a sa ep stmts :
  let rows := rel_rows RStmt (map (item_row g a sa ep) (ep_items child_index_mode alt_index_mode stmts)) in
  NoDup rows /\ List.length rows = list_sum (map visible_stmts stmts).
Proof. rewrite current_ep_items. apply stmt_set_has_one_element_per_visible_statement. Qed.

(* the round trip for the CURRENT source *)
Theorem current_rows_lossless m rs :
  normalize child_index_mode alt_index_mode payload_grammar m = Rows rs -> rebuild rs = project payload_grammar m.
Proof. rewrite child_paths_are_fresh, alt_paths_are_fresh. apply rows_lossless. Qed.

(* what `erase` removes (KindProps.v) is outside the projection: the rows, hence the projection, of a module and of its
   canonical form are the same *)
Theorem current_rows_blind_to_erasure m :
  normalize child_index_mode alt_index_mode payload_grammar (erase m) = normalize child_index_mode alt_index_mode payload_grammar m.
Proof. apply rows_blind_to_erasure. Qed.
Theorem erase_keeps_projection m rs :
  normalize child_index_mode alt_index_mode payload_grammar m = Rows rs -> project payload_grammar (erase m) = project payload_grammar m.
Proof.
  intros H. rewrite <- (current_rows_lossless m rs H). symmetry. apply current_rows_lossless.
  rewrite current_rows_blind_to_erasure. exact H.
Qed.

Theorem current_rows_determine_projection m1 m2 rs :
  normalize child_index_mode alt_index_mode payload_grammar m1 = Rows rs ->
  normalize child_index_mode alt_index_mode payload_grammar m2 = Rows rs ->
  project payload_grammar m1 = project payload_grammar m2.
Proof. rewrite child_paths_are_fresh, alt_paths_are_fresh. apply rows_determine_projection. Qed.
