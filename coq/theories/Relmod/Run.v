(* Correspondence glue for C17: one case = (module projection, what the real relmod.Normalize returned:
   None = refused with an error, Some rows = the schema's rows projected by the harness, in any order).
   The model's rows and the observed rows are compared as multisets. *)
From Coq Require Import List NArith ZArith PArith Bool.
Import ListNotations.
Require Import Verif.Relmod.Model Verif.Base.Harness.

Definition owner_eqb (a b:owner) : bool :=
  match a, b with
  | OApp, OApp | OMixin, OMixin | OEp, OEp | OParam, OParam | OStmt, OStmt | OEvent, OEvent
  | OType, OType | OField, OField | OView, OView => true
  | _, _ => false
  end.

Definition relname_eqb (a b:relname) : bool :=
  match a, b with
  | RApp, RApp | RMixin, RMixin | REp, REp | REvent, REvent | RParam, RParam | RStmt, RStmt | RType, RType
  | RTable, RTable | RField, RField | REnum, REnum | RAlias, RAlias | RView, RView => true
  | RTag o, RTag o' => owner_eqb o o'
  | RAnno o, RAnno o' => owner_eqb o o'
  | _, _ => false
  end.

Fixpoint ty_eqb (a b:ty) : bool :=
  match a, b with
  | TyNil, TyNil => true
  | TyPrim p, TyPrim q => Pos.eqb p q
  | TyTuple, TyTuple => true
  | TyRef a1 p1, TyRef a2 p2 => list_eqb Pos.eqb a1 a2 && list_eqb Pos.eqb p1 p2
  | TySet x, TySet y => ty_eqb x y
  | TySeq x, TySeq y => ty_eqb x y
  | _, _ => false
  end.

Definition row_eqb (a b:row) : bool :=
  relname_eqb (r_rel a) (r_rel b) && list_eqb Pos.eqb (r_app a) (r_app b) &&
  list_eqb Pos.eqb (r_names a) (r_names b) && list_eqb N.eqb (r_path a) (r_path b) &&
  list_eqb Z.eqb (r_nums a) (r_nums b) && ty_eqb (r_ty a) (r_ty b).

(* remove the first row equal to r; None when there is none *)
Fixpoint remove_one (r:row) (l:list row) : option (list row) :=
  match l with
  | [] => None
  | x :: l' => if row_eqb r x then Some l'
               else match remove_one r l' with Some l'' => Some (x :: l'') | None => None end
  end.

Fixpoint multiset_eqb (a b:list row) : bool :=
  match a with
  | [] => match b with [] => true | _ => false end
  | r :: a' => match remove_one r b with Some b' => multiset_eqb a' b' | None => false end
  end.

Definition c17_case := (module * option (list row))%type.

Definition c17_ok (cm am:idx_mode) (c:c17_case) : bool :=
  match c with (m, obs) =>
    match normalize cm am m, obs with
    | Refused, None => true
    | Rows rs, Some os => multiset_eqb rs os
    | _, _ => false
    end
  end.
