(* Correspondence glue for C17: one case = (module projection, what the real relmod.Normalize returned:
   None = refused with an error, Some rows = the schema's rows projected by the harness, each relation's slice in
   slice order). Model and implementation are compared relation by relation as LISTS: since the code walks every map
   through sortedKeys the append order of every slice is determined, and the model must reproduce it. *)
From Coq Require Import List NArith ZArith PArith Bool.
Import ListNotations.
Require Import Verif.Relmod.Model Verif.Base.Harness.

Definition owner_eqb (a b:owner) : bool :=
  match a, b with
  | OApp, OApp | OMixin, OMixin | OEp, OEp | OParam, OParam | OStmt, OStmt | OEvent, OEvent
  | OType, OType | OField, OField | OView, OView => true
  | _, _ => false
  end.

Definition relname_eqb (a b:relname) : bool :=
  match a, b with
  | RApp, RApp | RMixin, RMixin | REp, REp | REvent, REvent | RParam, RParam | RStmt, RStmt | RType, RType
  | RTable, RTable | RField, RField | REnum, REnum | RAlias, RAlias | RView, RView => true
  | RTag o, RTag o' => owner_eqb o o'
  | RAnno o, RAnno o' => owner_eqb o o'
  | _, _ => false
  end.

Fixpoint ty_eqb (a b:ty) : bool :=
  match a, b with
  | TyNil, TyNil => true
  | TyPrim p, TyPrim q => Pos.eqb p q
  | TyTuple, TyTuple => true
  | TyRef a1 p1, TyRef a2 p2 => list_eqb Pos.eqb a1 a2 && list_eqb Pos.eqb p1 p2
  | TySet x, TySet y => ty_eqb x y
  | TySeq x, TySeq y => ty_eqb x y
  | _, _ => false
  end.

Definition row_eqb (a b:row) : bool :=
  relname_eqb (r_rel a) (r_rel b) && list_eqb Pos.eqb (r_app a) (r_app b) &&
  list_eqb Pos.eqb (r_names a) (r_names b) && list_eqb N.eqb (r_path a) (r_path b) &&
  list_eqb Z.eqb (r_nums a) (r_nums b) && ty_eqb (r_ty a) (r_ty b) && list_eqb Pos.eqb (r_app2 a) (r_app2 b).

Definition all_owners : list owner := [OApp; OMixin; OEp; OParam; OStmt; OEvent; OType; OField; OView].
Definition all_rels : list relname :=
  [RApp; RMixin; REp; REvent; RParam; RStmt; RType; RTable; RField; REnum; RAlias; RView]
  ++ map RTag all_owners ++ map RAnno all_owners.

(* the rows of one relation, in the order in which they were appended to the schema's slice *)
Definition rel_rows (R:relname) (rs:list row) : list row := filter (fun r => relname_eqb (r_rel r) R) rs.

(* a case whose module holds a return payload the harness cannot read itself compares return rows without status/type *)
Definition mask_ret (r:row) : row :=
  match r_rel r, r_nums r with
  | RStmt, [8%Z] => mk RStmt (r_app r) [hd n_empty (r_names r); n_empty] (r_path r) [8%Z] TyNil
  | _, _ => r
  end.

(* one case = module projection, what relmod.Normalize returned (None = refused; Some rows = every relation's slice
   in slice order, one relation after the other), and whether return-row contents are comparable *)
Definition c17_case := (module * option (list row) * bool)%type.

Definition c17_ok (cm am:idx_mode) (c:c17_case) : bool :=
  match c with (m, obs, retc) =>
    match normalize cm am m, obs with
    | Refused, None => true
    | Rows rs, Some os =>
        let f := if retc then (fun l => l) else map mask_ret in
        forallb (fun R => list_eqb row_eqb (f (rel_rows R rs)) (f (rel_rows R os))) all_rels
    | _, _ => false
    end
  end.
