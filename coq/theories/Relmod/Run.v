(* Correspondence glue for C17: one case = (module projection, what the real relmod.Normalize returned:
   None = refused with an error, Some rows = the schema's rows projected by the harness, each relation's slice in
   slice order). Model and implementation are compared relation by relation as LISTS: since the code walks every map
   through sortedKeys the append order of every slice is determined, and the model must reproduce it. *)
From Coq Require Import List NArith ZArith PArith Bool.
Import ListNotations.
Require Import Verif.Relmod.Model Verif.Base.Harness.

Definition owner_eqb (a b:owner) : bool :=
  match a, b with
  | OApp, OApp | OMixin, OMixin | OEp, OEp | OParam, OParam | OStmt, OStmt | OEvent, OEvent
  | OType, OType | OField, OField | OView, OView => true
  | _, _ => false
  end.

Definition relname_eqb (a b:relname) : bool :=
  match a, b with
  | RApp, RApp | RMixin, RMixin | REp, REp | REvent, REvent | RParam, RParam | RStmt, RStmt | RType, RType
  | RTable, RTable | RField, RField | REnum, REnum | RAlias, RAlias | RView, RView => true
  | RTag o, RTag o' => owner_eqb o o'
  | RAnno o, RAnno o' => owner_eqb o o'
  | RSrc o, RSrc o' => owner_eqb o o'
  | RSrcAnno o, RSrcAnno o' => owner_eqb o o'
  | _, _ => false
  end.

Fixpoint ty_eqb (a b:ty) : bool :=
  match a, b with
  | TyNil, TyNil => true
  | TyPrim p, TyPrim q => Pos.eqb p q
  | TyTuple, TyTuple => true
  | TyRef a1 p1, TyRef a2 p2 => list_eqb Pos.eqb a1 a2 && list_eqb Pos.eqb p1 p2
  | TySet x, TySet y => ty_eqb x y
  | TySeq x, TySeq y => ty_eqb x y
  | _, _ => false
  end.

Fixpoint rval_eqb (a b:rval) : bool :=
  match a, b with
  | RVEmpty, RVEmpty => true
  | RVStr x, RVStr y => Pos.eqb x y
  | RVNum m e, RVNum m' e' => Z.eqb m m' && Z.eqb e e'
  | RVArr l1, RVArr l2 =>
      (fix go (l1 l2:list rval) : bool :=
         match l1, l2 with
         | [], [] => true
         | x :: l1', y :: l2' => rval_eqb x y && go l1' l2'
         | _, _ => false
         end) l1 l2
  | _, _ => false
  end.
Fixpoint sty_eqb (a b:sty) : bool :=
  match a, b with
  | SPrim p, SPrim q => str_eqb p q
  | SRef a1 p1, SRef a2 p2 => list_eqb str_eqb a1 a2 && list_eqb str_eqb p1 p2
  | SSet x, SSet y => sty_eqb x y
  | SSeq x, SSeq y => sty_eqb x y
  | _, _ => false
  end.
Definition src_eqb (a b:srcctx) : bool := Pos.eqb (sc_file a) (sc_file b) && list_eqb N.eqb (sc_pos a) (sc_pos b).
Definition xinfo_eqb (a b:xinfo) : bool :=
  match a, b with
  | XNone, XNone => true
  | XVal v, XVal w => rval_eqb v w
  | XRet s1 t1 m1 n1, XRet s2 t2 m2 n2 =>
      str_eqb s1 s2 &&
      match t1, t2 with Some x, Some y => sty_eqb x y | None, None => true | _, _ => false end &&
      list_eqb str_eqb m1 m2 &&
      list_eqb (fun x y : str * nval => str_eqb (fst x) (fst y) && nval_eqb (snd x) (snd y)) n1 n2
  | XSrc f1 l1, XSrc f2 l2 => src_eqb f1 f2 && list_eqb src_eqb l1 l2
  | XSrcs l1, XSrcs l2 => list_eqb src_eqb l1 l2
  | _, _ => false
  end.

Definition row_eqb (a b:row) : bool :=
  relname_eqb (r_rel a) (r_rel b) && list_eqb Pos.eqb (r_app a) (r_app b) &&
  list_eqb Pos.eqb (r_names a) (r_names b) && list_eqb N.eqb (r_path a) (r_path b) &&
  list_eqb Z.eqb (r_nums a) (r_nums b) && ty_eqb (r_ty a) (r_ty b) && list_eqb Pos.eqb (r_app2 a) (r_app2 b) &&
  xinfo_eqb (r_x a) (r_x b).

Definition all_owners : list owner := [OApp; OMixin; OEp; OParam; OStmt; OEvent; OType; OField; OView].
Definition all_rels : list relname :=
  [RApp; RMixin; REp; REvent; RParam; RStmt; RType; RTable; RField; REnum; RAlias; RView]
  ++ map RTag all_owners ++ map RAnno all_owners ++ map RSrc all_owners ++ map RSrcAnno all_owners.

(* the rows of one relation, in the order in which they were appended to the schema's slice *)
Definition rel_rows (R:relname) (rs:list row) : list row := filter (fun r => relname_eqb (r_rel r) R) rs.

(* a case whose module holds a return payload outside the modelled fragment (a backslash, "{") hands every payload
   to the model as LRetOpaque and compares return rows without their contents *)
Definition mask_ret (r:row) : row :=
  match r_rel r, r_nums r with
  | RStmt, [8%Z] => mk RStmt (r_app r) [hd n_empty (r_names r); n_empty] (r_path r) [8%Z] TyNil
  | _, _ => r
  end.

(* where the code hands the modifiers over in the order of arr.ai's set export (different from process to process)
   the observed modifiers are compared as a set: sorted here, as the model has them *)
Definition sort_mods (r:row) : row :=
  match r_x r with
  | XRet st t ms nv =>
      {| r_rel := r_rel r; r_app := r_app r; r_names := r_names r; r_path := r_path r; r_nums := r_nums r; r_ty := r_ty r;
         r_app2 := r_app2 r; r_x := XRet st t (fold_right set_insert [] ms) nv |}
  | _ => r
  end.

(* one case = module projection, what relmod.Normalize returned (None = refused; Some rows = every relation's slice
   in slice order, one relation after the other), and whether return-row contents are comparable *)
Inductive observed := ORows (rs:list row) | ORefused | OCrashed.
Definition c17_case := (module * observed * bool)%type.

Definition c17_ok (cm am:idx_mode) (g:grammar) (c:c17_case) : bool :=
  match c with (m, obs, retc) =>
    match normalize cm am g m, obs with
    | Refused, ORefused => true
    | Crashed, OCrashed => true
    | Rows rs, ORows os =>
        let f := if retc then (fun l => l) else map mask_ret in
        let h := match g_mods g with ModsSorted => (fun l => l) | _ => map sort_mods end in
        forallb (fun R => list_eqb row_eqb (f (rel_rows R rs)) (h (f (rel_rows R os)))) all_rels
    | _, _ => false
    end
  end.

(* `sysl transform`: the relations a script sees are SETS of rows (the schema's slices are tagged unordered). One case =
   module projection and the rows read back from the value the identity script received; compared relation by relation
   as sets (mutual inclusion): equal rows of one slice are one element of the set *)
Definition subset_rows (a b:list row) : bool := forallb (fun r => existsb (row_eqb r) b) a.
Definition c17_tr_ok (cm am:idx_mode) (g:grammar) (c:c17_case) : bool :=
  match c with (m, obs, retc) =>
    match normalize cm am g m, obs with
    | Refused, ORefused => true
    | Rows rs, ORows os =>
        let f := if retc then (fun l => l) else map mask_ret in
        let h := match g_mods g with ModsSorted => (fun l => l) | _ => map sort_mods end in
        forallb (fun R => let a := f (rel_rows R rs) in let b := h (f (rel_rows R os)) in subset_rows a b && subset_rows b a) all_rels
    | _, _ => false
    end
  end.

(* one payload alone: what parseReturnPayload answered for this text in application `app` *)
Inductive pobs := PObsErr | PObsCrash | PObsOk (x:xinfo).
Definition c17_pay_case := (list str * str * pobs)%type.
Definition c17_pay_ok (g:grammar) (c:c17_pay_case) : bool :=
  match c with (sa, text, obs) =>
    match parse_payload g text, obs with
    | PErr, PObsErr => true
    | PCrash, PObsCrash => true
    | POk _, PObsOk x =>
        let h := match g_mods g with ModsSorted => (fun r => r) | _ => sort_mods end in
        xinfo_eqb (ret_info g sa text) (r_x (h (mkx RStmt [] [] [] [] x)))
    | _, _ => false
    end
  end.
