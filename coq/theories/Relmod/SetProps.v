(* C17, `sysl transform`: the relations of the schema are slices in Go and SETS for a transform script (the fields of
   relmod.Schema are tagged `arrai:",unordered"`; pkg/arrai/transform/utils.go hands *relmod.Normalize(module) to
   rel.NewTupleFromMap). A set keeps one copy of equal rows. What that means for "exactly one row per element":

     stmt_rows_distinct  (full)     the Stmt rows of an endpoint are pairwise distinct (their position paths are), so the
                                    set a script sees still has exactly one element per visible statement / choice;
     tag_rows_distinct_refuted      an element tagged twice with the same tag (`[~a, ~a]`) has two equal Tag rows in the
                                    slice and one in the set.
   The conversion itself (arr.ai, reflection) is a black box: the harness reads the value a script receives back into
   rows and compares them with the model's rows as sets (Run.c17_tr_ok). *)
From Coq Require Import List NArith ZArith PArith Bool Lia.
Import ListNotations.
Require Import Verif.Relmod.Model Verif.Relmod.StmtProps Verif.Relmod.Run Verif.Relmod.CensusProps.

Lemma stmt_row_paths g a sa ep its :
  map r_path (rel_rows RStmt (map (item_row g a sa ep) its)) = row_paths its.
Proof.
  unfold rel_rows, row_paths. induction its as [|it its IH]; [reflexivity|].
  cbn [map filter]. destruct it as [p c [t rt]|p t|p n v|p n l|p s l]; cbn [item_row r_rel mkx mk relname_eqb is_row owner_eqb];
    cbn [map r_path mkx mk item_path]; rewrite ?IH; reflexivity.
Qed.

(* one row per visible statement also in the set: no two Stmt rows of an endpoint are equal *)
Theorem stmt_rows_distinct g a sa ep stmts :
  NoDup (rel_rows RStmt (map (item_row g a sa ep) (ep_items_pure stmts))).
Proof.
  apply (NoDup_map_inv r_path). rewrite stmt_row_paths. apply stmt_paths_unique.
Qed.

(* the size of the Stmt relation as a set = the number of visible statements *)
Corollary stmt_set_has_one_element_per_visible_statement g a sa ep stmts :
  let rows := rel_rows RStmt (map (item_row g a sa ep) (ep_items_pure stmts)) in
  NoDup rows /\ List.length rows = list_sum (map visible_stmts stmts).
Proof.
  cbv zeta. split; [apply stmt_rows_distinct|].
  rewrite <- one_stmt_row_per_visible_statement with (g:=g) (a:=a) (sa:=sa) (ep:=ep).
  reflexivity.
Qed.

(* refuted for tags: `A [~t, ~t]:` - two equal rows of Tag.App in the slice, one element in the set *)
Definition twice_tagged : module :=
  [{| ap_name := [8%positive]; ap_sname := []; ap_long := n_empty; ap_doc := n_empty;
      ap_attrs := {| a_tags := [50%positive; 50%positive]; a_annos := []; a_srcs := [] |};
      ap_mixins := []; ap_eps := []; ap_types := []; ap_views := [] |}].
Theorem tag_rows_distinct_refuted :
  exists g m rs, normalize CopyParent CopyParent g m = Rows rs /\ rel_count (RTag OApp) rs = 2 /\ ~ NoDup (rel_rows (RTag OApp) rs).
Proof.
  exists {| g_prim_mode := PrimWord; g_prims := []; g_mods := ModsSorted; g_dup := DupRefused; g_nil := NilGuarded |}, twice_tagged.
  eexists. split; [vm_compute; reflexivity|]. split; [vm_compute; reflexivity|].
  vm_compute. intros H. inversion H as [|x l Hn _]. apply Hn. left. reflexivity.
Qed.
