(* Model of the return-payload reader of pkg/arrai/relmod/relmod.go (buildPayloadParser + parseReturnPayload +
   unpackType) and of the annotation value conversion (attrToValue). Definitions only; proofs in PayloadProps.v.

   The payload grammar is a wbnf grammar run by github.com/arr-ai/wbnf/parser, which is a PEG machine: `|` is ORDERED
   choice (the first alternative that matches wins and is never reconsidered), `?`/`*` are greedy and never give back,
   a sequence that fails restores the input. Every terminal T outside the `str` rule is the regular expression
   \A\s*(?:(T))\s* applied to the REST of the input (.wrapRE), so each terminal eats the blanks around it and `\b`, `$`
   see the rest only. The functions below are a transliteration of that machine for THIS grammar over byte strings
   (Go regexps work on runes; for the classes used here - \s, \w, "not one of a few ASCII bytes" - bytes and runes
   agree, a multi-byte rune being a run of bytes >= 128 that no class singles out).

     payload   -> (status ("<:" type)? | (status "<:")? type) attr?;
     type      -> sequence | set | PRIMITIVE | ref (?="[") | ref attr? $ | raw attr? $;
     sequence  -> "sequence of " type;          set -> "set of " type;
     ref       -> (app=([^\s.:]+):"::" ".")? type=[^\s.]+;
     raw       -> [^\[\n]+\b;
     PRIMITIVE -> read from the source (Gen.RelmodShape.payload_grammar): an ordered choice of literals, or one
                  regular expression (?:p1|p2|...)\b
     status    -> ("ok"|"error"|[1-5][0-9][0-9]);
     attr      -> "[" (nvp|modifier):"," "]";   nvp -> name=\w+ "=" nvp_item;   modifier -> "~" name=[\w\+]+;
     nvp_item  -> str | array="[" nvp_item:"," "]" | dict=...;   str -> '"' ... '"' | "'" ... "'"   (no blanks eaten)

   CUT POINTS. wbnf turns every string literal that occurs exactly once in the grammar into a cut point: when a
   sequence has consumed such a literal and a LATER item of the same sequence fails, the whole parse is abandoned
   (FatalError) instead of trying the next alternative. Here: "sequence of ", "set of " (no type behind them), "::"
   (no name part behind it), "=" (no value) and "~" (no name); "." is the last item of its sequence. The model has the
   three outcomes RFatal / RNo / RYes for the rules concerned.

   Modelled fragment: payloads without a backslash (string escapes are evaluated by arr.ai's //eval.value) and without
   "{" (dict values). The harness hands other payloads to the model as LRetOpaque (class observed, contents not compared).
   What the grammar's post-processing (the `tx` function) and parseReturnPayload do with the tree is part of the model:
   status defaults to "ok"; `raw` becomes the primitive "any"; a reference without application is resolved to the
   statement's application (unpackType); attributes are those of the payload or, failing that, of a TOP-LEVEL raw type
   (attributes under "sequence of <raw>" are dropped); modifiers form a set; name-value pairs form a dictionary in which
   one name with two different values has no value (the Go side then panics or refuses: g_dup). *)
From Coq Require Import List NArith ZArith PArith Bool Ascii String.
Import ListNotations.

Definition str := list N.

Fixpoint bytes (s:string) : str :=
  match s with EmptyString => [] | String c s' => N_of_ascii c :: bytes s' end.

(* ---------- what is read from the source ---------- *)
Inductive prim_mode := PrimChoice | PrimWord | PrimUnknown.     (* "a" | "b" | ...   /   (?:a|b|...)\b *)
Inductive mods_mode := ModsSetOrder | ModsSorted | ModsUnknown. (* order of arr.ai's set export / sort.Strings *)
Inductive dup_mode := DupPanics | DupRefused | DupUnknown.      (* a name with two values: v.(rel.Value) panics / error *)
(* not about payloads, but read from the same file and carried by the same "behaviour of the current source" value:
   what parseFieldType does with a nil *sysl.Type (the return type of a view that declares none): dereferences it
   (a panic) / answers nil *)
Inductive nil_mode := NilDeref | NilGuarded | NilUnknown.
Record grammar := { g_prim_mode : prim_mode; g_prims : list str; g_mods : mods_mode; g_dup : dup_mode; g_nil : nil_mode }.

(* ---------- characters ---------- *)
Definition is_ws (c:N) : bool := (N.eqb c 9 || N.eqb c 10 || N.eqb c 12 || N.eqb c 13 || N.eqb c 32)%N.     (* \s *)
Definition is_digit (c:N) : bool := (N.leb 48 c && N.leb c 57)%N.
Definition is_word (c:N) : bool :=                                                                      (* \w *)
  (is_digit c || (N.leb 65 c && N.leb c 90) || (N.leb 97 c && N.leb c 122) || N.eqb c 95)%N.
Definition c_dot : N := 46%N.  Definition c_colon : N := 58%N.  Definition c_lbr : N := 91%N.
Definition c_nl : N := 10%N.   Definition c_dq : N := 34%N.     Definition c_sq : N := 39%N.  Definition c_plus : N := 43%N.

Fixpoint skip_ws (s:str) : str := match s with c :: s' => if is_ws c then skip_ws s' else s | [] => [] end.
Fixpoint span (f:N -> bool) (s:str) : str * str :=
  match s with
  | c :: s' => if f c then let '(a, r) := span f s' in (c :: a, r) else ([], s)
  | [] => ([], [])
  end.
Fixpoint strip_prefix (p s:str) : option str :=
  match p, s with
  | [], _ => Some s
  | a :: p', b :: s' => if N.eqb a b then strip_prefix p' s' else None
  | _ :: _, [] => None
  end.

(* a literal terminal: \s*(lit)\s* *)
Definition lit (p:str) (s:str) : option str :=
  match strip_prefix p (skip_ws s) with Some r => Some (skip_ws r) | None => None end.
(* a terminal [class]+ : \s*([class]+)\s* *)
Definition tok (f:N -> bool) (s:str) : option (str * str) :=
  let '(a, r) := span f (skip_ws s) in match a with [] => None | _ => Some (a, skip_ws r) end.
(* the terminal $ under (?m): \s*($)\s* - at the end of the text, or the blanks skipped hold a line feed *)
Definition eol (s:str) : option str :=
  let s1 := skip_ws s in
  match s1 with
  | [] => Some []
  | _ => if existsb (N.eqb c_nl) (fst (span is_ws s)) then Some s1 else None
  end.

(* outcome of a rule: abandoned at a cut point / no match (the caller may try something else) / match *)
Inductive res (A:Type) := RFatal | RNo | RYes (x:A).
Arguments RFatal {A}. Arguments RNo {A}. Arguments RYes {A}.

(* ---------- the tree ---------- *)
Inductive nval := NStr (s:str) | NArr (l:list nval).
Inductive aitem := AMod (n:str) | ANvp (k:str) (v:nval).
Inductive ptyp := PTPrim (p:str) | PTRef (app:list str) (path:str) | PTSet (t:ptyp) | PTSeq (t:ptyp) | PTRaw (a:option (list aitem)).

(* ---------- status ---------- *)
Definition s_ok : str := bytes "ok".  Definition s_error : str := bytes "error".  Definition s_any : str := bytes "any".
Definition status (s:str) : option (str * str) :=
  match lit s_ok s with
  | Some r => Some (s_ok, r)
  | None =>
      match lit s_error s with
      | Some r => Some (s_error, r)
      | None =>
          match skip_ws s with
          | a :: b :: c :: r =>
              if (N.leb 49 a && N.leb a 53 && is_digit b && is_digit c)%N then Some ([a; b; c], skip_ws r) else None
          | _ => None
          end
      end
  end.

(* ---------- PRIMITIVE ---------- *)
Fixpoint first_lit (ps:list str) (s:str) : option (str * str) :=
  match ps with
  | [] => None
  | p :: ps' => match lit p s with Some r => Some (p, r) | None => first_lit ps' s end
  end.
(* (?:p1|p2|...)\b : the first alternative that is a prefix of the text and ends at a word boundary *)
Definition ends_word (p:str) (r:str) : bool :=
  xorb (match rev p with c :: _ => is_word c | [] => false end) (match r with c :: _ => is_word c | [] => false end).
Fixpoint first_word (ps:list str) (s:str) : option (str * str) :=
  match ps with
  | [] => None
  | p :: ps' =>
      match strip_prefix p s with
      | Some r => if ends_word p r then Some (p, skip_ws r) else first_word ps' s
      | None => first_word ps' s
      end
  end.
Definition primitive (g:grammar) (s:str) : option (str * str) :=
  match g_prim_mode g with
  | PrimChoice => first_lit (g_prims g) s
  | PrimWord => first_word (g_prims g) (skip_ws s)
  | PrimUnknown => None
  end.

(* ---------- ref ---------- *)
Definition app_char (c:N) : bool := negb (is_ws c || N.eqb c c_dot || N.eqb c c_colon).   (* [^\s.:] *)
Definition path_char (c:N) : bool := negb (is_ws c || N.eqb c c_dot).                      (* [^\s.]  *)
Definition s_coco : str := bytes "::".  Definition s_dot : str := bytes ".".
(* ("::" part)* ; "::" is a cut point: None = "::" without a name part behind it *)
Fixpoint more_parts (fuel:nat) (s:str) : option (list str * str) :=
  match fuel with
  | O => Some ([], s)
  | S f =>
      match lit s_coco s with
      | Some r => match tok app_char r with
                  | Some (p, r') => match more_parts f r' with Some (ps, r'') => Some (p :: ps, r'') | None => None end
                  | None => None
                  end
      | None => Some ([], s)
      end
  end.
Definition ref (s:str) : res (list str * str * str) :=
  let path (app:list str) (r:str) : res (list str * str * str) :=
    match tok path_char r with Some (t, r') => RYes (app, t, r') | None => RNo end in
  match tok app_char s with
  | Some (a, r) =>
      match more_parts (List.length r) r with
      | None => RFatal
      | Some (ps, r') => match lit s_dot r' with Some r'' => path (a :: ps) r'' | None => path [] s end
      end
  | None => path [] s
  end.

(* ---------- raw: [^\[\n]+\b - the longest run without "[" and line feed that ends at a word boundary, i.e. up to
   its last word character ---------- *)
Definition raw_char (c:N) : bool := negb (N.eqb c c_lbr || N.eqb c c_nl).
Fixpoint upto_last_word (run:str) : option str :=     (* the prefix of run ending with its last word character *)
  match run with
  | [] => None
  | c :: run' => match upto_last_word run' with
                 | Some x => Some (c :: x)
                 | None => if is_word c then Some [c] else None
                 end
  end.
Definition raw (s:str) : option str :=
  let s1 := skip_ws s in
  match upto_last_word (fst (span raw_char s1)) with
  | Some x => Some (skip_ws (skipn (List.length x) s1))
  | None => None
  end.

(* ---------- attr ---------- *)
Definition s_lbr : str := bytes "[".  Definition s_rbr : str := bytes "]".  Definition s_comma : str := bytes ",".
Definition s_eq : str := bytes "=".   Definition s_tilde : str := bytes "~".
Definition mod_char (c:N) : bool := is_word c || N.eqb c c_plus.                            (* [\w\+] *)

(* str: no blanks eaten; the text up to the closing quote (no escapes in the modelled fragment) *)
Definition quoted (q:N) (s:str) : option (str * str) :=
  match s with
  | c :: s' => if N.eqb c q
               then let '(a, r) := span (fun x => negb (N.eqb x q)) s' in
                    match r with _ :: r' => Some (a, r') | [] => None end
               else None
  | [] => None
  end.
Definition pstr (s:str) : option (str * str) :=
  match quoted c_dq s with Some x => Some x | None => quoted c_sq s end.

Fixpoint nvp_item (fuel:nat) (s:str) : option (nval * str) :=
  match fuel with
  | O => None
  | S f =>
      match pstr s with
      | Some (v, r) => Some (NStr v, r)
      | None =>
          match lit s_lbr s with
          | None => None
          | Some r =>
              match nvp_item f r with
              | None => None
              | Some (v, r1) =>
                  let '(vs, r2) :=
                    (fix more (n:nat) (s:str) : list nval * str :=
                       match n with
                       | O => ([], s)
                       | S n' => match lit s_comma s with
                                 | Some r => match nvp_item f r with
                                             | Some (v, r') => let '(vs, r'') := more n' r' in (v :: vs, r'')
                                             | None => ([], s)
                                             end
                                 | None => ([], s)
                                 end
                       end) (List.length r1) r1 in
                  match lit s_rbr r2 with Some r3 => Some (NArr (v :: vs), r3) | None => None end
              end
          end
      end
  end.

(* nvp | modifier ; "=" and "~" are cut points *)
Definition attr_item (s:str) : res (aitem * str) :=
  let modifier :=
    match lit s_tilde s with
    | Some r => match tok mod_char r with Some (n, r') => RYes (AMod n, r') | None => RFatal end
    | None => RNo
    end in
  match tok is_word s with
  | Some (k, r) => match lit s_eq r with
                   | Some r' => match nvp_item (S (List.length r')) r' with Some (v, r'') => RYes (ANvp k v, r'') | None => RFatal end
                   | None => modifier
                   end
  | None => modifier
  end.
(* ("," item)* ; None = abandoned *)
Fixpoint more_items (fuel:nat) (s:str) : option (list aitem * str) :=
  match fuel with
  | O => Some ([], s)
  | S f => match lit s_comma s with
           | Some r => match attr_item r with
                       | RYes (i, r') => match more_items f r' with Some (is, r'') => Some (i :: is, r'') | None => None end
                       | RNo => Some ([], s)
                       | RFatal => None
                       end
           | None => Some ([], s)
           end
  end.
Definition attr (s:str) : res (list aitem * str) :=
  match lit s_lbr s with
  | None => RNo
  | Some r => match attr_item r with
              | RFatal => RFatal
              | RNo => RNo
              | RYes (i, r1) => match more_items (List.length r1) r1 with
                                | None => RFatal
                                | Some (is, r2) => match lit s_rbr r2 with Some r3 => RYes (i :: is, r3) | None => RNo end
                                end
              end
  end.
(* attr? ; None = abandoned *)
Definition attr_opt (s:str) : option (option (list aitem) * str) :=
  match attr s with RYes (a, r) => Some (Some a, r) | RNo => Some (None, s) | RFatal => None end.

(* ---------- type ---------- *)
Definition s_seq_of : str := bytes "sequence of ".  Definition s_set_of : str := bytes "set of ".
Fixpoint ptype (fuel:nat) (g:grammar) (s:str) : res (ptyp * str) :=
  match fuel with
  | O => RNo
  | S f =>
      (* sequence / set: the literal is a cut point *)
      match lit s_seq_of s with
      | Some r => match ptype f g r with RYes (t, r') => RYes (PTSeq t, r') | _ => RFatal end
      | None =>
      match lit s_set_of s with
      | Some r => match ptype f g r with RYes (t, r') => RYes (PTSet t, r') | _ => RFatal end
      | None =>
      match primitive g s with
      | Some (p, r) => RYes (PTPrim p, r)
      | None =>
      let raw_alt :=
        match raw s with
        | Some r => match attr_opt r with
                    | None => RFatal
                    | Some (a, r1) => match eol r1 with Some r2 => RYes (PTRaw a, r2) | None => RNo end
                    end
        | None => RNo
        end in
      match ref s with
      | RFatal => RFatal
      | RNo => raw_alt
      | RYes (app, t, r) =>
          match lit s_lbr r with
          | Some _ => RYes (PTRef app t, r)                                     (* ref (?="[") *)
          | None =>
              match attr_opt r with                                              (* ref attr? $ *)
              | None => RFatal
              | Some (_, r1) => match eol r1 with Some r2 => RYes (PTRef app t, r2) | None => raw_alt end
              end
          end
      end end end end
  end.

(* ---------- payload, and what tx / parseReturnPayload make of the tree ---------- *)
Fixpoint str_compare (a b:str) : comparison :=
  match a, b with
  | [], [] => Eq
  | [], _ :: _ => Lt
  | _ :: _, [] => Gt
  | x :: a', y :: b' => match N.compare x y with Eq => str_compare a' b' | c => c end
  end.
Definition str_eqb (a b:str) : bool := match str_compare a b with Eq => true | _ => false end.
Fixpoint nval_eqb (a b:nval) : bool :=
  match a, b with
  | NStr x, NStr y => str_eqb x y
  | NArr l1, NArr l2 =>
      (fix go (l1 l2:list nval) : bool :=
         match l1, l2 with
         | [], [] => true
         | x :: l1', y :: l2' => nval_eqb x y && go l1' l2'
         | _, _ => false
         end) l1 l2
  | _, _ => false
  end.

(* a set of strings in ascending order *)
Fixpoint set_insert (x:str) (l:list str) : list str :=
  match l with
  | [] => [x]
  | y :: l' => match str_compare x y with Lt => x :: l | Eq => l | Gt => y :: set_insert x l' end
  end.
(* a dictionary in ascending key order; None: one name, two values *)
Fixpoint dict_insert (k:str) (v:nval) (l:list (str * nval)) : option (list (str * nval)) :=
  match l with
  | [] => Some [(k, v)]
  | (k', v') :: l' =>
      match str_compare k k' with
      | Lt => Some ((k, v) :: l)
      | Eq => if nval_eqb v v' then Some l else None
      | Gt => match dict_insert k v l' with Some x => Some ((k', v') :: x) | None => None end
      end
  end.
Fixpoint collect (items:list aitem) : list str * option (list (str * nval)) :=
  match items with
  | [] => ([], Some [])
  | AMod n :: items' => let '(ms, d) := collect items' in (set_insert n ms, d)
  | ANvp k v :: items' => let '(ms, d) := collect items' in
                          (ms, match d with Some d' => dict_insert k v d' | None => None end)
  end.

Record pay := { py_status : str; py_type : option ptyp; py_mods : list str; py_nvp : list (str * nval) }.
Inductive presult := PErr | PCrash | POk (p:pay).

Definition s_sub : str := bytes "<:".
Definition finish (g:grammar) (st:str) (t:option ptyp) (s:str) : presult :=
  match attr_opt s with
  | None => PErr                                        (* abandoned at a cut point *)
  | Some (_, _ :: _) => PErr                            (* unconsumed input *)
  | Some (a, []) =>
      let items := match a with
                   | Some x => x
                   | None => match t with Some (PTRaw (Some x)) => x | _ => [] end
                   end in
      let '(ms, d) := collect items in
      match d with
      | Some d' => POk {| py_status := match st with [] => s_ok | _ => st end; py_type := t; py_mods := ms; py_nvp := d' |}
      | None => match g_dup g with DupPanics => PCrash | _ => PErr end
      end
  end.

Definition parse_payload (g:grammar) (s:str) : presult :=
  let fuel := S (List.length s) in
  match status s with
  | Some (st, r1) =>
      match lit s_sub r1 with
      | Some r2 => match ptype fuel g r2 with
                   | RYes (t, r3) => finish g st (Some t) r3
                   | RNo => finish g st None r1
                   | RFatal => PErr
                   end
      | None => finish g st None r1
      end
  | None =>
      match ptype fuel g s with
      | RYes (t, r) => finish g [] (Some t) r
      | _ => PErr
      end
  end.

(* unpackType: the type of the row; a reference without application belongs to the statement's application *)
Inductive sty := SPrim (p:str) | SRef (app:list str) (path:list str) | SSet (t:sty) | SSeq (t:sty).
Fixpoint unpack (app:list str) (t:ptyp) : sty :=
  match t with
  | PTPrim p => SPrim p
  | PTRaw _ => SPrim s_any
  | PTRef [] path => SRef app [path]
  | PTRef a path => SRef a [path]
  | PTSet t' => SSet (unpack app t')
  | PTSeq t' => SSeq (unpack app t')
  end.

(* ---------- annotation values (attrToValue) ---------- *)
(* a float64 is written m * 2^e with m odd (or 0 0) *)
Fixpoint strip_twos (p:positive) (e:Z) : positive * Z :=
  match p with xO p' => strip_twos p' (e + 1)%Z | _ => (p, e) end.
Definition canon (m:Z) (e:Z) : Z * Z :=
  match m with
  | Z0 => (0, 0)%Z
  | Zpos p => let '(q, e') := strip_twos p e in (Zpos q, e')
  | Zneg p => let '(q, e') := strip_twos p e in (Zneg q, e')
  end.
(* float64(int64): round to 53 significant bits, ties to even *)
Definition f64_of_Z (z:Z) : Z * Z :=
  let a := Z.abs z in
  let n := (Z.log2 a + 1)%Z in
  if (n <=? 53)%Z then canon z 0
  else
    let k := (n - 53)%Z in
    let q := Z.shiftr a k in
    let r := (a - Z.shiftl q k)%Z in
    let half := Z.shiftl 1 (k - 1) in
    let q' := if (half <? r)%Z || ((r =? half)%Z && Z.odd q) then (q + 1)%Z else q in
    canon (if (z <? 0)%Z then (- q')%Z else q') k.

(* strings are interned; the id of the empty string is fixed (Model.n_empty). arr.ai has ONE empty value: the empty
   string and the empty array both become it; inside an array it keeps its position *)
Definition id_empty_string : positive := 1048576%positive.
Inductive aval := AVStr (s:positive) | AVInt (z:Z) | AVNum (m e:Z) | AVArr (l:list aval).
Inductive rval := RVEmpty | RVStr (s:positive) | RVNum (m e:Z) | RVArr (l:list rval).
Fixpoint attr_to_value (a:aval) : rval :=
  match a with
  | AVStr s => if Pos.eqb s id_empty_string then RVEmpty else RVStr s
  | AVInt z => let '(m, e) := f64_of_Z z in RVNum m e
  | AVNum m e => RVNum m e
  | AVArr [] => RVEmpty
  | AVArr l => RVArr (map attr_to_value l)
  end.
