(* C17, the return-payload reader and the annotation value conversion (Payload.v): what holds for EVERY payload text
   and every grammar value, and what is false for the readings of the source before its repair (witnesses by vm_compute).
   - attributes are canonical: the modifiers of an accepted payload are a strictly ascending list (a set), its name-value
     pairs a strictly ascending dictionary (one value per name), its status is never empty;
   - a name with two different values: refused when the code checks for it, a crash when it does not;
   - PRIMITIVE written as (?:p1|...)\b accepts every listed primitive whatever the order; as an ordered choice of literals
     in declaration order it never reaches "int64" (refuted with a witness);
   - a reference without application resolves to the statement's application, any other keeps its own;
   - float64(int64) is exact below 2^53 and not beyond (witness 2^53+1). *)
From Coq Require Import List NArith ZArith PArith Bool Lia Sorted String.
Import ListNotations.
Require Import Verif.Relmod.Payload.
Local Open Scope list_scope.

(* ---------- the order on byte strings ---------- *)
Definition str_lt (a b:str) : Prop := str_compare a b = Lt.

Lemma str_compare_eq a : forall b, str_compare a b = Eq -> a = b.
Proof.
  induction a as [|x a IH]; intros [|y b]; cbn [str_compare]; try discriminate; [reflexivity|].
  destruct (N.compare x y) eqn:E; try discriminate. intros H. apply N.compare_eq in E. subst. f_equal. apply IH, H.
Qed.
Lemma str_compare_refl a : str_compare a a = Eq.
Proof. induction a as [|x a IH]; [reflexivity|]. cbn [str_compare]. rewrite N.compare_refl. exact IH. Qed.
Lemma str_compare_antisym a : forall b, str_compare b a = CompOpp (str_compare a b).
Proof.
  induction a as [|x a IH]; intros [|y b]; cbn [str_compare]; try reflexivity.
  rewrite (N.compare_antisym x y). destruct (N.compare x y); cbn [CompOpp]; [apply IH|reflexivity|reflexivity].
Qed.
Lemma str_lt_trans a : forall b c, str_lt a b -> str_lt b c -> str_lt a c.
Proof.
  unfold str_lt. induction a as [|x a IH]; intros [|y b] [|z c]; cbn [str_compare]; try discriminate; try reflexivity.
  destruct (N.compare x y) eqn:E1; try discriminate.
  - apply N.compare_eq in E1. subst y. destruct (N.compare x z); try discriminate; [apply IH|reflexivity].
  - intros _. destruct (N.compare y z) eqn:E2; try discriminate.
    + apply N.compare_eq in E2. subst z. rewrite E1. reflexivity.
    + intros _. rewrite N.compare_lt_iff in *. assert (H : (x < z)%N) by lia. apply N.compare_lt_iff in H. rewrite H. reflexivity.
Qed.
Lemma str_gt_lt a b : str_compare a b = Gt -> str_lt b a.
Proof. intros H. unfold str_lt. rewrite str_compare_antisym, H. reflexivity. Qed.

(* ---------- sets and dictionaries ---------- *)
Lemma set_insert_In x l y : In y (set_insert x l) -> y = x \/ In y l.
Proof.
  induction l as [|z l IH]; cbn [set_insert]; [intros [<-|[]]; left; reflexivity|].
  destruct (str_compare x z); cbn [In].
  - intros H. right. exact H.
  - intros [<-|H]; [left; reflexivity|right; exact H].
  - intros [<-|H]; [right; left; reflexivity|]. destruct (IH H) as [->|H']; [left; reflexivity|right; right; exact H'].
Qed.
Lemma set_insert_sorted x l : StronglySorted str_lt l -> StronglySorted str_lt (set_insert x l).
Proof.
  induction 1 as [|z l Hs IH Hz]; cbn [set_insert]; [repeat constructor|].
  destruct (str_compare x z) eqn:E.
  - constructor; assumption.
  - constructor; [constructor; assumption|]. constructor; [exact E|].
    rewrite Forall_forall in *. intros y Hy. eapply str_lt_trans; [exact E|apply Hz, Hy].
  - constructor; [exact IH|]. rewrite Forall_forall in *. intros y Hy.
    destruct (set_insert_In _ _ _ Hy) as [->|Hy']; [apply str_gt_lt, E|apply Hz, Hy'].
Qed.

Lemma dict_insert_keys k v l l' y : dict_insert k v l = Some l' -> In y (map fst l') -> y = k \/ In y (map fst l).
Proof.
  revert l'. induction l as [|[k' v'] l IH]; intros l'; cbn [dict_insert].
  - intros [= <-] [<-|[]]. left; reflexivity.
  - destruct (str_compare k k').
    + destruct (nval_eqb v v'); [|discriminate]. intros [= <-] H. right; exact H.
    + intros [= <-] [<-|H]; [left; reflexivity|right; exact H].
    + destruct (dict_insert k v l) as [x|]; [|discriminate]. intros [= <-] [<-|H]; [right; left; reflexivity|].
      destruct (IH _ eq_refl H) as [->|H']; [left; reflexivity|right; right; exact H'].
Qed.
Lemma dict_insert_sorted k v l l' :
  StronglySorted str_lt (map fst l) -> dict_insert k v l = Some l' -> StronglySorted str_lt (map fst l').
Proof.
  revert l'. induction l as [|[k' v'] l IH]; intros l' Hs; cbn [dict_insert].
  - intros [= <-]. repeat constructor.
  - cbn [map fst] in Hs. inversion Hs as [|? ? Hs' Hk]; subst. destruct (str_compare k k') eqn:E.
    + destruct (nval_eqb v v'); [|discriminate]. intros [= <-]. exact Hs.
    + intros [= <-]. cbn [map fst]. constructor; [exact Hs|]. constructor; [exact E|].
      rewrite Forall_forall in *. intros y Hy. eapply str_lt_trans; [exact E|apply Hk, Hy].
    + destruct (dict_insert k v l) as [x|] eqn:Ed; [|discriminate]. intros [= <-]. cbn [map fst].
      constructor; [apply (IH _ Hs' eq_refl)|]. rewrite Forall_forall in *. intros y Hy.
      destruct (dict_insert_keys _ _ _ _ _ Ed Hy) as [->|Hy']; [apply str_gt_lt, E|apply Hk, Hy'].
Qed.

Lemma collect_canonical items : forall ms d, collect items = (ms, Some d) ->
  StronglySorted str_lt ms /\ StronglySorted str_lt (map fst d).
Proof.
  induction items as [|[n|k v] items IH]; intros ms d; cbn [collect].
  - intros [= <- <-]. split; constructor.
  - destruct (collect items) as [ms0 d0]. intros [= <- ->]. destruct (IH _ _ eq_refl) as [H1 H2].
    split; [apply set_insert_sorted, H1|exact H2].
  - destruct (collect items) as [ms0 [d0|]]; [|discriminate]. intros [= <- Hd]. destruct (IH _ _ eq_refl) as [H1 H2].
    split; [exact H1|eapply dict_insert_sorted; eassumption].
Qed.

(* every accepted payload: a status, the modifiers a set, the name-value pairs a dictionary *)
Definition pay_canonical (py:pay) : Prop :=
  py_status py <> [] /\ StronglySorted str_lt (py_mods py) /\ StronglySorted str_lt (map fst (py_nvp py)).

Lemma finish_canonical g st t s py : finish g st t s = POk py -> pay_canonical py.
Proof.
  unfold finish. destruct (attr_opt s) as [[a [|c r]]|]; try discriminate.
  destruct (collect _) as [ms [d|]] eqn:E; [|destruct (g_dup g); discriminate].
  intros [= <-]. destruct (collect_canonical _ _ _ E) as [H1 H2]. unfold pay_canonical. cbn [py_status py_mods py_nvp].
  split; [|split; assumption]. destruct st; [vm_compute; discriminate|discriminate].
Qed.

Theorem parse_ok_canonical g s py : parse_payload g s = POk py -> pay_canonical py.
Proof.
  unfold parse_payload. destruct (status s) as [[st r1]|].
  - destruct (lit s_sub r1) as [r2|]; [|apply finish_canonical].
    destruct (ptype _ g r2) as [| |[t r3]]; [discriminate|apply finish_canonical|apply finish_canonical].
  - destruct (ptype _ g s) as [| |[t r]]; [discriminate|discriminate|apply finish_canonical].
Qed.

(* ---------- a name with two values ---------- *)
Lemma finish_no_crash g st t s : g_dup g <> DupPanics -> finish g st t s <> PCrash.
Proof.
  intros Hg. unfold finish. destruct (attr_opt s) as [[a [|c r]]|]; try discriminate.
  destruct (collect _) as [ms [d|]]; [discriminate|]. destruct (g_dup g); [congruence|discriminate|discriminate].
Qed.
Theorem parse_never_crashes g s : g_dup g <> DupPanics -> parse_payload g s <> PCrash.
Proof.
  intros Hg. unfold parse_payload. destruct (status s) as [[st r1]|].
  - destruct (lit s_sub r1) as [r2|]; [|apply finish_no_crash, Hg].
    destruct (ptype _ g r2) as [| |[t r3]]; [discriminate|apply finish_no_crash, Hg|apply finish_no_crash, Hg].
  - destruct (ptype _ g s) as [| |[t r]]; [discriminate|discriminate|apply finish_no_crash, Hg].
Qed.

(* the grammar value of the source BEFORE the repairs: PRIMITIVE as an ordered choice in declaration order, modifiers in
   set order, no check for a name with two values *)
Local Open Scope string_scope.
Definition grammar_before : grammar :=
  {| g_prim_mode := PrimChoice;
     g_prims := map bytes ["int"; "int32"; "int64"; "float"; "float32"; "float64"; "decimal"; "bool"; "bytes"; "string"; "date"; "datetime"; "any"];
     g_mods := ModsSetOrder; g_dup := DupPanics; g_nil := NilDeref |}.
Theorem parse_never_crashes_refuted_for_unchecked_duplicates :
  exists s, parse_payload grammar_before s = PCrash.
Proof. exists (bytes "ok <: T [k=""1"", k=""2""]"). vm_compute. reflexivity. Qed.
(* ... and the same text is refused once the check is there *)
Example duplicate_name_refused_when_checked :
  parse_payload {| g_prim_mode := PrimChoice; g_prims := g_prims grammar_before; g_mods := ModsSetOrder; g_dup := DupRefused; g_nil := NilGuarded |}
                (bytes "ok <: T [k=""1"", k=""2""]") = PErr.
Proof. vm_compute. reflexivity. Qed.

(* ---------- PRIMITIVE ---------- *)
Local Open Scope list_scope.
Definition wordy (p:str) : Prop := p <> [] /\ Forall (fun c => is_word c = true) p.
Definition at_boundary (r:str) : Prop := match r with [] => True | c :: _ => is_word c = false end.

Lemma strip_prefix_app p r : strip_prefix p (p ++ r) = Some r.
Proof. induction p as [|c p IH]; [reflexivity|]. cbn [strip_prefix List.app]. rewrite N.eqb_refl. exact IH. Qed.
Lemma strip_prefix_inv p : forall s r, strip_prefix p s = Some r -> s = p ++ r.
Proof.
  induction p as [|c p IH]; intros s r; cbn [strip_prefix]; [intros [= ->]; reflexivity|].
  destruct s as [|d s]; [discriminate|]. destruct (N.eqb c d) eqn:E; [|discriminate]. apply N.eqb_eq in E. subst d.
  intros H. cbn [List.app]. f_equal. apply IH, H.
Qed.
Lemma last_word p : wordy p -> match rev p with c :: _ => is_word c | [] => false end = true.
Proof.
  intros [Hn Hw]. destruct (rev p) as [|c l] eqn:E.
  - apply (f_equal (@rev N)) in E. rewrite rev_involutive in E. cbn in E. congruence.
  - rewrite Forall_forall in Hw. apply Hw. apply in_rev. rewrite E. left; reflexivity.
Qed.
Lemma ends_word_boundary p r : wordy p -> at_boundary r -> ends_word p r = true.
Proof.
  intros Hp Hr. unfold ends_word. rewrite (last_word _ Hp). destruct r as [|c r]; [reflexivity|]. cbn in Hr. rewrite Hr. reflexivity.
Qed.
(* inside a wordy p nothing shorter ends at a word boundary *)
Lemma wordy_tail c c2 q : wordy (c :: c2 :: q) -> is_word c = true /\ is_word c2 = true /\ wordy (c2 :: q).
Proof.
  intros [_ H]. inversion H as [|? ? Hc H']; subst. inversion H' as [|? ? Hc2 _]; subst.
  repeat split; try assumption. discriminate.
Qed.
Lemma ends_word_cons c c2 q x : ends_word (c :: c2 :: q) x = ends_word (c2 :: q) x.
Proof.
  unfold ends_word. cbn [rev]. destruct (rev q ++ [c2]) as [|z l] eqn:Ez; [destruct (rev q); discriminate|]. reflexivity.
Qed.
Lemma no_inner_boundary q : forall p r x,
  wordy q -> wordy p -> at_boundary r -> q ++ x = p ++ r -> ends_word q x = true -> q = p /\ x = r.
Proof.
  induction q as [|c q IH]; intros p r x Hq Hp Hr E Hb; [destruct Hq as [Hq _]; congruence|].
  destruct p as [|d p]; [destruct Hp as [Hp _]; congruence|]. cbn [List.app] in E. injection E as Ecd E. subst d.
  destruct q as [|c2 q], p as [|d2 p].
  - cbn [List.app] in E. subst x. split; reflexivity.
  - exfalso. cbn [List.app] in E. subst x. destruct (wordy_tail _ _ _ Hp) as (Hc & Hd2 & _).
    unfold ends_word in Hb. cbn [rev List.app] in Hb. rewrite Hc, Hd2 in Hb. discriminate.
  - exfalso. cbn [List.app] in E. destruct (wordy_tail _ _ _ Hq) as (_ & Hc2 & _).
    rewrite <- E in Hr. cbn in Hr. congruence.
  - destruct (wordy_tail _ _ _ Hq) as (_ & _ & Hq'). destruct (wordy_tail _ _ _ Hp) as (_ & _ & Hp').
    rewrite ends_word_cons in Hb. destruct (IH _ _ _ Hq' Hp' Hr E Hb) as [E1 E2]. rewrite E1, E2. split; reflexivity.
Qed.

(* (?:p1|p2|...)\b : every listed primitive is read as itself, whatever the order of the alternatives *)
Theorem word_primitive_accepts ps p r :
  Forall wordy ps -> In p ps -> at_boundary r -> first_word ps (p ++ r) = Some (p, skip_ws r).
Proof.
  intros Hall Hin Hr. induction ps as [|q ps IH]; [destruct Hin|]. cbn [first_word].
  inversion Hall as [|? ? Hq Hall']; subst.
  assert (Hp : wordy p) by (rewrite Forall_forall in Hall; apply Hall, Hin).
  destruct (strip_prefix q (p ++ r)) as [x|] eqn:E.
  - apply strip_prefix_inv in E. destruct (ends_word q x) eqn:Hb.
    + destruct (no_inner_boundary _ _ _ _ Hq Hp Hr (eq_sym E) Hb) as [E1 E2]. rewrite E1, E2. reflexivity.
    + destruct Hin as [->|Hin]; [|apply IH; assumption].
      exfalso. apply app_inv_head in E. subst x. rewrite (ends_word_boundary _ _ Hp Hr) in Hb. discriminate.
  - destruct Hin as [->|Hin]; [rewrite strip_prefix_app in E; discriminate|apply IH; assumption].
Qed.

(* an ordered choice of literals in declaration order: "int" shadows "int64" *)
Theorem choice_primitive_refuted_for_declaration_order :
  exists p, In p (g_prims grammar_before) /\ parse_payload grammar_before (bytes "ok <: " ++ p) = PErr.
Proof. exists (bytes "int64"). split; [vm_compute; tauto|vm_compute; reflexivity]. Qed.

(* ---------- unpackType ---------- *)
Theorem unpack_local_reference sa path : unpack sa (PTRef [] path) = SRef sa [path].
Proof. reflexivity. Qed.
Theorem unpack_foreign_reference sa sa' a app path : unpack sa (PTRef (a :: app) path) = unpack sa' (PTRef (a :: app) path).
Proof. reflexivity. Qed.

(* ---------- float64(int64) ---------- *)
Local Open Scope Z_scope.
Definition fvalue (me:Z * Z) : Z := fst me * 2 ^ snd me.

Lemma strip_twos_value p : forall e, 0 <= e -> let '(q, e') := strip_twos p e in Zpos q * 2 ^ e' = Zpos p * 2 ^ e /\ 0 <= e'.
Proof.
  induction p as [p IH|p IH|]; intros e He; cbn [strip_twos]; try (split; [reflexivity|exact He]).
  specialize (IH (e + 1) ltac:(lia)). destruct (strip_twos p (e + 1)) as [q e']. destruct IH as [IH1 IH2]. split; [|exact IH2].
  rewrite IH1, Z.pow_add_r by lia. change (Zpos p~0) with (2 * Zpos p). lia.
Qed.
Lemma canon_value m e : 0 <= e -> fvalue (canon m e) = m * 2 ^ e.
Proof.
  intros He. unfold canon, fvalue. destruct m as [|p|p]; cbn [fst snd]; [reflexivity| |].
  - pose proof (strip_twos_value p e He) as H. destruct (strip_twos p e) as [q e']. cbn [fst snd]. apply H.
  - pose proof (strip_twos_value p e He) as H. destruct (strip_twos p e) as [q e']. cbn [fst snd]. destruct H as [H _].
    change (Zneg q) with (- Zpos q). change (Zneg p) with (- Zpos p). lia.
Qed.

Theorem f64_of_Z_exact_partial z : Z.abs z < 2 ^ 53 -> fvalue (f64_of_Z z) = z.
Proof.
  intros H. unfold f64_of_Z.
  assert (Hn : (Z.log2 (Z.abs z) + 1 <=? 53) = true).
  { apply Z.leb_le. destruct (Z.eq_dec (Z.abs z) 0) as [E|E]; [rewrite E; cbn; lia|].
    assert (Z.log2 (Z.abs z) < 53); [|lia]. apply Z.log2_lt_pow2; lia. }
  rewrite Hn, canon_value by lia. lia.
Qed.
Theorem f64_of_Z_exact_refuted : exists z, Z.abs z < 2 ^ 63 /\ fvalue (f64_of_Z z) <> z.
Proof. exists (2 ^ 53 + 1). split; [reflexivity|vm_compute; discriminate]. Qed.
Example f64_of_Z_rounds_to_even :
  map (fun z => fvalue (f64_of_Z z)) [2 ^ 53 + 1; 2 ^ 53 + 2; 2 ^ 53 + 3; - (2 ^ 53 + 3); 2 ^ 63 - 1] =
  [2 ^ 53; 2 ^ 53 + 2; 2 ^ 53 + 4; - (2 ^ 53 + 4); 2 ^ 63].
Proof. vm_compute. reflexivity. Qed.
