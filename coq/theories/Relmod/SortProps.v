(* sortedKeys as modelled (insertion sort by key): a permutation of its input, sorted, and - for lists whose keys are
   pairwise distinct, as the keys of a Go map are - the SAME list for every order in which the map was iterated. *)
From Coq Require Import List PArith Lia Permutation Sorted.
Import ListNotations.
Require Import Verif.Relmod.Model.

Section SortProps.
  Context {A:Type} (k:A -> positive).
  Definition kle (x y:A) : Prop := (k x <= k y)%positive.

  Lemma insert_by_perm x l : Permutation (insert_by k x l) (x :: l).
  Proof.
    induction l as [|y l IH]; cbn [insert_by]; [apply Permutation_refl|].
    destruct (Pos.leb (k x) (k y)); [apply Permutation_refl|].
    eapply Permutation_trans; [apply perm_skip, IH|apply perm_swap].
  Qed.

  Lemma sorted_by_perm l : Permutation (sorted_by k l) l.
  Proof.
    induction l as [|x l IH]; cbn [sorted_by]; [constructor|].
    eapply Permutation_trans; [apply insert_by_perm|apply perm_skip, IH].
  Qed.

  Lemma sorted_by_length l : length (sorted_by k l) = length l.
  Proof. apply Permutation_length, sorted_by_perm. Qed.

  Lemma sorted_by_In x l : In x (sorted_by k l) <-> In x l.
  Proof.
    split; intros H; [eapply Permutation_in; [apply sorted_by_perm|exact H]|].
    eapply Permutation_in; [apply Permutation_sym, sorted_by_perm|exact H].
  Qed.

  Lemma insert_by_sorted x l : StronglySorted kle l -> StronglySorted kle (insert_by k x l).
  Proof.
    induction 1 as [|y l Hs IH Hy]; cbn [insert_by]; [repeat constructor|].
    destruct (Pos.leb (k x) (k y)) eqn:E.
    - apply Pos.leb_le in E. constructor; [constructor; assumption|].
      constructor; [exact E|]. eapply Forall_impl; [|exact Hy]. intros z Hz. unfold kle in *. lia.
    - apply Pos.leb_gt in E. constructor; [exact IH|].
      eapply Permutation_Forall; [apply Permutation_sym, insert_by_perm|].
      constructor; [unfold kle; lia|exact Hy].
  Qed.

  Lemma sorted_by_sorted l : StronglySorted kle (sorted_by k l).
  Proof. induction l as [|x l IH]; cbn [sorted_by]; [constructor|apply insert_by_sorted, IH]. Qed.

  Lemma sorted_perm_unique l1 : forall l2,
    NoDup (map k l1) -> StronglySorted kle l1 -> StronglySorted kle l2 -> Permutation l1 l2 -> l1 = l2.
  Proof.
    induction l1 as [|a l1 IH]; intros l2 Hnd H1 H2 Hp.
    - apply Permutation_nil in Hp. subst. reflexivity.
    - destruct l2 as [|b l2]; [apply Permutation_sym, Permutation_nil in Hp; discriminate|].
      assert (E : a = b).
      { assert (Ha : In a (b :: l2)) by (eapply Permutation_in; [exact Hp|left; reflexivity]).
        assert (Hb : In b (a :: l1)) by (eapply Permutation_in; [apply Permutation_sym, Hp|left; reflexivity]).
        destruct Ha as [Ha|Ha]; [symmetry; exact Ha|]. destruct Hb as [Hb|Hb]; [exact Hb|]. exfalso.
        inversion H1 as [|? ? _ F1]; subst. inversion H2 as [|? ? _ F2]; subst.
        rewrite Forall_forall in F1, F2. specialize (F1 b Hb). specialize (F2 a Ha). unfold kle in *.
        assert (Ek : k a = k b) by lia.
        cbn [map] in Hnd. inversion Hnd as [|? ? Hn _]; subst. apply Hn. rewrite Ek. apply in_map, Hb. }
      subst b. f_equal. apply IH.
      + cbn [map] in Hnd. inversion Hnd; assumption.
      + inversion H1; assumption.
      + inversion H2; assumption.
      + eapply Permutation_cons_inv, Hp.
  Qed.

  (* the walk does not depend on the iteration order of the map *)
  Theorem sorted_by_perm_eq l l' : NoDup (map k l) -> Permutation l l' -> sorted_by k l = sorted_by k l'.
  Proof.
    intros Hnd Hp. apply sorted_perm_unique.
    - eapply Permutation_NoDup; [|exact Hnd]. apply Permutation_map, Permutation_sym, sorted_by_perm.
    - apply sorted_by_sorted.
    - apply sorted_by_sorted.
    - eapply Permutation_trans; [apply sorted_by_perm|].
      eapply Permutation_trans; [exact Hp|apply Permutation_sym, sorted_by_perm].
  Qed.
End SortProps.

Lemma list_sum_perm l l' : Permutation l l' -> list_sum l = list_sum l'.
Proof.
  induction 1 as [|x l l' _ IH|x y l|l l' l'' _ IH1 _ IH2]; cbn [list_sum fold_right] in *; try lia.
  unfold list_sum in *. cbn [fold_right]. lia.
Qed.

Lemma list_sum_map_sorted {A} (f:A -> nat) (k:A -> positive) l :
  list_sum (map f (sorted_by k l)) = list_sum (map f l).
Proof. apply list_sum_perm, Permutation_map, sorted_by_perm. Qed.
