(* Model of pkg/arrai/relmod/normalize.go (Normalize): a compiled module -> rows of the relational schema.
   Definitions only; proofs are in StmtProps.v / CensusProps.v.

   Names are positive ids (the harness interns every string of one module); the reserved ids below are
   the string constants the Go code compares against or emits.  Rows are emitted in the order in which
   the Go code appends them (per application: App, app tags/annos, mixins, endpoints [params,
   statements in post-order], types [fields], views); the relation a row belongs to is its r_rel tag.
   Maps of the module (Endpoints, Types, AttrDefs, Attrs, Views) arrive as lists in any order (the Go iteration
   order is random) and are walked in ascending key order, as the code does since it ranges over sortedKeys(...).

   Position paths: `path_items` is the value-semantics construction (the code after the fix: a fresh
   copy of the parent path per child); `heap_items` models Go slices with shared backing arrays, i.e.
   `append(parentIndex, i)` writing into the parent's spare capacity.  Which of the two the CURRENT
   source uses is read from Gen.RelmodShape (child_index_mode / alt_index_mode).

   Return payloads are byte strings read by Payload.parse_payload (the embedded grammar, transliterated); annotation
   values go through Payload.attr_to_value; every normalize*Meta function also emits the Src.* rows (source contexts
   of the element and of each annotation).  How PRIMITIVE is written in the grammar, the order of the modifiers and
   what happens to a name given two values are read from the source (a `grammar` value, Gen.RelmodShape.payload_grammar).

   Outside the model: the Import relation, payloads with a backslash or "{" (LRetOpaque: class observed, contents
   not compared), panics on malformed attribute shapes. *)
From Coq Require Import List NArith ZArith PArith Bool.
Import ListNotations.
Require Export Verif.Relmod.Payload.

Definition name := positive.
Definition appname := list name.

(* The harness interns ORDER-PRESERVINGLY: ids compare (Pos order) as the strings do in Go (bytewise), so that the
   sortedKeys walks of the code are sorts by id here. The six constants keep fixed ids 2^20 apart; a string with j
   constants below it gets j * 2^20 + its rank among such strings. *)
Definition n_empty : name := id_empty_string.          (* "" = 1048576 *)
Definition n_placeholder : name := 2097152%positive.  (* "..." *)
Definition n_any : name := 3145728%positive.          (* "any" *)
Definition n_method : name := 4194304%positive.       (* "method" *)
Definition n_path : name := 5242880%positive.         (* "path" *)
Definition n_query : name := 6291456%positive.        (* "query" *)

(* sortedKeys: insertion sort by key (the keys of a Go map are distinct, so stability is immaterial) *)
Section Sort.
  Context {A:Type} (k:A -> positive).
  Fixpoint insert_by (x:A) (l:list A) : list A :=
    match l with
    | [] => [x]
    | y :: l' => if Pos.leb (k x) (k y) then x :: l else y :: insert_by x l'
    end.
  Fixpoint sorted_by (l:list A) : list A :=
    match l with [] => [] | x :: l' => insert_by x (sorted_by l') end.
End Sort.
Definition sort_names : list name -> list name := sorted_by (fun n => n).

(* ---------- types (relmod.go parseFieldType) ---------- *)
Inductive mtype :=
| MPrim (p:name) | MTuple
| MRef (refapp ctxapp : option appname) (path : list name)
| MSet (t:mtype) | MSeq (t:mtype) | MList (t:mtype)
| MNoType
(* the other kinds a *sysl.Type can have in a field / parameter / alias position; parseFieldType answers nil for each *)
| MEnumT | MRelationT | MMap (k v:mtype) | MOneOf (ts:list mtype) | MUnset.

Inductive ty := TyNil | TyPrim (p:name) | TyTuple | TyRef (app:appname) (path:list name) | TySet (t:ty) | TySeq (t:ty).

Fixpoint parse_field_type (app:appname) (t:mtype) : ty :=
  match t with
  | MPrim p => TyPrim p
  | MTuple => TyTuple
  | MRef (Some a) _ path => TyRef a path
  | MRef None (Some c) path => TyRef c path
  | MRef None None path => TyRef app path
  | MSet t' => TySet (parse_field_type app t')
  | MSeq t' => TySeq (parse_field_type app t')
  | MNoType => TyNil
  | MList t' => parse_field_type app t'
  | MEnumT | MRelationT | MMap _ _ | MOneOf _ | MUnset => TyNil       (* the `default:` arm *)
  end.

(* ---------- module projection ---------- *)
(* what a normalize*Meta function reads of an element: Attrs ("patterns" = the tags, every other attribute an
   annotation with its value and its own source contexts) and SourceContexts *)
Record srcctx := { sc_file : name; sc_pos : list N }.        (* file; start line, start col, end line, end col *)
Record anno := { an_name : name; an_val : aval; an_srcs : list srcctx }.
Record attrs := { a_tags : list name; a_annos : list anno; a_srcs : list srcctx }.

(* a statement row is labelled with its text (interned) or, for a return, with the payload text (bytes) that
   item_row hands to the payload reader *)
Definition label := (name * option str)%type.
(* LRet: `return <payload>`; LRetOpaque: a payload outside the modelled fragment - refused or not, as observed *)
Inductive leafkind := LAction | LCall | LRet (payload:str) | LRetOpaque (bad:bool) | LNone.
Inductive blockkind := BCond | BLoop | BLoopN | BForeach | BGroup.
Inductive stmt :=
| SLeaf (k:leafkind) (t:name) (a:attrs)
| SBlock (k:blockkind) (t:name) (a:attrs) (body:list stmt)
| SAlt (a:attrs) (choices:list (name * list stmt)).

Record ptype := { pt_ty : mtype; pt_opt : bool; pt_attrs : attrs }.
Record param := { p_name : name; p_type : option ptype }.
Record endpoint := { e_name : name; e_long : name; e_doc : name; e_pubsub : bool;
                     e_source : option (appname * name);             (* Source.Part, the text after " -> " in the name *)
                     e_rest : option (name * name * list param * list param);   (* Method, Path, UrlParam, QueryParam *)
                     e_params : list param; e_attrs : attrs; e_stmts : list stmt }.
(* sysl.Type_Constraint: Length, Precision, Scale are what normalizeField reads; Range (two optional sysl.Value bounds),
   BitWidth and Resolution (base, index) are carried by compiled modules (int32 / int64 / float32 / float64 fields) and
   are not looked at *)
Inductive cval := CVInt (z:Z) | CVOther.
Record constr := { c_len : option (Z * Z); c_prec : Z; c_scale : Z;
                   c_range : option (option cval * option cval); c_bits : Z; c_res : option (Z * Z) }.
Record field := { f_name : name; f_ty : mtype; f_opt : bool; f_constraints : list constr; f_attrs : attrs }.
Inductive tdef :=
| DTuple (fs:list field)
| DRelation (pk:list name) (fs:list field)
| DAlias (t:mtype)                      (* Primitive / Sequence / Set / TypeRef *)
| DEnum (items:list (name * Z))
(* the kinds normalizeType's switch has no arm for: a Type row (and the type's meta rows) only *)
| DMap (k v:mtype) | DOneOf (ts:list mtype) | DNoType | DList (t:mtype) | DUnset.
Record typedecl := { t_name : name; t_doc : name; t_opt : bool; t_def : tdef; t_attrs : attrs }.
(* sysl.View: normalizeView reads RetType, Attrs and SourceContexts; Param and Expr (opaque: the harness hands over a
   digest of the expression) are not looked at *)
Record view := { v_name : name; v_ret : option mtype (* None: the view declares no return type and none was inferred *);
                 v_attrs : attrs; v_params : list param; v_expr : name }.
Record app := { ap_name : appname; ap_sname : list str (* the same name as bytes: payload references resolve to it *);
                ap_long : name; ap_doc : name; ap_attrs : attrs; ap_mixins : list (appname * attrs);
                ap_eps : list endpoint; ap_types : list typedecl; ap_views : list view }.
Definition module := list app.         (* in the order of the sorted map keys, as normalizeModule visits them *)

(* ---------- rows ---------- *)
Inductive owner := OApp | OMixin | OEp | OParam | OStmt | OEvent | OType | OField | OView.
Inductive relname :=
| RApp | RMixin | REp | REvent | RParam | RStmt | RType | RTable | RField | REnum | RAlias | RView
| RTag (o:owner) | RAnno (o:owner)
| RSrc (o:owner) | RSrcAnno (o:owner).           (* Src.<owner> and Src.Anno.<owner> *)

(* the columns that are not names / numbers / a field type *)
Inductive xinfo :=
| XNone
| XVal (v:rval)                                                       (* annotation value *)
| XRet (status:str) (t:option sty) (mods:list str) (nvp:list (str * nval))   (* StmtRet *)
| XSrc (first:srcctx) (all:list srcctx)                               (* <X>Src, <X>Srcs *)
| XSrcs (all:list srcctx).                                            (* AnnoSrcs *)

Record row := { r_rel : relname; r_app : appname; r_names : list name; r_path : list N; r_nums : list Z; r_ty : ty;
                r_app2 : appname; r_x : xinfo }.
Definition mkx (r:relname) (a:appname) (ns:list name) (p:list N) (zs:list Z) (x:xinfo) : row :=
  {| r_rel := r; r_app := a; r_names := ns; r_path := p; r_nums := zs; r_ty := TyNil; r_app2 := []; r_x := x |}.
Definition mk (r:relname) (a:appname) (ns:list name) (p:list N) (zs:list Z) (t:ty) : row :=
  {| r_rel := r; r_app := a; r_names := ns; r_path := p; r_nums := zs; r_ty := t; r_app2 := []; r_x := XNone |}.
Definition mk2 (r:relname) (a:appname) (ns:list name) (zs:list Z) (a2:appname) : row :=
  {| r_rel := r; r_app := a; r_names := ns; r_path := []; r_nums := zs; r_ty := TyNil; r_app2 := a2; r_x := XNone |}.

Definition zb (b:bool) : Z := if b then 1%Z else 0%Z.

(* normalizeXMeta: one tag row per tag (array order); per non-"patterns" attribute in name order one annotation row
   with its value and, when the attribute has source contexts, one Src.Anno row; then, when the element has source
   contexts, its Src row (first context and all of them) *)
Definition anno_rows (o:owner) (a:appname) (keys:list name) (p:list N) (zs:list Z) (an:anno) : list row :=
  mkx (RAnno o) a (keys ++ [an_name an]) p zs (XVal (attr_to_value (an_val an))) ::
  match an_srcs an with
  | [] => []
  | _ :: _ => [mkx (RSrcAnno o) a (keys ++ [an_name an]) p zs (XSrcs (an_srcs an))]
  end.
Definition src_rows (o:owner) (a:appname) (keys:list name) (p:list N) (zs:list Z) (srcs:list srcctx) : list row :=
  match srcs with [] => [] | s :: _ => [mkx (RSrc o) a keys p zs (XSrc s srcs)] end.
Definition meta (o:owner) (a:appname) (keys:list name) (p:list N) (zs:list Z) (at_:attrs) : list row :=
  map (fun t => mk (RTag o) a (keys ++ [t]) p zs TyNil) (a_tags at_) ++
  concat (map (anno_rows o a keys p zs) (sorted_by an_name (a_annos at_))) ++
  src_rows o a keys p zs (a_srcs at_).

(* ---------- statements ---------- *)
(* which Stmt* column of the row is set *)
Definition leaf_code (k:leafkind) (t:name) : Z :=
  match k with
  | LAction => if Pos.eqb t n_empty then 0 else 1       (* StmtAction = "" is indistinguishable from unset *)
  | LCall => 2
  | LRet [] => 0                                        (* `Payload != ""` guard: nothing set *)
  | LRet _ => 8
  | LRetOpaque _ => 8
  | LNone => 0
  end%Z.
Definition block_code (k:blockkind) : Z :=
  match k with BCond => 3 | BLoop => 4 | BLoopN => 5 | BForeach => 6 | BGroup => 7 end%Z.
Definition choice_code : Z := 9%Z.
Definition leaf_label (k:leafkind) (t:name) : label :=
  match k with LRet (c :: p) => (t, Some (c :: p)) | _ => (t, None) end.
(* `if stmt.GetAction().Action == placeholder { return nil }` *)
Definition hidden (k:leafkind) (t:name) : bool :=
  match k with LAction => Pos.eqb t n_placeholder | _ => false end.

(* item = what one statement contributes, with the position path still abstract (list N or Go slice) *)
Inductive sitem (P:Type) :=
| IRow (p:P) (code:Z) (t:label) | ITag (p:P) (t:name) | IAnno (p:P) (n:name) (v:rval)
| ISrcAnno (p:P) (n:name) (srcs:list srcctx) | ISrc (p:P) (first:srcctx) (srcs:list srcctx).
Arguments IRow {P}. Arguments ITag {P}. Arguments IAnno {P}. Arguments ISrcAnno {P}. Arguments ISrc {P}.

(* normalizeStatementMeta *)
Definition sanno {P} (p:P) (an:anno) : list (sitem P) :=
  IAnno p (an_name an) (attr_to_value (an_val an)) ::
  match an_srcs an with [] => [] | _ :: _ => [ISrcAnno p (an_name an) (an_srcs an)] end.
Definition ssrc {P} (p:P) (srcs:list srcctx) : list (sitem P) :=
  match srcs with [] => [] | s :: _ => [ISrc p s srcs] end.
Definition smeta {P} (p:P) (a:attrs) : list (sitem P) :=
  map (ITag p) (a_tags a) ++ concat (map (sanno p) (sorted_by an_name (a_annos a))) ++ ssrc p (a_srcs a).

Definition mapi_from {A B} (f : N -> A -> B) : list A -> N -> list B :=
  fix go (l:list A) (i:N) : list B :=
    match l with [] => [] | x :: l' => f i x :: go l' (N.succ i) end.

(* path of the row that receives an alt statement's attributes: the LAST choice (normalizeStatementMeta is
   called with statement.StmtIndex after the loop), the alt's own index when there is no choice *)
Definition last_choice_path (idx:list N) (n:nat) : list N :=
  match n with O => idx | S k => idx ++ [N.of_nat k] end.

(* normalizeStatement with value-semantics paths. Children first, then the statement's own row, then its meta. *)
Fixpoint path_items (st:stmt) (idx:list N) : list (sitem (list N)) :=
  match st with
  | SLeaf k t a => if hidden k t then [] else IRow idx (leaf_code k t) (leaf_label k t) :: smeta idx a
  | SBlock k t a body =>
      concat (mapi_from (fun i c => path_items c (idx ++ [i])) body 0%N)
      ++ IRow idx (block_code k) (t, None) :: smeta idx a
  | SAlt a choices =>
      concat (mapi_from (fun i (ch:name * list stmt) =>
                concat (mapi_from (fun j c => path_items c ((idx ++ [i]) ++ [j])) (snd ch) 0%N)
                ++ [IRow (idx ++ [i]) choice_code (fst ch, None)]) choices 0%N)
      ++ smeta (last_choice_path idx (length choices)) a
  end.

(* `for i, stmt := range ep.Stmt { normalizeStatement(..., []int{i}) }` *)
Definition ep_items_pure (stmts:list stmt) : list (sitem (list N)) :=
  concat (mapi_from (fun i s => path_items s [i]) stmts 0%N).

(* ---- Go slices: (backing array, len, cap); append writes in place when len < cap ---- *)
Inductive idx_mode := ShareAppend | CopyParent | UnknownMode.
Record slice := { s_arr : nat; s_len : nat; s_cap : nat }.
Definition heap := list (list N).

Fixpoint set_nth (l:list N) (n:nat) (v:N) : list N :=
  match l, n with
  | [], _ => []
  | _ :: l', O => v :: l'
  | x :: l', S n' => x :: set_nth l' n' v
  end.
Fixpoint set_arr (h:heap) (a:nat) (n:nat) (v:N) : heap :=
  match h, a with
  | [], _ => []
  | x :: h', O => set_nth x n v :: h'
  | x :: h', S a' => x :: set_arr h' a' n v
  end.
(* runtime.growslice for 8-byte elements below 256 elements: the capacity doubles (1 from 0) *)
Definition grow (cap:nat) : nat := match cap with O => 1 | _ => 2 * cap end.
Definition sl_read (h:heap) (s:slice) : list N := firstn (s_len s) (nth (s_arr s) h []).

Definition sl_append (m:idx_mode) (h:heap) (s:slice) (v:N) : heap * slice :=
  match m with
  | ShareAppend =>
      if Nat.ltb (s_len s) (s_cap s)
      then (set_arr h (s_arr s) (s_len s) v, {| s_arr := s_arr s; s_len := S (s_len s); s_cap := s_cap s |})
      else let c := grow (s_cap s) in
           (h ++ [sl_read h s ++ v :: repeat 0%N (c - S (s_len s))],
            {| s_arr := length h; s_len := S (s_len s); s_cap := c |})
  | _ => (* a fresh array of exactly len+1 elements *)
      (h ++ [sl_read h s ++ [v]], {| s_arr := length h; s_len := S (s_len s); s_cap := S (s_len s) |})
  end.

Section Heap.
  Variable cm am : idx_mode.     (* normalizeChildren site, alt-choice site *)

  Fixpoint heap_items (st:stmt) (idx:slice) (h:heap) : heap * list (sitem slice) :=
    match st with
    | SLeaf k t a => (h, if hidden k t then [] else IRow idx (leaf_code k t) (leaf_label k t) :: smeta idx a)
    | SBlock k t a body =>
        let '(h1, its) :=
          (fix children (l:list stmt) (i:N) (h:heap) : heap * list (sitem slice) :=
             match l with
             | [] => (h, [])
             | c :: l' =>
                 let '(h1, ci) := sl_append cm h idx i in
                 let '(h2, r1) := heap_items c ci h1 in
                 let '(h3, r2) := children l' (N.succ i) h2 in (h3, r1 ++ r2)
             end) body 0%N h in
        (h1, its ++ IRow idx (block_code k) (t, None) :: smeta idx a)
    | SAlt a choices =>
        let '(h1, its, last) :=
          (fix chs (l:list (name * list stmt)) (i:N) (h:heap) (last:slice) : heap * list (sitem slice) * slice :=
             match l with
             | [] => (h, [], last)
             | ch :: l' =>
                 let '(h1, ci) := sl_append am h idx i in
                 let '(h2, r1) :=
                   (fix children (l:list stmt) (j:N) (h:heap) : heap * list (sitem slice) :=
                      match l with
                      | [] => (h, [])
                      | c :: l' =>
                          let '(h1, cj) := sl_append cm h ci j in
                          let '(h2, r1) := heap_items c cj h1 in
                          let '(h3, r2) := children l' (N.succ j) h2 in (h3, r1 ++ r2)
                      end) (snd ch) 0%N h1 in
                 let '(h3, r2, last') := chs l' (N.succ i) h2 ci in
                 (h3, r1 ++ IRow ci choice_code (fst ch, None) :: r2, last')
             end) choices 0%N h idx in
        (h1, its ++ smeta last a)
    end.

  Fixpoint heap_top (l:list stmt) (i:N) (h:heap) : heap * list (sitem slice) :=
    match l with
    | [] => (h, [])
    | s :: l' =>
        let '(h1, r1) := heap_items s {| s_arr := length h; s_len := 1; s_cap := 1 |} (h ++ [[i]]) in
        let '(h2, r2) := heap_top l' (N.succ i) h1 in (h2, r1 ++ r2)
    end.

  Definition resolve (h:heap) (it:sitem slice) : sitem (list N) :=
    match it with
    | IRow p c t => IRow (sl_read h p) c t
    | ITag p t => ITag (sl_read h p) t
    | IAnno p n v => IAnno (sl_read h p) n v
    | ISrcAnno p n l => ISrcAnno (sl_read h p) n l
    | ISrc p s l => ISrc (sl_read h p) s l
    end.
  (* the schema is read after Normalize returns: every stored slice shows the FINAL content of its array *)
  Definition ep_items_heap (stmts:list stmt) : list (sitem (list N)) :=
    let '(h, its) := heap_top stmts 0%N [] in map (resolve h) its.
End Heap.

Definition ep_items (cm am:idx_mode) (stmts:list stmt) : list (sitem (list N)) :=
  match cm, am with
  | CopyParent, CopyParent => ep_items_pure stmts
  | _, _ => ep_items_heap cm am stmts
  end.

(* a return payload the embedded grammar refuses makes normalizeStatement return the error; one on which
   parseReturnPayload panics ends Normalize, and so does a view whose nil return type parseFieldType dereferences.
   The first such payload / view in the order of the walk decides. *)
Inductive fault := FRefused | FCrash.
Fixpoint first_some {A} (l:list (option A)) : option A :=
  match l with [] => None | Some x :: _ => Some x | None :: l' => first_some l' end.
Definition payload_fault (g:grammar) (text:str) : option fault :=
  match text with
  | [] => None
  | _ => match parse_payload g text with POk _ => None | PErr => Some FRefused | PCrash => Some FCrash end
  end.
Fixpoint stmt_fault (g:grammar) (st:stmt) : option fault :=
  match st with
  | SLeaf (LRet text) _ _ => payload_fault g text
  | SLeaf (LRetOpaque b) _ _ => if b then Some FRefused else None
  | SLeaf _ _ _ => None
  | SBlock _ _ _ body => first_some (map (stmt_fault g) body)
  | SAlt _ choices => first_some (map (fun ch : name * list stmt => first_some (map (stmt_fault g) (snd ch))) choices)
  end.

(* StmtRet of an accepted payload: status, the type resolved against the statement's application, attributes *)
Definition ret_info (g:grammar) (sa:list str) (text:str) : xinfo :=
  match parse_payload g text with
  | POk py => XRet (py_status py) (match py_type py with Some t => Some (unpack sa t) | None => None end)
                   (py_mods py) (py_nvp py)
  | _ => XNone
  end.

Definition item_row (g:grammar) (a:appname) (sa:list str) (ep:name) (it:sitem (list N)) : row :=
  match it with
  | IRow p c (t, rt) => mkx RStmt a [ep; t] p [c] (match rt with Some x => ret_info g sa x | None => XNone end)
  | ITag p t => mk (RTag OStmt) a [ep; t] p [] TyNil
  | IAnno p n v => mkx (RAnno OStmt) a [ep; n] p [] (XVal v)
  | ISrcAnno p n l => mkx (RSrcAnno OStmt) a [ep; n] p [] (XSrcs l)
  | ISrc p s l => mkx (RSrc OStmt) a [ep] p [] (XSrc s l)
  end.

(* ---------- parameters (normalizeParam) ---------- *)
Definition param_loc (loc:name) (p:param) : name :=
  if Pos.eqb loc n_empty
  then match p_type p with
       | Some pt => match a_tags (pt_attrs pt) with t :: _ => t | [] => n_method end
       | None => n_method
       end
  else loc.
Definition param_rows (a:appname) (ep:name) (loc:name) (i:N) (p:param) : list row :=
  let l := param_loc loc p in
  match p_type p with
  | None => [mk RParam a [ep; p_name p; l] [] [Z.of_N i; 0%Z] (TyPrim n_any)]
  | Some pt =>
      meta OParam a [ep; p_name p; l] [] [Z.of_N i] (pt_attrs pt) ++
      [mk RParam a [ep; p_name p; l] [] [Z.of_N i; zb (pt_opt pt)] (parse_field_type a (pt_ty pt))]
  end.
Definition params_rows (a:appname) (ep:name) (loc:name) (ps:list param) : list row :=
  concat (mapi_from (param_rows a ep loc) ps 0%N).

(* ---------- endpoints (normalizeEndpoint / normalizeEvent) ---------- *)
Definition ep_skipped (e:endpoint) : bool := Pos.eqb (e_name e) n_placeholder.
Definition ep_visits_stmts (e:endpoint) : bool := negb (ep_skipped e) && negb (e_pubsub e).

Definition ep_rows (cm am:idx_mode) (g:grammar) (a:appname) (sa:list str) (e:endpoint) : list row :=
  if ep_skipped e then []
  else if e_pubsub e then
    mk REvent a [e_name e] [] [] TyNil ::
    params_rows a (e_name e) n_empty (e_params e) ++
    meta OEvent a [e_name e] [] [] (e_attrs e)
  else
    mk2 REp a [e_name e; e_long e; e_doc e;
               match e_rest e with Some (m, _, _, _) => m | None => n_empty end;
               match e_rest e with Some (_, pa, _, _) => pa | None => n_empty end;
               match e_source e with Some (_, ev) => ev | None => n_empty end]
        [zb (match e_rest e with Some _ => true | None => false end); zb (match e_source e with Some _ => true | None => false end)]
        (match e_source e with Some (sa, _) => sa | None => [] end) ::
    meta OEp a [e_name e] [] [] (e_attrs e) ++
    params_rows a (e_name e) n_empty (e_params e) ++
    match e_rest e with
    | Some (_, _, url, query) => params_rows a (e_name e) n_path url ++ params_rows a (e_name e) n_query query
    | None => []
    end ++
    map (item_row g a sa (e_name e)) (ep_items cm am (e_stmts e)).

(* ---------- types (normalizeType / normalizeField) ---------- *)
Definition field_constraint (cs:list constr) : list Z :=
  let '(lmin, lmax, pr, sc) :=
    fold_left (fun (acc:Z*Z*Z*Z) c =>
                 let '(lmin, lmax, _, _) := acc in
                 match c_len c with
                 | Some (mn, mx) => (mn, mx, c_prec c, c_scale c)
                 | None => (lmin, lmax, c_prec c, c_scale c)
                 end) cs (0, 0, 0, 0)%Z in
  [lmin; lmax; pr; sc].
Definition field_rows (a:appname) (tn:name) (f:field) : list row :=
  mk RField a [tn; f_name f] [] (zb (f_opt f) :: field_constraint (f_constraints f)) (parse_field_type a (f_ty f)) ::
  meta OField a [tn; f_name f] [] [] (f_attrs f).
Definition type_rows (a:appname) (t:typedecl) : list row :=
  mk RType a [t_name t; t_doc t] [] [zb (t_opt t)] TyNil ::
  match t_def t with
  | DTuple fs => concat (map (field_rows a (t_name t)) (sorted_by f_name fs))
  | DRelation pk fs => mk RTable a (t_name t :: pk) [] [] TyNil :: concat (map (field_rows a (t_name t)) (sorted_by f_name fs))
  | DAlias mt => [mk RAlias a [t_name t] [] [] (parse_field_type a mt)]
  | DEnum items => [mk REnum a (t_name t :: map fst items) [] (map snd items) TyNil]
  | DMap _ _ | DOneOf _ | DNoType | DList _ | DUnset => []
  end ++
  meta OType a [t_name t] [] [] (t_attrs t).

(* parseFieldType(app.Name.Part, view.RetType): nil for a nil type when the function guards it (else it never returns) *)
Definition view_ty (a:appname) (v:view) : ty := match v_ret v with Some t => parse_field_type a t | None => TyNil end.
Definition view_rows (a:appname) (v:view) : list row :=
  mk RView a [v_name v] [] [] (view_ty a v) :: meta OView a [v_name v] [] [] (v_attrs v).

Definition mixin_rows (a:appname) (m:appname * attrs) : list row :=
  mk RMixin a (fst m) [] [] TyNil :: meta OMixin a (fst m) [] [] (snd m).

(* ---------- applications (normalizeApp) ---------- *)
Definition app_rows (cm am:idx_mode) (g:grammar) (ap:app) : list row :=
  let a := ap_name ap in
  mk RApp a [ap_long ap; ap_doc ap] [] [] TyNil ::
  meta OApp a [] [] [] (ap_attrs ap) ++
  concat (map (mixin_rows a) (ap_mixins ap)) ++
  concat (map (ep_rows cm am g a (ap_sname ap)) (sorted_by e_name (ap_eps ap))) ++
  concat (map (type_rows a) (sorted_by t_name (ap_types ap))) ++
  concat (map (view_rows a) (sorted_by v_name (ap_views ap))).

Inductive outcome := Rows (rs:list row) | Refused | Crashed.

Definition ep_fault (g:grammar) (e:endpoint) : option fault :=
  if ep_visits_stmts e then first_some (map (stmt_fault g) (e_stmts e)) else None.
(* a view without a return type: parseFieldType dereferences the nil type unless it guards it *)
Definition view_fault (g:grammar) (v:view) : option fault :=
  match v_ret v, g_nil g with
  | Some _, _ => None
  | None, NilGuarded => None
  | None, _ => Some FCrash
  end.
(* normalizeApp: the endpoints, (the types,) then the views, each map in key order *)
Definition app_fault (g:grammar) (ap:app) : option fault :=
  first_some (map (ep_fault g) (sorted_by e_name (ap_eps ap)) ++ map (view_fault g) (sorted_by v_name (ap_views ap))).
Definition module_fault (g:grammar) (m:module) : option fault := first_some (map (app_fault g) m).

Definition normalize (cm am:idx_mode) (g:grammar) (m:module) : outcome :=
  match module_fault g m with
  | Some FRefused => Refused
  | Some FCrash => Crashed
  | None => Rows (concat (map (app_rows cm am g) m))
  end.
