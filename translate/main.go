// vt: table translators. Reads Go / ANTLR sources of the repository under -repo and
// regenerates Coq definition files under -out (theories/Gen). Standard library only.
// A file is rewritten only when its content changes, so make re-checks only what depends on it.
package main

import (
	"flag"
	"fmt"
	"os"
	"path/filepath"
)

type translator func(repo string) (string, error)

var translators = map[string]translator{}

func register(name string, t translator) { translators[name] = t }

func main() {
	repo := flag.String("repo", "/repo", "repository root")
	out := flag.String("out", "", "output directory for Gen/*.v")
	flag.Parse()
	if *out == "" {
		fmt.Fprintln(os.Stderr, "vt: -out required")
		os.Exit(2)
	}
	names := flag.Args()
	if len(names) == 0 {
		for n := range translators {
			names = append(names, n)
		}
	}
	rc := 0
	for _, n := range names {
		t, ok := translators[n]
		if !ok {
			fmt.Fprintf(os.Stderr, "vt: unknown translator %s\n", n)
			os.Exit(2)
		}
		txt, err := t(*repo)
		if err != nil {
			// a source we cannot read is reported; the Gen file is written with the error so that
			// dependent theorems fail to check rather than silently keep an old table
			fmt.Fprintf(os.Stderr, "vt: %s: %v\n", n, err)
			txt = fmt.Sprintf("(* translator %s failed: %v *)\nDefinition translator_failed : False := I.\n", n, err)
			rc = 1
		}
		p := filepath.Join(*out, n+".v")
		old, _ := os.ReadFile(p)
		if string(old) != txt {
			if err := os.WriteFile(p, []byte(txt), 0o644); err != nil {
				fmt.Fprintln(os.Stderr, err)
				os.Exit(2)
			}
			fmt.Printf("vt: wrote %s\n", p)
		}
	}
	os.Exit(rc)
}
