package main

import (
	"bytes"
	"fmt"
	"go/ast"
	"go/parser"
	"go/printer"
	"go/token"
	"os"
	"path/filepath"
	"sort"
	"strconv"
	"strings"
)

// KillSites (C01): every call that ends the host process - logrus.Fatal*/log.Fatal*/<logger>.Fatal*/os.Exit - in
// every non-test Go file of the packages on the compile path. The compile path is computed from the imports:
// pkg/parse and every package of the module it imports, transitively. For each site the table gives the package,
// the enclosing function, the callee class, the guard (innermost enclosing `if`, classified) and whether the
// enclosing function can be reached from the parser under a deliberately coarse, name-based call graph:
//
//	roots     every function and method of pkg/parse and pkg/grammar (the ANTLR runtime calls back into both)
//	edge f->g f's body mentions g's name (as an identifier or a selector), whatever the qualifier
//	edge f->m f's body mentions the name of m's receiver type (a value of the type may reach foreign code as an interface)
//
// It also reads off pkg/parse what the linter model (Total/Linter.v) relies on: where the listener records
// (callback, recorder, "location is createLocation(ctx.GetStart())"), the location format, the lower-cased key of
// linter.apps, that Parse builds one listener and parseSpecs walks each element of specs once with
// sc.filename = cleanImportFilename(src.filename), and where importer writers get their sink from.
func init() { register("KillSites", killSites) }

type ksFunc struct {
	pkg  string // import path relative to the module, e.g. pkg/parse
	name string // Recv.Name or Name
	recv string
	fd   *ast.FuncDecl
	fset *token.FileSet
	file string
}

func ksText(fset *token.FileSet, n ast.Node) string {
	if n == nil {
		return ""
	}
	var b bytes.Buffer
	printer.Fprint(&b, fset, n)
	return strings.Join(strings.Fields(b.String()), " ")
}

func ksStr(s string) string { return "\"" + strings.ReplaceAll(s, "\"", "\"\"") + "\"" }

// ksBuildTagged: files that are compiled only with an explicit tag (the verification hooks) are not part of the product
func ksBuildTagged(src []byte) bool {
	for _, l := range strings.Split(string(src), "\n") {
		l = strings.TrimSpace(l)
		if strings.HasPrefix(l, "package ") {
			return false
		}
		if strings.HasPrefix(l, "//go:build") || strings.HasPrefix(l, "// +build") {
			if strings.Contains(l, "verif") || strings.Contains(l, "ignore") {
				return true
			}
		}
	}
	return false
}

func ksModulePath(repo string) (string, error) {
	b, err := os.ReadFile(filepath.Join(repo, "go.mod"))
	if err != nil {
		return "", err
	}
	for _, l := range strings.Split(string(b), "\n") {
		if strings.HasPrefix(l, "module ") {
			return strings.TrimSpace(strings.TrimPrefix(l, "module ")), nil
		}
	}
	return "", fmt.Errorf("no module line in go.mod")
}

type ksPkg struct {
	rel       string
	files     map[string]*ast.File
	fset      *token.FileSet
	generated map[string]bool // files with a "Code generated ... DO NOT EDIT" header (ANTLR, protoc)
}

func ksLoadPkg(repo, rel string) (*ksPkg, error) {
	ents, err := os.ReadDir(filepath.Join(repo, rel))
	if err != nil {
		return nil, err
	}
	p := &ksPkg{rel: rel, files: map[string]*ast.File{}, fset: token.NewFileSet(), generated: map[string]bool{}}
	for _, e := range ents {
		n := e.Name()
		if e.IsDir() || !strings.HasSuffix(n, ".go") || strings.HasSuffix(n, "_test.go") {
			continue
		}
		src, err := os.ReadFile(filepath.Join(repo, rel, n))
		if err != nil {
			return nil, err
		}
		if ksBuildTagged(src) {
			continue
		}
		f, err := parser.ParseFile(p.fset, filepath.Join(rel, n), src, 0)
		if err != nil {
			return nil, err
		}
		p.files[n] = f
		head := string(src)
		if i := strings.Index(head, "\npackage "); i >= 0 {
			head = head[:i]
		}
		if strings.Contains(head, "Code generated") || strings.Contains(head, "DO NOT EDIT") || strings.Contains(head, "// Generated from ") {
			p.generated[n] = true
		}
	}
	return p, nil
}

// ksCompilePath: pkg/parse and the module packages it imports, transitively (sorted)
func ksCompilePath(repo string) ([]*ksPkg, error) {
	mod, err := ksModulePath(repo)
	if err != nil {
		return nil, err
	}
	seen := map[string]*ksPkg{}
	var visit func(rel string) error
	visit = func(rel string) error {
		if _, ok := seen[rel]; ok {
			return nil
		}
		p, err := ksLoadPkg(repo, rel)
		if err != nil {
			return err
		}
		seen[rel] = p
		for _, f := range p.files {
			for _, im := range f.Imports {
				path, _ := strconv.Unquote(im.Path.Value)
				if strings.HasPrefix(path, mod+"/") {
					if err := visit(strings.TrimPrefix(path, mod+"/")); err != nil {
						return err
					}
				}
			}
		}
		return nil
	}
	if err := visit("pkg/parse"); err != nil {
		return nil, err
	}
	var rels []string
	for r := range seen {
		rels = append(rels, r)
	}
	sort.Strings(rels)
	var out []*ksPkg
	for _, r := range rels {
		out = append(out, seen[r])
	}
	return out, nil
}

func ksSortedFiles(p *ksPkg) []string {
	var ns []string
	for n := range p.files {
		ns = append(ns, n)
	}
	sort.Strings(ns)
	return ns
}

var ksFatalNames = map[string]bool{"Fatal": true, "Fatalf": true, "Fatalln": true}

// ksKillCallee classifies a call; "" = not a process-killing call
func ksKillCallee(c *ast.CallExpr) string {
	se, ok := c.Fun.(*ast.SelectorExpr)
	if !ok {
		return ""
	}
	ch := selChain(c.Fun)
	if len(ch) == 2 {
		switch {
		case ch[0] == "os" && ch[1] == "Exit", ch[0] == "syscall" && ch[1] == "Exit", ch[0] == "logrus" && ch[1] == "Exit":
			return "KOsExit"
		case ch[0] == "runtime" && ch[1] == "Goexit":
			return "KOsExit"
		case ch[0] == "logrus" && ksFatalNames[ch[1]]:
			return "KLogrusFatal"
		case ch[0] == "log" && ksFatalNames[ch[1]]:
			return "KLogFatal"
		}
	}
	if ksFatalNames[se.Sel.Name] { // <anything>.Fatal*: a method of a logger value (w.logger.Fatalf, logrus.StandardLogger().Fatal, t.Fatal is test-only)
		return "KLoggerFatal"
	}
	return ""
}

// ksGuardOf: the innermost `if` (or switch clause) around the call, classified
func ksGuardOf(fset *token.FileSet, stack []ast.Node) string {
	for i := len(stack) - 1; i >= 0; i-- {
		switch n := stack[i].(type) {
		case *ast.IfStmt:
			// is the call inside the body (not the else branch / init / cond)?
			inBody := i+1 < len(stack) && stack[i+1] == ast.Node(n.Body)
			if !inBody {
				return "(GCond " + ksStr("else-of: "+ksText(fset, n.Cond)) + ")"
			}
			if be, ok := n.Cond.(*ast.BinaryExpr); ok && be.Op == token.NEQ && isIdent(be.Y, "nil") {
				if id, ok := be.X.(*ast.Ident); ok {
					if as, ok := n.Init.(*ast.AssignStmt); ok && len(as.Rhs) == 1 {
						if last, ok := as.Lhs[len(as.Lhs)-1].(*ast.Ident); ok && last.Name == id.Name {
							if c, ok := as.Rhs[0].(*ast.CallExpr); ok {
								if se, ok := c.Fun.(*ast.SelectorExpr); ok {
									return "(GErrOf " + ksStr(se.Sel.Name) + " " + ksStr(ksText(fset, c.Fun)) + ")"
								}
								if fid, ok := c.Fun.(*ast.Ident); ok {
									return "(GErrOf " + ksStr(fid.Name) + " " + ksStr(fid.Name) + ")"
								}
							}
						}
					}
				}
			}
			return "(GCond " + ksStr(ksText(fset, n.Init)+"; "+ksText(fset, n.Cond)) + ")"
		case *ast.CaseClause:
			if n.List == nil {
				return "(GCond \"switch-default\")"
			}
			return "(GCond \"switch-case\")"
		case *ast.FuncDecl:
			return "GNone"
		}
	}
	return "GNone"
}

func ksInspect(root ast.Node, f func(n ast.Node, stack []ast.Node)) {
	var stack []ast.Node
	ast.Inspect(root, func(n ast.Node) bool {
		if n == nil {
			stack = stack[:len(stack)-1]
			return true
		}
		f(n, stack)
		stack = append(stack, n)
		return true
	})
}

func killSites(repo string) (string, error) {
	pkgs, err := ksCompilePath(repo)
	if err != nil {
		return "", err
	}
	var funcs []*ksFunc
	byName := map[string][]*ksFunc{} // function/method name -> decls
	byRecv := map[string][]*ksFunc{} // receiver type name -> methods
	typeNames := map[string]bool{}   // declared type names with methods
	for _, p := range pkgs {
		for _, fn := range ksSortedFiles(p) {
			for _, fd := range funcDecls(p.files[fn]) {
				if fd.Body == nil {
					continue
				}
				k := &ksFunc{pkg: p.rel, recv: recvName(fd), fd: fd, fset: p.fset, file: fn}
				k.name = fd.Name.Name
				funcs = append(funcs, k)
				byName[k.name] = append(byName[k.name], k)
				if k.recv != "" {
					byRecv[k.recv] = append(byRecv[k.recv], k)
					typeNames[k.recv] = true
				}
			}
		}
	}
	// coarse reachability
	reach := map[*ksFunc]bool{}
	var work []*ksFunc
	add := func(k *ksFunc) {
		if !reach[k] {
			reach[k] = true
			work = append(work, k)
		}
	}
	for _, k := range funcs {
		if k.pkg == "pkg/parse" || k.pkg == "pkg/grammar" {
			add(k)
		}
	}
	for len(work) > 0 {
		k := work[len(work)-1]
		work = work[:len(work)-1]
		ast.Inspect(k.fd, func(n ast.Node) bool {
			if id, ok := n.(*ast.Ident); ok {
				for _, g := range byName[id.Name] {
					add(g)
				}
				if typeNames[id.Name] {
					for _, g := range byRecv[id.Name] {
						add(g)
					}
				}
			}
			return true
		})
	}
	nreach := 0
	for _, k := range funcs {
		if reach[k] {
			nreach++
		}
	}

	var b strings.Builder
	b.WriteString("(* GENERATED by vt KillSites from every non-test Go file of the packages on the compile path (pkg/parse and the\n   module packages it imports, transitively) -- do not edit *)\n")
	b.WriteString("From Coq Require Import String List Bool.\nImport ListNotations.\nRequire Import Verif.Total.KillTypes.\nLocal Open Scope string_scope.\n")
	var rels []string
	for _, p := range pkgs {
		rels = append(rels, ksStr(p.rel))
	}
	fmt.Fprintf(&b, "(* %d packages, %d functions with bodies, %d reachable under the name-based call graph *)\n", len(pkgs), len(funcs), nreach)
	fmt.Fprintf(&b, "Definition compile_path : list string := [%s].\n", strings.Join(rels, "; "))

	// ---- kill sites ----
	var sites []string
	for _, k := range funcs {
		k := k
		ksInspect(k.fd, func(n ast.Node, stack []ast.Node) {
			c, ok := n.(*ast.CallExpr)
			if !ok {
				return
			}
			callee := ksKillCallee(c)
			if callee == "" {
				return
			}
			full := append(append([]ast.Node{}, stack...), n)
			fname := k.name
			if k.recv != "" {
				fname = k.recv + "." + k.name
			}
			sites = append(sites, fmt.Sprintf("  {| k_pkg := %s; k_func := %s; k_callee := %s; k_call := %s; k_guard := %s; k_reach := %s |}",
				ksStr(k.pkg), ksStr(fname), callee, ksStr(ksText(k.fset, c.Fun)), ksGuardOf(k.fset, full), gbool(reach[k])))
		})
	}
	fmt.Fprintf(&b, "Definition kill_sites : list ksite := [\n%s].\n", strings.Join(sites, ";\n"))

	// ---- importer writers: where the sink of a `writer` comes from ----
	// every composite literal of type writer and every newWriter(x, ..) call, with the static type of x when it is a
	// local declared as `x := &bytes.Buffer{}` / `var x bytes.Buffer` (else the expression text)
	var sinks, builders []string
	for _, k := range funcs {
		k := k
		if k.pkg != "pkg/importer" {
			continue
		}
		fname := k.name
		if k.recv != "" {
			fname = k.recv + "." + k.name
		}
		localType := map[string]string{}
		ast.Inspect(k.fd, func(n ast.Node) bool {
			switch s := n.(type) {
			case *ast.AssignStmt:
				if s.Tok == token.DEFINE && len(s.Lhs) == 1 && len(s.Rhs) == 1 {
					if id, ok := s.Lhs[0].(*ast.Ident); ok {
						if u, ok := s.Rhs[0].(*ast.UnaryExpr); ok && u.Op == token.AND {
							if cl, ok := u.X.(*ast.CompositeLit); ok {
								localType[id.Name] = "*" + ksText(k.fset, cl.Type)
							}
						}
					}
				}
			case *ast.DeclStmt:
				if gd, ok := s.Decl.(*ast.GenDecl); ok && gd.Tok == token.VAR {
					for _, sp := range gd.Specs {
						if vs, ok := sp.(*ast.ValueSpec); ok && vs.Type != nil {
							for _, nm := range vs.Names {
								localType[nm.Name] = ksText(k.fset, vs.Type)
							}
						}
					}
				}
			case *ast.CompositeLit:
				if isIdent(s.Type, "writer") {
					builders = append(builders, ksStr(fname))
				}
			case *ast.CallExpr:
				if isIdent(s.Fun, "newWriter") && len(s.Args) > 0 {
					t := ksText(k.fset, s.Args[0])
					switch a := s.Args[0].(type) {
					case *ast.Ident:
						if lt, ok := localType[a.Name]; ok {
							t = lt
						}
					case *ast.UnaryExpr:
						if id, ok := a.X.(*ast.Ident); ok && a.Op == token.AND {
							if lt, ok := localType[id.Name]; ok {
								t = "*" + lt
							}
						}
					}
					sinks = append(sinks, "("+ksStr(fname)+", "+ksStr(t)+")")
				}
			}
			return true
		})
	}
	fmt.Fprintf(&b, "Definition writer_built_in : list string := [%s].\n", strings.Join(builders, "; "))
	fmt.Fprintf(&b, "Definition writer_sinks : list (string * string) := [%s].\n", strings.Join(sinks, "; "))

	// ---- pkg/parse: the recording sites of the linter and what fixes a location ----
	var parsePkg *ksPkg
	for _, p := range pkgs {
		if p.rel == "pkg/parse" {
			parsePkg = p
		}
	}
	fnsP := map[string]*ksFunc{}
	for _, k := range funcs {
		if k.pkg == "pkg/parse" {
			fnsP[k.name] = k // method names of the listener are unique in the package for the ones we look at
		}
	}
	recorders := map[string]bool{"recordApp": true, "recordEndpoint": true, "recordMethod": true, "recordCall": true}
	var recs []string
	for _, fn := range ksSortedFiles(parsePkg) {
		for _, fd := range funcDecls(parsePkg.files[fn]) {
			if fd.Body == nil || recvName(fd) != "TreeShapeListener" || recorders[fd.Name.Name] {
				continue
			}
			rv := recvVar(fd)
			// locals assigned from <rv>.createLocation(ctx.GetStart())
			isCtxStartLoc := func(e ast.Expr) bool {
				return ksText(parsePkg.fset, e) == rv+".createLocation(ctx.GetStart())"
			}
			locVars := map[string]bool{}
			ast.Inspect(fd, func(n ast.Node) bool {
				if as, ok := n.(*ast.AssignStmt); ok && len(as.Lhs) == 1 && len(as.Rhs) == 1 {
					if id, ok := as.Lhs[0].(*ast.Ident); ok {
						if isCtxStartLoc(as.Rhs[0]) {
							locVars[id.Name] = true
						} else {
							delete(locVars, id.Name)
						}
					}
				}
				return true
			})
			ast.Inspect(fd, func(n ast.Node) bool {
				c, ok := n.(*ast.CallExpr)
				if !ok {
					return true
				}
				ch := selChain(c.Fun)
				if len(ch) == 2 && ch[0] == rv && recorders[ch[1]] && len(c.Args) > 0 {
					last := c.Args[len(c.Args)-1]
					okLoc := isCtxStartLoc(last)
					if id, isId := last.(*ast.Ident); isId && locVars[id.Name] {
						okLoc = true
					}
					recs = append(recs, fmt.Sprintf("(%s, %s, %s)", ksStr(fd.Name.Name), ksStr(ch[1]), gbool(okLoc)))
				}
				return true
			})
		}
	}
	fmt.Fprintf(&b, "Definition record_sites : list (string * string * bool) := [%s].\n", strings.Join(recs, "; "))

	// location format: createLocationForPos returns fmt.Sprintf(<lit>, s.sc.filename, lineNum, colNum)
	locFmt, locArgs := "", ""
	if k := fnsP["createLocationForPos"]; k != nil {
		ast.Inspect(k.fd, func(n ast.Node) bool {
			if c, ok := n.(*ast.CallExpr); ok && ksText(k.fset, c.Fun) == "fmt.Sprintf" && len(c.Args) > 0 {
				if bl, ok := c.Args[0].(*ast.BasicLit); ok {
					locFmt, _ = strconv.Unquote(bl.Value)
				}
				var as []string
				for _, a := range c.Args[1:] {
					as = append(as, ksText(k.fset, a))
				}
				locArgs = strings.Join(as, ",")
			}
			return true
		})
	}
	fmt.Fprintf(&b, "Definition loc_format : string := %s.\nDefinition loc_args : string := %s.\n", ksStr(locFmt), ksStr(locArgs))
	// createLocation(token) = createLocationForPos(token.GetLine(), token.GetColumn())
	locOfTok := false
	if k := fnsP["createLocation"]; k != nil && len(k.fd.Body.List) == 1 {
		if r, ok := k.fd.Body.List[0].(*ast.ReturnStmt); ok && len(r.Results) == 1 {
			locOfTok = ksText(k.fset, r.Results[0]) == recvVar(k.fd)+".createLocationForPos(token.GetLine(), token.GetColumn())"
		}
	}
	fmt.Fprintf(&b, "Definition loc_is_token_line_col : bool := %s.\n", gbool(locOfTok))

	// getApps: every index into <s>.linter.apps is strings.ToLower(appName) with appName := s.getFullAppName()
	lowerKey := false
	if k := fnsP["getApps"]; k != nil {
		n, good := 0, 0
		ast.Inspect(k.fd, func(nd ast.Node) bool {
			if ix, ok := nd.(*ast.IndexExpr); ok && strings.HasSuffix(ksText(k.fset, ix.X), ".linter.apps") {
				n++
				if ksText(k.fset, ix.Index) == "strings.ToLower(appName)" {
					good++
				}
			}
			return true
		})
		lowerKey = n >= 2 && n == good
	}
	fmt.Fprintf(&b, "Definition apps_key_is_lowercased_name : bool := %s.\n", gbool(lowerKey))

	// the listener's Fatal wrappers: recordApp / recordEndpoint return at once when lintMode is off, take the name from
	// getFullAppName and kill exactly when the graph operation of the same name returns an error
	// (that shape is the k_guard of the two kill sites above)

	// Parse: one listener, one lint(); parseSpecs: exactly one walkTree call, in one un-nested range loop over syslInputs
	// (made with len(specs), element i filled from specs[i]); before it listener.sc = sourceCtxHelper{cleanImportFilename(src.filename), version}
	oneListener := false
	if k := fnsP["Parse"]; k != nil && k.recv == "Parser" {
		nNew, nLint, passes := 0, 0, false
		ast.Inspect(k.fd, func(nd ast.Node) bool {
			if c, ok := nd.(*ast.CallExpr); ok {
				switch ksText(k.fset, c.Fun) {
				case "NewTreeShapeListener":
					nNew++
				case "listener.lint":
					nLint++
				case "p.parseSpecs":
					passes = len(c.Args) == 2 && isIdent(c.Args[1], "listener")
				}
			}
			return true
		})
		oneListener = nNew == 1 && nLint == 1 && passes
	}
	walkOnce, scClean := false, false
	if k := fnsP["parseSpecs"]; k != nil {
		nWalk, depthOK, rangeOK := 0, false, false
		noNew := true
		ksInspect(k.fd, func(nd ast.Node, stack []ast.Node) {
			c, ok := nd.(*ast.CallExpr)
			if !ok {
				return
			}
			switch ksText(k.fset, c.Fun) {
			case "NewTreeShapeListener", "listener.lint":
				noNew = false
			case "walkTree":
				nWalk++
				loops := 0
				var rng *ast.RangeStmt
				for _, s := range stack {
					switch l := s.(type) {
					case *ast.ForStmt:
						loops++
					case *ast.RangeStmt:
						loops++
						rng = l
					case *ast.FuncLit:
						loops += 100
					}
				}
				depthOK = loops == 1 && rng != nil
				if rng != nil {
					rangeOK = ksText(k.fset, rng.X) == "syslInputs" && len(c.Args) >= 1 && isIdent(c.Args[0], "listener")
					// inside the loop body, before the walk: srcCtxFile := cleanImportFilename(src.filename); listener.sc = sourceCtxHelper{srcCtxFile, version}
					var clean, assign bool
					for _, st := range rng.Body.List {
						t := ksText(k.fset, st)
						if t == "srcCtxFile := cleanImportFilename(src.filename)" {
							clean = true
						}
						if t == "listener.sc = sourceCtxHelper{srcCtxFile, version}" && clean {
							assign = true
						}
					}
					srcOK := false
					for _, st := range rng.Body.List {
						if ksText(k.fset, st) == "src := v.src" {
							srcOK = true
						}
					}
					scClean = clean && assign && srcOK
				}
			}
		})
		madeOK, fillOK := false, false
		ast.Inspect(k.fd, func(nd ast.Node) bool {
			switch s := nd.(type) {
			case *ast.AssignStmt:
				t := ksText(k.fset, s)
				if t == "syslInputs := make([]syslInput, len(specs))" {
					madeOK = true
				}
				if t == "out.src = v.src" {
					fillOK = true
				}
			}
			return true
		})
		walkOnce = nWalk == 1 && depthOK && rangeOK && noNew && madeOK && fillOK
	}
	fmt.Fprintf(&b, "Definition one_listener_per_parse : bool := %s.\n", gbool(oneListener))
	fmt.Fprintf(&b, "Definition each_spec_walked_once : bool := %s.\n", gbool(walkOnce))
	fmt.Fprintf(&b, "Definition sc_filename_is_clean_src_name : bool := %s.\n", gbool(scClean))
	return b.String(), nil
}
