package main

import (
	"fmt"
	"go/ast"
	"go/token"
	"strings"
)

// IntsViewShape: the shape facts of pkg/integrationdiagram/ints_view.go that the model of the views
// (theories/Ints/VModel.v) was transliterated from, re-read from the source on every run:
//
//	comp_symbols     VarManagerForComponent, in source order: whether the app's own name is kept before the nameMap
//	                 renaming, and which of the two (own / renamed) the v.Symbols look-up, the v.Symbols store and the
//	                 DrawableApps (highlight) test use                      -> switch k of VModel.vm_comp
//	view_dispatch    which condition selects the EPA diagram (GenerateView), the package boxes (GenerateIntsView) and
//	                 the system arrows (DrawIntsView): command-line flags and values of the endpoint attribute `view`
//	                                                                        -> VModel.generate_view
//	arrows_ints, arrows_system
//	                 the statements of the loop over params.Integrations in DrawIntsView / DrawSystemView, in source
//	                 order: ends from the dependency, self-calls skipped, the pair and the direct test taken from the
//	                 FULL names, (system only) the ends replaced by their first name part AFTER that, one arrow per
//	                 pair                                                    -> VModel.draw_deps
//	epa_restrict     the two restrict_by tests of the arrow loop of GenerateEPAView, as (operands) lists
//	                                                                        -> VModel.passes
//
// Anything not recognised becomes ...Unknown and the reflexivity lemmas of Ints/VShape.v stop checking.
func init() { register("IntsViewShape", intsViewShape) }

func ivFindFunc(fds []*ast.FuncDecl, recv, name string) *ast.FuncDecl {
	for _, fd := range fds {
		if recvName(fd) == recv && fd.Name.Name == name {
			return fd
		}
	}
	return nil
}

// comp_symbols
func ivCompSymbols(fd *ast.FuncDecl) []string {
	if fd == nil || fd.Body == nil || fd.Type.Params == nil || len(fd.Type.Params.List) < 2 {
		return []string{"SUnknown"}
	}
	recv := recvVar(fd)
	app := fd.Type.Params.List[0].Names[0].Name
	nmap := fd.Type.Params.List[1].Names[0].Name
	own := ""
	renamed := false
	which := func(x string) string {
		switch {
		case own != "" && x == own:
			return "KOwn"
		case x == app && renamed:
			return "KRenamed"
		case x == app:
			return "KOwn"
		}
		return "KUnknown"
	}
	var out []string
	for _, st := range fd.Body.List {
		switch s := st.(type) {
		case *ast.AssignStmt:
			if len(s.Lhs) == 1 && len(s.Rhs) == 1 {
				lhs, rhs := intsX(s.Lhs[0]), intsX(s.Rhs[0])
				if s.Tok == token.DEFINE && rhs == app && !renamed {
					own = lhs
					out = append(out, "SKeepOwnName")
					continue
				}
				if s.Tok == token.ASSIGN && strings.HasPrefix(lhs, recv+".Symbols[") && strings.HasSuffix(lhs, "]") {
					out = append(out, "SStore "+which(strings.TrimSuffix(strings.TrimPrefix(lhs, recv+".Symbols["), "]")))
					continue
				}
				if lhs == app || (own != "" && lhs == own) {
					out = append(out, "SUnknown") // another assignment to one of the two names
				}
			}
		case *ast.IfStmt:
			if as, ok := s.Init.(*ast.AssignStmt); ok && len(as.Rhs) == 1 {
				rhs := intsX(as.Rhs[0])
				switch {
				case rhs == nmap+"["+app+"]":
					// if key, ok := nameMap[appName]; ok { appName = key }
					ok2 := len(s.Body.List) == 1 && len(as.Lhs) == 2
					if ok2 {
						if b, isA := s.Body.List[0].(*ast.AssignStmt); isA && len(b.Lhs) == 1 && intsX(b.Lhs[0]) == app && intsX(b.Rhs[0]) == intsX(as.Lhs[0]) {
							renamed = true
							out = append(out, "SRename")
							continue
						}
					}
					out = append(out, "SUnknown")
				case strings.HasPrefix(rhs, recv+".Symbols[") && strings.HasSuffix(rhs, "]"):
					k := strings.TrimSuffix(strings.TrimPrefix(rhs, recv+".Symbols["), "]")
					if len(s.Body.List) == 1 {
						if r, isR := s.Body.List[0].(*ast.ReturnStmt); isR && len(r.Results) == 1 && strings.HasSuffix(intsX(r.Results[0]), ".Alias") {
							out = append(out, "SLookup "+which(k))
							continue
						}
					}
					out = append(out, "SUnknown")
				case strings.HasPrefix(rhs, recv+".DrawableApps[") && strings.HasSuffix(rhs, "]"):
					out = append(out, "SHighlightBy "+which(strings.TrimSuffix(strings.TrimPrefix(rhs, recv+".DrawableApps["), "]")))
				}
			}
		}
	}
	for i, s := range out {
		if strings.Contains(s, " ") {
			out[i] = "(" + s + ")"
		}
	}
	return out
}

// view_dispatch: the first `if` of the function whose condition reads the attribute "view"
func ivDispatch(fd *ast.FuncDecl) string {
	if fd == nil || fd.Body == nil {
		return "[DUnknown]"
	}
	args := ""
	if fd.Type.Params != nil {
		for _, p := range fd.Type.Params.List {
			if strings.HasSuffix(intsX(p.Type), "Args") && len(p.Names) == 1 {
				args = p.Names[0].Name
			}
		}
	}
	var cond ast.Expr
	ast.Inspect(fd.Body, func(n ast.Node) bool {
		if cond != nil {
			return false
		}
		if s, ok := n.(*ast.IfStmt); ok && strings.Contains(intsX(s.Cond), `["view"]`) {
			cond = s.Cond
			return false
		}
		return true
	})
	if cond == nil {
		return "[DUnknown]"
	}
	var out []string
	for _, d := range intsSplit(cond, token.LOR) {
		x := intsX(intsStripParens(d))
		switch {
		case args != "" && strings.HasPrefix(x, args+".") && !strings.ContainsAny(x, " ("):
			out = append(out, fmt.Sprintf("DCli %q", strings.TrimPrefix(x, args+".")))
		case strings.Contains(x, `["view"].GetS() == "`) && strings.HasSuffix(x, `"`):
			lit := x[strings.Index(x, `== "`)+4 : len(x)-1]
			out = append(out, fmt.Sprintf("DAttr %q", lit))
		default:
			out = append(out, "DUnknown")
		}
	}
	return "[" + strings.Join(out, "; ") + "]"
}

// the loop over params.Integrations of DrawIntsView / DrawSystemView
func ivArrowLoop(fd *ast.FuncDecl) []string {
	if fd == nil || fd.Body == nil {
		return []string{"LUnknown"}
	}
	var loop *ast.RangeStmt
	ast.Inspect(fd.Body, func(n ast.Node) bool {
		if loop != nil {
			return false
		}
		if r, ok := n.(*ast.RangeStmt); ok && strings.HasSuffix(intsX(r.X), ".Integrations") {
			loop = r
			return false
		}
		return true
	})
	if loop == nil || loop.Value == nil {
		return []string{"LUnknown"}
	}
	dep := intsX(loop.Value)
	a, b, pair, direct := "", "", "", ""
	end := func(x string) string {
		switch x {
		case a:
			return "Src"
		case b:
			return "Tgt"
		}
		return ""
	}
	var out []string
	for _, st := range loop.Body.List {
		tag := "LUnknown"
		switch s := st.(type) {
		case *ast.AssignStmt:
			if len(s.Lhs) == 1 && len(s.Rhs) == 1 {
				lhs, rhs := intsX(s.Lhs[0]), intsX(s.Rhs[0])
				switch {
				case s.Tok == token.DEFINE && rhs == dep+".Self.Name":
					a, tag = lhs, "LSrc"
				case s.Tok == token.DEFINE && rhs == dep+".Target.Name":
					b, tag = lhs, "LTgt"
				case s.Tok == token.DEFINE && a != "" && b != "" && ivIsPair(s.Rhs[0], a, b):
					pair, tag = lhs, "LPair"
				case s.Tok == token.ASSIGN && end(lhs) != "" && rhs == "syslutil.SplitAppNameParts("+lhs+")[0]":
					tag = "(LFirstPart " + end(lhs) + ")"
				}
			}
		case *ast.DeclStmt:
			if g, ok := s.Decl.(*ast.GenDecl); ok && g.Tok == token.VAR && len(g.Specs) == 1 {
				if vs, ok := g.Specs[0].(*ast.ValueSpec); ok && len(vs.Names) == 1 && len(vs.Values) == 0 && intsX(vs.Type) == "[]string" {
					direct, tag = vs.Names[0].Name, "LDirectDecl"
				}
			}
		case *ast.IfStmt:
			cond := intsX(s.Cond)
			switch {
			case s.Init == nil && a != "" && cond == a+" == "+b && len(s.Body.List) == 1:
				if br, ok := s.Body.List[0].(*ast.BranchStmt); ok && br.Tok == token.CONTINUE {
					tag = "LSkipSelf"
				}
			case s.Init != nil && cond == "ok" && direct != "" && len(s.Body.List) == 1:
				if as, ok := s.Init.(*ast.AssignStmt); ok && len(as.Rhs) == 1 {
					rhs := intsX(as.Rhs[0])
					for _, x := range []string{a, b} {
						if strings.HasSuffix(rhs, ".DrawableApps["+x+"]") && intsX(s.Body.List[0].(ast.Stmt).(*ast.AssignStmt).Rhs[0]) == "append("+direct+", "+x+")" {
							tag = "(LDirect " + end(x) + ")"
						}
					}
				}
			case s.Init != nil && cond == "!ok" && pair != "":
				if as, ok := s.Init.(*ast.AssignStmt); ok && len(as.Rhs) == 1 && strings.HasSuffix(intsX(as.Rhs[0]), "["+pair+"]") {
					set := strings.TrimSuffix(intsX(as.Rhs[0]), "["+pair+"]")
					marks := false
					ast.Inspect(s.Body, func(n ast.Node) bool {
						if m, ok := n.(*ast.AssignStmt); ok && len(m.Lhs) == 1 && intsX(m.Lhs[0]) == set+"["+pair+"]" {
							marks = true
						}
						return true
					})
					if marks {
						tag = "LOncePerPair"
					}
				}
			}
		}
		out = append(out, tag)
	}
	return out
}

// AppPair{Self: a, Target: b}
func ivIsPair(e ast.Expr, a, b string) bool {
	cl, ok := e.(*ast.CompositeLit)
	if !ok || intsX(cl.Type) != "AppPair" || len(cl.Elts) != 2 {
		return false
	}
	want := map[string]string{"Self": a, "Target": b}
	for _, el := range cl.Elts {
		kv, ok := el.(*ast.KeyValueExpr)
		if !ok || want[intsX(kv.Key)] == "" || intsX(kv.Value) != want[intsX(kv.Key)] {
			return false
		}
	}
	return true
}

// epa_restrict: the `if viewParams.RestrictBy != "" && !(x || y) { continue }` tests of GenerateEPAView, with what
// x and y were read from
func ivEpaRestrict(fd *ast.FuncDecl) []string {
	if fd == nil || fd.Body == nil {
		return []string{"RUnknown"}
	}
	// names bound by  _, name := v.Mod.Apps[app].GetAttrs()[rb]   /   ...GetEndpoints()[ep].GetAttrs()[rb]
	kind := map[string]string{}
	var out []string
	ast.Inspect(fd.Body, func(n ast.Node) bool {
		switch s := n.(type) {
		case *ast.AssignStmt:
			if s.Tok == token.DEFINE && len(s.Lhs) == 2 && len(s.Rhs) == 1 && intsX(s.Lhs[0]) == "_" {
				rhs := intsX(s.Rhs[0])
				if strings.HasSuffix(rhs, ".GetAttrs()[viewParams.RestrictBy]") {
					switch {
					case strings.Contains(rhs, ".Apps[appA].GetEndpoints()[epA]"):
						kind[intsX(s.Lhs[1])] = "REp Src"
					case strings.Contains(rhs, ".Apps[appB].GetEndpoints()[epB]"):
						kind[intsX(s.Lhs[1])] = "REp Tgt"
					case strings.HasSuffix(rhs, ".Apps[appA].GetAttrs()[viewParams.RestrictBy]"):
						kind[intsX(s.Lhs[1])] = "RApp Src"
					case strings.HasSuffix(rhs, ".Apps[appB].GetAttrs()[viewParams.RestrictBy]"):
						kind[intsX(s.Lhs[1])] = "RApp Tgt"
					}
				}
			}
		case *ast.IfStmt:
			cj := intsSplit(s.Cond, token.LAND)
			if len(cj) == 2 && intsX(cj[0]) == `viewParams.RestrictBy != ""` && len(s.Body.List) == 1 {
				if br, ok := s.Body.List[0].(*ast.BranchStmt); ok && br.Tok == token.CONTINUE {
					if u, ok := intsStripParens(cj[1]).(*ast.UnaryExpr); ok && u.Op == token.NOT {
						var ops []string
						for _, d := range intsSplit(u.X, token.LOR) {
							if k, ok := kind[intsX(d)]; ok {
								ops = append(ops, "("+k+")")
							} else {
								ops = append(ops, "ROpUnknown")
							}
						}
						out = append(out, "(RSkipUnlessAny ["+strings.Join(ops, "; ")+"])")
						return true
					}
					out = append(out, "RUnknown")
				}
			}
		}
		return true
	})
	return out
}

func intsViewShape(repo string) (string, error) {
	gf, err := parseGo(repo, "pkg/integrationdiagram/ints_view.go")
	if err != nil {
		return "", err
	}
	fds := funcDecls(gf.file)
	list := func(xs []string) string { return "[" + strings.Join(xs, "; ") + "]" }
	var sb strings.Builder
	sb.WriteString("(* GENERATED by vt IntsViewShape from pkg/integrationdiagram/ints_view.go -- do not edit *)\n")
	sb.WriteString("From Coq Require Import List String.\nImport ListNotations.\nRequire Import Verif.Ints.VShapeTypes.\nLocal Open Scope string_scope.\n")
	fmt.Fprintf(&sb, "Definition comp_symbols : list symstep := %s.\n", list(ivCompSymbols(ivFindFunc(fds, "IntsDiagramVisitor", "VarManagerForComponent"))))
	fmt.Fprintf(&sb, "Definition view_dispatch : list (string * list dcond) := [\n  (\"GenerateView\", %s);\n  (\"GenerateIntsView\", %s);\n  (\"DrawIntsView\", %s)\n].\n",
		ivDispatch(ivFindFunc(fds, "", "GenerateView")), ivDispatch(ivFindFunc(fds, "IntsDiagramVisitor", "GenerateIntsView")), ivDispatch(ivFindFunc(fds, "IntsDiagramVisitor", "DrawIntsView")))
	fmt.Fprintf(&sb, "Definition arrows_ints : list lstep := %s.\n", list(ivArrowLoop(ivFindFunc(fds, "IntsDiagramVisitor", "DrawIntsView"))))
	fmt.Fprintf(&sb, "Definition arrows_system : list lstep := %s.\n", list(ivArrowLoop(ivFindFunc(fds, "IntsDiagramVisitor", "DrawSystemView"))))
	fmt.Fprintf(&sb, "Definition epa_restrict : list rstep := %s.\n", list(ivEpaRestrict(ivFindFunc(fds, "IntsDiagramVisitor", "GenerateEPAView"))))
	return sb.String(), nil
}
