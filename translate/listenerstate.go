package main

import (
	"bytes"
	"fmt"
	"go/ast"
	"go/printer"
	"go/token"
	"sort"
	"strconv"
	"strings"
)

// ListenerState (C02): facts about the mutable state of the tree listener and about the collector pass.
//
//	state_writes   for every Enter*/Exit*/exit* method of *TreeShapeListener (pkg/parse/listener_impl.go), in source
//	               order, the listener fields it writes and HOW: "nil", "fresh" (empty composite literal), "empty" (""),
//	               "push" (append(s.f, ..) / s.f.Push), "pop" (s.f[:..] / s.f.Pop), "reset" (s.f.Reset), "false"/"true",
//	               "set" (anything else); s.pushScope / s.popScope appear as field "scope".
//	apply_*        the shape of applyAttributes (pkg/parse/parse.go): which statement kinds recurse through
//	               `stmts = s.X.Stmt`, the one-of arm (two nested range loops), the call arm (IsSameCall, mergeAttrs of
//	               src.Attrs into dst.Attrs, applied = true), the leaf arms, default panics, and that every
//	               `applied = f(..) || applied` has the call on the LEFT (never short-circuited).
//	collector_*    collectorPubSubCalls: skips the collector endpoint itself; action arm merges into the named endpoint.
//	merge_copies   mergeAttrs stores copies: no `dst[k] = v` / append(.., v.Elt...) of the source's own pointers.
//	prec_shape     the statements of addAttrWithPrecedence (go/printer text of the body, one entry per line): the
//	               patterns arm, the keep-first-non-empty arm with its type switch over string / array values, the store.
//	inplace_*      in-place tuples: EnterInplace_tuple pushes the (already unescaped) field name as it is;
//	               ExitInplace_tuple restores the field map of the parent whether it is a tuple or a relation
//	               (attributesForType); ExitField looks the array item up under the unescaped name; ExitInplace_tuple cuts
//	               the field-name stack back to its length at EnterInplace_tuple (nested names do not reach ExitTable).
func init() { register("ListenerState", listenerState) }

func lsClassify(recv, field string, rhs ast.Expr) string {
	switch x := rhs.(type) {
	case *ast.Ident:
		switch x.Name {
		case "nil":
			return "nil"
		case "false", "true":
			return x.Name
		}
	case *ast.BasicLit:
		if x.Kind == token.STRING {
			if s, err := strconv.Unquote(x.Value); err == nil && s == "" {
				return "empty"
			}
		}
	case *ast.CompositeLit:
		if len(x.Elts) == 0 {
			return "fresh"
		}
	case *ast.CallExpr:
		if isIdent(x.Fun, "append") && len(x.Args) > 0 {
			if ch := selChain(x.Args[0]); len(ch) == 2 && ch[0] == recv && ch[1] == field {
				return "push"
			}
		}
	case *ast.SliceExpr:
		if ch := selChain(x.X); len(ch) == 2 && ch[0] == recv && ch[1] == field {
			return "pop"
		}
	}
	return "set"
}

func lsWrites(fd *ast.FuncDecl) [][2]string {
	recv := recvVar(fd)
	var out [][2]string
	ast.Inspect(fd.Body, func(n ast.Node) bool {
		switch x := n.(type) {
		case *ast.AssignStmt:
			for i, l := range x.Lhs {
				if ch := selChain(l); len(ch) == 2 && ch[0] == recv && i < len(x.Rhs) {
					out = append(out, [2]string{ch[1], lsClassify(recv, ch[1], x.Rhs[i])})
				}
			}
		case *ast.ExprStmt:
			if c, ok := x.X.(*ast.CallExpr); ok {
				ch := selChain(c.Fun)
				switch {
				case len(ch) == 2 && ch[0] == recv && ch[1] == "pushScope":
					out = append(out, [2]string{"scope", "push"})
				case len(ch) == 2 && ch[0] == recv && ch[1] == "popScope":
					out = append(out, [2]string{"scope", "pop"})
				case len(ch) == 3 && ch[0] == recv && (ch[2] == "Push" || ch[2] == "Pop" || ch[2] == "Reset"):
					out = append(out, [2]string{ch[1], strings.ToLower(ch[2])})
				}
			}
		}
		return true
	})
	return out
}

func lsCaseName(e ast.Expr) string {
	if s, ok := e.(*ast.StarExpr); ok {
		if ch := selChain(s.X); len(ch) == 2 && ch[0] == "sysl" {
			return strings.TrimPrefix(ch[1], "Statement_")
		}
	}
	return "?"
}

func lsCalls(n ast.Node, name string) []*ast.CallExpr {
	var out []*ast.CallExpr
	ast.Inspect(n, func(m ast.Node) bool {
		if c, ok := m.(*ast.CallExpr); ok {
			ch := selChain(c.Fun)
			if len(ch) > 0 && ch[len(ch)-1] == name {
				out = append(out, c)
			}
		}
		return true
	})
	return out
}

// every `applied = X || Y` below n has a call of fn as X and `applied` as Y
func lsEager(n ast.Node, fn string) (count int, ok bool) {
	ok = true
	ast.Inspect(n, func(m ast.Node) bool {
		as, is := m.(*ast.AssignStmt)
		if !is || len(as.Lhs) != 1 || !isIdent(as.Lhs[0], "applied") || len(as.Rhs) != 1 {
			return true
		}
		if id, isId := as.Rhs[0].(*ast.Ident); isId && (id.Name == "true" || id.Name == "false") {
			return true
		}
		count++
		b, isBin := as.Rhs[0].(*ast.BinaryExpr)
		if !isBin || b.Op != token.LOR || !isIdent(b.Y, "applied") {
			ok = false
			return true
		}
		c, isCall := b.X.(*ast.CallExpr)
		if !isCall || !isIdent(c.Fun, fn) {
			ok = false
		}
		return true
	})
	return
}

func lsBool(b bool) string {
	if b {
		return "true"
	}
	return "false"
}

func listenerState(repo string) (string, error) {
	lis, err := parseGo(repo, "pkg/parse/listener_impl.go")
	if err != nil {
		return "", err
	}
	prs, err := parseGo(repo, "pkg/parse/parse.go")
	if err != nil {
		return "", err
	}
	var sb strings.Builder
	sb.WriteString("(* GENERATED by translate/listenerstate.go from pkg/parse/listener_impl.go, pkg/parse/parse.go - do not edit *)\n")
	sb.WriteString("From Coq Require Import String List.\nImport ListNotations.\nLocal Open Scope string_scope.\n\n")

	// ---- state_writes
	type hw struct {
		name string
		w    [][2]string
	}
	var hs []hw
	for _, fd := range funcDecls(lis.file) {
		if recvName(fd) != "TreeShapeListener" || fd.Body == nil {
			continue
		}
		n := fd.Name.Name
		if !(strings.HasPrefix(n, "Enter") || strings.HasPrefix(n, "Exit") || strings.HasPrefix(n, "exit")) {
			continue
		}
		if w := lsWrites(fd); len(w) > 0 {
			hs = append(hs, hw{n, w})
		}
	}
	sort.Slice(hs, func(i, j int) bool { return hs[i].name < hs[j].name })
	sb.WriteString("Definition state_writes : list (string * list (string * string)) :=\n  [")
	for i, h := range hs {
		if i > 0 {
			sb.WriteString(";\n   ")
		}
		it := make([]string, len(h.w))
		for j, w := range h.w {
			it[j] = fmt.Sprintf("(%s, %s)", strconv.Quote(w[0]), strconv.Quote(w[1]))
		}
		fmt.Fprintf(&sb, "(%s, [%s])", strconv.Quote(h.name), strings.Join(it, "; "))
	}
	sb.WriteString("].\n\n")

	// ---- applyAttributes
	af := ptFindFunc(prs.file, "applyAttributes")
	if af == nil {
		return "", fmt.Errorf("applyAttributes not found")
	}
	var ts *ast.TypeSwitchStmt
	ast.Inspect(af.Body, func(n ast.Node) bool {
		if s, ok := n.(*ast.TypeSwitchStmt); ok && ts == nil {
			ts = s
		}
		return true
	})
	if ts == nil {
		return "", fmt.Errorf("applyAttributes: no type switch")
	}
	var recurse, leaves []string
	altArm, callArm, defPanics := false, false, false
	for _, st := range ts.Body.List {
		cc := st.(*ast.CaseClause)
		if cc.List == nil {
			defPanics = ptHasPanic(cc.Body)
			continue
		}
		for _, e := range cc.List {
			name := lsCaseName(e)
			switch {
			case len(cc.Body) == 1 && func() bool { // stmts = s.X.Stmt
				as, ok := cc.Body[0].(*ast.AssignStmt)
				if !ok || len(as.Lhs) != 1 || !isIdent(as.Lhs[0], "stmts") {
					return false
				}
				ch := selChain(as.Rhs[0])
				return len(ch) == 3 && ch[1] == name && ch[2] == "Stmt"
			}():
				recurse = append(recurse, name)
			case name == "Alt":
				// for _, c := range s.Alt.Choice { for _, ss := range c.Stmt { applied = applyAttributes(src, ss) || applied } } return applied
				var outer *ast.RangeStmt
				if len(cc.Body) == 2 {
					outer, _ = cc.Body[0].(*ast.RangeStmt)
				}
				if outer != nil && len(outer.Body.List) == 1 {
					if ch := selChain(outer.X); len(ch) == 3 && ch[1] == "Alt" && ch[2] == "Choice" {
						if inner, ok := outer.Body.List[0].(*ast.RangeStmt); ok {
							if ch2 := selChain(inner.X); len(ch2) == 2 && ch2[1] == "Stmt" && len(lsCalls(inner.Body, "applyAttributes")) == 1 {
								if r, ok := cc.Body[1].(*ast.ReturnStmt); ok && len(r.Results) == 1 && isIdent(r.Results[0], "applied") {
									altArm = true
								}
							}
						}
					}
				}
			case name == "Call":
				same := lsCalls(cc, "IsSameCall")
				merge := lsCalls(cc, "mergeAttrs")
				okMerge := false
				if len(merge) == 1 && len(merge[0].Args) == 2 {
					a, b := selChain(merge[0].Args[0]), selChain(merge[0].Args[1])
					okMerge = len(a) == 2 && a[0] == "src" && a[1] == "Attrs" && len(b) == 2 && b[0] == "dst" && b[1] == "Attrs"
				}
				setTrue := false
				ast.Inspect(cc, func(n ast.Node) bool {
					if as, ok := n.(*ast.AssignStmt); ok && len(as.Lhs) == 1 && isIdent(as.Lhs[0], "applied") && isIdent(as.Rhs[0], "true") {
						setTrue = true
					}
					return true
				})
				callArm = len(same) == 1 && okMerge && setTrue
			default:
				if len(cc.Body) == 1 {
					if r, ok := cc.Body[0].(*ast.ReturnStmt); ok && len(r.Results) == 1 && isIdent(r.Results[0], "applied") {
						leaves = append(leaves, name)
						continue
					}
				}
				leaves = append(leaves, "?"+name)
			}
		}
	}
	nAcc, eager := lsEager(af.Body, "applyAttributes")
	fmt.Fprintf(&sb, "Definition apply_recurse_arms : list string := %s.\n", ptCoqStrs(recurse))
	fmt.Fprintf(&sb, "Definition apply_leaf_arms : list string := %s.\n", ptCoqStrs(leaves))
	fmt.Fprintf(&sb, "Definition apply_alt_arm : bool := %s.\n", lsBool(altArm))
	fmt.Fprintf(&sb, "Definition apply_call_arm : bool := %s.\n", lsBool(callArm))
	fmt.Fprintf(&sb, "Definition apply_default_panics : bool := %s.\n", lsBool(defPanics))
	fmt.Fprintf(&sb, "Definition apply_accumulates_eagerly : bool := %s.\n\n", lsBool(eager && nAcc >= 2))

	// ---- collectorPubSubCalls
	cf := ptFindFunc(prs.file, "collectorPubSubCalls")
	if cf == nil {
		return "", fmt.Errorf("collectorPubSubCalls not found")
	}
	skips := false
	ast.Inspect(cf.Body, func(n ast.Node) bool {
		ifs, ok := n.(*ast.IfStmt)
		if !ok || len(ifs.Body.List) != 1 {
			return true
		}
		if br, ok := ifs.Body.List[0].(*ast.BranchStmt); ok && br.Tok == token.CONTINUE {
			if b, ok := ifs.Cond.(*ast.BinaryExpr); ok && b.Op == token.EQL {
				if s, ok := ptStrLit(b.Y); ok && s == ".. * <- *" {
					skips = true
				}
			}
		}
		return true
	})
	nAcc2, eager2 := lsEager(cf.Body, "applyAttributes")
	actionMerges := false
	for _, m := range lsCalls(cf.Body, "mergeAttrs") {
		if len(m.Args) == 2 {
			a, b := selChain(m.Args[0]), selChain(m.Args[1])
			if len(a) == 2 && a[0] == "collectorStmt" && a[1] == "Attrs" && len(b) == 2 && b[0] == "modifyEP" && b[1] == "Attrs" {
				actionMerges = true
			}
		}
	}
	fmt.Fprintf(&sb, "Definition collector_skips_self : bool := %s.\n", lsBool(skips))
	fmt.Fprintf(&sb, "Definition collector_accumulates_eagerly : bool := %s.\n", lsBool(eager2 && nAcc2 == 1))
	fmt.Fprintf(&sb, "Definition collector_action_merges : bool := %s.\n\n", lsBool(actionMerges))

	// ---- mergeAttrs stores copies
	mf := ptFindFunc(lis.file, "mergeAttrs")
	if mf == nil {
		return "", fmt.Errorf("mergeAttrs not found")
	}
	copies, stores := true, 0
	ast.Inspect(mf.Body, func(n ast.Node) bool {
		as, ok := n.(*ast.AssignStmt)
		if !ok || len(as.Lhs) != 1 || len(as.Rhs) != 1 {
			return true
		}
		if ix, ok := as.Lhs[0].(*ast.IndexExpr); ok && isIdent(ix.X, "dst") { // dst[k] = ...
			stores++
			if _, isId := as.Rhs[0].(*ast.Ident); isId {
				copies = false
			}
		}
		if c, ok := as.Rhs[0].(*ast.CallExpr); ok && isIdent(c.Fun, "append") { // append(dst.., src's elements...)
			stores++
			if c.Ellipsis != token.NoPos {
				copies = false
			}
			for _, a := range c.Args[1:] {
				if _, isId := a.(*ast.Ident); isId {
					copies = false
				}
			}
		}
		return true
	})
	fmt.Fprintf(&sb, "Definition merge_copies : bool := %s.\n\n", lsBool(copies && stores >= 3))

	// ---- addAttrWithPrecedence: the statements, as printed by go/printer
	pf := ptFindFunc(lis.file, "addAttrWithPrecedence")
	if pf == nil {
		return "", fmt.Errorf("addAttrWithPrecedence not found")
	}
	var pb bytes.Buffer
	if err := printer.Fprint(&pb, lis.fset, pf.Body); err != nil {
		return "", err
	}
	var plines []string
	for _, l := range strings.Split(pb.String(), "\n") {
		if l = strings.TrimSpace(l); l != "" && !strings.HasPrefix(l, "//") {
			plines = append(plines, coqStr(l))
		}
	}
	fmt.Fprintf(&sb, "Definition prec_shape : list string :=\n  [%s].\n\n", strings.Join(plines, ";\n   "))

	// ---- in-place tuples
	method := func(name string) *ast.FuncDecl {
		for _, fd := range funcDecls(lis.file) {
			if recvName(fd) == "TreeShapeListener" && fd.Name.Name == name && fd.Body != nil {
				return fd
			}
		}
		return nil
	}
	text := func(n ast.Node) string {
		var b bytes.Buffer
		printer.Fprint(&b, lis.fset, n)
		return strings.Join(strings.Fields(b.String()), " ")
	}
	pushRaw, restores, exitName := false, false, false
	if fd := method("EnterInplace_tuple"); fd != nil {
		for _, c := range lsCalls(fd.Body, "Push") {
			if len(c.Args) == 1 {
				pushRaw = text(c.Args[0]) == "s.fieldname[len(s.fieldname)-1]"
			}
		}
	}
	if fd := method("ExitInplace_tuple"); fd != nil {
		ast.Inspect(fd.Body, func(n ast.Node) bool {
			if as, ok := n.(*ast.AssignStmt); ok && len(as.Lhs) == 1 && len(as.Rhs) == 1 && text(as.Lhs[0]) == "s.typemap" {
				restores = text(as.Rhs[0]) == "attributesForType(s.currentApp().Types[s.currentTypePath.Get()])"
			}
			return true
		})
	}
	if fd := method("ExitField"); fd != nil {
		ast.Inspect(fd.Body, func(n ast.Node) bool {
			if as, ok := n.(*ast.AssignStmt); ok && len(as.Lhs) == 1 && len(as.Rhs) == 1 && text(as.Lhs[0]) == "name" && as.Tok == token.ASSIGN {
				exitName = text(as.Rhs[0]) == "MustUnescape(ctx.Name_str().GetText())"
			}
			return true
		})
	}
	fmt.Fprintf(&sb, "Definition inplace_push_as_is : bool := %s.\n", lsBool(pushRaw))
	fmt.Fprintf(&sb, "Definition inplace_exit_restores_any_parent : bool := %s.\n", lsBool(restores))
	fmt.Fprintf(&sb, "Definition inplace_array_name_unescaped : bool := %s.\n", lsBool(exitName))
	truncates := false
	if fd := method("ExitInplace_tuple"); fd != nil {
		ast.Inspect(fd.Body, func(n ast.Node) bool {
			if as, ok := n.(*ast.AssignStmt); ok && len(as.Lhs) == 1 && len(as.Rhs) == 1 && text(as.Lhs[0]) == "s.fieldname" {
				truncates = text(as.Rhs[0]) == "s.fieldname[:s.inplaceFieldnameLen[top]]"
			}
			return true
		})
	}
	pushesLen := false
	if fd := method("EnterInplace_tuple"); fd != nil {
		ast.Inspect(fd.Body, func(n ast.Node) bool {
			if as, ok := n.(*ast.AssignStmt); ok && len(as.Lhs) == 1 && len(as.Rhs) == 1 && text(as.Lhs[0]) == "s.inplaceFieldnameLen" {
				pushesLen = text(as.Rhs[0]) == "append(s.inplaceFieldnameLen, len(s.fieldname))"
			}
			return true
		})
	}
	fmt.Fprintf(&sb, "Definition inplace_exit_cuts_names : bool := %s.\n", lsBool(truncates && pushesLen))
	return sb.String(), nil
}
