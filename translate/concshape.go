package main

import (
	"bytes"
	"fmt"
	"go/ast"
	"go/printer"
	"go/token"
	"go/types"
	"os"
	"path/filepath"
	"regexp"
	"sort"
	"strings"
)

// ConcShape: what the hand-written code does with state that outlives one compilation (property C07).
//
//	lexer_sites / parser_sites   every construction of a SyslLexer / SyslParser outside tests and generated code
//	                             (pkg/, cmd/): which constructor, and for lexers whether the function runs
//	                             `defer <pkg>.DeleteLexerState(<that lexer>)` at its top level, after the
//	                             construction and before the lexer is handed to anything else
//	delete_deferred              the same fact for pkg/parse/parse.go parseString alone (parameter `del` of Conc/Keyed.v)
//	sim_args                     per constructor in threadsafe_*.go and in the generated files: the arguments of the
//	                             New*ATNSimulator call, each classified recv / local / fresh (a call) / global:<name>
//	state_map                    type of the lexer-state map, its key expression, and the map methods ls / DeleteLexerState call
//	globals                      every package-level `var` of the hand-written files of pkg/grammar and pkg/parse with a class:
//	                             init-only (never assigned, never address-taken, no element / field store anywhere in the package),
//	                             keyed-map (the lexer-state map), else Unknown
//	sorted_apps                  postProcess walks a slice that was collected from `range mod.Apps` and passed to sort.Strings
//
// Everything is found by role, never by line number; what cannot be classified is listed in `unknown`.
func init() { register("ConcShape", concShape) }

func csGenerated(f *ast.File) bool {
	for _, cg := range f.Comments {
		if cg.Pos() < f.Package && (strings.Contains(cg.Text(), "Code generated") || strings.HasPrefix(cg.Text(), "Generated from ")) {
			return true
		}
	}
	return false
}

func csSrc(fset *token.FileSet, n ast.Node) string {
	var b bytes.Buffer
	printer.Fprint(&b, fset, n)
	return strings.Join(strings.Fields(b.String()), " ")
}

func csGoFiles(dir string) []string {
	var out []string
	es, _ := os.ReadDir(dir)
	for _, e := range es {
		n := e.Name()
		if e.IsDir() || !strings.HasSuffix(n, ".go") || strings.HasSuffix(n, "_test.go") {
			continue
		}
		out = append(out, filepath.Join(dir, n))
	}
	sort.Strings(out)
	return out
}

// last selector name of a call's function (`parser.NewSyslLexer` -> NewSyslLexer)
func csCallee(c *ast.CallExpr) string {
	switch f := c.Fun.(type) {
	case *ast.Ident:
		return f.Name
	case *ast.SelectorExpr:
		return f.Sel.Name
	}
	return ""
}

type csSite struct {
	file, fn, ctor string
	deferred       bool
}

// the variable a constructor call is assigned to (`x := C(...)`, `var x = C(...)`), "" otherwise
func csAssignedVar(st ast.Stmt, ctors map[string]bool) (string, string) {
	switch s := st.(type) {
	case *ast.AssignStmt:
		if len(s.Lhs) == 1 && len(s.Rhs) == 1 {
			if c, ok := s.Rhs[0].(*ast.CallExpr); ok && ctors[csCallee(c)] {
				if id, ok := s.Lhs[0].(*ast.Ident); ok {
					return id.Name, csCallee(c)
				}
			}
		}
	case *ast.DeclStmt:
		if gd, ok := s.Decl.(*ast.GenDecl); ok && gd.Tok == token.VAR {
			for _, sp := range gd.Specs {
				vs := sp.(*ast.ValueSpec)
				if len(vs.Names) == 1 && len(vs.Values) == 1 {
					if c, ok := vs.Values[0].(*ast.CallExpr); ok && ctors[csCallee(c)] {
						return vs.Names[0].Name, csCallee(c)
					}
				}
			}
		}
	}
	return "", ""
}

func csUses(n ast.Node, name string) bool {
	found := false
	ast.Inspect(n, func(x ast.Node) bool {
		if id, ok := x.(*ast.Ident); ok && id.Name == name {
			found = true
		}
		return !found
	})
	return found
}

// sites of fd: top-level statements only (a constructor call anywhere else is reported with ctor "?nested")
func csSites(rel string, fd *ast.FuncDecl, ctors map[string]bool, wantDefer bool) []csSite {
	var out []csSite
	if fd.Body == nil {
		return nil
	}
	top := map[*ast.CallExpr]bool{}
	for i, st := range fd.Body.List {
		v, ctor := csAssignedVar(st, ctors)
		if v == "" {
			continue
		}
		ast.Inspect(st, func(x ast.Node) bool {
			if c, ok := x.(*ast.CallExpr); ok && ctors[csCallee(c)] {
				top[c] = true
			}
			return true
		})
		s := csSite{file: rel, fn: fd.Name.Name, ctor: ctor}
		if wantDefer {
			// statements after the construction: those that do not mention the lexer, or only configure it
			// through its own methods, may precede the defer; the defer must come before the lexer is passed on
			for _, nx := range fd.Body.List[i+1:] {
				if d, ok := nx.(*ast.DeferStmt); ok && csCallee(d.Call) == "DeleteLexerState" &&
					len(d.Call.Args) == 1 && isIdent(d.Call.Args[0], v) {
					s.deferred = true
					break
				}
				if es, ok := nx.(*ast.ExprStmt); ok {
					if c, ok := es.X.(*ast.CallExpr); ok {
						if se, ok := c.Fun.(*ast.SelectorExpr); ok && isIdent(se.X, v) {
							continue // lexer.SetMode(...)
						}
					}
				}
				if csUses(nx, v) {
					break
				}
			}
		}
		out = append(out, s)
	}
	ast.Inspect(fd.Body, func(x ast.Node) bool {
		if c, ok := x.(*ast.CallExpr); ok && ctors[csCallee(c)] && !top[c] {
			out = append(out, csSite{file: rel, fn: fd.Name.Name, ctor: "?nested:" + csCallee(c)})
		}
		return true
	})
	return out
}

// arguments of the New*ATNSimulator call in fd, classified
func csSimArgs(fset *token.FileSet, fd *ast.FuncDecl) []string {
	locals := map[string]bool{}
	if fd.Type.Params != nil {
		for _, p := range fd.Type.Params.List {
			for _, n := range p.Names {
				locals[n.Name] = true
			}
		}
	}
	ast.Inspect(fd.Body, func(x ast.Node) bool {
		switch s := x.(type) {
		case *ast.AssignStmt:
			if s.Tok == token.DEFINE {
				for _, l := range s.Lhs {
					if id, ok := l.(*ast.Ident); ok {
						locals[id.Name] = true
					}
				}
			}
		case *ast.ValueSpec:
			for _, n := range s.Names {
				locals[n.Name] = true
			}
		}
		return true
	})
	var out []string
	n := 0
	ast.Inspect(fd.Body, func(x ast.Node) bool {
		c, ok := x.(*ast.CallExpr)
		if !ok || !(csCallee(c) == "NewLexerATNSimulator" || csCallee(c) == "NewParserATNSimulator") {
			return true
		}
		n++
		for _, a := range c.Args {
			switch e := a.(type) {
			case *ast.Ident:
				if locals[e.Name] {
					out = append(out, "local")
				} else {
					out = append(out, "global:"+e.Name)
				}
			case *ast.CallExpr:
				out = append(out, "fresh:"+csCallee(e))
			default:
				out = append(out, "?"+csSrc(fset, a))
			}
		}
		return true
	})
	if n != 1 {
		out = append(out, fmt.Sprintf("?%d simulator constructions", n))
	}
	return out
}

// csPerInstance: the statement shape of a per-instance constructor,
//
//	x := <generated constructor>(input)
//	d := antlr.NewATNDeserializer(nil)
//	a := d.DeserializeFromUInt16(<serialized ATN>)          a fresh ATN for this instance
//	f := make([]*antlr.DFA, len(a.DecisionToState))
//	for i, ds := range a.DecisionToState { f[i] = antlr.NewDFA(ds, i) }
//	x.Interpreter = antlr.New(Lexer|Parser)ATNSimulator(x, a, f, antlr.NewPredictionContextCache())
//	return x
//
// with nothing else in the body. Anything else is "Unknown: <why>".
func csPerInstance(fset *token.FileSet, fd *ast.FuncDecl) string {
	define := func(st ast.Stmt) (string, *ast.CallExpr) {
		as, ok := st.(*ast.AssignStmt)
		if !ok || as.Tok != token.DEFINE || len(as.Lhs) != 1 || len(as.Rhs) != 1 {
			return "", nil
		}
		id, ok := as.Lhs[0].(*ast.Ident)
		c, ok2 := as.Rhs[0].(*ast.CallExpr)
		if !ok || !ok2 {
			return "", nil
		}
		return id.Name, c
	}
	b := fd.Body.List
	if len(b) != 7 {
		return fmt.Sprintf("Unknown: %d statements", len(b))
	}
	x, c0 := define(b[0])
	if c0 == nil || !(csCallee(c0) == "NewSyslLexer" || csCallee(c0) == "NewSyslParser") {
		return "Unknown: statement 1 is not the generated constructor"
	}
	d, c1 := define(b[1])
	if c1 == nil || !irChainIs(c1.Fun, "antlr", "NewATNDeserializer") {
		return "Unknown: statement 2 is not a new deserializer"
	}
	a, c2 := define(b[2])
	if c2 == nil || !irChainIs(c2.Fun, d, "DeserializeFromUInt16") || len(c2.Args) != 1 {
		return "Unknown: statement 3 does not deserialize an ATN with that deserializer"
	}
	f, c3 := define(b[3])
	if c3 == nil || !isIdent(c3.Fun, "make") || len(c3.Args) != 2 || csSrc(fset, c3.Args[0]) != "[]*antlr.DFA" ||
		csSrc(fset, c3.Args[1]) != "len("+a+".DecisionToState)" {
		return "Unknown: statement 4 does not make a DFA slice for that ATN"
	}
	rs, ok := b[4].(*ast.RangeStmt)
	if !ok || !irChainIs(rs.X, a, "DecisionToState") || rs.Key == nil || rs.Value == nil || len(rs.Body.List) != 1 ||
		csSrc(fset, rs.Body.List[0]) != fmt.Sprintf("%s[%s] = antlr.NewDFA(%s, %s)", f, csSrc(fset, rs.Key), csSrc(fset, rs.Value), csSrc(fset, rs.Key)) {
		return "Unknown: statement 5 does not fill the DFA slice from that ATN"
	}
	as, ok := b[5].(*ast.AssignStmt)
	if !ok || as.Tok != token.ASSIGN || len(as.Lhs) != 1 || len(as.Rhs) != 1 || !irChainIs(as.Lhs[0], x, "Interpreter") {
		return "Unknown: statement 6 does not assign the interpreter"
	}
	sim, ok := as.Rhs[0].(*ast.CallExpr)
	if !ok || !(irChainIs(sim.Fun, "antlr", "NewLexerATNSimulator") || irChainIs(sim.Fun, "antlr", "NewParserATNSimulator")) || len(sim.Args) != 4 ||
		!isIdent(sim.Args[0], x) || !isIdent(sim.Args[1], a) || !isIdent(sim.Args[2], f) || csSrc(fset, sim.Args[3]) != "antlr.NewPredictionContextCache()" {
		return "Unknown: the simulator is not built from the instance, its own ATN, its own DFAs and a new cache"
	}
	ret, ok := b[6].(*ast.ReturnStmt)
	if !ok || len(ret.Results) != 1 || !isIdent(ret.Results[0], x) {
		return "Unknown: statement 7 does not return the instance"
	}
	return "per-instance:" + csSrc(fset, c2.Args[0])
}

// root identifier of an assignable expression (x, x[i], x.f, *x)
func csRoot(e ast.Expr) string {
	for {
		switch x := e.(type) {
		case *ast.Ident:
			return x.Name
		case *ast.IndexExpr:
			e = x.X
		case *ast.SelectorExpr:
			e = x.X
		case *ast.StarExpr:
			e = x.X
		case *ast.ParenExpr:
			e = x.X
		case *ast.SliceExpr:
			e = x.X
		default:
			return ""
		}
	}
}

// names written to (assignment, ++/--, &x, append target, range key/value) anywhere in the files
func csWritten(files []*ast.File) map[string]bool {
	w := map[string]bool{}
	for _, f := range files {
		ast.Inspect(f, func(x ast.Node) bool {
			switch s := x.(type) {
			case *ast.AssignStmt:
				if s.Tok != token.DEFINE {
					for _, l := range s.Lhs {
						w[csRoot(l)] = true
					}
				}
			case *ast.IncDecStmt:
				w[csRoot(s.X)] = true
			case *ast.UnaryExpr:
				if s.Op == token.AND {
					w[csRoot(s.X)] = true
				}
			case *ast.RangeStmt:
				if s.Tok == token.ASSIGN {
					if s.Key != nil {
						w[csRoot(s.Key)] = true
					}
					if s.Value != nil {
						w[csRoot(s.Value)] = true
					}
				}
			}
			return true
		})
	}
	return w
}

func csList(items []string) string {
	if len(items) == 0 {
		return "[]"
	}
	return "[\n  " + strings.Join(items, ";\n  ") + "\n]"
}

func csStrs(xs []string) string {
	q := make([]string, len(xs))
	for i, x := range xs {
		q[i] = coqStr(x)
	}
	return "[" + strings.Join(q, "; ") + "]"
}

func concShape(repo string) (string, error) {
	var unknown []string
	fset := token.NewFileSet()
	parse := func(p string) (*ast.File, error) {
		gf, err := parseGo(repo, p)
		if err != nil {
			return nil, err
		}
		fset = gf.fset
		return gf.file, nil
	}

	// ---- constructor sites over pkg/ and cmd/
	lexCtors := map[string]bool{"NewSyslLexer": true, "NewThreadSafeSyslLexer": true}
	parCtors := map[string]bool{"NewSyslParser": true, "NewThreadSafeSyslParser": true}
	var lexSites, parSites []csSite
	var dirs []string
	for _, top := range []string{"pkg", "cmd"} {
		filepath.Walk(filepath.Join(repo, top), func(p string, info os.FileInfo, err error) error {
			if err == nil && info.IsDir() && info.Name() != "testdata" && info.Name() != "node_modules" {
				dirs = append(dirs, p)
			}
			return nil
		})
	}
	sort.Strings(dirs)
	for _, d := range dirs {
		for _, p := range csGoFiles(d) {
			src, err := os.ReadFile(p)
			if err != nil || !(bytes.Contains(src, []byte("SyslLexer(")) || bytes.Contains(src, []byte("SyslParser("))) {
				continue
			}
			rel, _ := filepath.Rel(repo, p)
			f, err := parse(rel)
			if err != nil {
				return "", err
			}
			if csGenerated(f) || f.Name.Name == "parser" && strings.HasPrefix(filepath.Base(p), "verif_") {
				continue
			}
			for _, fd := range funcDecls(f) {
				if lexCtors[fd.Name.Name] || parCtors[fd.Name.Name] {
					continue // the constructors themselves (threadsafe_*.go wrap the generated ones)
				}
				lexSites = append(lexSites, csSites(rel, fd, lexCtors, true)...)
				parSites = append(parSites, csSites(rel, fd, parCtors, false)...)
			}
		}
	}
	deleteDeferred, parseLexCtor, parseParCtor := false, "?", "?"
	for _, s := range lexSites {
		if s.file == "pkg/parse/parse.go" && s.fn == "parseString" {
			deleteDeferred, parseLexCtor = s.deferred, s.ctor
		}
	}
	for _, s := range parSites {
		if s.file == "pkg/parse/parse.go" && s.fn == "parseString" {
			parseParCtor = s.ctor
		}
	}
	if parseLexCtor == "?" || parseParCtor == "?" {
		unknown = append(unknown, "parseString: lexer / parser construction not found at the top level")
	}

	// ---- simulator arguments of the four constructors
	var simArgs, perInstance, ctorShapes []string
	for _, c := range []struct{ file, fn string }{
		{"pkg/grammar/threadsafe_lexer.go", "NewThreadSafeSyslLexer"}, {"pkg/grammar/threadsafe_parser.go", "NewThreadSafeSyslParser"},
		{"pkg/grammar/sysl_lexer.go", "NewSyslLexer"}, {"pkg/grammar/sysl_parser.go", "NewSyslParser"}} {
		f, err := parse(c.file)
		if err != nil {
			return "", err
		}
		fd := irFindFunc(f, c.fn)
		if fd == nil {
			unknown = append(unknown, c.fn+" not found")
			continue
		}
		simArgs = append(simArgs, fmt.Sprintf("(%s, %s)", coqStr(c.fn), csStrs(csSimArgs(fset, fd))))
		if strings.HasPrefix(c.fn, "NewThreadSafe") {
			perInstance = append(perInstance, fmt.Sprintf("(%s, %s)", coqStr(c.fn), coqStr(csPerInstance(fset, fd))))
			var sh []string
			for _, st := range fd.Body.List {
				sh = append(sh, coqStr(csSrc(fset, st)))
			}
			ctorShapes = append(ctorShapes, fmt.Sprintf("(%s, [%s])", coqStr(c.fn), strings.Join(sh, ";\n     ")))
		}
	}

	// ---- the state map
	lf, err := parse("pkg/grammar/lexer_impl.go")
	if err != nil {
		return "", err
	}
	mapType, keyExpr := "?", "?"
	var mapOps []string
	for _, d := range lf.Decls {
		if gd, ok := d.(*ast.GenDecl); ok && gd.Tok == token.VAR {
			for _, sp := range gd.Specs {
				vs := sp.(*ast.ValueSpec)
				for i, n := range vs.Names {
					if n.Name == "lexerStates" && i < len(vs.Values) {
						mapType = csSrc(fset, vs.Values[i])
					}
				}
			}
		}
	}
	for _, fn := range []string{"ls", "DeleteLexerState"} {
		fd := irFindFunc(lf, fn)
		if fd == nil {
			unknown = append(unknown, fn+" not found")
			continue
		}
		var ops []string
		ast.Inspect(fd.Body, func(x ast.Node) bool {
			if c, ok := x.(*ast.CallExpr); ok {
				if se, ok := c.Fun.(*ast.SelectorExpr); ok && isIdent(se.X, "lexerStates") {
					arg := ""
					if len(c.Args) > 0 {
						arg = csSrc(fset, c.Args[0])
					}
					ops = append(ops, se.Sel.Name+"("+arg+")")
				}
			}
			if as, ok := x.(*ast.AssignStmt); ok && len(as.Lhs) == 1 && isIdent(as.Lhs[0], "key") && len(as.Rhs) == 1 {
				k := csSrc(fset, as.Rhs[0])
				if keyExpr == "?" || keyExpr == k {
					keyExpr = k
				} else {
					keyExpr = "?differs"
				}
			}
			return true
		})
		mapOps = append(mapOps, fmt.Sprintf("(%s, %s)", coqStr(fn), csStrs(ops)))
	}

	// ---- package-level variables of the hand-written files
	var globals []string
	for _, pkg := range []string{"pkg/grammar", "pkg/parse"} {
		var files []*ast.File
		var rels []string
		for _, p := range csGoFiles(filepath.Join(repo, pkg)) {
			rel, _ := filepath.Rel(repo, p)
			f, err := parse(rel)
			if err != nil {
				return "", err
			}
			if strings.HasPrefix(filepath.Base(p), "verif_") {
				continue
			}
			files = append(files, f)
			rels = append(rels, rel)
		}
		written := csWritten(files)
		for i, f := range files {
			if csGenerated(f) {
				continue
			}
			for _, d := range f.Decls {
				gd, ok := d.(*ast.GenDecl)
				if !ok || gd.Tok != token.VAR {
					continue
				}
				for _, sp := range gd.Specs {
					vs := sp.(*ast.ValueSpec)
					for _, n := range vs.Names {
						if n.Name == "_" {
							continue
						}
						class := "Unknown"
						switch {
						case n.Name == "lexerStates":
							class = "keyed-map"
						case !written[n.Name]:
							class = "init-only"
						}
						globals = append(globals, fmt.Sprintf("(%s, %s, %s)", coqStr(rels[i]), coqStr(n.Name), coqStr(class)))
					}
				}
			}
		}
	}

	// ---- postProcess: the order the applications are walked in
	pf, err := parse("pkg/parse/parse.go")
	if err != nil {
		return "", err
	}
	sortedApps := false
	if fd := irFindFunc(pf, "postProcess"); fd == nil {
		unknown = append(unknown, "postProcess not found")
	} else {
		// the loop whose body reads mod.Apps[<loop variable>] or whose range expression is mod.Apps itself
		collected, sorted := map[string]bool{}, map[string]bool{}
		found := false
		for _, st := range fd.Body.List {
			switch s := st.(type) {
			case *ast.RangeStmt:
				if irChainIs(s.X, "mod", "Apps") {
					// either the collecting loop `for a := range mod.Apps { names = append(names, a) }` or the main loop
					if len(s.Body.List) == 1 {
						if as, ok := s.Body.List[0].(*ast.AssignStmt); ok && len(as.Lhs) == 1 && len(as.Rhs) == 1 {
							if c, ok := as.Rhs[0].(*ast.CallExpr); ok && isIdent(c.Fun, "append") && len(c.Args) == 2 &&
								s.Key != nil && isIdent(c.Args[1], s.Key.(*ast.Ident).Name) && s.Value == nil {
								collected[csRoot(as.Lhs[0])] = true
								continue
							}
						}
					}
					found = true // walks the map directly
				} else if id, ok := s.X.(*ast.Ident); ok && !found {
					if irContainsCall(s.Body, "fixParamTypeRef") || csUses(s.Body, "Mixin2") {
						found = true
						sortedApps = collected[id.Name] && sorted[id.Name]
					}
				}
			case *ast.ExprStmt:
				if c, ok := s.X.(*ast.CallExpr); ok && irChainIs(c.Fun, "sort", "Strings") && len(c.Args) == 1 {
					sorted[csRoot(c.Args[0])] = true
				}
			}
		}
		if !found {
			unknown = append(unknown, "postProcess: application loop not recognised")
		}
	}

	// ---- the lexer-state field that does not return to its initial value at the end of a file
	var nmi []string
	if g4, err := os.ReadFile(filepath.Join(repo, "pkg/grammar/SyslLexer.g4")); err != nil {
		return "", err
	} else {
		rule := "?"
		ruleRE := regexp.MustCompile(`^([A-Za-z_][A-Za-z_0-9]*)\s*:`)
		for _, line := range strings.Split(string(g4), "\n") {
			if m := ruleRE.FindStringSubmatch(line); m != nil {
				rule = m[1]
			}
			for rest := line; strings.Contains(rest, "noMoreImports"); {
				i := strings.Index(rest, "noMoreImports")
				before, after := rest[:i], strings.TrimSpace(rest[i+len("noMoreImports"):])
				kind := "?other"
				switch {
				case strings.HasPrefix(after, "= true"):
					kind = "set-true"
				case strings.HasPrefix(after, "}?") && strings.HasSuffix(strings.TrimSpace(before), "!ls(p)."):
					kind = "guard-not"
				}
				nmi = append(nmi, fmt.Sprintf("(%s, %s)", coqStr(rule), coqStr(kind)))
				rest = rest[i+len("noMoreImports"):]
			}
		}
	}
	var fields []string
	ast.Inspect(lf, func(x ast.Node) bool {
		if ts, ok := x.(*ast.TypeSpec); ok && ts.Name.Name == "lexerState" {
			if st, ok := ts.Type.(*ast.StructType); ok {
				for _, f := range st.Fields.List {
					for _, n := range f.Names {
						fields = append(fields, n.Name)
					}
				}
			}
		}
		return true
	})

	site := func(s csSite, withDefer bool) string {
		if withDefer {
			return fmt.Sprintf("(%s, %s, %s, %s)", coqStr(s.file), coqStr(s.fn), coqStr(s.ctor), irBool(s.deferred))
		}
		return fmt.Sprintf("(%s, %s, %s)", coqStr(s.file), coqStr(s.fn), coqStr(s.ctor))
	}
	var ls, ps []string
	for _, s := range lexSites {
		ls = append(ls, site(s, true))
	}
	for _, s := range parSites {
		ps = append(ps, site(s, false))
	}

	var b strings.Builder
	b.WriteString("(* GENERATED by vt ConcShape from pkg/parse/parse.go, pkg/grammar/lexer_impl.go, threadsafe_*.go, sysl_lexer.go, sysl_parser.go and every lexer construction under pkg/ and cmd/ -- do not edit *)\n")
	b.WriteString("From Coq Require Import List String Bool.\nImport ListNotations.\nLocal Open Scope string_scope.\n")
	fmt.Fprintf(&b, "Definition lexer_sites : list (string * string * string * bool) := %s.\n", csList(ls))
	fmt.Fprintf(&b, "Definition parser_sites : list (string * string * string) := %s.\n", csList(ps))
	fmt.Fprintf(&b, "Definition delete_deferred : bool := %s.\n", irBool(deleteDeferred))
	fmt.Fprintf(&b, "Definition parse_lexer_ctor : string := %s.\n", coqStr(parseLexCtor))
	fmt.Fprintf(&b, "Definition parse_parser_ctor : string := %s.\n", coqStr(parseParCtor))
	fmt.Fprintf(&b, "Definition sim_args : list (string * list string) := %s.\n", csList(simArgs))
	fmt.Fprintf(&b, "Definition per_instance_atn : list (string * string) := %s.\n", csList(perInstance))
	fmt.Fprintf(&b, "Definition threadsafe_shapes : list (string * list string) := %s.\n", csList(ctorShapes))
	fmt.Fprintf(&b, "Definition state_map_type : string := %s.\n", coqStr(mapType))
	fmt.Fprintf(&b, "Definition state_key : string := %s.\n", coqStr(keyExpr))
	fmt.Fprintf(&b, "Definition state_map_ops : list (string * list string) := %s.\n", csList(mapOps))
	fmt.Fprintf(&b, "Definition globals : list (string * string * string) := %s.\n", csList(globals))
	fmt.Fprintf(&b, "Definition state_fields : list string := %s.\n", csStrs(fields))
	fmt.Fprintf(&b, "Definition no_more_imports_uses : list (string * string) := %s.\n", csList(nmi))
	fmt.Fprintf(&b, "Definition sorted_apps : bool := %s.\n", irBool(sortedApps))
	r3, err := concShapeRound3(repo, dirs, &unknown)
	if err != nil {
		return "", err
	}
	b.WriteString(r3)
	fmt.Fprintf(&b, "Definition unknown : list string := %s.\n", csStrs(unknown))
	return b.String(), nil
}

// ---------------------------------------------------------------------------------------------------------------
// Round 3: state that two compilations could share above the lexer, and the loops of the compile path whose order
// could reach the model.
//
//	infer_views_order        how Parser.inferTypes walks the views of an application: "sorted" (names collected from the
//	                         map, sort.Strings, slice walked), "map" (ranges over the map itself), else Unknown
//	anon_counter_scope       where the AnonType_<n>__ counter handed to inferExprType starts: "per-view" (literal 0 in the
//	                         loop) / "per-app" (a variable declared before the loop and updated from the call's result)
//	parser_field_writers     every field of parse.Parser with the methods of Parser that assign it or store into it
//	let_guard                what inferExprType does with a `let` whose scope key is already in p.LetTypes
//	parser_value_sites       every NewParser() call under pkg/ and cmd/ (no tests): chained / arg / local (the variable is
//	                         never mentioned in a go statement nor stored in a field or package variable) / else
//	listener_sites           the same for NewTreeShapeListener()
//	retrieved_decl / retrieved_protocol
//	                         the retrieved-file table: where Parse creates it, and the order of Lock / Unlock / accesses
//	                         of its map / the blocking read in collectSpecs (nesting of if-bodies shown by braces)
//	file_index_shape         the statements of fileNameToIndex and cleanImportFilename (what identifies two imports)
//	parse_map_ranges         every `range` over a map in the hand-written files of pkg/parse (typed with the C19 loader),
//	                         with the C19 body class
func concShapeRound3(repo string, dirs []string, unknown *[]string) (string, error) {
	unk := func(f string, a ...interface{}) { *unknown = append(*unknown, fmt.Sprintf(f, a...)) }
	gf, err := parseGo(repo, "pkg/parse/parse.go")
	if err != nil {
		return "", err
	}
	pf, fset := gf.file, gf.fset
	src := func(n ast.Node) string { return csSrc(fset, n) }

	// ---- inferTypes
	viewsOrder, counter := "Unknown", "Unknown"
	if fd := irFindFunc(pf, "inferTypes"); fd == nil {
		unk("inferTypes not found")
	} else {
		collected, sorted, viewMaps, declared := map[string]bool{}, map[string]bool{}, map[string]bool{}, map[string]bool{}
		isViews := func(e ast.Expr) bool {
			if id, ok := e.(*ast.Ident); ok {
				return viewMaps[id.Name]
			}
			ch := selChain(e)
			if ch != nil {
				return ch[len(ch)-1] == "Views"
			}
			if se, ok := e.(*ast.SelectorExpr); ok {
				return se.Sel.Name == "Views"
			}
			return false
		}
		for _, st := range fd.Body.List {
			switch s := st.(type) {
			case *ast.AssignStmt:
				if s.Tok == token.DEFINE && len(s.Lhs) == 1 && len(s.Rhs) == 1 {
					if id, ok := s.Lhs[0].(*ast.Ident); ok {
						declared[id.Name] = true
						if isViews(s.Rhs[0]) {
							viewMaps[id.Name] = true
						}
					}
				}
			case *ast.ExprStmt:
				if c, ok := s.X.(*ast.CallExpr); ok && irChainIs(c.Fun, "sort", "Strings") && len(c.Args) == 1 {
					sorted[csRoot(c.Args[0])] = true
				}
			case *ast.RangeStmt:
				if !irContainsCall(s.Body, "p", "inferExprType") {
					if isViews(s.X) && len(s.Body.List) == 1 && s.Value == nil && s.Key != nil {
						if as, ok := s.Body.List[0].(*ast.AssignStmt); ok && len(as.Lhs) == 1 && len(as.Rhs) == 1 {
							if c, ok := as.Rhs[0].(*ast.CallExpr); ok && isIdent(c.Fun, "append") && len(c.Args) == 2 &&
								isIdent(c.Args[1], s.Key.(*ast.Ident).Name) {
								collected[csRoot(as.Lhs[0])] = true
							}
						}
					}
					continue
				}
				switch {
				case isViews(s.X):
					viewsOrder = "map"
				case collected[csRoot(s.X)] && sorted[csRoot(s.X)]:
					viewsOrder = "sorted"
				}
				ast.Inspect(s.Body, func(x ast.Node) bool {
					c, ok := x.(*ast.CallExpr)
					if !ok || !irChainIs(c.Fun, "p", "inferExprType") || len(c.Args) < 5 {
						return true
					}
					switch a := c.Args[4].(type) {
					case *ast.BasicLit:
						if a.Value == "0" {
							counter = "per-view"
						}
					case *ast.Ident:
						// `_, a, _ = p.inferExprType(..., a, ...)` with a declared before the loop
						ast.Inspect(s.Body, func(y ast.Node) bool {
							if as, ok := y.(*ast.AssignStmt); ok && as.Tok == token.ASSIGN && len(as.Rhs) == 1 && as.Rhs[0] == ast.Expr(c) &&
								len(as.Lhs) == 3 && isIdent(as.Lhs[1], a.Name) && declared[a.Name] {
								counter = "per-app"
							}
							return true
						})
					}
					return true
				})
			}
		}
		if viewsOrder == "Unknown" {
			unk("inferTypes: view loop not recognised")
		}
		if counter == "Unknown" {
			unk("inferTypes: anonymous-type counter not recognised")
		}
	}

	// ---- parse.Parser: fields and who writes them; the let guard of inferExprType
	var fields []string
	ast.Inspect(pf, func(x ast.Node) bool {
		if ts, ok := x.(*ast.TypeSpec); ok && ts.Name.Name == "Parser" {
			if st, ok := ts.Type.(*ast.StructType); ok {
				for _, f := range st.Fields.List {
					if len(f.Names) == 0 {
						fields = append(fields, src(f.Type))
					}
					for _, n := range f.Names {
						fields = append(fields, n.Name)
					}
				}
			}
		}
		return true
	})
	writers := map[string][]string{}
	var parseFiles []*ast.File
	for _, p := range csGoFiles(filepath.Join(repo, "pkg/parse")) {
		rel, _ := filepath.Rel(repo, p)
		g, err := parseGo(repo, rel)
		if err != nil {
			return "", err
		}
		if strings.HasPrefix(filepath.Base(p), "verif_") {
			continue
		}
		parseFiles = append(parseFiles, g.file)
		for _, fd := range funcDecls(g.file) {
			if recvName(fd) != "Parser" || fd.Body == nil {
				continue
			}
			rv := recvVar(fd)
			note := func(e ast.Expr) {
				for {
					if ix, ok := e.(*ast.IndexExpr); ok {
						e = ix.X
						continue
					}
					break
				}
				if se, ok := e.(*ast.SelectorExpr); ok && isIdent(se.X, rv) {
					ws := writers[se.Sel.Name]
					if len(ws) == 0 || ws[len(ws)-1] != fd.Name.Name {
						writers[se.Sel.Name] = append(ws, fd.Name.Name)
					}
				}
			}
			ast.Inspect(fd.Body, func(x ast.Node) bool {
				switch s := x.(type) {
				case *ast.AssignStmt:
					for _, l := range s.Lhs {
						note(l)
					}
				case *ast.IncDecStmt:
					note(s.X)
				case *ast.CallExpr:
					if isIdent(s.Fun, "delete") && len(s.Args) > 0 {
						note(s.Args[0])
					}
				}
				return true
			})
		}
	}
	var fw []string
	for _, f := range fields {
		fw = append(fw, fmt.Sprintf("(%s, %s)", coqStr(f), csStrs(writers[f])))
	}
	// functions of pkg/parse that mention p.<field> of an accumulator at all (store targets included): who could READ it
	var fr []string
	for _, f := range []string{"AssignTypes", "LetTypes", "Messages"} {
		var fns []string
		for _, file := range parseFiles {
			for _, fd := range funcDecls(file) {
				if fd.Body == nil {
					continue
				}
				found := false
				ast.Inspect(fd.Body, func(x ast.Node) bool {
					if se, ok := x.(*ast.SelectorExpr); ok && se.Sel.Name == f {
						found = true
					}
					return !found
				})
				if found {
					fns = append(fns, fd.Name.Name)
				}
			}
		}
		fr = append(fr, fmt.Sprintf("(%s, %s)", coqStr(f), csStrs(fns)))
	}
	for f := range writers {
		known := false
		for _, g := range fields {
			known = known || f == g
		}
		if !known {
			unk("Parser field %s written but not declared", f)
		}
	}
	letGuard := "Unknown"
	if fd := irFindFunc(pf, "inferExprType"); fd != nil {
		ast.Inspect(fd.Body, func(x ast.Node) bool {
			cc, ok := x.(*ast.CaseClause)
			if !ok || len(cc.List) != 1 || !strings.HasSuffix(src(cc.List[0]), "Expr_Transform_Stmt_Let") {
				return true
			}
			for _, st := range cc.Body {
				is, ok := st.(*ast.IfStmt)
				if !ok || is.Init == nil || !strings.Contains(src(is.Init), "p.LetTypes[") || is.Else == nil {
					continue
				}
				thenInfers := irContainsCall(is.Body, "p", "inferExprType")
				elseInfers := irContainsCall(is.Else, "p", "inferExprType")
				elseStores := strings.Contains(src(is.Else), "p.LetTypes[")
				thenMessage := strings.Contains(src(is.Body), "p.Messages[viewName] = append(p.Messages[viewName]")
				switch {
				case !thenInfers && elseInfers && elseStores && thenMessage: // (second pass) the skipped let leaves a message
					letGuard = "seen:message+skip;new:infer+record"
				case !thenInfers && elseInfers && elseStores:
					letGuard = "seen:skip;new:infer+record"
				default:
					letGuard = "Unknown: " + src(is.Init)
				}
			}
			return false
		})
	}
	if strings.HasPrefix(letGuard, "Unknown") {
		unk("inferExprType: let guard not recognised")
	}

	// ---- construction sites of Parser and TreeShapeListener values
	valueSites := func(ctor string) ([]string, error) {
		var out []string
		for _, d := range dirs {
			for _, p := range csGoFiles(d) {
				b, err := os.ReadFile(p)
				if err != nil || !bytes.Contains(b, []byte(ctor+"(")) {
					continue
				}
				rel, _ := filepath.Rel(repo, p)
				g, err := parseGo(repo, rel)
				if err != nil {
					return nil, err
				}
				if csGenerated(g.file) || strings.HasPrefix(filepath.Base(p), "verif_") {
					continue
				}
				for _, fd := range funcDecls(g.file) {
					if fd.Body == nil || fd.Name.Name == ctor {
						continue
					}
					out = append(out, csValueSites(rel, fd, ctor)...)
				}
			}
		}
		return out, nil
	}
	pSites, err := valueSites("NewParser")
	if err != nil {
		return "", err
	}
	lSites, err := valueSites("NewTreeShapeListener")
	if err != nil {
		return "", err
	}

	// ---- the retrieved-file table
	retrievedDecl := "Unknown"
	if fd := irFindFunc(pf, "Parse"); fd != nil {
		for _, st := range fd.Body.List {
			if as, ok := st.(*ast.AssignStmt); ok && as.Tok == token.DEFINE && len(as.Lhs) == 1 && isIdent(as.Lhs[0], "retrieved") {
				if cl, ok := as.Rhs[0].(*ast.CompositeLit); ok && src(cl.Type) == "retrievedList" {
					retrievedDecl = "local of Parse"
				}
			}
		}
	}
	if retrievedDecl == "Unknown" {
		unk("Parse: the retrieved-file table is not a local composite literal")
	}
	var protocol []string
	if fd := irFindFunc(pf, "collectSpecs"); fd == nil {
		unk("collectSpecs not found")
	} else {
		var walk func(n ast.Node)
		event := func(x ast.Node) (string, bool) {
			switch e := x.(type) {
			case *ast.CallExpr:
				switch {
				case irChainIs(e.Fun, "retrieved", "mutex", "Lock"):
					return "Lock", true
				case irChainIs(e.Fun, "retrieved", "mutex", "Unlock"):
					return "Unlock", true
				case irChainIs(e.Fun, "reader", "ReadHashBranch"), irChainIs(e.Fun, "reader", "Read"), irChainIs(e.Fun, "reader", "ReadHash"):
					return "read-file", true
				case irChainIs(e.Fun, "g", "Go"):
					return "spawn-children", true
				case irChainIs(e.Fun, "g", "Wait"):
					return "wait-children", true
				}
			case *ast.SelectorExpr:
				if irChainIs(e, "retrieved", "l") {
					return "table", true
				}
			}
			return "", false
		}
		walk = func(n ast.Node) {
			switch s := n.(type) {
			case *ast.BlockStmt:
				for _, st := range s.List {
					walk(st)
				}
			case *ast.IfStmt:
				before := len(protocol)
				if s.Init != nil {
					walk(s.Init)
				}
				walk(s.Cond)
				for _, ev := range protocol[before:] {
					if ev == "table" { // the condition under which a later claimant leaves
						protocol = append(protocol, "if:"+src(s.Cond))
						break
					}
				}
				protocol = append(protocol, "{")
				walk(s.Body)
				protocol = append(protocol, "}")
				if s.Else != nil {
					protocol = append(protocol, "else{")
					walk(s.Else)
					protocol = append(protocol, "}")
				}
			case *ast.ReturnStmt:
				for _, r := range s.Results {
					walk(r)
				}
				protocol = append(protocol, "return")
			case *ast.AssignStmt:
				for _, r := range s.Rhs {
					walk(r)
				}
				for _, l := range s.Lhs {
					before := len(protocol)
					walk(l)
					for i := before; i < len(protocol); i++ {
						if protocol[i] == "table" {
							protocol[i] = "table-store"
						}
					}
				}
			case *ast.FuncLit:
				walk(s.Body)
			case nil:
			default:
				ast.Inspect(n, func(x ast.Node) bool {
					if x == nil || x == n {
						return true
					}
					switch x.(type) {
					case *ast.BlockStmt, *ast.IfStmt, *ast.ReturnStmt, *ast.AssignStmt, *ast.FuncLit:
						walk(x)
						return false
					}
					if ev, ok := event(x); ok {
						protocol = append(protocol, ev)
						if ev == "table" {
							return false
						}
					}
					return true
				})
				if ev, ok := event(n); ok {
					protocol = append(protocol, ev)
				}
			}
		}
		walk(fd.Body)
		// drop if-bodies without events (the version / app-name checks), keep the nesting of the others
		for changed := true; changed; {
			changed = false
			for i := 0; i+1 < len(protocol); i++ {
				if (protocol[i] == "{" || protocol[i] == "else{") && protocol[i+1] == "}" {
					protocol = append(protocol[:i], protocol[i+2:]...)
					changed = true
					break
				}
				if (protocol[i] == "{" || protocol[i] == "else{") && protocol[i+1] == "return" && i+2 < len(protocol) && protocol[i+2] == "}" {
					protocol = append(protocol[:i], protocol[i+3:]...)
					changed = true
					break
				}
			}
		}
	}

	// ---- what identifies an import
	var indexShape []string
	for _, fn := range []struct{ file, name string }{{"pkg/parse/parse.go", "fileNameToIndex"}, {"pkg/parse/utils.go", "cleanImportFilename"}} {
		g, err := parseGo(repo, fn.file)
		if err != nil {
			return "", err
		}
		fd := irFindFunc(g.file, fn.name)
		if fd == nil {
			unk("%s not found", fn.name)
			continue
		}
		for _, st := range fd.Body.List {
			indexShape = append(indexShape, coqStr(fn.name+": "+csSrc(g.fset, st)))
		}
	}

	// ---- map ranges of pkg/parse (hand-written files), typed
	var ranges []string
	si := newSrcImporter(repo)
	if si.modpath == "" {
		unk("cannot read go.mod")
	} else if files, info, _ := si.checkTarget("pkg/parse"); info == nil {
		unk("cannot load pkg/parse")
	} else {
		sort.Slice(files, func(i, j int) bool { return si.fset.File(files[i].Pos()).Name() < si.fset.File(files[j].Pos()).Name() })
		for _, f := range files {
			name := filepath.Base(si.fset.File(f.Pos()).Name())
			if csGenerated(f) || strings.HasPrefix(name, "verif_") || strings.HasSuffix(name, "_test.go") {
				continue
			}
			for _, fd := range funcDecls(f) {
				if fd.Body == nil {
					continue
				}
				n := 0
				ast.Inspect(fd.Body, func(nd ast.Node) bool {
					rs, ok := nd.(*ast.RangeStmt)
					if !ok {
						return true
					}
					isMap, known := isMapType(info.TypeOf(rs.X))
					if known && !isMap {
						return true
					}
					n++
					class := "Unknown"
					if known {
						class, _ = classifyRange(si, info, fd, rs)
					} else {
						unk("pkg/parse %s: type of %s not resolved", funcKey(fd), nodeSrc(si, rs.X))
					}
					ranges = append(ranges, fmt.Sprintf("(%s, %s, %s)", coqStr(name+":"+funcKey(fd)), coqStr(strings.Join(strings.Fields(nodeSrc(si, rs.X)), " ")), coqStr(class)))
					return true
				})
			}
		}
	}
	_ = types.Typ

	// ---- package-level variables of the hand-written packages the compile path calls into
	var depGlobals []string
	for _, pkg := range []string{"pkg/syslutil", "pkg/pbutil", "pkg/msg", "pkg/env", "pkg/importer", "pkg/printer", "pkg/sysl"} {
		var files []*ast.File
		var rels []string
		for _, p := range csGoFiles(filepath.Join(repo, pkg)) {
			rel, _ := filepath.Rel(repo, p)
			g, err := parseGo(repo, rel)
			if err != nil {
				return "", err
			}
			if strings.HasPrefix(filepath.Base(p), "verif_") {
				continue
			}
			files = append(files, g.file)
			rels = append(rels, rel)
		}
		written := csWritten(files)
		for i, f := range files {
			if csGenerated(f) {
				continue
			}
			for _, d := range f.Decls {
				gd, ok := d.(*ast.GenDecl)
				if !ok || gd.Tok != token.VAR {
					continue
				}
				for _, sp := range gd.Specs {
					for _, n := range sp.(*ast.ValueSpec).Names {
						if n.Name == "_" {
							continue
						}
						class := "written"
						if !written[n.Name] {
							class = "init-only"
						}
						depGlobals = append(depGlobals, fmt.Sprintf("(%s, %s, %s)", coqStr(rels[i]), coqStr(n.Name), coqStr(class)))
					}
				}
			}
		}
	}

	// ---- (round 3, second pass) what Parser.Parse does to the accumulators before anything else, and the only way into
	// view inference.  parse_reset_fields: the fields F of the leading statements `p.F = <empty map>` of Parse, plain or under
	// `if p.F == nil || len(p.F) > 0` (the prefix
	// of its body that consists of such statements; anything else ends it).  infer_entry: every
	// function of pkg/parse on the way up from inferExprType to Parse, with the functions of pkg/parse that mention it.
	var resetFields []string
	if fd := irFindFunc(pf, "Parse"); fd == nil || recvName(fd) != "Parser" || fd.Body == nil {
		unk("Parser.Parse not found")
	} else {
		rv := recvVar(fd)
		emptyMap := func(e ast.Expr) bool {
			switch v := e.(type) {
			case *ast.CompositeLit:
				_, isMap := v.Type.(*ast.MapType)
				return isMap && len(v.Elts) == 0
			case *ast.CallExpr:
				if isIdent(v.Fun, "make") && len(v.Args) == 1 {
					_, isMap := v.Args[0].(*ast.MapType)
					return isMap
				}
			}
			return false
		}
		// `p.F = <empty map>`, or the same under `if p.F == nil || len(p.F) > 0` (a map that holds nothing is as good as
		// a new one)
		resetOf := func(st ast.Stmt) string {
			as, ok := st.(*ast.AssignStmt)
			if !ok || as.Tok != token.ASSIGN || len(as.Lhs) != 1 || len(as.Rhs) != 1 || !emptyMap(as.Rhs[0]) {
				return ""
			}
			se, ok := as.Lhs[0].(*ast.SelectorExpr)
			if !ok || !isIdent(se.X, rv) {
				return ""
			}
			return se.Sel.Name
		}
		for _, st := range fd.Body.List {
			f := resetOf(st)
			if is, ok := st.(*ast.IfStmt); ok && is.Init == nil && is.Else == nil && len(is.Body.List) == 1 {
				if g := resetOf(is.Body.List[0]); g != "" && src(is.Cond) == fmt.Sprintf("%s.%s == nil || len(%s.%s) > 0", rv, g, rv, g) {
					f = g
				}
			}
			if f == "" {
				break
			}
			resetFields = append(resetFields, f)
		}
	}
	var inferEntry []string
	{
		callersOf := func(callee string) []string {
			var callers []string
			for _, file := range parseFiles {
				for _, fd := range funcDecls(file) {
					if fd.Body == nil {
						continue
					}
					found := false
					ast.Inspect(fd.Body, func(x ast.Node) bool {
						if se, ok := x.(*ast.SelectorExpr); ok && se.Sel.Name == callee {
							found = true
						}
						if id, ok := x.(*ast.Ident); ok && id.Name == callee {
							found = true
						}
						return !found
					})
					if found {
						callers = append(callers, fd.Name.Name)
					}
				}
			}
			return callers
		}
		// upwards from inferExprType until Parse (where the accumulators are made fresh): every function on the way
		work, seen := []string{"inferExprType"}, map[string]bool{"inferExprType": true, "Parse": true}
		for len(work) > 0 && len(inferEntry) < 40 {
			callee := work[0]
			work = work[1:]
			callers := callersOf(callee)
			inferEntry = append(inferEntry, fmt.Sprintf("(%s, %s)", coqStr(callee), csStrs(callers)))
			for _, c := range callers {
				if !seen[c] {
					seen[c] = true
					work = append(work, c)
				}
			}
		}
	}

	// ---- (second pass) fixTypeRefScope: its statements (comments dropped by go/printer on a statement), and where the
	// application loop of postProcess calls what: the calls of the listed functions in source order inside the range body
	var fixShape, loopCalls []string
	if fd := irFindFunc(pf, "fixTypeRefScope"); fd == nil || fd.Body == nil {
		unk("fixTypeRefScope not found")
	} else {
		for _, st := range fd.Body.List {
			fixShape = append(fixShape, coqStr(src(st)))
		}
	}
	if fd := irFindFunc(pf, "postProcess"); fd == nil || fd.Body == nil {
		unk("postProcess not found")
	} else {
		for _, st := range fd.Body.List {
			rs, ok := st.(*ast.RangeStmt)
			if !ok || !strings.Contains(src(rs.X), "appNames") {
				continue
			}
			ast.Inspect(rs.Body, func(x ast.Node) bool {
				switch v := x.(type) {
				case *ast.CallExpr:
					switch n := csCallee(v); n {
					case "fixParamTypeRef", "fixTypeRefScope", "inferTypes", "collectorPubSubCalls", "renestTypes", "GetApp":
						loopCalls = append(loopCalls, coqStr(n))
					}
				case *ast.RangeStmt:
					loopCalls = append(loopCalls, coqStr("range "+src(v.X)))
				}
				return true
			})
		}
	}

	var b strings.Builder
	b.WriteString("(* round 3 *)\n")
	fmt.Fprintf(&b, "Definition infer_views_order : string := %s.\n", coqStr(viewsOrder))
	fmt.Fprintf(&b, "Definition sorted_views : bool := %s.\n", irBool(viewsOrder == "sorted"))
	fmt.Fprintf(&b, "Definition anon_counter_scope : string := %s.\n", coqStr(counter))
	fmt.Fprintf(&b, "Definition per_app_counter : bool := %s.\n", irBool(counter == "per-app"))
	fmt.Fprintf(&b, "Definition parser_field_writers : list (string * list string) := %s.\n", csList(fw))
	fmt.Fprintf(&b, "Definition let_guard : string := %s.\n", coqStr(letGuard))
	fmt.Fprintf(&b, "Definition parser_field_users : list (string * list string) := %s.\n", csList(fr))
	fmt.Fprintf(&b, "Definition parser_value_sites : list (string * string * string) := %s.\n", csList(pSites))
	fmt.Fprintf(&b, "Definition listener_sites : list (string * string * string) := %s.\n", csList(lSites))
	fmt.Fprintf(&b, "Definition retrieved_decl : string := %s.\n", coqStr(retrievedDecl))
	fmt.Fprintf(&b, "Definition retrieved_protocol : list string := %s.\n", csStrs(protocol))
	fmt.Fprintf(&b, "Definition file_index_shape : list string := %s.\n", csList(indexShape))
	fmt.Fprintf(&b, "Definition parse_map_ranges : list (string * string * string) := %s.\n", csList(ranges))
	fmt.Fprintf(&b, "Definition dep_globals : list (string * string * string) := %s.\n", csList(depGlobals))
	fmt.Fprintf(&b, "Definition parse_reset_fields : list string := %s.\n", csStrs(resetFields))
	fmt.Fprintf(&b, "Definition fix_ref_shape : list string := %s.\n", csList(fixShape))
	fmt.Fprintf(&b, "Definition post_loop_calls : list string := %s.\n", csList(loopCalls))
	fmt.Fprintf(&b, "Definition infer_entry : list (string * list string) := %s.\n", csList(inferEntry))
	return b.String(), nil
}

// csValueSites: how fd uses the values it constructs with ctor()
func csValueSites(rel string, fd *ast.FuncDecl, ctor string) []string {
	var out []string
	add := func(class string) {
		out = append(out, fmt.Sprintf("(%s, %s, %s)", coqStr(rel), coqStr(fd.Name.Name), coqStr(class)))
	}
	isCtor := func(e ast.Expr) bool {
		c, ok := e.(*ast.CallExpr)
		return ok && csCallee(c) == ctor && len(c.Args) == 0
	}
	seen := map[ast.Expr]bool{}
	ast.Inspect(fd.Body, func(x ast.Node) bool {
		switch s := x.(type) {
		case *ast.AssignStmt:
			if len(s.Lhs) == 1 && len(s.Rhs) == 1 && isCtor(s.Rhs[0]) {
				seen[s.Rhs[0]] = true
				id, ok := s.Lhs[0].(*ast.Ident)
				if !ok || s.Tok != token.DEFINE {
					add("stored:" + strings.Join(selChain(s.Lhs[0]), "."))
					return true
				}
				class := "local"
				ast.Inspect(fd.Body, func(y ast.Node) bool {
					switch t := y.(type) {
					case *ast.GoStmt:
						if csUses(t, id.Name) {
							class = "goroutine"
						}
					case *ast.AssignStmt:
						if t.Tok == token.ASSIGN {
							for i, r := range t.Rhs {
								if isIdent(r, id.Name) && i < len(t.Lhs) {
									if _, plain := t.Lhs[i].(*ast.Ident); !plain {
										class = "stored:" + strings.Join(selChain(t.Lhs[i]), ".")
									}
								}
							}
						}
					case *ast.CallExpr:
						// errgroup / WaitGroup style: a function literal handed to .Go(...) that mentions the value
						if se, ok := t.Fun.(*ast.SelectorExpr); ok && se.Sel.Name == "Go" {
							for _, a := range t.Args {
								if csUses(a, id.Name) {
									class = "goroutine"
								}
							}
						}
					}
					return true
				})
				add(class)
			}
		case *ast.CallExpr:
			if se, ok := s.Fun.(*ast.SelectorExpr); ok && isCtor(se.X) {
				seen[se.X] = true
				add("chained:" + se.Sel.Name)
			}
			for _, a := range s.Args {
				if isCtor(a) {
					seen[a] = true
					add("arg:" + csCallee(s))
				}
			}
		}
		return true
	})
	ast.Inspect(fd.Body, func(x ast.Node) bool {
		if e, ok := x.(ast.Expr); ok && isCtor(e) && !seen[e] {
			add("?other")
		}
		return true
	})
	return out
}
