package main

import (
	"fmt"
	"go/ast"
	"go/token"
	"regexp/syntax"
	"sort"
	"strconv"
	"strings"
)

// JsonRegex: what pkg/pbutil/output.go does to protojson's bytes.
//
//	regex            syntax tree (regexp/syntax, Perl flags, not simplified) of the literal bound to the
//	                 package variable whose ReplaceAll is applied to the marshalled bytes in FJSONPBWithOpt
//	replace_template the []byte("...") template of that ReplaceAll
//	flow_ok          in FJSONPBWithOpt: X, err := <opts>.Marshal(m); X = RE.ReplaceAll(X, tmpl); w.Write(X) in this order,
//	                 nothing else assigns X
//	marshal_opts     fields of the protojson.MarshalOptions literal; compact_opts: assignments under `if o.Compact`
func init() { register("JsonRegex", jsonRegex) }

func c09str(s string) string { return "\"" + strings.ReplaceAll(s, "\"", "\"\"") + "\"" }

func c09runes(rs []rune) string {
	it := make([]string, len(rs))
	for i, r := range rs {
		it[i] = strconv.Itoa(int(r))
	}
	return "[" + strings.Join(it, ";") + "]%N"
}

func c09re(r *syntax.Regexp) string {
	greedy := gbool(r.Flags&syntax.NonGreedy == 0)
	subs := func() string {
		it := make([]string, len(r.Sub))
		for i, s := range r.Sub {
			it[i] = c09re(s)
		}
		return "[" + strings.Join(it, "; ") + "]"
	}
	switch r.Op {
	case syntax.OpLiteral:
		if r.Flags&syntax.FoldCase != 0 {
			return "(ROther \"fold-case literal\")"
		}
		return "(RLit " + c09runes(r.Rune) + ")"
	case syntax.OpCharClass:
		var it []string
		for i := 0; i+1 < len(r.Rune); i += 2 {
			it = append(it, fmt.Sprintf("(%d,%d)", r.Rune[i], r.Rune[i+1]))
		}
		return "(RClass [" + strings.Join(it, ";") + "]%N)"
	case syntax.OpAnyCharNotNL:
		return "RAnyNotNL"
	case syntax.OpAnyChar:
		return "RAny"
	case syntax.OpBeginLine:
		return "RBeginLine"
	case syntax.OpEndLine:
		return "REndLine"
	case syntax.OpBeginText:
		return "RBeginText"
	case syntax.OpEndText:
		return "REndText"
	case syntax.OpStar:
		return "(RStar " + greedy + " " + c09re(r.Sub[0]) + ")"
	case syntax.OpPlus:
		return "(RPlus " + greedy + " " + c09re(r.Sub[0]) + ")"
	case syntax.OpQuest:
		return "(RQuest " + greedy + " " + c09re(r.Sub[0]) + ")"
	case syntax.OpConcat:
		return "(RCat " + subs() + ")"
	case syntax.OpAlternate:
		return "(RAlt " + subs() + ")"
	case syntax.OpCapture:
		return fmt.Sprintf("(RCap %d%%N %s)", r.Cap, c09re(r.Sub[0]))
	case syntax.OpEmptyMatch:
		return "REmpty"
	}
	return "(ROther " + c09str(r.Op.String()) + ")"
}

func c09strLit(e ast.Expr) (string, bool) {
	bl, ok := e.(*ast.BasicLit)
	if !ok || bl.Kind != token.STRING {
		return "", false
	}
	s, err := strconv.Unquote(bl.Value)
	return s, err == nil
}

// []byte("...") -> the string
func c09byteSliceLit(e ast.Expr) (string, bool) {
	c, ok := e.(*ast.CallExpr)
	if !ok || len(c.Args) != 1 {
		return "", false
	}
	at, ok := c.Fun.(*ast.ArrayType)
	if !ok || at.Len != nil || !isIdent(at.Elt, "byte") {
		return "", false
	}
	return c09strLit(c.Args[0])
}

func c09exprText(e ast.Expr) string {
	switch x := e.(type) {
	case *ast.BasicLit:
		return x.Value
	case *ast.Ident:
		return x.Name
	}
	return "?"
}

func jsonRegex(repo string) (string, error) {
	gf, err := parseGo(repo, "pkg/pbutil/output.go")
	if err != nil {
		return "", err
	}
	// package-level regexp variables: name -> literal
	reVars := map[string]string{}
	for _, d := range gf.file.Decls {
		gd, ok := d.(*ast.GenDecl)
		if !ok || gd.Tok != token.VAR {
			continue
		}
		for _, sp := range gd.Specs {
			vs, ok := sp.(*ast.ValueSpec)
			if !ok || len(vs.Names) != 1 || len(vs.Values) != 1 {
				continue
			}
			c, ok := vs.Values[0].(*ast.CallExpr)
			if !ok || len(c.Args) != 1 {
				continue
			}
			ch := selChain(c.Fun)
			if len(ch) == 2 && ch[0] == "regexp" && (ch[1] == "MustCompile") {
				if s, ok := c09strLit(c.Args[0]); ok {
					reVars[vs.Names[0].Name] = s
				}
			}
		}
	}
	var fn *ast.FuncDecl
	for _, fd := range funcDecls(gf.file) {
		if fd.Name.Name == "FJSONPBWithOpt" && fd.Recv == nil {
			fn = fd
		}
	}
	if fn == nil {
		return "", fmt.Errorf("FJSONPBWithOpt not found")
	}
	// statements of the body in order, looking for the three steps on one variable
	optsVar, bytesVar := "", ""
	marshalOpts := map[string]string{}
	compactOpts := map[string]string{}
	reName, tmpl := "", ""
	step := 0 // 0 nothing, 1 marshalled, 2 replaced, 3 written
	nReplace, flowOK := 0, true
	for _, st := range fn.Body.List {
		switch s := st.(type) {
		case *ast.AssignStmt:
			if len(s.Rhs) != 1 {
				continue
			}
			// ma := protojson.MarshalOptions{...}
			if cl, ok := s.Rhs[0].(*ast.CompositeLit); ok && len(s.Lhs) == 1 {
				if ch := selChain(cl.Type); len(ch) == 2 && ch[0] == "protojson" && ch[1] == "MarshalOptions" {
					if id, ok := s.Lhs[0].(*ast.Ident); ok {
						optsVar = id.Name
					}
					for _, el := range cl.Elts {
						if kv, ok := el.(*ast.KeyValueExpr); ok {
							marshalOpts[c09exprText(kv.Key)] = c09exprText(kv.Value)
						}
					}
				}
				continue
			}
			c, ok := s.Rhs[0].(*ast.CallExpr)
			if !ok {
				continue
			}
			ch := selChain(c.Fun)
			if len(ch) == 2 && ch[0] == optsVar && optsVar != "" && ch[1] == "Marshal" && len(s.Lhs) == 2 {
				if id, ok := s.Lhs[0].(*ast.Ident); ok && step == 0 {
					bytesVar = id.Name
					step = 1
				} else {
					flowOK = false
				}
				continue
			}
			if len(ch) == 2 && ch[1] == "ReplaceAll" && len(c.Args) == 2 && len(s.Lhs) == 1 {
				nReplace++
				if _, isRe := reVars[ch[0]]; isRe && step == 1 && isIdent(s.Lhs[0], bytesVar) && isIdent(c.Args[0], bytesVar) {
					if t, ok := c09byteSliceLit(c.Args[1]); ok {
						reName, tmpl = ch[0], t
						step = 2
						continue
					}
				}
				flowOK = false
				continue
			}
			// w.Write(mb)
			if len(ch) == 2 && ch[1] == "Write" && len(c.Args) == 1 {
				if step == 2 && isIdent(c.Args[0], bytesVar) {
					step = 3
				} else {
					flowOK = false
				}
				continue
			}
			// any other assignment to the byte variable breaks the flow
			for _, l := range s.Lhs {
				if bytesVar != "" && isIdent(l, bytesVar) {
					flowOK = false
				}
			}
		case *ast.IfStmt:
			// if o.Compact { ma.X = v ... }
			if ch := selChain(s.Cond); len(ch) == 2 && ch[1] == "Compact" && s.Else == nil {
				for _, b := range s.Body.List {
					as, ok := b.(*ast.AssignStmt)
					if !ok || len(as.Lhs) != 1 || len(as.Rhs) != 1 {
						compactOpts["?"] = "?"
						continue
					}
					l := selChain(as.Lhs[0])
					if len(l) == 2 && l[0] == optsVar {
						compactOpts[l[1]] = c09exprText(as.Rhs[0])
					} else {
						compactOpts["?"] = "?"
					}
				}
			}
		}
	}
	if step != 3 || nReplace != 1 {
		flowOK = false
	}
	var b strings.Builder
	b.WriteString("(* GENERATED by vt JsonRegex from pkg/pbutil/output.go -- do not edit *)\n")
	b.WriteString("From Coq Require Import List String NArith.\nImport ListNotations.\nRequire Import Verif.Codec.JsonClean Verif.Codec.FileWrite.\nLocal Open Scope string_scope.\n")
	lit, have := reVars[reName]
	tree := "(ROther \"no ReplaceAll of a package-level regexp on the marshalled bytes\")"
	if have {
		re, perr := syntax.Parse(lit, syntax.Perl)
		if perr != nil {
			tree = "(ROther " + c09str("does not parse: "+perr.Error()) + ")"
		} else {
			tree = c09re(re)
		}
	}
	fmt.Fprintf(&b, "Definition regex_var : string := %s.\n", c09str(reName))
	fmt.Fprintf(&b, "Definition regex_source : string := %s.\n", c09str(lit))
	fmt.Fprintf(&b, "Definition regex : re := %s.\n", tree)
	fmt.Fprintf(&b, "Definition replace_template : string := %s.\n", c09str(tmpl))
	fmt.Fprintf(&b, "Definition flow_ok : bool := %s.\n", gbool(flowOK))
	pr := func(name string, m map[string]string) {
		var ks []string
		for k := range m {
			ks = append(ks, k)
		}
		sort.Strings(ks)
		it := make([]string, len(ks))
		for i, k := range ks {
			it[i] = "(" + c09str(k) + ", " + c09str(m[k]) + ")"
		}
		fmt.Fprintf(&b, "Definition %s : list (string * string) := [%s].\n", name, strings.Join(it, "; "))
	}
	pr("marshal_opts", marshalOpts)
	pr("compact_opts", compactOpts)
	// how each file writer opens its path
	var ws []string
	for _, name := range []string{"GeneratePBBinaryMessageFile", "JSONPBWithOpt", "TextPBWithOpt"} {
		mode := "OpenUnknown"
		n := 0
		for _, fd := range funcDecls(gf.file) {
			if fd.Name.Name != name || fd.Recv != nil {
				continue
			}
			ast.Inspect(fd.Body, func(nd ast.Node) bool {
				c, ok := nd.(*ast.CallExpr)
				if !ok {
					return true
				}
				ch := selChain(c.Fun)
				if len(ch) != 2 {
					return true
				}
				switch ch[1] {
				case "Create":
					n++
					if len(c.Args) == 1 {
						mode = "OpenCreate"
					}
				case "OpenFile":
					n++
					mode = "OpenUnknown"
					if len(c.Args) == 3 {
						mode = "OpenNoTrunc"
						bad := false
						ast.Inspect(c.Args[1], func(x ast.Node) bool {
							switch y := x.(type) {
							case *ast.SelectorExpr:
								if y.Sel.Name == "O_TRUNC" {
									mode = "OpenTruncFlag"
								}
							case *ast.BinaryExpr:
								if y.Op != token.OR {
									bad = true
								}
							case *ast.Ident, nil:
							default:
								bad = true
							}
							return true
						})
						if bad {
							mode = "OpenUnknown"
						}
					}
				case "Open", "WriteFile":
					n++
					mode = "OpenUnknown"
				}
				return true
			})
		}
		if n != 1 {
			mode = "OpenUnknown"
		}
		ws = append(ws, "("+c09str(name)+", "+mode+")")
	}
	fmt.Fprintf(&b, "Definition file_writers : list (string * open_mode) := [%s].\n", strings.Join(ws, "; "))
	return b.String(), nil
}
