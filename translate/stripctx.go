package main

import (
	"fmt"
	"go/ast"
	"go/printer"
	"go/token"
	"sort"
	"strings"
)

// StripCtx: what `sysl pb` does to the model between compiling and encoding (cmd/sysl/cmd_protobuf.go), and the Go
// types that the reflection walk of removeSourceContextImpl meets (pkg/sysl/sysl.pb.go).
//
//	strip_sites        every call of removeSourceContext in protobufCmd.Execute: (argument as written, conditions of the
//	                   enclosing if statements outermost first, "!" prefixed for an else branch)
//	strip_before_encoders  in the block of each call no pbutil.* call precedes it
//	json_test          the expression bound to the variable that guards the JSON branch, as written
//	strip_entry        how removeSourceContext hands its argument to the walk ("ValueOf" = reflect.ValueOf(target))
//	deref_kinds        kinds unwrapped by the loop `for v.Kind() == K1 || ... { v = v.Elem() }`
//	kind_arms          arms of `switch v.Kind()`: kind -> what the arm recurses into
//	skip_tests         disjuncts of the condition under which a struct field is passed over (`continue`)
//	clear_tests        disjuncts of the condition under which a field is overwritten; clear_action: with what
//	else_recurse       the walk descends into every other field
//	schema             every struct of sysl.pb.go: exported fields in declaration order with the shape of their type
//	oneofs             the oneof interfaces and the wrapper structs that implement them
//	split_writer       OutputSplitApplications: per mode arm of the switch, the encoder called and on what
func init() { register("StripCtx", stripCtx) }

func c09src(fset *token.FileSet, n ast.Node) string {
	var b strings.Builder
	printer.Fprint(&b, fset, n)
	return strings.Join(strings.Fields(b.String()), " ")
}

// fType.Name == "X" / strings.HasPrefix(fType.Name, "X") / fType.IsExported() == false / !fType.IsExported()
func c09nameTest(fset *token.FileSet, e ast.Expr) string {
	if p, ok := e.(*ast.ParenExpr); ok {
		return c09nameTest(fset, p.X)
	}
	isName := func(x ast.Expr) bool {
		ch := selChain(x)
		return len(ch) == 2 && ch[1] == "Name"
	}
	isExportedCall := func(x ast.Expr) bool {
		c, ok := x.(*ast.CallExpr)
		if !ok || len(c.Args) != 0 {
			return false
		}
		ch := selChain(c.Fun)
		return len(ch) == 2 && ch[1] == "IsExported"
	}
	switch x := e.(type) {
	case *ast.BinaryExpr:
		if x.Op == token.EQL {
			if isName(x.X) {
				if s, ok := c09strLit(x.Y); ok {
					return "(NameEq " + c09str(s) + ")"
				}
			}
			if isName(x.Y) {
				if s, ok := c09strLit(x.X); ok {
					return "(NameEq " + c09str(s) + ")"
				}
			}
			if isExportedCall(x.X) && isIdent(x.Y, "false") {
				return "NameUnexported"
			}
		}
	case *ast.UnaryExpr:
		if x.Op == token.NOT && isExportedCall(x.X) {
			return "NameUnexported"
		}
	case *ast.CallExpr:
		ch := selChain(x.Fun)
		if len(ch) == 2 && ch[0] == "strings" && len(x.Args) == 2 && isName(x.Args[0]) {
			if s, ok := c09strLit(x.Args[1]); ok {
				switch ch[1] {
				case "HasPrefix":
					return "(NamePrefix " + c09str(s) + ")"
				case "HasSuffix":
					return "(NameSuffix " + c09str(s) + ")"
				case "Contains":
					return "(NameContains " + c09str(s) + ")"
				}
			}
		}
	}
	return "(NameOther " + c09str(c09src(fset, e)) + ")"
}

func c09disjuncts(fset *token.FileSet, e ast.Expr) []string {
	if p, ok := e.(*ast.ParenExpr); ok {
		return c09disjuncts(fset, p.X)
	}
	if b, ok := e.(*ast.BinaryExpr); ok && b.Op == token.LOR {
		return append(c09disjuncts(fset, b.X), c09disjuncts(fset, b.Y)...)
	}
	return []string{c09nameTest(fset, e)}
}

func c09kindDisjuncts(e ast.Expr) []string {
	if p, ok := e.(*ast.ParenExpr); ok {
		return c09kindDisjuncts(p.X)
	}
	if b, ok := e.(*ast.BinaryExpr); ok {
		if b.Op == token.LOR {
			return append(c09kindDisjuncts(b.X), c09kindDisjuncts(b.Y)...)
		}
		if b.Op == token.EQL {
			if ch := selChain(b.Y); len(ch) == 2 && ch[0] == "reflect" {
				if c, ok := b.X.(*ast.CallExpr); ok {
					if k := selChain(c.Fun); len(k) == 2 && k[1] == "Kind" {
						return []string{ch[1]}
					}
				}
			}
		}
	}
	return []string{"?"}
}

// does the node contain a call of the named function on something derived from `what` ("Index", "Value", "Field")?
func c09recursesOn(n ast.Node, self string) string {
	found := ""
	ast.Inspect(n, func(x ast.Node) bool {
		c, ok := x.(*ast.CallExpr)
		if !ok || !isIdent(c.Fun, self) || len(c.Args) != 1 {
			return true
		}
		switch a := c.Args[0].(type) {
		case *ast.CallExpr:
			if ch := selChain(a.Fun); len(ch) == 2 {
				found = ch[1]
			}
		case *ast.Ident:
			found = "var:" + a.Name
		}
		return true
	})
	return found
}

func c09goType(e ast.Expr, structs map[string]bool, ifaces map[string]bool) string {
	named := func(x ast.Expr) (string, bool) {
		id, ok := x.(*ast.Ident)
		if !ok {
			return "", false
		}
		return id.Name, true
	}
	switch t := e.(type) {
	case *ast.Ident:
		if ifaces[t.Name] {
			return "(TIface " + c09str(t.Name) + ")"
		}
		if structs[t.Name] {
			return "(TStruct " + c09str(t.Name) + ")"
		}
		return "TScalar"
	case *ast.StarExpr:
		if n, ok := named(t.X); ok && structs[n] {
			return "(TPtr " + c09str(n) + ")"
		}
		return "(TOther \"pointer\")"
	case *ast.ArrayType:
		if t.Len != nil {
			return "(TOther \"array\")"
		}
		if s, ok := t.Elt.(*ast.StarExpr); ok {
			if n, ok := named(s.X); ok && structs[n] {
				return "(TSlicePtr " + c09str(n) + ")"
			}
			return "(TOther \"slice of pointer\")"
		}
		if n, ok := named(t.Elt); ok && !structs[n] && !ifaces[n] {
			return "TSliceScalar"
		}
		return "(TOther \"slice\")"
	case *ast.MapType:
		if k, ok := named(t.Key); !ok || structs[k] || ifaces[k] {
			return "(TOther \"map key\")"
		}
		if s, ok := t.Value.(*ast.StarExpr); ok {
			if n, ok := named(s.X); ok && structs[n] {
				return "(TMapPtr " + c09str(n) + ")"
			}
			return "(TOther \"map of pointer\")"
		}
		if n, ok := named(t.Value); ok && !structs[n] && !ifaces[n] {
			return "TMapScalar"
		}
		return "(TOther \"map\")"
	}
	return "(TOther \"?\")"
}

func stripCtx(repo string) (string, error) {
	gf, err := parseGo(repo, "cmd/sysl/cmd_protobuf.go")
	if err != nil {
		return "", err
	}
	var execute, entry, walk *ast.FuncDecl
	for _, fd := range funcDecls(gf.file) {
		switch {
		case fd.Name.Name == "Execute" && recvName(fd) == "protobufCmd":
			execute = fd
		case fd.Name.Name == "removeSourceContext" && fd.Recv == nil:
			entry = fd
		case fd.Name.Name == "removeSourceContextImpl" && fd.Recv == nil:
			walk = fd
		}
	}
	if execute == nil {
		return "", fmt.Errorf("protobufCmd.Execute not found")
	}
	var b strings.Builder
	b.WriteString("(* GENERATED by vt StripCtx from cmd/sysl/cmd_protobuf.go, pkg/sysl/sysl.pb.go, pkg/pbutil/output.go -- do not edit *)\n")
	b.WriteString("From Coq Require Import List String NArith.\nImport ListNotations.\nRequire Import Verif.Codec.StripCtx.\nLocal Open Scope string_scope.\n")

	// ---- call sites of removeSourceContext in Execute
	type site struct {
		arg    string
		guards []string
		before bool
	}
	var sites []site
	jsonTest := "?"
	var visit func(list []ast.Stmt, guards []string, seen bool)
	visit = func(list []ast.Stmt, guards []string, seen bool) {
		for _, st := range list {
			switch s := st.(type) {
			case *ast.AssignStmt:
				if len(s.Lhs) == 1 && len(s.Rhs) == 1 && isIdent(s.Lhs[0], "toJSON") {
					jsonTest = c09src(gf.fset, s.Rhs[0])
				}
			case *ast.ExprStmt:
				if c, ok := s.X.(*ast.CallExpr); ok && isIdent(c.Fun, "removeSourceContext") && len(c.Args) == 1 {
					sites = append(sites, site{c09src(gf.fset, c.Args[0]), append([]string{}, guards...), !seen})
				}
			case *ast.IfStmt:
				cond := c09src(gf.fset, s.Cond)
				visit(s.Body.List, append(append([]string{}, guards...), cond), seen)
				switch e := s.Else.(type) {
				case *ast.BlockStmt:
					visit(e.List, append(append([]string{}, guards...), "!"+cond), seen)
				case *ast.IfStmt:
					visit([]ast.Stmt{e}, append(append([]string{}, guards...), "!"+cond), seen)
				}
			case *ast.BlockStmt:
				visit(s.List, guards, seen)
			}
			// a statement that encodes (calls into pbutil) and is not the one holding the strip: later strips come too late
			if !c09containsCall(st, "removeSourceContext") {
				ast.Inspect(st, func(n ast.Node) bool {
					if c, ok := n.(*ast.CallExpr); ok {
						if ch := selChain(c.Fun); len(ch) == 2 && ch[0] == "pbutil" {
							seen = true
						}
					}
					return true
				})
			}
		}
	}
	visit(execute.Body.List, nil, false)
	var it []string
	allBefore := true
	for _, s := range sites {
		gs := make([]string, len(s.guards))
		for i, g := range s.guards {
			gs[i] = c09str(g)
		}
		it = append(it, "("+c09str(s.arg)+", ["+strings.Join(gs, "; ")+"])")
		allBefore = allBefore && s.before
	}
	fmt.Fprintf(&b, "Definition strip_sites : list (string * list string) := [%s].\n", strings.Join(it, "; "))
	fmt.Fprintf(&b, "Definition strip_before_encoders : bool := %s.\n", gbool(allBefore && len(sites) > 0))
	fmt.Fprintf(&b, "Definition json_test : string := %s.\n", c09str(jsonTest))

	// ---- the entry point
	entryKind := "?"
	if entry != nil && len(entry.Body.List) == 1 {
		if es, ok := entry.Body.List[0].(*ast.ExprStmt); ok {
			if c, ok := es.X.(*ast.CallExpr); ok && isIdent(c.Fun, "removeSourceContextImpl") && len(c.Args) == 1 {
				if a, ok := c.Args[0].(*ast.CallExpr); ok && len(a.Args) == 1 {
					if ch := selChain(a.Fun); len(ch) == 2 && ch[0] == "reflect" {
						entryKind = ch[1]
					}
				}
			}
		}
	}
	fmt.Fprintf(&b, "Definition strip_entry : string := %s.\n", c09str(entryKind))

	// ---- the walk
	var deref []string
	var arms []string
	skip, clear := []string{"(NameOther \"no skip test found\")"}, []string{"(NameOther \"no clear test found\")"}
	clearAction, elseRecurse := "?", false
	nStmts := 0
	if walk != nil {
		nStmts = len(walk.Body.List)
		for _, st := range walk.Body.List {
			switch s := st.(type) {
			case *ast.ForStmt:
				if s.Init == nil && s.Post == nil && len(s.Body.List) == 1 {
					if as, ok := s.Body.List[0].(*ast.AssignStmt); ok && len(as.Rhs) == 1 {
						if c, ok := as.Rhs[0].(*ast.CallExpr); ok {
							if ch := selChain(c.Fun); len(ch) == 2 && ch[1] == "Elem" {
								deref = c09kindDisjuncts(s.Cond)
							}
						}
					}
				}
			case *ast.SwitchStmt:
				for _, cc := range s.Body.List {
					cl := cc.(*ast.CaseClause)
					what := "WNothing"
					switch c09recursesOn(cl, "removeSourceContextImpl") {
					case "Index":
						what = "WElems"
					case "Value":
						what = "WMapValues"
					case "var:fValue", "Field":
						what = "WFields"
					case "":
						what = "WNothing"
					default:
						what = "WOther"
					}
					for _, e := range cl.List {
						k := "?"
						if ch := selChain(e); len(ch) == 2 && ch[0] == "reflect" {
							k = ch[1]
						}
						arms = append(arms, "("+c09str(k)+", "+what+")")
					}
					if what != "WFields" {
						continue
					}
					// the field loop
					ast.Inspect(cl, func(n ast.Node) bool {
						is, ok := n.(*ast.IfStmt)
						if !ok {
							return true
						}
						if len(is.Body.List) == 1 {
							if br, ok := is.Body.List[0].(*ast.BranchStmt); ok && br.Tok == token.CONTINUE && is.Else == nil {
								skip = c09disjuncts(gf.fset, is.Cond)
								return false
							}
							if es, ok := is.Body.List[0].(*ast.ExprStmt); ok {
								if c, ok := es.X.(*ast.CallExpr); ok && len(c.Args) == 1 {
									if ch := selChain(c.Fun); len(ch) == 2 && ch[1] == "Set" {
										clear = c09disjuncts(gf.fset, is.Cond)
										clearAction = "?"
										if z, ok := c.Args[0].(*ast.CallExpr); ok {
											if zc := selChain(z.Fun); len(zc) == 2 && zc[0] == "reflect" {
												clearAction = zc[1]
											}
										}
										if eb, ok := is.Else.(*ast.BlockStmt); ok && len(eb.List) == 1 && c09recursesOn(eb, "removeSourceContextImpl") != "" {
											elseRecurse = true
										}
										return false
									}
								}
							}
						}
						return true
					})
				}
			}
		}
	}
	qs := func(xs []string) string {
		o := make([]string, len(xs))
		for i, x := range xs {
			o[i] = c09str(x)
		}
		return "[" + strings.Join(o, "; ") + "]"
	}
	fmt.Fprintf(&b, "Definition walk_statements : N := %d.\n", nStmts)
	fmt.Fprintf(&b, "Definition deref_kinds : list string := %s.\n", qs(deref))
	fmt.Fprintf(&b, "Definition kind_arms : list (string * walk) := [%s].\n", strings.Join(arms, "; "))
	fmt.Fprintf(&b, "Definition skip_tests : list name_test := [%s].\n", strings.Join(skip, "; "))
	fmt.Fprintf(&b, "Definition clear_tests : list name_test := [%s].\n", strings.Join(clear, "; "))
	fmt.Fprintf(&b, "Definition clear_action : string := %s.\n", c09str(clearAction))
	fmt.Fprintf(&b, "Definition else_recurse : bool := %s.\n", gbool(elseRecurse))

	// ---- the Go types the walk meets
	pf, err := parseGo(repo, "pkg/sysl/sysl.pb.go")
	if err != nil {
		return "", err
	}
	structs, ifaces := map[string]bool{}, map[string]bool{}
	type sdecl struct {
		name string
		st   *ast.StructType
	}
	var decls []sdecl
	for _, d := range pf.file.Decls {
		gd, ok := d.(*ast.GenDecl)
		if !ok || gd.Tok != token.TYPE {
			continue
		}
		for _, sp := range gd.Specs {
			ts := sp.(*ast.TypeSpec)
			switch t := ts.Type.(type) {
			case *ast.StructType:
				structs[ts.Name.Name] = true
				decls = append(decls, sdecl{ts.Name.Name, t})
			case *ast.InterfaceType:
				ifaces[ts.Name.Name] = true
			}
		}
	}
	sort.Slice(decls, func(i, j int) bool { return decls[i].name < decls[j].name })
	b.WriteString("Definition schema : list (string * list (string * ftype)) := [\n")
	for i, d := range decls {
		var fs []string
		for _, f := range d.st.Fields.List {
			for _, n := range f.Names {
				if !ast.IsExported(n.Name) {
					continue
				}
				fs = append(fs, "("+c09str(n.Name)+", "+c09goType(f.Type, structs, ifaces)+")")
			}
		}
		sep := ";"
		if i == len(decls)-1 {
			sep = ""
		}
		fmt.Fprintf(&b, " (%s, [%s])%s\n", c09str(d.name), strings.Join(fs, "; "), sep)
	}
	b.WriteString("].\n")
	impl := map[string][]string{}
	for _, fd := range funcDecls(pf.file) {
		if fd.Recv != nil && ifaces[fd.Name.Name] && fd.Body != nil && len(fd.Body.List) == 0 {
			impl[fd.Name.Name] = append(impl[fd.Name.Name], recvName(fd))
		}
	}
	var inames []string
	for n := range ifaces {
		inames = append(inames, n)
	}
	sort.Strings(inames)
	it = nil
	for _, n := range inames {
		sort.Strings(impl[n])
		it = append(it, "("+c09str(n)+", "+qs(impl[n])+")")
	}
	fmt.Fprintf(&b, "Definition oneofs : list (string * list string) := [%s].\n", strings.Join(it, ";\n "))

	// ---- OutputSplitApplications: which encoder each mode gets, and whether a writer's error reaches the caller
	of, err := parseGo(repo, "pkg/pbutil/output.go")
	if err != nil {
		return "", err
	}
	var splitArms []string
	errReturned := false
	for _, fd := range funcDecls(of.file) {
		if fd.Name.Name != "OutputSplitApplications" {
			continue
		}
		modeParam := ""
		if len(fd.Type.Params.List) > 1 && len(fd.Type.Params.List[1].Names) > 0 {
			modeParam = fd.Type.Params.List[1].Names[0].Name
		}
		ast.Inspect(fd.Body, func(n ast.Node) bool {
			sw, ok := n.(*ast.SwitchStmt)
			if !ok || !isIdent(sw.Tag, modeParam) {
				return true
			}
			for _, cc := range sw.Body.List {
				cl := cc.(*ast.CaseClause)
				enc := "?"
				for _, st := range cl.Body {
					if rs, ok := st.(*ast.ReturnStmt); ok && len(rs.Results) == 1 {
						if c, ok := rs.Results[0].(*ast.CallExpr); ok {
							enc = c09src(of.fset, c.Fun)
						}
					}
				}
				if cl.List == nil {
					splitArms = append(splitArms, "(\"\", "+c09str(enc)+")")
				}
				for _, e := range cl.List {
					s, _ := c09strLit(e)
					splitArms = append(splitArms, "("+c09str(s)+", "+c09str(enc)+")")
				}
			}
			return false
		})
		// the writer's error must reach the caller: after `err = writer()` in the loop body either
		// `if err != nil { return err }`, or a break with the function returning that same variable (which a
		// `:=` of err inside the loop body would shadow)
		ast.Inspect(fd.Body, func(n ast.Node) bool {
			rs, ok := n.(*ast.RangeStmt)
			if !ok {
				return true
			}
			assigned, shadow := false, false
			for _, st := range rs.Body.List {
				switch x := st.(type) {
				case *ast.AssignStmt:
					lhsErr := false
					for _, l := range x.Lhs {
						if isIdent(l, "err") {
							lhsErr = true
						}
					}
					if lhsErr && x.Tok == token.DEFINE {
						shadow = true
					}
					if lhsErr && len(x.Rhs) == 1 {
						if c, ok := x.Rhs[0].(*ast.CallExpr); ok && isIdent(c.Fun, "writer") {
							assigned = true
						}
					}
				case *ast.IfStmt:
					if !assigned || c09src(of.fset, x.Cond) != "err != nil" {
						continue
					}
					for _, b := range x.Body.List {
						if r, ok := b.(*ast.ReturnStmt); ok && len(r.Results) == 1 && isIdent(r.Results[0], "err") {
							errReturned = true
						}
						if br, ok := b.(*ast.BranchStmt); ok && br.Tok == token.BREAK && !shadow {
							if last, ok := fd.Body.List[len(fd.Body.List)-1].(*ast.ReturnStmt); ok && len(last.Results) == 1 && isIdent(last.Results[0], "err") {
								errReturned = true
							}
						}
					}
				}
			}
			return true
		})
	}
	fmt.Fprintf(&b, "Definition split_writer : list (string * string) := [%s].\n", strings.Join(splitArms, "; "))
	fmt.Fprintf(&b, "Definition split_error_returned : bool := %s.\n", gbool(errReturned))
	return b.String(), nil
}

func c09containsCall(n ast.Node, name string) bool {
	found := false
	ast.Inspect(n, func(x ast.Node) bool {
		if c, ok := x.(*ast.CallExpr); ok && isIdent(c.Fun, name) {
			found = true
		}
		return true
	})
	return found
}
