module veriftranslate

go 1.21
