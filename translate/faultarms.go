package main

import (
	"fmt"
	"go/ast"
	"go/token"
	"strconv"
	"strings"
)

// FaultArms: what the sources say about the input kinds an `import` statement accepts and how a failure in each
// arm travels, as data for Imports/Foreign.v (property C06).
//
//	pb_cases / pb_unknown_after   pkg/pbutil/input.go fromPBContents: (suffix, decoder) per arm, in order; whether
//	                              the function ends in `return nil, ErrUnknownExtension`
//	format_vars                   pkg/importer/formats.go: every `var X = Format{Name, Signature, FileExt}`; a signature
//	                              is nil or one of the regular expressions the model has a matcher for, else SigUnknown
//	all_formats                   pkg/importer/importer.go: the elements of `Formats`, in order
//	parser_formats                pkg/parse/parse.go detectFileType: the list handed to GuessFileType, in order
//	shape_*                       the statements (go/printer text, blanks normalised, comments dropped) of
//	                              fromPBContents, GuessFileType, detectFileType, importForeign, and of parseSpecs the
//	                              body of the stage-1 goroutine, the test of g.Wait() and the compiled-model arm of
//	                              stage 2. Imports/ForeignCurrent.v proves they are the texts Foreign.v transliterates:
//	                              an arm whose error is dropped, shadowed, re-worded or re-ordered changes the text.
//
// Everything is found by function name and role, never by line number; what is not found is "?" / DecOther /
// SigUnknown and the dependent lemma fails.
func init() { register("FaultArms", faultArms) }

func faStmts(gf *goFile, l []ast.Stmt) []string {
	var out []string
	for _, s := range l {
		out = append(out, ftSrc(gf.fset, s))
	}
	return out
}

func faFunc(gf *goFile, recv, name string) *ast.FuncDecl {
	for _, fd := range funcDecls(gf.file) {
		if fd.Name.Name == name && recvName(fd) == recv && fd.Body != nil {
			return fd
		}
	}
	return nil
}

func faList(name string, ss []string) string {
	if ss == nil {
		ss = []string{"?"}
	}
	it := make([]string, len(ss))
	for i, s := range ss {
		it[i] = "  " + c09str(s)
	}
	return fmt.Sprintf("Definition %s : list string := [\n%s\n].\n", name, strings.Join(it, ";\n"))
}

var faSigs = map[string]string{
	`["']?openapi["']?\s*:`: "SigOpenapi",
	`["']?swagger["']?\s*:`: "SigSwagger",
	`\$schema`:              "SigSchema",
}

type faFormat struct {
	v, name, sig string
	exts         []string
}

func (f faFormat) coq() string {
	ex := make([]string, len(f.exts))
	for i, e := range f.exts {
		ex[i] = c09str(e)
	}
	return fmt.Sprintf("{| fvar := %s; fname := %s; fsig := %s; fexts := [%s] |}", c09str(f.v), c09str(f.name), f.sig, strings.Join(ex, "; "))
}

func faultArms(repo string) (string, error) {
	// ---- fromPBContents
	in, err := parseGo(repo, "pkg/pbutil/input.go")
	if err != nil {
		return "", err
	}
	var cases []string
	after := false
	var shapePB []string
	if fd := faFunc(in, "", "fromPBContents"); fd != nil {
		shapePB = faStmts(in, fd.Body.List)
		pathParam := ""
		if len(fd.Type.Params.List) > 0 && len(fd.Type.Params.List[0].Names) > 0 {
			pathParam = fd.Type.Params.List[0].Names[0].Name
		}
		nSwitch := 0
		for i, st := range fd.Body.List {
			if sw, ok := st.(*ast.SwitchStmt); ok {
				nSwitch++
				if sw.Tag != nil || sw.Init != nil || nSwitch > 1 {
					cases = append(cases, "(\"?\", DecOther)")
					continue
				}
				for _, cc := range sw.Body.List {
					cl := cc.(*ast.CaseClause)
					if cl.List == nil {
						cases = append(cases, "(\"\", DecOther)")
						continue
					}
					for _, e := range cl.List {
						suffix, dec := "?", "DecOther"
						if c, ok := e.(*ast.CallExpr); ok && len(c.Args) == 2 {
							ch := selChain(c.Fun)
							if len(ch) == 2 && ch[0] == "strings" && ch[1] == "HasSuffix" && isIdent(c.Args[0], pathParam) {
								if s, ok := c09strLit(c.Args[1]); ok {
									suffix, dec = s, c09decoder(cl.Body)
								}
							}
						}
						cases = append(cases, "("+c09str(suffix)+", "+dec+")")
					}
				}
				continue
			}
			if rs, ok := st.(*ast.ReturnStmt); ok && i == len(fd.Body.List)-1 && len(rs.Results) == 2 &&
				isIdent(rs.Results[0], "nil") && isIdent(rs.Results[1], "ErrUnknownExtension") {
				after = true
			}
		}
	}

	// ---- formats.go
	ff, err := parseGo(repo, "pkg/importer/formats.go")
	if err != nil {
		return "", err
	}
	var vars []faFormat
	byVar := map[string]faFormat{}
	for _, d := range ff.file.Decls {
		gd, ok := d.(*ast.GenDecl)
		if !ok || gd.Tok != token.VAR {
			continue
		}
		for _, sp := range gd.Specs {
			vs, ok := sp.(*ast.ValueSpec)
			if !ok || len(vs.Names) != 1 || len(vs.Values) != 1 {
				continue
			}
			cl, ok := vs.Values[0].(*ast.CompositeLit)
			if !ok || !isIdent(cl.Type, "Format") {
				continue
			}
			f := faFormat{v: vs.Names[0].Name, name: "?", sig: "SigNone"}
			for _, el := range cl.Elts {
				kv, ok := el.(*ast.KeyValueExpr)
				if !ok {
					f.sig = "SigUnknown"
					continue
				}
				switch c09exprText(kv.Key) {
				case "Name":
					if s, ok := c09strLit(kv.Value); ok {
						f.name = s
					}
				case "Signature":
					f.sig = "SigUnknown"
					if isIdent(kv.Value, "nil") {
						f.sig = "SigNone"
					} else if c, ok := kv.Value.(*ast.CallExpr); ok && len(c.Args) == 1 {
						if ch := selChain(c.Fun); len(ch) == 2 && ch[0] == "regexp" && ch[1] == "MustCompile" {
							if bl, ok := c.Args[0].(*ast.BasicLit); ok && bl.Kind == token.STRING {
								if s, err := strconv.Unquote(bl.Value); err == nil {
									if k, ok := faSigs[s]; ok {
										f.sig = k
									}
								}
							}
						}
					}
				case "FileExt":
					if l, ok := kv.Value.(*ast.CompositeLit); ok {
						for _, e := range l.Elts {
							if s, ok := c09strLit(e); ok {
								f.exts = append(f.exts, s)
							} else {
								f.exts = append(f.exts, "?")
							}
						}
					} else {
						f.exts = append(f.exts, "?")
					}
				default:
					f.sig = "SigUnknown"
				}
			}
			vars = append(vars, f)
			byVar[f.v] = f
		}
	}
	resolve := func(names []string) []string {
		var out []string
		for _, n := range names {
			if f, ok := byVar[n]; ok {
				out = append(out, f.coq())
			} else {
				out = append(out, faFormat{v: n, name: "?", sig: "SigUnknown", exts: []string{"?"}}.coq())
			}
		}
		return out
	}
	var shapeGuess []string
	if fd := faFunc(ff, "", "GuessFileType"); fd != nil {
		shapeGuess = faStmts(ff, fd.Body.List)
	}

	// ---- importer.Formats
	imp, err := parseGo(repo, "pkg/importer/importer.go")
	if err != nil {
		return "", err
	}
	var allNames []string
	for _, d := range imp.file.Decls {
		gd, ok := d.(*ast.GenDecl)
		if !ok || gd.Tok != token.VAR {
			continue
		}
		for _, sp := range gd.Specs {
			vs, ok := sp.(*ast.ValueSpec)
			if !ok || len(vs.Names) != 1 || vs.Names[0].Name != "Formats" || len(vs.Values) != 1 {
				continue
			}
			if cl, ok := vs.Values[0].(*ast.CompositeLit); ok {
				for _, e := range cl.Elts {
					if id, ok := e.(*ast.Ident); ok {
						allNames = append(allNames, id.Name)
					} else {
						allNames = append(allNames, "?")
					}
				}
			}
		}
	}

	// ---- parse.go
	pf, err := parseGo(repo, "pkg/parse/parse.go")
	if err != nil {
		return "", err
	}
	var parserNames []string
	var shapeDetect, shapeForeign, shapeStage1, shapeWait, shapeStage2 []string
	if fd := faFunc(pf, "", "detectFileType"); fd != nil {
		shapeDetect = faStmts(pf, fd.Body.List)
		ast.Inspect(fd.Body, func(n ast.Node) bool {
			cl, ok := n.(*ast.CompositeLit)
			if !ok {
				return true
			}
			at, ok := cl.Type.(*ast.ArrayType)
			if !ok {
				return true
			}
			if ch := selChain(at.Elt); len(ch) == 2 && ch[0] == "importer" && ch[1] == "Format" {
				for _, e := range cl.Elts {
					if c := selChain(e); len(c) == 2 && c[0] == "importer" {
						parserNames = append(parserNames, c[1])
					} else {
						parserNames = append(parserNames, "?")
					}
				}
			}
			return true
		})
	}
	if fd := faFunc(pf, "", "importForeign"); fd != nil {
		shapeForeign = faStmts(pf, fd.Body.List)
	}
	if fd := faFunc(pf, "Parser", "parseSpecs"); fd != nil {
		for i, st := range fd.Body.List {
			switch x := st.(type) {
			case *ast.ForStmt, *ast.RangeStmt:
				// stage 1: the loop whose body calls g.Go(func() error {...}); stage 2: the loop over syslInputs
				var body *ast.BlockStmt
				if r, ok := x.(*ast.RangeStmt); ok {
					body = r.Body
				} else {
					body = x.(*ast.ForStmt).Body
				}
				isStage1 := false
				for _, bs := range body.List {
					es, ok := bs.(*ast.ExprStmt)
					if !ok {
						continue
					}
					c, ok := es.X.(*ast.CallExpr)
					if !ok || len(c.Args) != 1 {
						continue
					}
					if ch := selChain(c.Fun); len(ch) == 2 && ch[0] == "g" && ch[1] == "Go" {
						if fl, ok := c.Args[0].(*ast.FuncLit); ok {
							isStage1 = true
							if shapeStage1 != nil {
								shapeStage1 = append(shapeStage1, "?second g.Go")
							}
							shapeStage1 = append(shapeStage1, faStmts(pf, fl.Body.List)...)
						}
					}
				}
				if isStage1 {
					// the statements that follow the loop up to the next loop: g.Wait() and its test
					for _, nx := range fd.Body.List[i+1:] {
						if _, ok := nx.(*ast.RangeStmt); ok {
							break
						}
						if _, ok := nx.(*ast.ForStmt); ok {
							break
						}
						shapeWait = append(shapeWait, ftSrc(pf.fset, nx))
					}
					continue
				}
				// stage 2: the if statement that tests v.err against ErrUnknownExtension
				for _, bs := range body.List {
					is, ok := bs.(*ast.IfStmt)
					if !ok {
						continue
					}
					if strings.Contains(ftSrc(pf.fset, is.Cond), "ErrUnknownExtension") {
						shapeStage2 = append(shapeStage2, ftSrc(pf.fset, is))
					}
				}
			}
		}
	}

	var b strings.Builder
	b.WriteString("(* GENERATED by vt FaultArms from pkg/pbutil/input.go, pkg/importer/formats.go, pkg/importer/importer.go, pkg/parse/parse.go -- do not edit *)\n")
	b.WriteString("From Coq Require Import List String.\nImport ListNotations.\nRequire Import Verif.Imports.ForeignTypes.\nLocal Open Scope string_scope.\n")
	if cases == nil {
		cases = []string{"(\"?\", DecOther)"}
	}
	fmt.Fprintf(&b, "Definition pb_cases : list (string * decoder) := [%s].\n", strings.Join(cases, "; "))
	fmt.Fprintf(&b, "Definition pb_unknown_after : bool := %v.\n", after)
	vs := make([]string, len(vars))
	for i, f := range vars {
		vs[i] = "  " + f.coq()
	}
	fmt.Fprintf(&b, "Definition format_vars : list format := [\n%s\n].\n", strings.Join(vs, ";\n"))
	fmt.Fprintf(&b, "Definition all_formats : list format := [\n  %s\n].\n", strings.Join(resolve(allNames), ";\n  "))
	fmt.Fprintf(&b, "Definition parser_formats : list format := [\n  %s\n].\n", strings.Join(resolve(parserNames), ";\n  "))
	b.WriteString("Definition current_tables : tables := {| t_pb := pb_cases; t_pb_unknown_after := pb_unknown_after; t_vars := format_vars; t_all := all_formats; t_parser := parser_formats |}.\n")
	b.WriteString(faList("shape_from_pb", shapePB))
	b.WriteString(faList("shape_guess", shapeGuess))
	b.WriteString(faList("shape_detect", shapeDetect))
	b.WriteString(faList("shape_import_foreign", shapeForeign))
	b.WriteString(faList("shape_stage1", shapeStage1))
	b.WriteString(faList("shape_stage1_wait", shapeWait))
	b.WriteString(faList("shape_stage2_pb", shapeStage2))
	return b.String(), nil
}
