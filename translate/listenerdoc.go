package main

import (
	"fmt"
	"go/ast"
	"go/token"
	"sort"
	"strings"
)

// ListenerDoc: what pkg/parse/listener_impl.go does with the lines of multi-line constructs, as data for
// Front/DocStr.v (C03).
//
//	ld_shapes          EnterText_stmt, EnterDoc_string, ExitAnnotation_value and the scope helpers they use
//	                   (pushScope, popScope, peekScope, lastStatement, addToCurrentScope), one rendered line per
//	                   statement in source order (guards included)
//	ld_position_reads  every place in those functions where the position of a token / rule context or the raw
//	                   input can be read: calls of GetLine / GetColumn / GetStart / GetStop / GetTokenIndex /
//	                   GetSourceInterval / GetInputStream / GetTokenSource / getSrcCtx* / createLocation*, and uses
//	                   of the listener fields lastEnd / linenum, as (function, rendered expression)
//	ld_scope_ops       for every Enter* / Exit* method of the listener that calls pushScope / popScope /
//	                   addToCurrentScope: the sequence of those calls (the harness maps the same rules to events)
//
// Front/DocTables.v proves these equal to what Front/DocStr.v transliterates (reflexivity); a listener that starts
// to consult a line number when it coalesces lines changes ld_shapes / ld_position_reads and the lemma stops checking.
func init() { register("ListenerDoc", listenerDoc) }

func ldShape(fset *token.FileSet, body *ast.BlockStmt) []string {
	var shape []string
	var walk func(s ast.Stmt)
	walkList := func(l []ast.Stmt) {
		for _, s := range l {
			walk(s)
		}
	}
	walk = func(s ast.Stmt) {
		switch x := s.(type) {
		case *ast.BlockStmt:
			shape = append(shape, "{")
			walkList(x.List)
			shape = append(shape, "}")
		case *ast.IfStmt:
			c := ltSrc(fset, x.Cond)
			if x.Init != nil {
				c = ltSrc(fset, x.Init) + "; " + c
			}
			shape = append(shape, "if "+c)
			walk(x.Body)
			if x.Else != nil {
				shape = append(shape, "else")
				walk(x.Else)
			}
		case *ast.ForStmt:
			h := "for "
			if x.Init != nil || x.Post != nil {
				h += ltSrc(fset, x.Init) + "; "
			}
			if x.Cond != nil {
				h += ltSrc(fset, x.Cond)
			}
			if x.Post != nil {
				h += "; " + ltSrc(fset, x.Post)
			}
			shape = append(shape, h)
			walk(x.Body)
		case *ast.RangeStmt:
			shape = append(shape, "for range "+ltSrc(fset, x.X))
			walk(x.Body)
		case *ast.SwitchStmt:
			t := ""
			if x.Tag != nil {
				t = ltSrc(fset, x.Tag)
			}
			shape = append(shape, "switch "+t)
			for _, c := range x.Body.List {
				cc := c.(*ast.CaseClause)
				var ls []string
				for _, e := range cc.List {
					ls = append(ls, ltSrc(fset, e))
				}
				if cc.List == nil {
					shape = append(shape, "default")
				} else {
					shape = append(shape, "case "+strings.Join(ls, ", "))
				}
				walkList(cc.Body)
			}
			shape = append(shape, "endswitch")
		case *ast.TypeSwitchStmt:
			shape = append(shape, "typeswitch "+ltSrc(fset, x.Assign))
			for _, c := range x.Body.List {
				cc := c.(*ast.CaseClause)
				var ls []string
				for _, e := range cc.List {
					ls = append(ls, ltSrc(fset, e))
				}
				if cc.List == nil {
					shape = append(shape, "default")
				} else {
					shape = append(shape, "case "+strings.Join(ls, ", "))
				}
				walkList(cc.Body)
			}
			shape = append(shape, "endswitch")
		default:
			shape = append(shape, ltSrc(fset, s))
		}
	}
	walkList(body.List)
	return shape
}

var ldPositionCalls = map[string]bool{
	"GetLine": true, "GetColumn": true, "GetStart": true, "GetStop": true, "GetTokenIndex": true,
	"GetSourceInterval": true, "GetInputStream": true, "GetTokenSource": true, "GetTokenStream": true,
	"getSrcCtx": true, "getSrcCtxFor": true, "getSrcCtxWithText": true, "createLocation": true, "createLocationForPos": true,
}

var ldPositionFields = map[string]bool{"lastEnd": true, "linenum": true}

func listenerDoc(repo string) (string, error) {
	gf, err := parseGo(repo, "pkg/parse/listener_impl.go")
	if err != nil {
		return "", err
	}
	want := []string{"EnterText_stmt", "EnterDoc_string", "ExitAnnotation_value", "pushScope", "popScope", "peekScope", "lastStatement", "addToCurrentScope"}
	found := map[string]*ast.FuncDecl{}
	type ops struct {
		name string
		seq  []string
	}
	var scopeOps []ops
	for _, fd := range funcDecls(gf.file) {
		if recvName(fd) != "TreeShapeListener" || fd.Body == nil {
			continue
		}
		for _, w := range want {
			if fd.Name.Name == w {
				if found[w] != nil {
					return "", fmt.Errorf("two declarations of %s", w)
				}
				found[w] = fd
			}
		}
		if strings.HasPrefix(fd.Name.Name, "Enter") || strings.HasPrefix(fd.Name.Name, "Exit") {
			var seq []string
			ast.Inspect(fd.Body, func(n ast.Node) bool {
				if c, ok := n.(*ast.CallExpr); ok {
					if ch := selChain(c.Fun); len(ch) == 2 && ch[0] == recvVar(fd) {
						switch ch[1] {
						case "pushScope", "popScope", "addToCurrentScope":
							seq = append(seq, ch[1])
						}
					}
				}
				return true
			})
			if len(seq) > 0 {
				scopeOps = append(scopeOps, ops{fd.Name.Name, seq})
			}
		}
	}
	for _, w := range want {
		if found[w] == nil {
			return "", fmt.Errorf("TreeShapeListener.%s not found in listener_impl.go", w)
		}
	}
	sort.Slice(scopeOps, func(i, j int) bool { return scopeOps[i].name < scopeOps[j].name })

	type read struct{ fn, expr string }
	var reads []read
	for _, w := range want {
		fd := found[w]
		ast.Inspect(fd.Body, func(n ast.Node) bool {
			switch x := n.(type) {
			case *ast.CallExpr:
				if sel, ok := x.Fun.(*ast.SelectorExpr); ok && ldPositionCalls[sel.Sel.Name] {
					reads = append(reads, read{w, ltSrc(gf.fset, x)})
				}
			case *ast.SelectorExpr:
				if ldPositionFields[x.Sel.Name] {
					reads = append(reads, read{w, ltSrc(gf.fset, x)})
				}
			}
			return true
		})
	}

	var b strings.Builder
	b.WriteString("(* GENERATED by vt ListenerDoc from pkg/parse/listener_impl.go -- do not edit *)\n")
	b.WriteString("From Coq Require Import List String.\nImport ListNotations.\nLocal Open Scope string_scope.\n")
	b.WriteString("(* one entry per statement, in source order *)\nDefinition ld_shapes : list (string * list string) := [\n")
	for i, w := range want {
		var it []string
		for _, l := range ldShape(gf.fset, found[w].Body) {
			it = append(it, "    "+ltCoqString(l))
		}
		sep := ";"
		if i == len(want)-1 {
			sep = ""
		}
		fmt.Fprintf(&b, "  (%s, [\n%s])%s\n", ltCoqString(w), strings.Join(it, ";\n"), sep)
	}
	b.WriteString("].\n")
	b.WriteString("(* where those functions can see a position or the raw input *)\nDefinition ld_position_reads : list (string * string) := [\n")
	for i, r := range reads {
		sep := ";"
		if i == len(reads)-1 {
			sep = ""
		}
		fmt.Fprintf(&b, "  (%s, %s)%s\n", ltCoqString(r.fn), ltCoqString(r.expr), sep)
	}
	b.WriteString("].\n")
	b.WriteString("(* listener methods that touch the scope stack, with their calls in source order *)\nDefinition ld_scope_ops : list (string * list string) := [\n")
	for i, o := range scopeOps {
		var it []string
		for _, s := range o.seq {
			it = append(it, ltCoqString(s))
		}
		sep := ";"
		if i == len(scopeOps)-1 {
			sep = ""
		}
		fmt.Fprintf(&b, "  (%s, [%s])%s\n", ltCoqString(o.name), strings.Join(it, "; "), sep)
	}
	b.WriteString("].\n")
	return b.String(), nil
}
