package main

// PbState (C09): is an encoder call of pkg/pbutil a function of the model alone?
//
//	pb_vars          every package-level variable of pkg/pbutil (non-test files): name, kind, static type, and whether
//	                 any function body writes it (the write detection is C19's package-variable table, mapranges_vars.go)
//	pb_var_uses      every occurrence of such a variable in a function body and the role it plays there: receiver of a
//	                 method call, argument of a call, operand of a slice expression, address taken, written, read
//	pb_write_sites   every call that hands bytes to a writer (method Write* on anything, fmt.Fprint*, io.WriteString,
//	                 io.Copy, *.WriteFile): the function it is in and where the bytes come from - every definition of
//	                 the local variable that is written, classified: <x>.Marshal(..) of a protobuf MarshalOptions value
//	                 (returns a fresh slice), <re>.ReplaceAll(v, ..) of a *regexp.Regexp on the same variable (fresh
//	                 slice), <x>.MarshalAppend(V[..], ..) into a package-level variable V, anything else
//	pb_entry_points  the exported functions from which a write site can be reached, with the functions of the package
//	                 they call on the way (so that the harness's list of writer entry points is the complete one)
//
// Needs types (receiver types, object identity of variables): the offline source importer of mapranges_types.go.

import (
	"fmt"
	"go/ast"
	"go/token"
	"go/types"
	"sort"
	"strings"
)

func init() { register("PbState", pbState) }

const pbStateDir = "pkg/pbutil"

func pbShortType(t types.Type) string {
	if t == nil {
		return "?"
	}
	s := types.TypeString(t, func(p *types.Package) string { return p.Name() })
	return s
}

func pbKind(t types.Type) string {
	if t == nil {
		return "KOther"
	}
	switch u := t.Underlying().(type) {
	case *types.Map:
		return "KMap"
	case *types.Slice, *types.Array:
		return "KSlice"
	case *types.Pointer:
		return "KPointer"
	case *types.Signature:
		return "KFunc"
	case *types.Struct:
		return "KStruct"
	case *types.Interface:
		return "KIface"
	case *types.Chan:
		return "KOther"
	case *types.Basic:
		if u.Kind() == types.Invalid {
			return "KOther"
		}
		return "KScalar"
	}
	return "KOther"
}

type pbUse struct{ v, fn, role string }

func pbState(repo string) (string, error) {
	si := newSrcImporter(repo)
	if si.modpath == "" {
		return "", fmt.Errorf("cannot read %s/go.mod", repo)
	}
	files, info, _ := si.checkTarget(pbStateDir)
	if info == nil || len(files) == 0 {
		return "", fmt.Errorf("cannot load %s", pbStateDir)
	}
	sort.Slice(files, func(i, j int) bool {
		return si.fset.File(files[i].Pos()).Name() < si.fset.File(files[j].Pos()).Name()
	})
	// ---- package-level variables and who writes them (C19's table, restricted to this package)
	vt := newVarTable()
	vt.declare("pbutil", files, info)
	vt.writes("pbutil", files, info)
	objOf := map[types.Object]*pkgVar{}
	for o, v := range vt.vars {
		objOf[o] = v
	}
	short := func(v *pkgVar) string { return strings.TrimPrefix(v.name, "pbutil.") }

	// ---- uses
	var uses []pbUse
	pkgFuncs := map[string]*ast.FuncDecl{}
	for _, f := range files {
		for _, fd := range funcDecls(f) {
			if fd.Body != nil {
				pkgFuncs[funcKey(fd)] = fd
			}
		}
	}
	var fnNames []string
	for n := range pkgFuncs {
		fnNames = append(fnNames, n)
	}
	sort.Strings(fnNames)
	for _, fn := range fnNames {
		fd := pkgFuncs[fn]
		var stack []ast.Node
		ast.Inspect(fd.Body, func(n ast.Node) bool {
			if n == nil {
				stack = stack[:len(stack)-1]
				return true
			}
			stack = append(stack, n)
			id, ok := n.(*ast.Ident)
			if !ok {
				return true
			}
			pv := objOf[info.Uses[id]]
			if pv == nil {
				return true
			}
			parent := func(k int) ast.Node {
				if len(stack)-1-k < 0 {
					return nil
				}
				return stack[len(stack)-1-k]
			}
			role := "URead"
			switch p := parent(1).(type) {
			case *ast.SelectorExpr:
				if p.X == ast.Expr(id) {
					if c, ok := parent(2).(*ast.CallExpr); ok && c.Fun == ast.Expr(p) {
						role = fmt.Sprintf("(UMethod %s %s)", coqStr(pbShortType(info.TypeOf(id))), coqStr(p.Sel.Name))
					} else if as, ok := parent(2).(*ast.AssignStmt); ok && as.Tok != token.DEFINE && exprIn(as.Lhs, p) {
						role = "UWrite"
					}
				}
			case *ast.CallExpr:
				if exprIn(p.Args, id) {
					role = fmt.Sprintf("(UArg %s)", coqStr(nodeSrc(si, p.Fun)))
				}
			case *ast.SliceExpr:
				if p.X == ast.Expr(id) {
					role = "USliced"
				}
			case *ast.UnaryExpr:
				if p.Op == token.AND {
					role = "UAddr"
				}
			case *ast.AssignStmt:
				if p.Tok != token.DEFINE && exprIn(p.Lhs, id) {
					role = "UWrite"
				}
			case *ast.IncDecStmt:
				role = "UWrite"
			case *ast.IndexExpr:
				if p.X == ast.Expr(id) {
					if as, ok := parent(2).(*ast.AssignStmt); ok && as.Tok != token.DEFINE && exprIn(as.Lhs, p) {
						role = "UWrite"
					}
				}
			}
			uses = append(uses, pbUse{short(pv), fn, role})
			return true
		})
	}

	// ---- write sites
	type site struct {
		fn, callee string
		defs       []string
	}
	var sites []site
	isWriteCall := func(c *ast.CallExpr) (string, int, bool) { // callee text, index of the bytes argument
		sel, ok := c.Fun.(*ast.SelectorExpr)
		if !ok {
			return "", 0, false
		}
		name := sel.Sel.Name
		if _, isMethod := info.Selections[sel]; isMethod {
			if strings.HasPrefix(name, "Write") && len(c.Args) >= 1 {
				return pbShortType(info.TypeOf(sel.X)) + "." + name, 0, true
			}
			return "", 0, false
		}
		ch := selChain(c.Fun)
		if len(ch) != 2 {
			return "", 0, false
		}
		switch {
		case ch[0] == "fmt" && strings.HasPrefix(name, "Fprint"), ch[0] == "io" && (name == "WriteString" || name == "Copy" || name == "CopyN" || name == "CopyBuffer"):
			if len(c.Args) >= 2 {
				return ch[0] + "." + name, 1, true
			}
		case name == "WriteFile" && len(c.Args) >= 2:
			return ch[0] + "." + name, len(c.Args) - 2, true
		}
		return "", 0, false
	}
	classifyDef := func(obj types.Object, rhs ast.Expr) string {
		c, ok := rhs.(*ast.CallExpr)
		if !ok {
			return "(DOther " + coqStr(nodeSrc(si, rhs)) + ")"
		}
		sel, ok := c.Fun.(*ast.SelectorExpr)
		if !ok {
			return "(DOther " + coqStr(nodeSrc(si, rhs)) + ")"
		}
		rt := pbShortType(info.TypeOf(sel.X))
		switch {
		case sel.Sel.Name == "Marshal" && (rt == "protojson.MarshalOptions" || rt == "prototext.MarshalOptions" || rt == "proto.MarshalOptions") && len(c.Args) == 1:
			return "(DMarshal " + coqStr(rt) + ")"
		case sel.Sel.Name == "ReplaceAll" && rt == "*regexp.Regexp" && len(c.Args) == 2:
			if a, ok := c.Args[0].(*ast.Ident); ok && info.Uses[a] == obj {
				return "(DReplaceAll " + coqStr(nodeSrc(si, sel.X)) + ")"
			}
		case sel.Sel.Name == "MarshalAppend" && len(c.Args) == 2:
			if b := baseIdentSliced(c.Args[0]); b != nil {
				if pv := objOf[info.Uses[b]]; pv != nil {
					return "(DAppendVar " + coqStr(short(pv)) + ")"
				}
			}
		}
		return "(DOther " + coqStr(nodeSrc(si, rhs)) + ")"
	}
	defsOf := func(fd *ast.FuncDecl, obj types.Object) []string {
		var out []string
		if fd.Type.Params != nil {
			for _, f := range fd.Type.Params.List {
				for _, n := range f.Names {
					if info.Defs[n] == obj {
						out = append(out, "DParam")
					}
				}
			}
		}
		ast.Inspect(fd.Body, func(n ast.Node) bool {
			switch s := n.(type) {
			case *ast.AssignStmt:
				for i, l := range s.Lhs {
					id, ok := l.(*ast.Ident)
					if !ok || (info.Defs[id] != obj && info.Uses[id] != obj) {
						continue
					}
					switch {
					case len(s.Rhs) == len(s.Lhs):
						out = append(out, classifyDef(obj, s.Rhs[i]))
					case len(s.Rhs) == 1 && i == 0:
						out = append(out, classifyDef(obj, s.Rhs[0]))
					default:
						out = append(out, "(DOther "+coqStr(nodeSrc(si, s))+")")
					}
				}
			case *ast.ValueSpec:
				for i, id := range s.Names {
					if info.Defs[id] != obj {
						continue
					}
					if i < len(s.Values) {
						out = append(out, classifyDef(obj, s.Values[i]))
					} else {
						out = append(out, "(DOther \"var without value\")")
					}
				}
			case *ast.RangeStmt:
				for _, e := range []ast.Expr{s.Key, s.Value} {
					if id, ok := e.(*ast.Ident); ok && (info.Defs[id] == obj || info.Uses[id] == obj) {
						out = append(out, "(DOther \"range variable\")")
					}
				}
			case *ast.UnaryExpr:
				if id, ok := s.X.(*ast.Ident); ok && s.Op == token.AND && info.Uses[id] == obj {
					out = append(out, "(DOther \"address taken\")")
				}
			}
			return true
		})
		return out
	}
	hasSite := map[string]bool{}
	for _, fn := range fnNames {
		fd := pkgFuncs[fn]
		ast.Inspect(fd.Body, func(n ast.Node) bool {
			c, ok := n.(*ast.CallExpr)
			if !ok {
				return true
			}
			callee, ai, ok := isWriteCall(c)
			if !ok {
				return true
			}
			hasSite[fn] = true
			st := site{fn: fn, callee: callee}
			if id, ok := c.Args[ai].(*ast.Ident); ok && info.Uses[id] != nil {
				if pv := objOf[info.Uses[id]]; pv != nil {
					st.defs = []string{"(DAppendVar " + coqStr(short(pv)) + ")"}
				} else {
					st.defs = defsOf(fd, info.Uses[id])
				}
			} else {
				st.defs = []string{"(DOther " + coqStr(nodeSrc(si, c.Args[ai])) + ")"}
			}
			sites = append(sites, st)
			return true
		})
	}

	// ---- entry points: exported functions that reach a write site through functions of the package
	calls := map[string][]string{}
	for _, fn := range fnNames {
		seen := map[string]bool{}
		ast.Inspect(pkgFuncs[fn].Body, func(n ast.Node) bool {
			c, ok := n.(*ast.CallExpr)
			if !ok {
				return true
			}
			if id, ok := c.Fun.(*ast.Ident); ok {
				if _, isFn := info.Uses[id].(*types.Func); isFn && pkgFuncs[id.Name] != nil && !seen[id.Name] {
					seen[id.Name] = true
					calls[fn] = append(calls[fn], id.Name)
				}
			}
			return true
		})
		sort.Strings(calls[fn])
	}
	reach := map[string]bool{}
	for changed := true; changed; {
		changed = false
		for _, fn := range fnNames {
			if reach[fn] {
				continue
			}
			r := hasSite[fn]
			for _, c := range calls[fn] {
				r = r || reach[c]
			}
			if r {
				reach[fn], changed = true, true
			}
		}
	}

	var b strings.Builder
	b.WriteString("(* GENERATED by vt PbState from pkg/pbutil/*.go -- do not edit *)\n")
	b.WriteString("From Coq Require Import List String.\nImport ListNotations.\nRequire Import Verif.Codec.EncState.\nLocal Open Scope string_scope.\n")
	b.WriteString("Definition pb_vars : list pkg_var := [\n")
	vs := vt.sorted()
	for i, v := range vs {
		sep := ";"
		if i == len(vs)-1 {
			sep = ""
		}
		var ty types.Type
		for o, pv := range vt.vars {
			if pv == v {
				ty = o.Type()
			}
		}
		fmt.Fprintf(&b, "  PVar %s %s %s %s%s\n", coqStr(short(v)), pbKind(ty), coqStr(pbShortType(ty)), gbool(v.written), sep)
	}
	b.WriteString("].\n")
	b.WriteString("Definition pb_var_uses : list var_use := [\n")
	for i, u := range uses {
		sep := ";"
		if i == len(uses)-1 {
			sep = ""
		}
		fmt.Fprintf(&b, "  VU %s %s %s%s\n", coqStr(u.v), coqStr(u.fn), u.role, sep)
	}
	b.WriteString("].\n")
	b.WriteString("Definition pb_write_sites : list write_site := [\n")
	for i, s := range sites {
		sep := ";"
		if i == len(sites)-1 {
			sep = ""
		}
		fmt.Fprintf(&b, "  WS %s %s [%s]%s\n", coqStr(s.fn), coqStr(s.callee), strings.Join(s.defs, "; "), sep)
	}
	b.WriteString("].\n")
	b.WriteString("Definition pb_entry_points : list (string * list string) := [\n")
	var eps []string
	for _, fn := range fnNames {
		if reach[fn] && ast.IsExported(fn) && !strings.Contains(fn, ".") {
			var cs []string
			for _, c := range calls[fn] {
				if reach[c] {
					cs = append(cs, coqStr(c))
				}
			}
			eps = append(eps, fmt.Sprintf("  (%s, [%s])", coqStr(fn), strings.Join(cs, "; ")))
		}
	}
	b.WriteString(strings.Join(eps, ";\n"))
	b.WriteString("\n].\n")
	return b.String(), nil
}

func exprIn(l []ast.Expr, e ast.Expr) bool {
	for _, x := range l {
		if x == e {
			return true
		}
	}
	return false
}

// the identifier under slice / index / paren expressions: V, V[:0], V[a:b], (V)
func baseIdentSliced(e ast.Expr) *ast.Ident {
	for {
		switch x := e.(type) {
		case *ast.Ident:
			return x
		case *ast.SliceExpr:
			e = x.X
		case *ast.ParenExpr:
			e = x.X
		case *ast.IndexExpr:
			e = x.X
		default:
			return nil
		}
	}
}
