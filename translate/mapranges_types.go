package main

// Offline, stdlib-only type loading for the MapRanges translator (C19): a recursive source importer
// that finds packages in (1) the repository itself, (2) GOROOT/src, (3) the module cache at the
// versions of the repository's go.mod. Dependencies are checked with IgnoreFuncBodies and every type
// error is ignored: all we need is the type of the expression after `range`, and where that cannot be
// determined the caller reports the range as Unknown.

import (
	"bufio"
	"go/ast"
	"go/build"
	"go/parser"
	"go/token"
	"go/types"
	"os"
	"os/exec"
	"path/filepath"
	"runtime"
	"sort"
	"strings"
	"unicode"
)

type srcImporter struct {
	repo     string
	modpath  string            // module path of the repository
	mods     map[string]string // module path -> directory in the module cache
	modNames []string          // longest first
	goroot   string
	fset     *token.FileSet
	pkgs     map[string]*types.Package
	busy     map[string]bool
}

func escapeMod(p string) string {
	var sb strings.Builder
	for _, r := range p {
		if unicode.IsUpper(r) {
			sb.WriteByte('!')
			sb.WriteRune(unicode.ToLower(r))
		} else {
			sb.WriteRune(r)
		}
	}
	return sb.String()
}

func newSrcImporter(repo string) *srcImporter {
	si := &srcImporter{repo: repo, mods: map[string]string{}, fset: token.NewFileSet(),
		pkgs: map[string]*types.Package{}, busy: map[string]bool{}}
	si.goroot = runtime.GOROOT()
	if out, err := exec.Command("go", "env", "GOROOT", "GOMODCACHE").Output(); err == nil {
		l := strings.Split(strings.TrimSpace(string(out)), "\n")
		if len(l) == 2 {
			si.goroot = l[0]
			si.readGoMod(l[1])
		}
	}
	if len(si.mods) == 0 {
		home, _ := os.UserHomeDir()
		cache := filepath.Join(home, "go", "pkg", "mod")
		if gp := os.Getenv("GOPATH"); gp != "" {
			cache = filepath.Join(gp, "pkg", "mod")
		}
		si.readGoMod(cache)
	}
	return si
}

func (si *srcImporter) readGoMod(cache string) {
	f, err := os.Open(filepath.Join(si.repo, "go.mod"))
	if err != nil {
		return
	}
	defer f.Close()
	sc := bufio.NewScanner(f)
	inReq := false
	for sc.Scan() {
		s := strings.TrimSpace(sc.Text())
		if i := strings.Index(s, "//"); i >= 0 {
			s = strings.TrimSpace(s[:i])
		}
		switch {
		case strings.HasPrefix(s, "module "):
			si.modpath = strings.TrimSpace(s[len("module "):])
			continue
		case s == "require (":
			inReq = true
			continue
		case s == ")":
			inReq = false
			continue
		case strings.HasPrefix(s, "require "):
			s = s[len("require "):]
		case !inReq:
			continue
		}
		fs := strings.Fields(s)
		if len(fs) == 2 {
			si.mods[fs[0]] = filepath.Join(cache, escapeMod(fs[0])+"@"+fs[1])
		}
	}
	for m := range si.mods {
		si.modNames = append(si.modNames, m)
	}
	sort.Slice(si.modNames, func(i, j int) bool { return len(si.modNames[i]) > len(si.modNames[j]) })
}

func (si *srcImporter) dirOf(path string) string {
	if path == si.modpath || strings.HasPrefix(path, si.modpath+"/") {
		return filepath.Join(si.repo, strings.TrimPrefix(path, si.modpath))
	}
	first := path
	if i := strings.Index(path, "/"); i >= 0 {
		first = path[:i]
	}
	if !strings.Contains(first, ".") {
		d := filepath.Join(si.goroot, "src", path)
		if _, err := os.Stat(d); err == nil {
			return d
		}
		d = filepath.Join(si.goroot, "src", "vendor", path)
		if _, err := os.Stat(d); err == nil {
			return d
		}
		return ""
	}
	for _, m := range si.modNames {
		if path == m || strings.HasPrefix(path, m+"/") {
			return filepath.Join(si.mods[m], strings.TrimPrefix(path, m))
		}
	}
	// golang.org/x/... vendored into GOROOT
	d := filepath.Join(si.goroot, "src", "vendor", path)
	if _, err := os.Stat(d); err == nil {
		return d
	}
	return ""
}

func (si *srcImporter) parseDir(dir string, mode parser.Mode) ([]*ast.File, string) {
	ents, err := os.ReadDir(dir)
	if err != nil {
		return nil, ""
	}
	ctx := build.Default
	ctx.CgoEnabled = false
	var files []*ast.File
	name := ""
	for _, e := range ents {
		n := e.Name()
		if e.IsDir() || !strings.HasSuffix(n, ".go") || strings.HasSuffix(n, "_test.go") {
			continue
		}
		if ok, err := ctx.MatchFile(dir, n); err != nil || !ok {
			continue
		}
		f, err := parser.ParseFile(si.fset, filepath.Join(dir, n), nil, mode)
		if f == nil || (err != nil && f.Name == nil) {
			continue
		}
		if f.Name.Name == "main" && name != "" && name != "main" {
			continue
		}
		if name == "" {
			name = f.Name.Name
		}
		if f.Name.Name != name {
			continue
		}
		files = append(files, f)
	}
	return files, name
}

func (si *srcImporter) Import(path string) (*types.Package, error) {
	if path == "unsafe" {
		return types.Unsafe, nil
	}
	if path == "C" {
		return types.NewPackage("C", "C"), nil
	}
	if p, ok := si.pkgs[path]; ok {
		return p, nil
	}
	fake := func() *types.Package {
		nm := path[strings.LastIndex(path, "/")+1:]
		p := types.NewPackage(path, nm)
		p.MarkComplete()
		si.pkgs[path] = p
		return p
	}
	if si.busy[path] {
		return fake(), nil
	}
	dir := si.dirOf(path)
	if dir == "" {
		return fake(), nil
	}
	si.busy[path] = true
	defer delete(si.busy, path)
	files, _ := si.parseDir(dir, parser.SkipObjectResolution)
	if len(files) == 0 {
		return fake(), nil
	}
	conf := types.Config{Importer: si, IgnoreFuncBodies: true, FakeImportC: true, Error: func(error) {}}
	p, _ := conf.Check(path, si.fset, files, nil)
	if p == nil {
		return fake(), nil
	}
	si.pkgs[path] = p
	return p, nil
}

// checkTarget type-checks one package directory of the repository with function bodies.
func (si *srcImporter) checkTarget(rel string) ([]*ast.File, *types.Info, string) {
	dir := filepath.Join(si.repo, rel)
	files, name := si.parseDir(dir, parser.ParseComments)
	if len(files) == 0 {
		return nil, nil, ""
	}
	info := &types.Info{Types: map[ast.Expr]types.TypeAndValue{}, Uses: map[*ast.Ident]types.Object{}, Defs: map[*ast.Ident]types.Object{},
		Selections: map[*ast.SelectorExpr]*types.Selection{}}
	conf := types.Config{Importer: si, FakeImportC: true, Error: func(error) {}}
	path := si.modpath + "/" + filepath.ToSlash(rel)
	p, _ := conf.Check(path, si.fset, files, info)
	if p != nil {
		si.pkgs[path] = p
	}
	return files, info, name
}
