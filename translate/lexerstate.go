package main

import (
	"fmt"
	"go/ast"
	"go/token"
	"sort"
	"strconv"
	"strings"
)

// LexerState: the hand-written state of the lexer and everything that reads or writes it, for Front/LexState.v (C03).
//
//	lexer_impl.go   type lexerState: the fields in declaration order with their types     -> ls_fields
//	                startsWithKeyword: which fields of the state it reads                 -> ls_keyword_reads
//	                every function other than ls / getNextToken and its helpers that assigns a field -> ls_other_writers
//	sysl_lexer.go   every <RULE>_Action: the statements of its cases in ascending action index,
//	                classified as Front/LexState.lop                                        -> ls_ops (keyed by token id)
//	                every <RULE>_Sempred: the returned expressions, classified as lpred      -> ls_preds
//	                (the actions copy the { ... } blocks of SyslLexer.g4 verbatim; the generated file is what runs)
//
// Anything that cannot be classified is listed in ls_unknown (Front/StateTables.v proves it empty).
func init() { register("LexerState", lexerState) }

func lsNorm(s string) string {
	s = strings.ReplaceAll(s, "ls(l).", "ls.")
	s = strings.ReplaceAll(s, "ls(p).", "ls.")
	return s
}

func lexerState(repo string) (string, error) {
	gl, err := parseGo(repo, "pkg/grammar/sysl_lexer.go")
	if err != nil {
		return "", err
	}
	li, err := parseGo(repo, "pkg/grammar/lexer_impl.go")
	if err != nil {
		return "", err
	}
	var unknown []string
	unk := func(f string, a ...interface{}) { unknown = append(unknown, fmt.Sprintf(f, a...)) }

	ids := map[string]int{}
	for _, d := range gl.file.Decls {
		gd, ok := d.(*ast.GenDecl)
		if !ok || gd.Tok != token.CONST {
			continue
		}
		for _, sp := range gd.Specs {
			vs := sp.(*ast.ValueSpec)
			for i, n := range vs.Names {
				if !strings.HasPrefix(n.Name, "SyslLexer") || i >= len(vs.Values) {
					continue
				}
				if bl, ok := vs.Values[i].(*ast.BasicLit); ok && bl.Kind == token.INT {
					if v, err := strconv.Atoi(bl.Value); err == nil {
						ids[strings.TrimPrefix(n.Name, "SyslLexer")] = v
					}
				}
			}
		}
	}
	if len(ids) == 0 {
		return "", fmt.Errorf("no SyslLexer token constants found")
	}

	classify := func(rule, src string) string {
		switch src {
		case "ls := ls(l)":
			return ""
		case "ls.gotNewLine = true":
			return "OpNL"
		case "ls.spaces = 0":
			return "OpSp0"
		case "ls.spaces = calcSpaces(l.GetText())":
			return "OpSpCalc"
		case "ls.gotHTTPVerb = true":
			return "OpHttp true"
		case "ls.gotHTTPVerb = false":
			return "OpHttp false"
		case "ls.linenum++":
			return "OpLine"
		case "ls.gotView = true":
			return "OpView true"
		case "ls.gotView = false":
			return "OpView false"
		case "ls.blockTextLine++":
			return "OpBlockInc"
		case "if ls.blockTextLine > 0 { ls.blockTextLine-- }":
			return "OpBlockDecPos"
		case "ls.noMoreImports = true":
			return "OpNoMore"
		case "ls.inSqBrackets++":
			return "OpSqInc"
		case "ls.inSqBrackets--":
			return "OpSqDec"
		case "ls.parens++":
			return "OpParInc"
		case "ls.parens--":
			return "OpParDec"
		case "if ls.gotView { l.PushMode(SyslLexerVIEW_TRANSFORM) }":
			return "OpPushViewIfView"
		case "if ls.parens == 0 { ls.gotView = false l.PopMode() }":
			return "OpPopIfParens0"
		case "l.SetText(trimText(l))":
			return "OpSetText"
		}
		if strings.HasPrefix(src, "l.SetType(SyslLexer") && strings.HasSuffix(src, ")") {
			nm := strings.TrimSuffix(strings.TrimPrefix(src, "l.SetType(SyslLexer"), ")")
			if v, ok := ids[nm]; ok {
				return fmt.Sprintf("OpSetType %d", v)
			}
		}
		unk("%s_Action: %s", rule, src)
		return "?"
	}
	classifyPred := func(rule, src string) string {
		switch src {
		case "ls.inSqBrackets == 0":
			return "PSqZero"
		case "ls.blockTextLine == 0":
			return "PBlockZero"
		case "!startsWithKeyword(ls(p), p.GetText())":
			return "PNotKeyword"
		case "!ls.noMoreImports":
			return "PImports"
		case "ls.gotView":
			return "PView"
		case "ls.gotHTTPVerb":
			return "PHttp"
		case "ls.spaces > 1":
			return "PSpacesGt1"
		case "ls.gotNewLine":
			return "PNL"
		}
		unk("%s_Sempred: %s", rule, src)
		return "?"
	}

	type entry struct {
		rule  string
		items []string
	}
	var ops, preds []entry
	caseBodies := func(fd *ast.FuncDecl) (out [][]ast.Stmt, ok bool) {
		if len(fd.Body.List) != 1 {
			return nil, false
		}
		sw, ok := fd.Body.List[0].(*ast.SwitchStmt)
		if !ok {
			return nil, false
		}
		type cb struct {
			idx  int
			body []ast.Stmt
		}
		var cs []cb
		for _, c := range sw.Body.List {
			cc := c.(*ast.CaseClause)
			if cc.List == nil {
				continue // default: panic
			}
			if len(cc.List) != 1 {
				return nil, false
			}
			bl, ok := cc.List[0].(*ast.BasicLit)
			if !ok {
				return nil, false
			}
			n, _ := strconv.Atoi(bl.Value)
			cs = append(cs, cb{n, cc.Body})
		}
		sort.Slice(cs, func(i, j int) bool { return cs[i].idx < cs[j].idx })
		for _, c := range cs {
			out = append(out, c.body)
		}
		return out, true
	}
	for _, fd := range funcDecls(gl.file) {
		if recvName(fd) != "SyslLexer" || fd.Body == nil {
			continue
		}
		switch {
		case strings.HasSuffix(fd.Name.Name, "_Action"):
			rule := strings.TrimSuffix(fd.Name.Name, "_Action")
			bodies, ok := caseBodies(fd)
			if !ok {
				unk("%s_Action: not a switch over the action index", rule)
				continue
			}
			e := entry{rule: rule}
			for _, b := range bodies {
				for _, st := range b {
					src := lsNorm(ltSrc(gl.fset, st))
					if src == "ls := ls.l" { // not reached: ls(l) without a dot is left alone by lsNorm
						continue
					}
					if c := classify(rule, src); c != "" {
						e.items = append(e.items, c)
					}
				}
			}
			if _, ok := ids[rule]; !ok {
				unk("%s_Action: no token constant for the rule", rule)
			}
			// a rule that re-types its token must not touch the state (ops are looked up by token type)
			setsType, touches := false, false
			for _, it := range e.items {
				if strings.HasPrefix(it, "OpSetType") {
					setsType = true
				} else if it != "OpSetText" {
					touches = true
				}
			}
			if setsType && touches {
				unk("%s_Action: changes the token type and the state", rule)
			}
			ops = append(ops, e)
		case strings.HasSuffix(fd.Name.Name, "_Sempred"):
			rule := strings.TrimSuffix(fd.Name.Name, "_Sempred")
			bodies, ok := caseBodies(fd)
			if !ok {
				unk("%s_Sempred: not a switch over the predicate index", rule)
				continue
			}
			e := entry{rule: rule}
			for _, b := range bodies {
				if len(b) != 1 {
					unk("%s_Sempred: case with %d statements", rule, len(b))
					continue
				}
				rs, ok := b[0].(*ast.ReturnStmt)
				if !ok || len(rs.Results) != 1 {
					unk("%s_Sempred: %s", rule, ltSrc(gl.fset, b[0]))
					continue
				}
				src := ltSrc(gl.fset, rs.Results[0])
				if src != "!startsWithKeyword(ls(p), p.GetText())" {
					src = lsNorm(src)
				}
				e.items = append(e.items, classifyPred(rule, src))
			}
			if _, ok := ids[rule]; !ok {
				unk("%s_Sempred: no token constant for the rule", rule)
			}
			preds = append(preds, e)
		}
	}
	sort.Slice(ops, func(i, j int) bool { return ids[ops[i].rule] < ids[ops[j].rule] })
	sort.Slice(preds, func(i, j int) bool { return ids[preds[i].rule] < ids[preds[j].rule] })

	// ---- lexer_impl.go
	var fields []string
	for _, d := range li.file.Decls {
		gd, ok := d.(*ast.GenDecl)
		if !ok || gd.Tok != token.TYPE {
			continue
		}
		for _, sp := range gd.Specs {
			ts := sp.(*ast.TypeSpec)
			if ts.Name.Name != "lexerState" {
				continue
			}
			stt, ok := ts.Type.(*ast.StructType)
			if !ok {
				unk("lexerState is not a struct")
				continue
			}
			for _, f := range stt.Fields.List {
				for _, n := range f.Names {
					fields = append(fields, n.Name+" "+ltSrc(li.fset, f.Type))
				}
			}
		}
	}
	isField := map[string]bool{}
	for _, f := range fields {
		isField[strings.Fields(f)[0]] = true
	}
	var kwReads, otherWriters []string
	for _, fd := range funcDecls(li.file) {
		if fd.Body == nil {
			continue
		}
		name := fd.Name.Name
		if r := recvName(fd); r != "" {
			name = r + "." + name
		}
		// parameters / locals of type *lexerState in this function
		stateVars := map[string]bool{}
		if fd.Type.Params != nil {
			for _, p := range fd.Type.Params.List {
				if ltSrc(li.fset, p.Type) == "*lexerState" {
					for _, n := range p.Names {
						stateVars[n.Name] = true
					}
				}
			}
		}
		ast.Inspect(fd.Body, func(n ast.Node) bool {
			if as, ok := n.(*ast.AssignStmt); ok && as.Tok == token.DEFINE && len(as.Lhs) == 1 && len(as.Rhs) == 1 {
				if c, ok := as.Rhs[0].(*ast.CallExpr); ok && isIdent(c.Fun, "ls") {
					if id, ok := as.Lhs[0].(*ast.Ident); ok {
						stateVars[id.Name] = true
					}
				}
			}
			return true
		})
		stateSel := func(e ast.Expr) string {
			s, ok := e.(*ast.SelectorExpr)
			if !ok || !isField[s.Sel.Name] {
				return ""
			}
			switch x := s.X.(type) {
			case *ast.Ident:
				if stateVars[x.Name] {
					return s.Sel.Name
				}
			case *ast.CallExpr:
				if isIdent(x.Fun, "ls") {
					return s.Sel.Name
				}
			}
			return ""
		}
		ast.Inspect(fd.Body, func(n ast.Node) bool {
			switch x := n.(type) {
			case *ast.SelectorExpr:
				if f := stateSel(x); f != "" && name == "startsWithKeyword" {
					kwReads = append(kwReads, f)
				}
			case *ast.AssignStmt:
				for _, l := range x.Lhs {
					if f := stateSel(l); f != "" && name != "getNextToken" {
						otherWriters = append(otherWriters, name+": "+f)
					}
				}
			case *ast.IncDecStmt:
				if f := stateSel(x.X); f != "" && name != "getNextToken" {
					otherWriters = append(otherWriters, name+": "+f)
				}
			}
			return true
		})
	}

	var b strings.Builder
	b.WriteString("(* GENERATED by vt LexerState from pkg/grammar/sysl_lexer.go and pkg/grammar/lexer_impl.go -- do not edit *)\n")
	b.WriteString("From Coq Require Import List String NArith Bool.\nImport ListNotations.\nRequire Import Verif.Front.Indent Verif.Front.LexState.\nLocal Open Scope N_scope.\n")
	wr := func(name, ty string, es []entry) {
		fmt.Fprintf(&b, "Definition %s : list (N * list %s) := [\n", name, ty)
		for i, e := range es {
			sep := ";"
			if i == len(es)-1 {
				sep = ""
			}
			var it []string
			for _, x := range e.items {
				if x == "?" {
					continue
				}
				it = append(it, x)
			}
			fmt.Fprintf(&b, "  (%d (* %s *), [%s])%s\n", ids[e.rule], e.rule, strings.Join(it, "; "), sep)
		}
		b.WriteString("].\n")
	}
	b.WriteString("(* per rule: the statements of its actions in the order the generated lexer runs them *)\n")
	wr("ls_ops", "lop", ops)
	b.WriteString("(* per rule: its semantic predicates *)\n")
	wr("ls_preds", "lpred", preds)
	strs := func(name string, l []string) {
		var it []string
		for _, s := range l {
			it = append(it, ltCoqString(s)+"%string")
		}
		fmt.Fprintf(&b, "Definition %s : list string := [%s].\n", name, strings.Join(it, "; "))
	}
	b.WriteString("(* type lexerState, field by field *)\n")
	strs("ls_fields", fields)
	b.WriteString("(* the state fields startsWithKeyword reads *)\n")
	strs("ls_keyword_reads", kwReads)
	b.WriteString("(* assignments to state fields in lexer_impl.go outside getNextToken *)\n")
	strs("ls_other_writers", otherWriters)
	b.WriteString("(* source the translator could not classify *)\n")
	strs("ls_unknown", unknown)
	for _, n := range []string{"NEWLINE", "EMPTY_LINE", "INDENTED_COMMENT", "EMPTY_COMMENT", "E_NL", "E_INDENTED_COMMENT", "E_EMPTY_LINE", "SYSL_COMMENT", "IMPORT", "VIEW", "HTTP_VERBS", "WS", "E_WS", "E_DOT_NAME_NL", "NEWLINE_2", "TMPL_NL", "COLON"} {
		if v, ok := ids[n]; ok {
			fmt.Fprintf(&b, "Definition lst_%s : N := %d.\n", n, v)
		} else {
			fmt.Fprintf(&b, "Definition lst_%s : N := 0.\n", n)
			unknown = append(unknown, "no token "+n)
		}
	}
	return b.String(), nil
}
