package main

import (
	"bytes"
	"fmt"
	"go/ast"
	"go/printer"
	"go/token"
	"sort"
	"strconv"
	"strings"
)

// SeqShape: shape facts of the sequence-diagram generator (pkg/cmdutils/visitor.go) that the model of C13
// (theories/Seq/SeqModel.v) takes for granted, re-read from the source on every run:
//
//	variant_now        do application()/endpoint() panic on a missing target, or return an error;
//	                   is the Deactivate(agent) of the in-progress branch of visitEndpoint guarded by `upto != nil`
//	agent_table        MakeAgent: pattern -> (category, agent kind), and the default
//	                   does the default arm of visitStatment's type switch (a statement without `Stmt`) panic, or set the error
//	stmt_arms          visitStatment: statement kind -> visitor method (default arm: "panic" or "error")
//	block_visitors     per block visitor: helper it delegates to, opening keyword, whether it forwards e.isLastStmt(i)
//	group_stmt_closes  visitGroupStmt = visitBlockStmt followed by "end"
//	alt_rule           visitAlt: a choice is flagged last iff the alt is the last statement and the choice is the last one;
//	                   first keyword "alt", later ones "else", closed by one "end"
//	is_last_rule       isLastStmt(i) = isLastParentStmt && i == len(stmts)-1
//
// Anything that cannot be classified is written as "unknown" / shape_known := false, and the lemmas of
// Seq/SeqShapeProps.v stop checking.
func init() { register("SeqShape", seqShape) }

func strLit(e ast.Expr) (string, bool) {
	b, ok := e.(*ast.BasicLit)
	if !ok || b.Kind != token.STRING {
		return "", false
	}
	s, err := strconv.Unquote(b.Value)
	return s, err == nil
}

func intLit(e ast.Expr) (string, bool) {
	b, ok := e.(*ast.BasicLit)
	if !ok || b.Kind != token.INT {
		return "", false
	}
	return b.Value, true
}

func containsPanic(n ast.Node) bool {
	found := false
	ast.Inspect(n, func(x ast.Node) bool {
		if c, ok := x.(*ast.CallExpr); ok && isIdent(c.Fun, "panic") {
			found = true
		}
		return true
	})
	return found
}

func returnsError(fd *ast.FuncDecl) bool {
	if fd.Type.Results == nil {
		return false
	}
	for _, r := range fd.Type.Results.List {
		if isIdent(r.Type, "error") {
			return true
		}
	}
	return false
}

// isNeqNil: does cond (through && only) contain `name != nil`
func hasNeqNil(cond ast.Expr, name string) bool {
	switch c := cond.(type) {
	case *ast.ParenExpr:
		return hasNeqNil(c.X, name)
	case *ast.BinaryExpr:
		if c.Op == token.NEQ && isIdent(c.X, name) && isIdent(c.Y, "nil") {
			return true
		}
		if c.Op == token.LAND {
			return hasNeqNil(c.X, name) || hasNeqNil(c.Y, name)
		}
	}
	return false
}

func mentions(n ast.Node, name string) bool {
	found := false
	ast.Inspect(n, func(x ast.Node) bool {
		if isIdent2(x, name) {
			found = true
		}
		return true
	})
	return found
}

func isIdent2(n ast.Node, name string) bool {
	id, ok := n.(*ast.Ident)
	return ok && id.Name == name
}

// isLenMinus1: e is `len(<x>)-1`; returns the printed x
func isLenMinus1(e ast.Expr) (ast.Expr, bool) {
	b, ok := e.(*ast.BinaryExpr)
	if !ok || b.Op != token.SUB {
		return nil, false
	}
	if v, ok := intLit(b.Y); !ok || v != "1" {
		return nil, false
	}
	c, ok := b.X.(*ast.CallExpr)
	if !ok || !isIdent(c.Fun, "len") || len(c.Args) != 1 {
		return nil, false
	}
	return c.Args[0], true
}

func exprString(e ast.Expr) string {
	switch x := e.(type) {
	case *ast.Ident:
		return x.Name
	case *ast.SelectorExpr:
		return exprString(x.X) + "." + x.Sel.Name
	case *ast.CallExpr:
		var as []string
		for _, a := range x.Args {
			as = append(as, exprString(a))
		}
		return exprString(x.Fun) + "(" + strings.Join(as, ",") + ")"
	}
	return fmt.Sprintf("?%T", e)
}

// isLastCall: e is `<recv>.isLastStmt(<idx>)`
func isLastCall(e ast.Expr) bool {
	c, ok := e.(*ast.CallExpr)
	if !ok || len(c.Args) != 1 {
		return false
	}
	ch := selChain(c.Fun)
	return len(ch) == 2 && ch[1] == "isLastStmt"
}

// render prints an expression as source text
func render(fset *token.FileSet, n ast.Node) string {
	var b bytes.Buffer
	if err := printer.Fprint(&b, fset, n); err != nil {
		return "?"
	}
	return strings.Join(strings.Fields(b.String()), " ")
}

// coqStr: a Coq string literal (no escapes; a quote is doubled)
func seqCoqStr(s string) string { return "\"" + strings.ReplaceAll(s, "\"", "\"\"") + "\"" }

// optionLayerFacts: what the model of the option layer and of the label pipeline (Seq/SeqOpts.v, Seq/Fmt.v) takes for
// granted about fmtparser.go, visitor.go and sequencediagram.go:
//
//	item_regexps     the eleven ItemRe* expressions, by name (the scanners of Fmt.v are written against these texts)
//	match_consts     MatchSymbol / MatchWord / MatchLookahead
//	mece_rule        MakeEndpointCollectionElement: the condition under which a blackbox is taken, the condition under
//	                 which its comment is cleared, and what is assigned
//	visiting_format  the key visitEndpoint looks blackboxes up with
//	cut_rule         the condition of visitEndpoint's "shown but not expanded" branch
//	bb_kinds         the Upto kinds DoConstructSequenceDiagrams hands to TransformBlackboxesToUptos, in source order
//	fmt_checked_now  every FormatParser DoConstructSequenceDiagrams builds is tried (Check) before it is used and a
//	                 failure is returned as an error
func optionLayerFacts(repo string, visitor *goFile, sb *strings.Builder, unknown func(string, ...interface{})) {
	b2s := func(b bool) string {
		if b {
			return "true"
		}
		return "false"
	}
	// ---- fmtparser.go
	type kv struct{ k, v string }
	var res, consts []kv
	if gf, err := parseGo(repo, "pkg/cmdutils/fmtparser.go"); err != nil {
		unknown("fmtparser.go: %v", err)
	} else {
		for _, d := range gf.file.Decls {
			gd, ok := d.(*ast.GenDecl)
			if !ok {
				continue
			}
			for _, sp := range gd.Specs {
				vs, ok := sp.(*ast.ValueSpec)
				if !ok {
					continue
				}
				for i, n := range vs.Names {
					if strings.HasPrefix(n.Name, "ItemRe") && i < len(vs.Values) {
						if c, ok := vs.Values[i].(*ast.CallExpr); ok && len(c.Args) == 1 {
							if ch := selChain(c.Fun); len(ch) == 2 && ch[0] == "regexp" && ch[1] == "MustCompile" {
								if v, ok := strLit(c.Args[0]); ok {
									res = append(res, kv{n.Name, v})
									continue
								}
							}
						}
						unknown("fmtparser.go: %s is not regexp.MustCompile(<literal>)", n.Name)
					}
				}
			}
			if gd.Tok == token.CONST {
				for i, sp := range gd.Specs {
					if vs, ok := sp.(*ast.ValueSpec); ok && len(vs.Names) == 1 && strings.HasPrefix(vs.Names[0].Name, "Match") {
						v := "iota"
						if i == 0 && len(vs.Values) == 1 {
							v = render(gf.fset, vs.Values[0])
						}
						consts = append(consts, kv{vs.Names[0].Name, v})
					}
				}
			}
		}
	}
	sort.Slice(res, func(i, j int) bool { return res[i].k < res[j].k })
	sb.WriteString("Definition item_regexps : list (string * string) := [")
	for i, r := range res {
		if i > 0 {
			sb.WriteString("; ")
		}
		fmt.Fprintf(sb, "(%s, %s)", seqCoqStr(r.k), seqCoqStr(r.v))
	}
	sb.WriteString("].\n")
	sb.WriteString("Definition match_consts : list (string * string) := [")
	for i, r := range consts {
		if i > 0 {
			sb.WriteString("; ")
		}
		fmt.Fprintf(sb, "(%s, %s)", seqCoqStr(r.k), seqCoqStr(r.v))
	}
	sb.WriteString("].\n")
	// ---- visitor.go
	take, clear, assign, visiting, cut := "unknown", "unknown", "unknown", "unknown", "unknown"
	for _, fd := range funcDecls(visitor.file) {
		if fd.Body == nil {
			continue
		}
		switch fd.Name.Name {
		case "MakeEndpointCollectionElement":
			ast.Inspect(fd.Body, func(n ast.Node) bool {
				rs, ok := n.(*ast.RangeStmt)
				if !ok || !isIdent(rs.X, "blackboxes") {
					return true
				}
				for _, st := range rs.Body.List {
					if is, ok := st.(*ast.IfStmt); ok && is.Else == nil {
						take = render(visitor.fset, is.Cond)
						for _, in := range is.Body.List {
							if is2, ok := in.(*ast.IfStmt); ok && is2.Else == nil && len(is2.Body.List) == 1 {
								clear = render(visitor.fset, is2.Cond)
								assign = render(visitor.fset, is2.Body.List[0])
							}
						}
					}
				}
				return false
			})
		case "visitEndpoint":
			ast.Inspect(fd.Body, func(n ast.Node) bool {
				switch x := n.(type) {
				case *ast.AssignStmt:
					if len(x.Lhs) == 1 && isIdent(x.Lhs[0], "visiting") && len(x.Rhs) == 1 {
						if c, ok := x.Rhs[0].(*ast.CallExpr); ok && len(c.Args) == 3 {
							if v, ok := strLit(c.Args[0]); ok {
								visiting = v + " " + render(visitor.fset, c.Args[1]) + " " + render(visitor.fset, c.Args[2])
							}
						}
					}
				case *ast.IfStmt:
					if mentions(x.Cond, "hitVisited") && mentions(x.Cond, "hitUpto") {
						cut = render(visitor.fset, x.Cond)
					}
				}
				return true
			})
		}
	}
	// the one-character convention: either the comment is cleared in the shared Upto (the inner `if` above), or the
	// Upto is left alone and the text is dropped where a note is written: a method `note` of Upto that returns "" for
	// len(u.Comment) == 1, and visitEndpoint never reads upto.Comment itself
	onecharInHeap := clear != "unknown"
	if !onecharInHeap && take != "unknown" {
		noteOK, readsComment := false, false
		for _, fd := range funcDecls(visitor.file) {
			if fd.Body == nil {
				continue
			}
			if recvName(fd) == "Upto" && fd.Name.Name == "note" && len(fd.Body.List) == 2 {
				if is, ok := fd.Body.List[0].(*ast.IfStmt); ok && render(visitor.fset, is.Cond) == "len("+recvVar(fd)+".Comment) == 1" && len(is.Body.List) == 1 {
					if rs, ok := is.Body.List[0].(*ast.ReturnStmt); ok && len(rs.Results) == 1 && render(visitor.fset, rs.Results[0]) == `""` {
						if rs2, ok := fd.Body.List[1].(*ast.ReturnStmt); ok && len(rs2.Results) == 1 && render(visitor.fset, rs2.Results[0]) == recvVar(fd)+".Comment" {
							noteOK = true
						}
					}
				}
			}
			if fd.Name.Name == "visitEndpoint" {
				ast.Inspect(fd.Body, func(n ast.Node) bool {
					if se, ok := n.(*ast.SelectorExpr); ok && se.Sel.Name == "Comment" {
						readsComment = true
					}
					return true
				})
			}
		}
		if noteOK && !readsComment {
			clear, assign = "none", "none"
		}
	}
	for _, v := range []string{take, clear, assign, visiting, cut} {
		if v == "unknown" {
			unknown("option layer: a construct of MakeEndpointCollectionElement / visitEndpoint was not found")
			break
		}
	}
	fmt.Fprintf(sb, "Definition onechar_in_heap_now : bool := %s.\n", b2s(onecharInHeap))
	// ---- utils.go: TransformBlackBoxes reads the elements with the nil-safe getter; TransformBlackboxesToUptos indexes
	// val[1] only under a test of len(val)
	guarded := false
	if gf, err := parseGo(repo, "pkg/cmdutils/utils.go"); err != nil {
		unknown("utils.go: %v", err)
	} else {
		safeElts, safeIndex, seen := true, true, 0
		for _, fd := range funcDecls(gf.file) {
			if fd.Body == nil {
				continue
			}
			switch fd.Name.Name {
			case "TransformBlackBoxes":
				seen++
				ast.Inspect(fd.Body, func(n ast.Node) bool {
					if se, ok := n.(*ast.SelectorExpr); ok && se.Sel.Name == "Elt" {
						safeElts = false // direct field access on what GetA() returned
					}
					return true
				})
			case "TransformBlackboxesToUptos":
				seen++
				var walk func(n ast.Node, underLen bool)
				walk = func(n ast.Node, underLen bool) {
					ast.Inspect(n, func(x ast.Node) bool {
						switch y := x.(type) {
						case *ast.IfStmt:
							u := underLen || strings.Contains(render(gf.fset, y.Cond), "len(val)")
							walk(y.Body, u)
							if y.Else != nil {
								walk(y.Else, underLen)
							}
							return false
						case *ast.IndexExpr:
							if isIdent(y.X, "val") && !underLen {
								if v, ok := intLit(y.Index); ok && v != "0" {
									safeIndex = false
								}
							}
						}
						return true
					})
				}
				walk(fd.Body, false)
				if !strings.Contains(render(gf.fset, fd.Body), "len(val)") {
					safeIndex = false
				}
			}
		}
		if seen != 2 {
			unknown("utils.go: TransformBlackBoxes / TransformBlackboxesToUptos not found")
		}
		guarded = safeElts && safeIndex
		if safeElts != safeIndex {
			unknown("utils.go: only one of TransformBlackBoxes / TransformBlackboxesToUptos is guarded")
		}
	}
	fmt.Fprintf(sb, "Definition bbattr_guarded_now : bool := %s.\n", b2s(guarded))
	fmt.Fprintf(sb, "Definition mece_rule : string * string * string := (%s, %s, %s).\n", seqCoqStr(take), seqCoqStr(clear), seqCoqStr(assign))
	fmt.Fprintf(sb, "Definition visiting_format : string := %s.\n", seqCoqStr(visiting))
	fmt.Fprintf(sb, "Definition cut_rule : string := %s.\n", seqCoqStr(cut))
	// ---- sequencediagram.go
	var kinds []string
	var kindMaps []string
	deletes, warnsInBbs2 := false, false
	checked := false
	if gf, err := parseGo(repo, "pkg/sequencediagram/sequencediagram.go"); err != nil {
		unknown("sequencediagram.go: %v", err)
	} else {
		for _, fd := range funcDecls(gf.file) {
			if fd.Name.Name != "DoConstructSequenceDiagrams" || fd.Body == nil {
				continue
			}
			parsers := map[string]bool{}
			tried := map[string]bool{}
			ast.Inspect(fd.Body, func(n ast.Node) bool {
				switch x := n.(type) {
				case *ast.AssignStmt:
					if len(x.Lhs) == 1 && len(x.Rhs) == 1 {
						if c, ok := x.Rhs[0].(*ast.CallExpr); ok {
							ch := selChain(c.Fun)
							if len(ch) > 0 && (ch[len(ch)-1] == "ConstructFormatParser" || ch[len(ch)-1] == "MakeFormatParser") {
								if id, ok := x.Lhs[0].(*ast.Ident); ok {
									parsers[id.Name] = true
								}
							}
						}
					}
				case *ast.IfStmt:
					// if err := <p>.Check(); err != nil { return nil, err }   or   checkFormats(<p>, ...)
					as, ok := x.Init.(*ast.AssignStmt)
					if !ok || len(as.Rhs) != 1 || len(x.Body.List) == 0 {
						return true
					}
					if _, ok := x.Body.List[len(x.Body.List)-1].(*ast.ReturnStmt); !ok {
						return true
					}
					if c, ok := as.Rhs[0].(*ast.CallExpr); ok {
						ch := selChain(c.Fun)
						switch {
						case len(ch) == 2 && ch[1] == "Check":
							tried[ch[0]] = true
						case len(ch) == 1 && ch[0] == "checkFormats":
							for _, a := range c.Args {
								if id, ok := a.(*ast.Ident); ok {
									tried[id.Name] = true
								}
							}
						}
					}
				case *ast.CallExpr:
					ch := selChain(x.Fun)
					if len(ch) > 0 && ch[len(ch)-1] == "TransformBlackboxesToUptos" && len(x.Args) == 3 {
						kinds = append(kinds, render(gf.fset, x.Args[2]))
						kindMaps = append(kindMaps, render(gf.fset, x.Args[0]))
					}
					if isIdent(x.Fun, "delete") {
						deletes = true
					}
				case *ast.RangeStmt:
					if isIdent(x.X, "bbs2") {
						ast.Inspect(x.Body, func(y ast.Node) bool {
							if c, ok := y.(*ast.CallExpr); ok {
								if ch := selChain(c.Fun); len(ch) == 2 && ch[1] == "Warnf" {
									warnsInBbs2 = true
								}
							}
							return true
						})
					}
				}
				return true
			})
			checked = len(parsers) > 0
			for p := range parsers {
				if !tried[p] {
					checked = false
				}
			}
			if len(parsers) == 0 {
				unknown("DoConstructSequenceDiagrams: no format parser construction found")
			}
		}
	}
	sb.WriteString("Definition bb_kinds : list string := [")
	for i, k := range kinds {
		if i > 0 {
			sb.WriteString("; ")
		}
		sb.WriteString(seqCoqStr(k))
	}
	sb.WriteString("].\n")
	fmt.Fprintf(sb, "Definition fmt_checked_now : bool := %s.\n", b2s(checked))
	// the endpoint's blackboxes: into the application's map and deleted from it afterwards, or into a map of their own
	layered := false
	if len(kindMaps) == 3 {
		layered = kindMaps[0] != kindMaps[1] && !deletes
		if (kindMaps[0] == kindMaps[1]) != deletes {
			unknown("DoConstructSequenceDiagrams: endpoint blackboxes neither shared-and-deleted nor in a map of their own")
		}
	} else {
		unknown("DoConstructSequenceDiagrams: expected three TransformBlackboxesToUptos calls")
	}
	fmt.Fprintf(sb, "Definition ep_layered_now : bool := %s.\n", b2s(layered))
	fmt.Fprintf(sb, "Definition ep_empty_reported_now : bool := %s.\n", b2s(warnsInBbs2))
}

func seqShape(repo string) (string, error) {
	gf, err := parseGo(repo, "pkg/cmdutils/visitor.go")
	if err != nil {
		return "", err
	}
	known := true
	var why []string
	unknown := func(f string, a ...interface{}) {
		known = false
		why = append(why, fmt.Sprintf(f, a...))
	}
	byName := map[string]*ast.FuncDecl{}
	for _, fd := range funcDecls(gf.file) {
		byName[recvName(fd)+"."+fd.Name.Name] = fd
	}

	// ---- 1. lookups
	// which methods of EndpointElement does visitEndpoint use to find the target's *sysl.Application / *sysl.Endpoint,
	// and do those panic on a missing entry or return an error that visitEndpoint hands on
	lookupPanics := false
	if fd := byName["SequenceDiagramVisitor.visitEndpoint"]; fd == nil || fd.Body == nil {
		unknown("visitEndpoint not found")
	} else {
		elem := ""
		if len(fd.Type.Params.List) == 1 && len(fd.Type.Params.List[0].Names) == 1 {
			elem = fd.Type.Params.List[0].Names[0].Name
		}
		yields := func(m *ast.FuncDecl) bool { // result mentions *sysl.Application or *sysl.Endpoint
			if m.Type.Results == nil {
				return false
			}
			for _, r := range m.Type.Results.List {
				if se, ok := r.Type.(*ast.StarExpr); ok {
					if ch := selChain(se.X); len(ch) == 2 && ch[0] == "sysl" && (ch[1] == "Application" || ch[1] == "Endpoint") {
						return true
					}
				}
			}
			return false
		}
		nPanic, nErr := 0, 0
		for _, st := range fd.Body.List {
			as, ok := st.(*ast.AssignStmt)
			if !ok || len(as.Rhs) != 1 {
				continue
			}
			c, ok := as.Rhs[0].(*ast.CallExpr)
			if !ok {
				continue
			}
			ch := selChain(c.Fun)
			if len(ch) != 2 || ch[0] != elem {
				continue
			}
			m := byName["EndpointElement."+ch[1]]
			if m == nil || m.Body == nil || !yields(m) {
				continue
			}
			switch {
			case containsPanic(m.Body):
				nPanic++
			case returnsError(m):
				// the error must be the last value assigned and be returned by the next `if err != nil { return err }`
				errVar := ""
				if id, ok := as.Lhs[len(as.Lhs)-1].(*ast.Ident); ok {
					errVar = id.Name
				}
				handed := false
				for _, st2 := range fd.Body.List {
					is, ok := st2.(*ast.IfStmt)
					if !ok || is.Pos() < as.End() {
						continue
					}
					if be, ok := is.Cond.(*ast.BinaryExpr); ok && be.Op == token.NEQ && isIdent(be.X, errVar) && isIdent(be.Y, "nil") &&
						len(is.Body.List) == 1 {
						if rs, ok := is.Body.List[0].(*ast.ReturnStmt); ok && len(rs.Results) == 1 && isIdent(rs.Results[0], errVar) {
							handed = true
						}
					}
					break
				}
				if handed {
					nErr++
				} else {
					unknown("visitEndpoint: the error of %s is not returned", ch[1])
				}
			default:
				unknown("visitEndpoint: %s neither panics nor returns an error", ch[1])
			}
		}
		switch {
		case nPanic > 0:
			lookupPanics = true
		case nErr > 0:
			lookupPanics = false
		default:
			unknown("visitEndpoint: no lookup of the target found")
		}
	}

	// ---- 2. in-progress branch of visitEndpoint
	inprogUnguarded := false
	if fd := byName["SequenceDiagramVisitor.visitEndpoint"]; fd == nil {
		unknown("visitEndpoint not found")
	} else {
		recv := recvVar(fd)
		var cut *ast.IfStmt
		ast.Inspect(fd.Body, func(n ast.Node) bool {
			if is, ok := n.(*ast.IfStmt); ok && cut == nil && mentions(is.Cond, "hitVisited") {
				cut = is
				return false
			}
			return true
		})
		if cut == nil {
			unknown("visitEndpoint: no branch on hitVisited")
		} else {
			type hit struct{ guarded bool }
			var hits []hit
			var stack []ast.Node
			ast.Inspect(cut.Body, func(n ast.Node) bool {
				if n == nil {
					stack = stack[:len(stack)-1]
					return true
				}
				stack = append(stack, n)
				if c, ok := n.(*ast.CallExpr); ok {
					ch := selChain(c.Fun)
					if len(ch) == 3 && ch[0] == recv && ch[1] == "w" && ch[2] == "Deactivate" {
						g := false
						for i := 0; i+1 < len(stack); i++ {
							if is, ok := stack[i].(*ast.IfStmt); ok && stack[i+1] == ast.Node(is.Body) && hasNeqNil(is.Cond, "upto") {
								g = true
							}
						}
						hits = append(hits, hit{g})
					}
				}
				return true
			})
			if len(hits) != 1 {
				unknown("visitEndpoint: %d Deactivate calls in the in-progress branch", len(hits))
			} else {
				inprogUnguarded = !hits[0].guarded
			}
		}
	}

	// ---- 3. MakeAgent
	type agentRow struct{ pat, cat, name string }
	var agents []agentRow
	defCat, defName := "", ""
	if fd := byName[".MakeAgent"]; fd == nil {
		unknown("MakeAgent not found")
	} else {
		agentLit := func(e ast.Expr) (string, string, bool) {
			cl, ok := e.(*ast.CompositeLit)
			if !ok || !isIdent(cl.Type, "Agent") || len(cl.Elts) != 2 {
				return "", "", false
			}
			c, ok1 := intLit(cl.Elts[0])
			n, ok2 := strLit(cl.Elts[1])
			return c, n, ok1 && ok2
		}
		nSwitch := 0
		ast.Inspect(fd.Body, func(n ast.Node) bool {
			sw, ok := n.(*ast.SwitchStmt)
			if !ok {
				return true
			}
			nSwitch++
			for _, st := range sw.Body.List {
				cc := st.(*ast.CaseClause)
				if len(cc.List) == 0 {
					unknown("MakeAgent: default arm inside the switch")
					continue
				}
				if len(cc.Body) != 1 {
					unknown("MakeAgent: arm with %d statements", len(cc.Body))
					continue
				}
				rs, ok := cc.Body[0].(*ast.ReturnStmt)
				if !ok || len(rs.Results) != 1 {
					unknown("MakeAgent: arm does not return")
					continue
				}
				c, nm, ok := agentLit(rs.Results[0])
				if !ok {
					unknown("MakeAgent: arm result not Agent{int, string}")
					continue
				}
				for _, l := range cc.List {
					p, ok := strLit(l)
					if !ok {
						unknown("MakeAgent: case label not a string")
						continue
					}
					agents = append(agents, agentRow{p, c, nm})
				}
			}
			return false
		})
		if nSwitch != 1 {
			unknown("MakeAgent: %d switches", nSwitch)
		}
		if n := len(fd.Body.List); n > 0 {
			if rs, ok := fd.Body.List[n-1].(*ast.ReturnStmt); ok && len(rs.Results) == 1 {
				if c, nm, ok := agentLit(rs.Results[0]); ok {
					defCat, defName = c, nm
				}
			}
		}
		if defCat == "" {
			unknown("MakeAgent: default not found")
			defCat, defName = "0", "unknown"
		}
	}

	// ---- 4. visitStatment arms
	type arm struct{ kind, method string }
	var arms []arm
	if fd := byName["SequenceDiagramVisitor.visitStatment"]; fd == nil {
		unknown("visitStatment not found")
	} else {
		n := 0
		ast.Inspect(fd.Body, func(x ast.Node) bool {
			ts, ok := x.(*ast.TypeSwitchStmt)
			if !ok {
				return true
			}
			n++
			for _, st := range ts.Body.List {
				cc := st.(*ast.CaseClause)
				method := "unknown"
				if len(cc.Body) == 1 {
					switch b := cc.Body[0].(type) {
					case *ast.AssignStmt:
						if len(b.Rhs) == 1 {
							if c, ok := b.Rhs[0].(*ast.CallExpr); ok {
								if ch := selChain(c.Fun); len(ch) == 2 {
									method = ch[1]
									// `err = fmt.Errorf(...)` / `err = errors.New(...)`: the arm reports an error
									if id, ok := b.Lhs[0].(*ast.Ident); ok && len(b.Lhs) == 1 && id.Name == "err" &&
										((ch[0] == "fmt" && ch[1] == "Errorf") || (ch[0] == "errors" && ch[1] == "New")) {
										method = "error"
									}
								}
							}
						}
					case *ast.ExprStmt:
						if c, ok := b.X.(*ast.CallExpr); ok && isIdent(c.Fun, "panic") {
							method = "panic"
						}
					}
				}
				if len(cc.List) == 0 {
					arms = append(arms, arm{"default", method})
					continue
				}
				for _, l := range cc.List {
					k := "unknown"
					if se, ok := l.(*ast.StarExpr); ok {
						if ch := selChain(se.X); len(ch) == 2 && strings.HasPrefix(ch[1], "Statement_") {
							k = strings.TrimPrefix(ch[1], "Statement_")
						}
					}
					arms = append(arms, arm{k, method})
				}
			}
			return false
		})
		if n != 1 {
			unknown("visitStatment: %d type switches", n)
		}
	}
	nilPanics, nDefault := false, 0
	for _, a := range arms {
		if a.kind == "default" {
			nDefault++
			switch a.method {
			case "panic":
				nilPanics = true
			case "error":
				nilPanics = false
			default:
				unknown("visitStatment: default arm neither panics nor sets the error")
			}
		}
	}
	if nDefault != 1 {
		// without a default arm a statement without Stmt would be skipped: not what the model does
		unknown("visitStatment: %d default arms", nDefault)
	}

	// ---- 5. block visitors: methods whose body is `return v.visit{Group,Block}Stmt(e, stmts, e.isLastStmt(i), "kw ...", ...)`
	type bv struct{ method, helper, kw, last string }
	var bvs []bv
	for _, fd := range funcDecls(gf.file) {
		if recvName(fd) != "SequenceDiagramVisitor" || fd.Body == nil || len(fd.Body.List) != 1 {
			continue
		}
		rs, ok := fd.Body.List[0].(*ast.ReturnStmt)
		if !ok || len(rs.Results) != 1 {
			continue
		}
		c, ok := rs.Results[0].(*ast.CallExpr)
		if !ok {
			continue
		}
		ch := selChain(c.Fun)
		if len(ch) != 2 || (ch[1] != "visitGroupStmt" && ch[1] != "visitBlockStmt") || len(c.Args) < 4 {
			continue
		}
		kwd := "unknown"
		if f, ok := strLit(c.Args[3]); ok {
			kwd = strings.Fields(f + " ?")[0]
		}
		last := "other"
		if isLastCall(c.Args[2]) {
			last = "isLastStmt"
		}
		bvs = append(bvs, bv{fd.Name.Name, ch[1], kwd, last})
	}

	// ---- 6. visitGroupStmt = visitBlockStmt; "end"
	groupCloses := false
	if fd := byName["SequenceDiagramVisitor.visitGroupStmt"]; fd != nil && fd.Body != nil {
		nBlock, nEnd := 0, 0
		ast.Inspect(fd.Body, func(x ast.Node) bool {
			if c, ok := x.(*ast.CallExpr); ok {
				ch := selChain(c.Fun)
				if len(ch) == 2 && ch[1] == "visitBlockStmt" {
					nBlock++
				}
				if len(ch) == 2 && ch[0] == "fmt" && ch[1] == "Fprintln" && len(c.Args) == 2 {
					if s, ok := strLit(c.Args[1]); ok && s == "end" {
						nEnd++
					}
				}
			}
			return true
		})
		groupCloses = nBlock == 1 && nEnd == 1
	}
	if !groupCloses {
		unknown("visitGroupStmt is not visitBlockStmt followed by one \"end\"")
	}

	// ---- 7. visitAlt
	altRule := "unknown"
	if fd := byName["SequenceDiagramVisitor.visitAlt"]; fd != nil && fd.Body != nil {
		var lastVar string // variable assigned from e.isLastStmt(i)
		var rng *ast.RangeStmt
		nEnd := 0
		firstKw := ""
		for _, st := range fd.Body.List {
			switch s := st.(type) {
			case *ast.AssignStmt:
				if len(s.Lhs) == 1 && len(s.Rhs) == 1 {
					if id, ok := s.Lhs[0].(*ast.Ident); ok {
						if isLastCall(s.Rhs[0]) {
							lastVar = id.Name
						} else if v, ok := strLit(s.Rhs[0]); ok {
							firstKw = id.Name + "=" + v
						}
					}
				}
			case *ast.RangeStmt:
				rng = s
			}
		}
		ast.Inspect(fd.Body, func(x ast.Node) bool {
			if c, ok := x.(*ast.CallExpr); ok {
				ch := selChain(c.Fun)
				if len(ch) == 2 && ch[0] == "fmt" && ch[1] == "Fprintln" && len(c.Args) == 2 {
					if s, ok := strLit(c.Args[1]); ok && s == "end" {
						nEnd++
					}
				}
			}
			return true
		})
		if rng != nil && lastVar != "" && nEnd == 1 && rng.Key != nil {
			j := exprString(rng.Key)
			coll := exprString(rng.X)
			flagVar, laterKw := "", ""
			passes := false
			for _, st := range rng.Body.List {
				switch s := st.(type) {
				case *ast.AssignStmt:
					if len(s.Lhs) != 1 || len(s.Rhs) != 1 {
						continue
					}
					id, _ := s.Lhs[0].(*ast.Ident)
					if be, ok := s.Rhs[0].(*ast.BinaryExpr); ok && id != nil && be.Op == token.LAND && isIdent(be.X, lastVar) {
						if eq, ok := be.Y.(*ast.BinaryExpr); ok && eq.Op == token.EQL && exprString(eq.X) == j {
							if x, ok := isLenMinus1(eq.Y); ok && exprString(x) == coll {
								flagVar = id.Name
							}
						}
					}
					if v, ok := strLit(s.Rhs[0]); ok && id != nil {
						laterKw = id.Name + "=" + v
					}
				case *ast.IfStmt:
					ast.Inspect(s, func(x ast.Node) bool {
						if c, ok := x.(*ast.CallExpr); ok {
							ch := selChain(c.Fun)
							if len(ch) == 2 && ch[1] == "visitBlockStmt" && len(c.Args) >= 3 && flagVar != "" && isIdent(c.Args[2], flagVar) {
								passes = true
							}
						}
						return true
					})
				}
			}
			if passes && firstKw == "prefix=alt" && laterKw == "prefix=else" {
				altRule = "last-statement-and-last-choice"
			}
		}
	}
	if altRule == "unknown" {
		unknown("visitAlt: shape not recognised")
	}

	// ---- 8. isLastStmt
	isLastRule := "unknown"
	if fd := byName["StatementElement.isLastStmt"]; fd != nil && fd.Body != nil && len(fd.Body.List) == 1 {
		if rs, ok := fd.Body.List[0].(*ast.ReturnStmt); ok && len(rs.Results) == 1 {
			if be, ok := rs.Results[0].(*ast.BinaryExpr); ok && be.Op == token.LAND {
				recv := recvVar(fd)
				idx := ""
				if len(fd.Type.Params.List) == 1 && len(fd.Type.Params.List[0].Names) == 1 {
					idx = fd.Type.Params.List[0].Names[0].Name
				}
				if exprString(be.X) == recv+".isLastParentStmt" {
					if eq, ok := be.Y.(*ast.BinaryExpr); ok && eq.Op == token.EQL && exprString(eq.X) == idx {
						if x, ok := isLenMinus1(eq.Y); ok && exprString(x) == recv+".stmts" {
							isLastRule = "parent-last-and-last-index"
						}
					}
				}
			}
		}
	}
	if isLastRule == "unknown" {
		unknown("isLastStmt: shape not recognised")
	}

	// ---- print (sorted: the order of arms / declarations in the source is irrelevant)
	sort.Slice(agents, func(i, j int) bool { return agents[i].pat < agents[j].pat })
	sort.Slice(arms, func(i, j int) bool { return arms[i].kind < arms[j].kind })
	sort.Slice(bvs, func(i, j int) bool { return bvs[i].method < bvs[j].method })
	b2s := func(b bool) string {
		if b {
			return "true"
		}
		return "false"
	}
	var opt strings.Builder
	optionLayerFacts(repo, gf, &opt, unknown)
	var sb strings.Builder
	sb.WriteString("(* GENERATED by vt SeqShape from pkg/cmdutils/visitor.go, fmtparser.go, pkg/sequencediagram/sequencediagram.go -- do not edit *)\n")
	sb.WriteString("From Coq Require Import String List NArith.\nImport ListNotations.\nRequire Import Verif.Seq.SeqModel.\nLocal Open Scope string_scope.\n")
	for _, w := range why {
		fmt.Fprintf(&sb, "(* not classified: %s *)\n", strings.ReplaceAll(w, "*)", "* )"))
	}
	fmt.Fprintf(&sb, "Definition shape_known : bool := %s.\n", b2s(known))
	fmt.Fprintf(&sb, "Definition variant_now : variant := {| v_lookup_panics := %s; v_inprog_unguarded := %s; v_nil_panics := %s |}.\n", b2s(lookupPanics), b2s(inprogUnguarded), b2s(nilPanics))
	sb.WriteString("Definition agent_table : list (string * (N * string)) := [")
	for i, a := range agents {
		if i > 0 {
			sb.WriteString("; ")
		}
		fmt.Fprintf(&sb, "(%q, (%s%%N, %q))", a.pat, a.cat, a.name)
	}
	sb.WriteString("].\n")
	fmt.Fprintf(&sb, "Definition agent_default : N * string := (%s%%N, %q).\n", defCat, defName)
	sb.WriteString("Definition stmt_arms : list (string * string) := [")
	for i, a := range arms {
		if i > 0 {
			sb.WriteString("; ")
		}
		fmt.Fprintf(&sb, "(%q, %q)", a.kind, a.method)
	}
	sb.WriteString("].\n")
	sb.WriteString("Definition block_visitors : list (string * (string * string * string)) := [")
	for i, a := range bvs {
		if i > 0 {
			sb.WriteString("; ")
		}
		fmt.Fprintf(&sb, "(%q, (%q, %q, %q))", a.method, a.helper, a.kw, a.last)
	}
	sb.WriteString("].\n")
	fmt.Fprintf(&sb, "Definition group_stmt_closes : bool := %s.\n", b2s(groupCloses))
	fmt.Fprintf(&sb, "Definition alt_rule : string := %q.\n", altRule)
	fmt.Fprintf(&sb, "Definition is_last_rule : string := %q.\n", isLastRule)
	sb.WriteString(opt.String())
	return sb.String(), nil
}
