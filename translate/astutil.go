package main

import (
	"go/ast"
	"go/parser"
	"go/token"
	"path/filepath"
)

type goFile struct {
	fset *token.FileSet
	file *ast.File
}

func parseGo(repo, rel string) (*goFile, error) {
	fset := token.NewFileSet()
	f, err := parser.ParseFile(fset, filepath.Join(repo, rel), nil, parser.ParseComments)
	if err != nil {
		return nil, err
	}
	return &goFile{fset, f}, nil
}

// recvName returns the receiver type name of a method ("" for functions).
func recvName(fd *ast.FuncDecl) string {
	if fd.Recv == nil || len(fd.Recv.List) == 0 {
		return ""
	}
	t := fd.Recv.List[0].Type
	if s, ok := t.(*ast.StarExpr); ok {
		t = s.X
	}
	if id, ok := t.(*ast.Ident); ok {
		return id.Name
	}
	return ""
}

func recvVar(fd *ast.FuncDecl) string {
	if fd.Recv == nil || len(fd.Recv.List) == 0 || len(fd.Recv.List[0].Names) == 0 {
		return ""
	}
	return fd.Recv.List[0].Names[0].Name
}

// selChain renders a.b.c selector expressions as []string{"a","b","c"}; nil if not a pure chain.
func selChain(e ast.Expr) []string {
	switch x := e.(type) {
	case *ast.Ident:
		return []string{x.Name}
	case *ast.SelectorExpr:
		p := selChain(x.X)
		if p == nil {
			return nil
		}
		return append(p, x.Sel.Name)
	}
	return nil
}

func isIdent(e ast.Expr, name string) bool {
	id, ok := e.(*ast.Ident)
	return ok && id.Name == name
}

func funcDecls(f *ast.File) []*ast.FuncDecl {
	var out []*ast.FuncDecl
	for _, d := range f.Decls {
		if fd, ok := d.(*ast.FuncDecl); ok {
			out = append(out, fd)
		}
	}
	return out
}
