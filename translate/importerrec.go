package main

import (
	"fmt"
	"go/ast"
	"go/token"
	"strings"
)

// ImporterRec (C01, foreign files of an import closure): what the CURRENT source says about the recursive functions of
// the importers and about what bounds their recursion on a cyclic schema graph.
//
//	refmap_ops       every statement of pkg/importer that touches the in-progress map `refMap` of the Swagger / OpenAPI
//	                 importer, per function in source order: where it is created (with the innermost guard), where an entry
//	                 is set (key, value, inside a closure?), which closure is deferred / called at once with which argument, where it is read
//	rec_skeleton     for loadTypeSchema / buildField / typeNameFromSchemaRef / isCircular / typeAliasForSchema (Swagger) and
//	                 loadSchemaTypes / findType / makeType / makeComplexType / makeExtendedType / makeSimpleType /
//	                 getAllElements (XSD): the statements that mention a marker or a recursive call, with the control
//	                 structure around them (conditions as printed by go/printer), early `return`s under a condition on a
//	                 reference included - everything else of the body is left out
//	foreign_formats  the formats detectFileType offers (ParserFormats) and the cases of importForeign's switch
//	foreign_recover / foreign_in_goroutine
//	                 importForeign converts a panic into its error result; parseSpecs calls it inside g.Go(func ...)
func init() { register("ImporterRec", importerRec) }

var imrSwaggerFuncs = []string{"OpenAPI3Importer.loadTypeSchema", "OpenAPI3Importer.buildField", "OpenAPI3Importer.typeNameFromSchemaRef",
	"OpenAPI3Importer.isCircular", "OpenAPI3Importer.typeAliasForSchema"}
var imrSwaggerWords = []string{"refMap", "isCircular", "setDefined", "loadTypeSchema", "buildField", "typeNameFromSchemaRef", "nameStack", "pushName"}
var imrXsdFuncs = []string{"loadSchemaTypes", "findType", "makeType", "makeComplexType", "makeExtendedType", "makeSimpleType", "getAllElements", "getAllElementsBelow"}
var imrXsdWords = []string{"knownTypes.Add", "types.Add", "knownTypes.Find", "findType", "makeType", "makeComplexType", "makeExtendedType", "makeSimpleType", "getAllElements", "createChildItem", "onPath"}

func imrMentions(text string, words []string) bool {
	for _, w := range words {
		if strings.Contains(text, w) {
			return true
		}
	}
	return false
}

// imrSkeleton renders the relevant part of a statement list
func imrSkeleton(fset *token.FileSet, stmts []ast.Stmt, words []string, ind string, guarded bool) []string {
	var out []string
	block := func(head string, body []ast.Stmt, g bool) {
		inner := imrSkeleton(fset, body, words, ind+"  ", g)
		if len(inner) > 0 {
			out = append(out, ind+head+" {")
			out = append(out, inner...)
			out = append(out, ind+"}")
		}
	}
	for _, s := range stmts {
		switch x := s.(type) {
		case *ast.IfStmt:
			cond := ksText(fset, x.Cond)
			if x.Init != nil {
				cond = ksText(fset, x.Init) + "; " + cond
			}
			g := imrMentions(cond, words) || strings.Contains(cond, "Ref") || strings.Contains(cond, "== nil")
			block("if "+cond, x.Body.List, g)
			switch e := x.Else.(type) {
			case *ast.BlockStmt:
				block("else", e.List, false)
			case *ast.IfStmt:
				out = append(out, imrSkeleton(fset, []ast.Stmt{e}, words, ind, guarded)...)
			}
		case *ast.ForStmt:
			block("for "+ksText(fset, x.Cond), x.Body.List, false)
		case *ast.RangeStmt:
			block("for range "+ksText(fset, x.X), x.Body.List, false)
		case *ast.SwitchStmt:
			tag := ksText(fset, x.Tag)
			if x.Init != nil {
				tag = ksText(fset, x.Init) + "; " + tag
			}
			block("switch "+tag, x.Body.List, false)
		case *ast.TypeSwitchStmt:
			block("switch "+ksText(fset, x.Assign), x.Body.List, false)
		case *ast.CaseClause:
			var es []string
			for _, e := range x.List {
				es = append(es, ksText(fset, e))
			}
			head := "case " + strings.Join(es, ", ")
			if x.List == nil {
				head = "default"
			}
			block(head, x.Body, false)
		case *ast.BlockStmt:
			out = append(out, imrSkeleton(fset, x.List, words, ind, guarded)...)
		case *ast.ReturnStmt:
			t := ksText(fset, x)
			if guarded || imrMentions(t, words) {
				out = append(out, ind+t)
			}
		default:
			// a simple statement; closures assigned in it (createChildItem := func ...) are opened
			var lit *ast.FuncLit
			if as, ok := s.(*ast.AssignStmt); ok && len(as.Rhs) == 1 {
				lit, _ = as.Rhs[0].(*ast.FuncLit)
				if lit != nil && imrMentions(ksText(fset, lit.Body), words) {
					block(ksText(fset, as.Lhs[0])+" := func", lit.Body.List, false)
					continue
				}
			}
			t := ksText(fset, s)
			if imrMentions(t, words) {
				out = append(out, ind+t)
			}
		}
	}
	return out
}

func importerRec(repo string) (string, error) {
	imp, err := ksLoadPkg(repo, "pkg/importer")
	if err != nil {
		return "", err
	}
	prs, err := ksLoadPkg(repo, "pkg/parse")
	if err != nil {
		return "", err
	}
	fns := map[string]*ast.FuncDecl{}
	var order []string
	for _, fname := range ksSortedFiles(imp) {
		for _, fd := range funcDecls(imp.files[fname]) {
			name := fd.Name.Name
			if r := recvName(fd); r != "" {
				name = r + "." + name
			}
			if fd.Body != nil {
				fns[name] = fd
				order = append(order, name)
			}
		}
	}
	// ---- refmap_ops ----
	isRefMap := func(e ast.Expr) bool {
		se, ok := e.(*ast.SelectorExpr)
		return ok && se.Sel.Name == "refMap"
	}
	var ops []string
	for _, name := range order {
		fd := fns[name]
		ksInspect(fd.Body, func(n ast.Node, stack []ast.Node) {
			inLit := false
			for _, a := range stack {
				if _, ok := a.(*ast.FuncLit); ok {
					inLit = true
				}
			}
			switch x := n.(type) {
			case *ast.AssignStmt:
				for i, l := range x.Lhs {
					if isRefMap(l) {
						g := ""
						for j := len(stack) - 1; j >= 0; j-- {
							if is, ok := stack[j].(*ast.IfStmt); ok {
								g = ksText(imp.fset, is.Cond)
								break
							}
						}
						ops = append(ops, fmt.Sprintf("  (%s, RMake %s)", ksStr(name), ksStr(g)))
					} else if ie, ok := l.(*ast.IndexExpr); ok && isRefMap(ie.X) && i < len(x.Rhs) {
						ops = append(ops, fmt.Sprintf("  (%s, RSet %s %s %v)", ksStr(name), ksStr(ksText(imp.fset, ie.Index)), ksStr(ksText(imp.fset, x.Rhs[i])), inLit))
					}
				}
				// reads on the right-hand side
				for _, r := range x.Rhs {
					ast.Inspect(r, func(m ast.Node) bool {
						if _, ok := m.(*ast.FuncLit); ok {
							return false // the statements of a closure are visited on their own
						}
						if ie, ok := m.(*ast.IndexExpr); ok && isRefMap(ie.X) {
							ops = append(ops, fmt.Sprintf("  (%s, RGet %s)", ksStr(name), ksStr(ksText(imp.fset, ie.Index))))
						}
						return true
					})
				}
			case *ast.DeferStmt:
				if id, ok := x.Call.Fun.(*ast.Ident); ok && id.Name == "setDefined" && len(x.Call.Args) == 1 {
					ops = append(ops, fmt.Sprintf("  (%s, RDeferDone %s)", ksStr(name), ksStr(ksText(imp.fset, x.Call.Args[0]))))
				}
			case *ast.ExprStmt:
				if c, ok := x.X.(*ast.CallExpr); ok {
					if id, ok := c.Fun.(*ast.Ident); ok && id.Name == "setDefined" && len(c.Args) == 1 {
						ops = append(ops, fmt.Sprintf("  (%s, RDoneNow %s)", ksStr(name), ksStr(ksText(imp.fset, c.Args[0]))))
					}
				}
			case *ast.BinaryExpr:
				if (isRefMap(x.X) && isIdent(x.Y, "nil")) || (isRefMap(x.Y) && isIdent(x.X, "nil")) {
					ops = append(ops, fmt.Sprintf("  (%s, RNilTest %s)", ksStr(name), ksStr(x.Op.String())))
				}
			}
		})
	}
	// ---- rec_skeleton ----
	var sk []string
	emit := func(names, words []string) {
		for _, name := range names {
			fd := fns[name]
			if fd == nil {
				sk = append(sk, fmt.Sprintf("  (%s, [\"<function not found>\"])", ksStr(name)))
				continue
			}
			lines := imrSkeleton(imp.fset, fd.Body.List, words, "", false)
			var qs []string
			for _, l := range lines {
				qs = append(qs, ksStr(l))
			}
			sk = append(sk, fmt.Sprintf("  (%s, [\n     %s])", ksStr(name), strings.Join(qs, ";\n     ")))
		}
	}
	emit(imrSwaggerFuncs, imrSwaggerWords)
	emit(imrXsdFuncs, imrXsdWords)

	// ---- pkg/parse: formats, recover, goroutine ----
	var formats, cases []string
	recoverOK, inGo := false, false
	for _, fname := range ksSortedFiles(prs) {
		for _, fd := range funcDecls(prs.files[fname]) {
			if fd.Body == nil || fd.Recv != nil {
				continue
			}
			switch fd.Name.Name {
			case "detectFileType":
				ast.Inspect(fd.Body, func(n ast.Node) bool {
					if cl, ok := n.(*ast.CompositeLit); ok {
						for _, e := range cl.Elts {
							ch := selChain(e)
							if len(ch) == 2 && ch[0] == "importer" {
								formats = append(formats, ksStr(ch[1]))
							}
						}
					}
					return true
				})
			case "importForeign":
				ast.Inspect(fd.Body, func(n ast.Node) bool {
					switch x := n.(type) {
					case *ast.CaseClause:
						var es []string
						for _, e := range x.List {
							ch := selChain(e)
							if len(ch) == 3 && ch[0] == "importer" && ch[2] == "Name" {
								es = append(es, ch[1])
							} else {
								es = append(es, ksText(prs.fset, e))
							}
						}
						if x.List == nil {
							es = []string{"default"}
						}
						usesFactory := strings.Contains(ksText(prs.fset, &ast.BlockStmt{List: x.Body}), "importer.Factory(")
						cases = append(cases, fmt.Sprintf("(%s, %v)", ksStr(strings.Join(es, ",")), usesFactory))
					case *ast.DeferStmt:
						if fl, ok := x.Call.Fun.(*ast.FuncLit); ok {
							t := ksText(prs.fset, fl.Body)
							if strings.Contains(t, "recover()") && strings.Contains(t, "err =") {
								// the recovered value must reach the named results
								named := fd.Type.Results != nil && len(fd.Type.Results.List) > 0 && len(fd.Type.Results.List[len(fd.Type.Results.List)-1].Names) > 0
								recoverOK = named
							}
						}
					}
					return true
				})
			}
		}
		for _, fd := range funcDecls(prs.files[fname]) {
			if fd.Body == nil || fd.Name.Name != "parseSpecs" {
				continue
			}
			ksInspect(fd.Body, func(n ast.Node, stack []ast.Node) {
				c, ok := n.(*ast.CallExpr)
				if !ok || !isIdent(c.Fun, "importForeign") {
					return
				}
				for i := len(stack) - 1; i > 0; i-- {
					if _, ok := stack[i].(*ast.FuncLit); ok {
						if pc, ok := stack[i-1].(*ast.CallExpr); ok {
							if ch := selChain(pc.Fun); len(ch) == 2 && ch[1] == "Go" {
								inGo = true
							}
						}
					}
				}
			})
		}
	}
	var b strings.Builder
	b.WriteString("(* GENERATED by vt ImporterRec from pkg/importer/*.go and pkg/parse/parse.go -- do not edit *)\n")
	b.WriteString("From Coq Require Import String List Bool.\nImport ListNotations.\nRequire Import Verif.Total.ImportRecTypes.\nLocal Open Scope string_scope.\n")
	fmt.Fprintf(&b, "Definition refmap_ops : list (string * rmop) := [\n%s].\n", strings.Join(ops, ";\n"))
	fmt.Fprintf(&b, "Definition rec_skeleton : list (string * list string) := [\n%s].\n", strings.Join(sk, ";\n"))
	fmt.Fprintf(&b, "Definition foreign_formats : list string := [%s].\n", strings.Join(formats, "; "))
	fmt.Fprintf(&b, "Definition foreign_cases : list (string * bool) := [%s].\n", strings.Join(cases, "; "))
	fmt.Fprintf(&b, "Definition foreign_recover : bool := %v.\nDefinition foreign_in_goroutine : bool := %v.\n", recoverOK, inGo)
	return b.String(), nil
}
