package main

import (
	"fmt"
	"go/ast"
	"go/token"
	"os"
	"path/filepath"
	"sort"
	"strings"
)

// CmdGuards (C20): for the lookups of the command generators that Cmds/Model.v models, is each one guarded
// in the CURRENT source? Plus the process-level facts: does cmd/sysl run commands under a recover, which
// exit code does main2 use, and the table of panic( / os.Exit / *.Fatal* call sites in the packages the
// commands drive, keyed by package.function and ordinal (never by line).
//
//	g_ints_target      IndirectCalls / MyCallers / ProcessExcludeAndPassthrough and every function of ints_view.go:
//	                   no `<map lookup>.Endpoints|Attrs|IsPubsub` field read (only the nil-safe getters)
//	g_ints_walk_once   WalkPassthrough has a comma-ok map test that returns (an endpoint being expanded is not re-entered)
//	g_dm_path          DrawRelation: every Path[<literal>] sits in a function that tests len(...Path...)
//	g_swagger_rest     populateEndpoint: tests len(...) of the split endpoint name before indexing [1]
//	g_sw_param_schema  setCommonAttributes: an index into `<x>.Schema.ExtraProps` only with an `<x>.Schema == nil` test in the function
//	g_oa3_ret_split    syslwrapper mapResponse: every strings.Split/SplitN separator literal is one of the literals the
//	                   function tests with strings.Contains (or the function tests len(...) of the split result)
//	g_db_path          findTableDepth (+ foreignKeyTarget): no unchecked Path[<literal>]
//	g_db_writer_path   writeCreateSQLForAColumn / writeModifySQLForAColumn (+ foreignKeyTarget): same
//	g_db_progress      processTableDepth: the self-recursion is preceded by a conditional return
//	g_mseq_err         mermaid/sequencediagram.printSequenceDiagramStatements contains no panic( call
//	g_mint_app         mermaid/integrationdiagram.generateIntegrationDiagramHelper: no `<map lookup>.Endpoints` read
//	g_render_recover   the function of cmd/sysl/cmd_diagram.go that calls mermaid.Init has a deferred recover
//	                   that sets a named result
func init() { register("CmdGuards", cmdGuards) }

func findFunc(gf *goFile, recv, name string) *ast.FuncDecl {
	for _, fd := range funcDecls(gf.file) {
		if fd.Name.Name == name && (recv == "*" || recvName(fd) == recv) {
			return fd
		}
	}
	return nil
}

// `X[...].Endpoints` : a struct field read on the result of a map lookup (nil for a missing key)
func hasFieldOnLookup(fd *ast.FuncDecl, fields ...string) bool {
	found := false
	ast.Inspect(fd.Body, func(n ast.Node) bool {
		if s, ok := n.(*ast.SelectorExpr); ok {
			for _, field := range fields {
				if s.Sel.Name == field {
					if _, isIdx := s.X.(*ast.IndexExpr); isIdx {
						found = true
					}
				}
			}
		}
		return true
	})
	return found
}

func isNilIdent(e ast.Expr) bool { return isIdent(e, "nil") }

func bodyReturns(b *ast.BlockStmt) bool {
	for _, st := range b.List {
		if _, ok := st.(*ast.ReturnStmt); ok {
			return true
		}
	}
	return false
}

// if <x> == nil { ...return } at any depth
func hasNilTestReturn(fd *ast.FuncDecl) bool {
	found := false
	ast.Inspect(fd.Body, func(n ast.Node) bool {
		if is, ok := n.(*ast.IfStmt); ok {
			if be, ok := is.Cond.(*ast.BinaryExpr); ok && be.Op == token.EQL && (isNilIdent(be.X) || isNilIdent(be.Y)) && bodyReturns(is.Body) {
				found = true
			}
		}
		return true
	})
	return found
}

// if _, ok := m[k]; ok { return }  (or !ok)
func hasCommaOkReturn(fd *ast.FuncDecl) bool {
	found := false
	ast.Inspect(fd.Body, func(n ast.Node) bool {
		if is, ok := n.(*ast.IfStmt); ok && is.Init != nil {
			if as, ok := is.Init.(*ast.AssignStmt); ok && len(as.Lhs) == 2 && len(as.Rhs) == 1 {
				if _, isIdx := as.Rhs[0].(*ast.IndexExpr); isIdx && bodyReturns(is.Body) {
					found = true
				}
			}
		}
		return true
	})
	return found
}

func exprMentions(e ast.Expr, names ...string) bool {
	hit := false
	ast.Inspect(e, func(n ast.Node) bool {
		switch x := n.(type) {
		case *ast.Ident:
			for _, nm := range names {
				if x.Name == nm {
					hit = true
				}
			}
		}
		return true
	})
	return hit
}

// number of `<...>.Path[<int literal>]` index expressions
func pathLiteralIndexes(fd *ast.FuncDecl) int {
	n := 0
	ast.Inspect(fd.Body, func(nd ast.Node) bool {
		if ix, ok := nd.(*ast.IndexExpr); ok {
			if _, lit := ix.Index.(*ast.BasicLit); lit {
				if s, ok := ix.X.(*ast.SelectorExpr); ok && s.Sel.Name == "Path" {
					n++
				}
				if id, ok := ix.X.(*ast.Ident); ok && strings.Contains(strings.ToLower(id.Name), "path") {
					n++
				}
			}
		}
		return true
	})
	return n
}

// a comparison one side of which is len(<something mentioning Path/GetPath/path or a Split>)
func hasLenTest(fd *ast.FuncDecl, mention ...string) bool {
	found := false
	ast.Inspect(fd.Body, func(nd ast.Node) bool {
		if be, ok := nd.(*ast.BinaryExpr); ok {
			switch be.Op {
			case token.LSS, token.GTR, token.LEQ, token.GEQ, token.EQL, token.NEQ:
				for _, side := range []ast.Expr{be.X, be.Y} {
					if c, ok := side.(*ast.CallExpr); ok && isIdent(c.Fun, "len") && len(c.Args) == 1 && exprMentions(c.Args[0], mention...) {
						found = true
					}
				}
			}
		}
		return true
	})
	return found
}

func pathSafe(fd *ast.FuncDecl) bool {
	if fd == nil {
		return true
	}
	return pathLiteralIndexes(fd) == 0 || hasLenTest(fd, "Path", "GetPath", "path")
}

// index [<literal >= 1>] directly on a call result (strings.Split(...)[1])
func indexesCallResult(fd *ast.FuncDecl) bool {
	found := false
	ast.Inspect(fd.Body, func(nd ast.Node) bool {
		if ix, ok := nd.(*ast.IndexExpr); ok {
			if lit, isLit := ix.Index.(*ast.BasicLit); isLit && lit.Value != "0" {
				if _, isCall := ix.X.(*ast.CallExpr); isCall {
					found = true
				}
			}
		}
		return true
	})
	return found
}

func countCalls(fd *ast.FuncDecl, pred func(*ast.CallExpr) bool) int {
	n := 0
	if fd.Body == nil {
		return 0
	}
	ast.Inspect(fd.Body, func(nd ast.Node) bool {
		if c, ok := nd.(*ast.CallExpr); ok && pred(c) {
			n++
		}
		return true
	})
	return n
}

func isPanicCall(c *ast.CallExpr) bool { return isIdent(c.Fun, "panic") }
func isExitCall(c *ast.CallExpr) bool {
	ch := selChain(c.Fun)
	if len(ch) < 2 {
		return false
	}
	last := ch[len(ch)-1]
	if ch[0] == "os" && last == "Exit" {
		return true
	}
	return strings.HasPrefix(last, "Fatal")
}

// self-recursion preceded (in source order) by an `if ... { ... return }`
func recursionHasConditionalReturn(fd *ast.FuncDecl) (recursive, guarded bool) {
	var selfPos token.Pos
	ast.Inspect(fd.Body, func(nd ast.Node) bool {
		if c, ok := nd.(*ast.CallExpr); ok && isIdent(c.Fun, fd.Name.Name) && selfPos == 0 {
			selfPos = c.Pos()
		}
		return true
	})
	if selfPos == 0 {
		return false, true
	}
	ast.Inspect(fd.Body, func(nd ast.Node) bool {
		if is, ok := nd.(*ast.IfStmt); ok && is.Pos() < selfPos && bodyReturns(is.Body) {
			guarded = true
		}
		return true
	})
	return true, guarded
}

// ---------------------------------------------------------------- marker discipline of a visited-set walk
// isSetExpr: does e denote the visited set `set` ("b.walking", "v.visited", "sequencePairs" for *sequencePairs)?
func isSetExpr(e ast.Expr, set string) bool {
	switch x := e.(type) {
	case *ast.ParenExpr:
		return isSetExpr(x.X, set)
	case *ast.StarExpr:
		return isSetExpr(x.X, set)
	}
	return strings.Join(selChain(e), ".") == set
}

type posRange struct{ lo, hi token.Pos }

func (r posRange) has(p token.Pos) bool { return r.lo != 0 && r.lo <= p && p < r.hi }

func mentionsIdent(e ast.Expr, name string) (found, negated bool) {
	var walk func(n ast.Expr, neg bool)
	walk = func(n ast.Expr, neg bool) {
		switch x := n.(type) {
		case *ast.Ident:
			if x.Name == name {
				found, negated = true, neg
			}
		case *ast.UnaryExpr:
			walk(x.X, neg != (x.Op == token.NOT))
		case *ast.BinaryExpr:
			walk(x.X, neg)
			walk(x.Y, neg)
		case *ast.ParenExpr:
			walk(x.X, neg)
		}
	}
	walk(e, false)
	return
}

// callOnSet: a call in a condition one of whose arguments is the set (`sequencePairsContain(*sequencePairs, pair)`)
func callOnSet(e ast.Expr, set string) (found, negated bool) {
	var walk func(n ast.Expr, neg bool)
	walk = func(n ast.Expr, neg bool) {
		switch x := n.(type) {
		case *ast.CallExpr:
			for _, a := range x.Args {
				if isSetExpr(a, set) {
					found, negated = true, neg
				}
			}
		case *ast.UnaryExpr:
			walk(x.X, neg != (x.Op == token.NOT))
		case *ast.BinaryExpr:
			walk(x.X, neg)
			walk(x.Y, neg)
		case *ast.ParenExpr:
			walk(x.X, neg)
		}
	}
	walk(e, false)
	return
}

const discUnknown = "{| d_test := false; d_mark := MNever; d_unmark := UNever |}"

// readDiscipline classifies WHEN the function tests, marks and un-marks `set` relative to the call that expands the
// callee (one of `recurse`): the Walk.discipline of the current source. Anything it cannot classify yields the
// unknown discipline (not terminating: the dependent obligation fails).
func readDiscipline(fd *ast.FuncDecl, set string, recurse []string) (string, string) {
	var cut, enter posRange
	var testPos token.Pos
	okIdent := ""
	var okAssignPos token.Pos
	deferred := map[token.Pos]bool{}
	ast.Inspect(fd.Body, func(n ast.Node) bool {
		if d, ok := n.(*ast.DeferStmt); ok {
			deferred[d.Call.Pos()] = true
		}
		return true
	})
	blockRange := func(st ast.Stmt) posRange {
		if st == nil {
			return posRange{}
		}
		return posRange{st.Pos(), st.End()}
	}
	ast.Inspect(fd.Body, func(n ast.Node) bool {
		if testPos != 0 {
			return false
		}
		switch x := n.(type) {
		case *ast.IfStmt:
			if as, ok := x.Init.(*ast.AssignStmt); ok && len(as.Lhs) == 2 && len(as.Rhs) == 1 {
				if ix, ok := as.Rhs[0].(*ast.IndexExpr); ok && isSetExpr(ix.X, set) {
					if id, ok := as.Lhs[1].(*ast.Ident); ok {
						if f, neg := mentionsIdent(x.Cond, id.Name); f {
							testPos = x.Pos()
							if neg {
								enter, cut = blockRange(x.Body), blockRange(x.Else)
							} else {
								cut = blockRange(x.Body)
								if x.Else != nil {
									enter = blockRange(x.Else)
								} else if bodyReturns(x.Body) {
									enter = posRange{x.End(), fd.End()}
								}
							}
							return false
						}
					}
				}
			}
			if okIdent != "" && x.Pos() > okAssignPos {
				if f, neg := mentionsIdent(x.Cond, okIdent); f {
					testPos = okAssignPos
					if neg {
						enter, cut = blockRange(x.Body), blockRange(x.Else)
					} else {
						cut = blockRange(x.Body)
						if x.Else != nil {
							enter = blockRange(x.Else)
						} else if bodyReturns(x.Body) {
							enter = posRange{x.End(), fd.End()}
						}
					}
					return false
				}
			}
			if f, neg := callOnSet(x.Cond, set); f {
				testPos = x.Pos()
				if neg {
					enter, cut = blockRange(x.Body), blockRange(x.Else)
				} else {
					cut = blockRange(x.Body)
					if x.Else != nil {
						enter = blockRange(x.Else)
					} else if bodyReturns(x.Body) {
						enter = posRange{x.End(), fd.End()}
					}
				}
				return false
			}
		case *ast.AssignStmt:
			if len(x.Lhs) == 2 && len(x.Rhs) == 1 && okIdent == "" {
				if ix, ok := x.Rhs[0].(*ast.IndexExpr); ok && isSetExpr(ix.X, set) {
					if id, ok := x.Lhs[1].(*ast.Ident); ok {
						okIdent, okAssignPos = id.Name, x.Pos()
					}
				}
			}
		}
		return true
	})
	if testPos == 0 || enter.lo == 0 {
		return discUnknown, "no re-entry test on " + set + " found"
	}
	var recPos token.Pos
	ast.Inspect(fd.Body, func(n ast.Node) bool {
		if c, ok := n.(*ast.CallExpr); ok && recPos == 0 && enter.has(c.Pos()) {
			ch := selChain(c.Fun)
			if len(ch) > 0 {
				for _, r := range recurse {
					if ch[len(ch)-1] == r {
						recPos = c.Pos()
					}
				}
			}
		}
		return true
	})
	if recPos == 0 {
		return discUnknown, "the expansion of the callee is not behind the test on " + set
	}
	// `if set == nil { set = map[..]..{} }` creates the set, it does not un-mark anything
	var initRanges []posRange
	ast.Inspect(fd.Body, func(n ast.Node) bool {
		if is, ok := n.(*ast.IfStmt); ok {
			if be, ok := is.Cond.(*ast.BinaryExpr); ok && be.Op == token.EQL && isNilIdent(be.Y) && isSetExpr(be.X, set) {
				initRanges = append(initRanges, posRange{is.Body.Pos(), is.Body.End()})
			}
		}
		return true
	})
	isInit := func(x *ast.AssignStmt) bool {
		switch r := x.Rhs[0].(type) {
		case *ast.CompositeLit:
		case *ast.CallExpr:
			if !isIdent(r.Fun, "make") {
				return false
			}
		default:
			return false
		}
		for _, ir := range initRanges {
			if ir.has(x.Pos()) {
				return true
			}
		}
		return false
	}
	var marks, unmarks []string
	classifyMark := func(p token.Pos) {
		switch {
		case p < testPos:
			marks = append(marks, "MBeforeTest")
		case enter.has(p) && p < recPos:
			marks = append(marks, "MAfterTest")
		default:
			marks = append(marks, "?")
		}
	}
	classifyUnmark := func(p token.Pos, def bool) {
		switch {
		case cut.has(p):
			unmarks = append(unmarks, "UEveryExit")
		case def && p < testPos:
			unmarks = append(unmarks, "UEveryExit")
		case def && enter.has(p):
			unmarks = append(unmarks, "UAfterExpansion")
		case !def && enter.has(p) && p > recPos:
			unmarks = append(unmarks, "UAfterExpansion")
		case !def && p > testPos && !enter.has(p) && enter.hi < fd.End():
			unmarks = append(unmarks, "UEveryExit") // behind the if/else: runs on the cut path too
		default:
			unmarks = append(unmarks, "?")
		}
	}
	ast.Inspect(fd.Body, func(n ast.Node) bool {
		switch x := n.(type) {
		case *ast.AssignStmt:
			if len(x.Lhs) == 1 && len(x.Rhs) == 1 && (x.Tok == token.ASSIGN || x.Tok == token.ADD_ASSIGN || x.Tok == token.SUB_ASSIGN) {
				if ix, ok := x.Lhs[0].(*ast.IndexExpr); ok && isSetExpr(ix.X, set) {
					if x.Tok == token.SUB_ASSIGN {
						classifyUnmark(x.Pos(), false)
					} else {
						classifyMark(x.Pos())
					}
				} else if isSetExpr(x.Lhs[0], set) && !isInit(x) {
					if c, ok := x.Rhs[0].(*ast.CallExpr); ok && isIdent(c.Fun, "append") && len(c.Args) >= 2 && isSetExpr(c.Args[0], set) {
						classifyMark(x.Pos())
					} else {
						classifyUnmark(x.Pos(), false) // the list is cut back or replaced
					}
				}
			}
		case *ast.IncDecStmt:
			if ix, ok := x.X.(*ast.IndexExpr); ok && isSetExpr(ix.X, set) {
				if x.Tok == token.INC {
					classifyMark(x.Pos())
				} else {
					classifyUnmark(x.Pos(), false)
				}
			}
		case *ast.CallExpr:
			if isIdent(x.Fun, "delete") && len(x.Args) == 2 && isSetExpr(x.Args[0], set) {
				classifyUnmark(x.Pos(), deferred[x.Pos()])
			}
		}
		return true
	})
	mark := "MNever"
	for _, m := range marks {
		if m == "?" || (mark != "MNever" && mark != m) {
			return discUnknown, fmt.Sprintf("marks of %s not classified: %v", set, marks)
		}
		mark = m
	}
	unmark := "UNever"
	for _, u := range unmarks {
		if u == "?" {
			return discUnknown, fmt.Sprintf("un-marks of %s not classified: %v", set, unmarks)
		}
		if u == "UEveryExit" || unmark == "UNever" {
			unmark = u
		}
	}
	return fmt.Sprintf("{| d_test := true; d_mark := %s; d_unmark := %s |}", mark, unmark), fmt.Sprintf("marks %v un-marks %v", marks, unmarks)
}

// the arms of writeCreateSQLForAColumn: does each assign the definition `s` a fmt.Sprintf with a non-blank format?
func coldefArms(fd *ast.FuncDecl) (ref, auto, plain, fkOnly bool) {
	nonBlankSprintf := func(e ast.Expr) bool {
		if c, isCall := e.(*ast.CallExpr); isCall {
			if ch := selChain(c.Fun); len(ch) == 2 && ch[0] == "fmt" && ch[1] == "Sprintf" && len(c.Args) > 0 {
				if lit, isLit := c.Args[0].(*ast.BasicLit); isLit {
					txt := strings.ReplaceAll(strings.ReplaceAll(strings.Trim(lit.Value, "\"`"), "\\n", ""), "\\t", "")
					return len(strings.TrimSpace(txt)) >= 2
				}
			}
		}
		return false
	}
	// an arm is fine when it assigns s a non-blank Sprintf at its top level, assigns s nothing else anywhere and never returns
	armOK := func(b *ast.BlockStmt) bool {
		if b == nil {
			return false
		}
		top, bad := false, false
		for _, st := range b.List {
			if x, ok := st.(*ast.AssignStmt); ok && len(x.Lhs) == 1 && isIdent(x.Lhs[0], "s") && len(x.Rhs) == 1 && nonBlankSprintf(x.Rhs[0]) {
				top = true
			}
		}
		ast.Inspect(b, func(n ast.Node) bool {
			switch x := n.(type) {
			case *ast.ReturnStmt:
				bad = true
			case *ast.IfStmt:
				if exprMentions(x.Cond, "isAutoIncrement") {
					return false // the nested arms are judged on their own
				}
			case *ast.AssignStmt:
				for i, l := range x.Lhs {
					if isIdent(l, "s") && !(len(x.Rhs) == len(x.Lhs) && nonBlankSprintf(x.Rhs[i])) {
						bad = true
					}
				}
			}
			return true
		})
		return top && !bad
	}
	// the final return must hand out s, and s must not be assigned outside the arms
	last, isRet := fd.Body.List[len(fd.Body.List)-1].(*ast.ReturnStmt)
	if !isRet || len(last.Results) == 0 || !isIdent(last.Results[0], "s") {
		return
	}
	for _, st := range fd.Body.List {
		if as, ok := st.(*ast.AssignStmt); ok && len(as.Lhs) >= 1 && isIdent(as.Lhs[0], "s") {
			return
		}
		is, ok := st.(*ast.IfStmt)
		if !ok {
			continue
		}
		// the reference arm: `if attrType.GetTypeRef() != nil {` (every reference) or
		// `if t, c, isForeignKey := foreignKeyTarget(attrType); isForeignKey {` (only <table>.<column> references)
		mentionsTypeRef := false
		ast.Inspect(is.Cond, func(n ast.Node) bool {
			if id, ok := n.(*ast.Ident); ok && id.Name == "GetTypeRef" {
				mentionsTypeRef = true
			}
			return true
		})
		viaTarget := false
		if as, ok := is.Init.(*ast.AssignStmt); ok && len(as.Rhs) == 1 && len(as.Lhs) == 3 {
			if c, ok := as.Rhs[0].(*ast.CallExpr); ok && isIdent(c.Fun, "foreignKeyTarget") {
				if id, ok := as.Lhs[2].(*ast.Ident); ok && isIdent(is.Cond, id.Name) {
					viaTarget = true
				}
			}
		}
		if !mentionsTypeRef && !viaTarget {
			continue
		}
		fkOnly = viaTarget
		ref = armOK(is.Body)
		if eb, ok := is.Else.(*ast.BlockStmt); ok {
			for _, st2 := range eb.List {
				if is2, ok := st2.(*ast.IfStmt); ok && exprMentions(is2.Cond, "isAutoIncrement") {
					auto = armOK(is2.Body)
					if eb2, ok := is2.Else.(*ast.BlockStmt); ok {
						plain = armOK(eb2)
					}
				}
			}
		}
	}
	return
}

// uncheckedAsserts: type assertions x.(T) whose failure panics: not the right-hand side of a two-value assignment /
// definition, not the tag of a type switch
func uncheckedAsserts(fd *ast.FuncDecl) int {
	checked := map[*ast.TypeAssertExpr]bool{}
	ast.Inspect(fd.Body, func(nd ast.Node) bool {
		switch x := nd.(type) {
		case *ast.AssignStmt:
			if len(x.Lhs) == 2 && len(x.Rhs) == 1 {
				if ta, ok := x.Rhs[0].(*ast.TypeAssertExpr); ok {
					checked[ta] = true
				}
			}
		case *ast.ValueSpec:
			if len(x.Names) == 2 && len(x.Values) == 1 {
				if ta, ok := x.Values[0].(*ast.TypeAssertExpr); ok {
					checked[ta] = true
				}
			}
		}
		return true
	})
	n := 0
	ast.Inspect(fd.Body, func(nd ast.Node) bool {
		if ta, ok := nd.(*ast.TypeAssertExpr); ok && ta.Type != nil && !checked[ta] {
			n++
		}
		return true
	})
	return n
}

// selfRecursive: the body calls the function itself - `f(..)` for a function, `<receiver>.f(..)` for a method
func selfRecursive(fd *ast.FuncDecl) bool {
	rv := recvVar(fd)
	found := false
	ast.Inspect(fd.Body, func(nd ast.Node) bool {
		if c, ok := nd.(*ast.CallExpr); ok {
			if fd.Recv == nil && isIdent(c.Fun, fd.Name.Name) {
				found = true
			}
			if fd.Recv != nil && rv != "" {
				if ch := selChain(c.Fun); len(ch) == 2 && ch[0] == rv && ch[1] == fd.Name.Name {
					found = true
				}
			}
		}
		return true
	})
	return found
}

type idxSite struct {
	fn            string
	split0, other int
}

// `f(..)[<integer literal>]`: an index into a call's result. strings.Split / SplitN / Fields(..)[0] apart (Split never
// returns an empty slice; Fields may - it counts as "other"), such an index is in range only if the callee returns enough.
func literalIndexOnCall(fd *ast.FuncDecl) (split0, other int) {
	ast.Inspect(fd.Body, func(n ast.Node) bool {
		ix, ok := n.(*ast.IndexExpr)
		if !ok {
			return true
		}
		lit, ok := ix.Index.(*ast.BasicLit)
		if !ok || lit.Kind != token.INT {
			return true
		}
		c, ok := ix.X.(*ast.CallExpr)
		if !ok {
			return true
		}
		ch := selChain(c.Fun)
		if lit.Value == "0" && len(ch) == 2 && ch[0] == "strings" && (ch[1] == "Split" || ch[1] == "SplitN" || ch[1] == "SplitAfter") {
			split0++
		} else {
			other++
		}
		return true
	})
	return
}

func coqBool(b bool) string {
	if b {
		return "true"
	}
	return "false"
}

func cmdGuards(repo string) (string, error) {
	need := func(rel, recv, name string) (*goFile, *ast.FuncDecl, error) {
		gf, err := parseGo(repo, rel)
		if err != nil {
			return nil, nil, err
		}
		fd := findFunc(gf, recv, name)
		if fd == nil || fd.Body == nil {
			return nil, nil, fmt.Errorf("%s: function %s not found", rel, name)
		}
		return gf, fd, nil
	}
	var notes []string
	// ---- ints builder
	gIntsTarget := true
	for _, fn := range []string{"IndirectCalls", "MyCallers", "ProcessExcludeAndPassthrough"} {
		_, fd, err := need("pkg/integrationdiagram/ints_builder.go", "IntsBuilder", fn)
		if err != nil {
			return "", err
		}
		bad := hasFieldOnLookup(fd, "Endpoints", "Attrs")
		notes = append(notes, fmt.Sprintf("IntsBuilder.%s: field-on-lookup=%v", fn, bad))
		gIntsTarget = gIntsTarget && !bad
	}
	// the view draws every dependency the builder found, resolved or not: it must read them nil-safely too
	gfView, err := parseGo(repo, "pkg/integrationdiagram/ints_view.go")
	if err != nil {
		return "", err
	}
	for _, fd := range funcDecls(gfView.file) {
		if fd.Body != nil && hasFieldOnLookup(fd, "Endpoints", "Attrs", "IsPubsub") {
			notes = append(notes, fmt.Sprintf("ints_view.go %s: field read on a map lookup result", fd.Name.Name))
			gIntsTarget = false
		}
	}
	_, fdWalk, err := need("pkg/integrationdiagram/ints_builder.go", "IntsBuilder", "WalkPassthrough")
	if err != nil {
		return "", err
	}
	// ---- datamodel
	_, fdDraw, err := need("pkg/datamodeldiagram/datamodelview.go", "DataModelView", "DrawRelation")
	if err != nil {
		return "", err
	}
	gDmPath := pathSafe(fdDraw)
	// ---- swagger
	_, fdPop, err := need("pkg/exporter/endpoint_exporter.go", "EndpointExporter", "populateEndpoint")
	if err != nil {
		return "", err
	}
	gSwagger := !indexesCallResult(fdPop) || hasLenTest(fdPop, "path", "Split", "tokens", "endpointTokens")
	_, fdCommon, err := need("pkg/exporter/endpoint_exporter.go", "EndpointExporter", "setCommonAttributes")
	if err != nil {
		return "", err
	}
	usesSchemaProps, testsSchemaNil := false, false
	ast.Inspect(fdCommon.Body, func(nd ast.Node) bool {
		switch x := nd.(type) {
		case *ast.IndexExpr:
			if ch := selChain(x.X); len(ch) >= 2 && ch[len(ch)-1] == "ExtraProps" && ch[len(ch)-2] == "Schema" {
				usesSchemaProps = true
			}
		case *ast.BinaryExpr:
			if x.Op == token.EQL && (isNilIdent(x.X) || isNilIdent(x.Y)) {
				for _, side := range []ast.Expr{x.X, x.Y} {
					if ch := selChain(side); len(ch) >= 1 && ch[len(ch)-1] == "Schema" {
						testsSchemaNil = true
					}
				}
			}
		}
		return true
	})
	gSwParam := !usesSchemaProps || testsSchemaNil
	_, fdResp, err := need("pkg/syslwrapper/app.go", "AppMapper", "mapResponse")
	if err != nil {
		return "", err
	}
	tested := map[string]bool{}
	var seps []string
	ast.Inspect(fdResp.Body, func(nd ast.Node) bool {
		if c, ok := nd.(*ast.CallExpr); ok {
			ch := selChain(c.Fun)
			if len(ch) == 2 && ch[0] == "strings" && len(c.Args) >= 2 {
				if lit, ok := c.Args[1].(*ast.BasicLit); ok {
					switch ch[1] {
					case "Contains":
						tested[lit.Value] = true
					case "Split", "SplitN":
						seps = append(seps, lit.Value)
					}
				}
			}
		}
		return true
	})
	gOa3 := true
	for _, sp := range seps {
		if !tested[sp] {
			gOa3 = false
		}
	}
	if hasLenTest(fdResp, "returnStatement", "parts") {
		gOa3 = true
	}
	// does mapResponse walk into blocks for return statements (syslwrapper.ReturnStatements)?
	gOa3Nested := countCalls(fdResp, func(c *ast.CallExpr) bool {
		ch := selChain(c.Fun)
		return len(ch) > 0 && ch[len(ch)-1] == "ReturnStatements"
	}) > 0
	// ---- database
	gfDb, fdFtd, err := need("pkg/database/db_utils.go", "", "findTableDepth")
	if err != nil {
		return "", err
	}
	fdFk := findFunc(gfDb, "", "foreignKeyTarget")
	gDbPath := pathSafe(fdFtd) && pathSafe(fdFk)
	// does findTableDepth leave a table incomplete for a reference that is not <table>.<column>? Not when the test of
	// foreignKeyTarget's ok result has an else arm that does not reset allAttrProcessed.
	gDbShortDone := false
	ast.Inspect(fdFtd.Body, func(nd ast.Node) bool {
		if is, ok := nd.(*ast.IfStmt); ok {
			if as, ok := is.Init.(*ast.AssignStmt); ok && len(as.Rhs) == 1 && len(as.Lhs) == 3 {
				if c, ok := as.Rhs[0].(*ast.CallExpr); ok && isIdent(c.Fun, "foreignKeyTarget") {
					if id, ok := as.Lhs[2].(*ast.Ident); ok && isIdent(is.Cond, id.Name) && is.Else != nil {
						resets := false
						ast.Inspect(is.Else, func(n2 ast.Node) bool {
							if a2, ok := n2.(*ast.AssignStmt); ok && len(a2.Lhs) == 1 && isIdent(a2.Lhs[0], "allAttrProcessed") {
								resets = true
							}
							return true
						})
						gDbShortDone = !resets
					}
				}
			}
		}
		return true
	})
	_, fdPtd, err := need("pkg/database/db_utils.go", "", "processTableDepth")
	if err != nil {
		return "", err
	}
	rec, condRet := recursionHasConditionalReturn(fdPtd)
	gDbProgress := !rec || condRet
	gDbWriter := pathSafe(fdFk)
	for _, fn := range []string{"writeCreateSQLForAColumn", "writeModifySQLForAColumn"} {
		_, fd, err := need("pkg/database/postgres.go", "ScriptView", fn)
		if err != nil {
			return "", err
		}
		gDbWriter = gDbWriter && pathSafe(fd)
	}
	// ---- mermaid
	_, fdMseq, err := need("pkg/mermaid/sequencediagram/sequencediagram.go", "", "printSequenceDiagramStatements")
	if err != nil {
		return "", err
	}
	gMseq := countCalls(fdMseq, isPanicCall) == 0
	_, fdMint, err := need("pkg/mermaid/integrationdiagram/integrationdiagram.go", "", "generateIntegrationDiagramHelper")
	if err != nil {
		return "", err
	}
	gMint := !hasFieldOnLookup(fdMint, "Endpoints")
	// ---- marker disciplines of the visited-set walks
	discInts, noteInts := readDiscipline(fdWalk, "b.walking", []string{"ProcessCalls"})
	notes = append(notes, "WalkPassthrough b.walking: "+noteInts)
	discMseq, noteMseq := readDiscipline(fdMseq, "sequencePairs", []string{"generateSequenceDiagramHelper"})
	notes = append(notes, "printSequenceDiagramStatements sequencePairs: "+noteMseq)
	_, fdMintPrint, err := need("pkg/mermaid/integrationdiagram/integrationdiagram.go", "", "printIntegrationDiagramStatements")
	if err != nil {
		return "", err
	}
	discMint, noteMint := readDiscipline(fdMintPrint, "integrationPairs", []string{"generateIntegrationDiagramHelper"})
	notes = append(notes, "printIntegrationDiagramStatements integrationPairs: "+noteMint)
	_, fdSd, err := need("pkg/cmdutils/visitor.go", "SequenceDiagramVisitor", "visitEndpoint")
	if err != nil {
		return "", err
	}
	discSd, noteSd := readDiscipline(fdSd, "v.visited", []string{"Accept"})
	notes = append(notes, "visitEndpoint v.visited: "+noteSd)
	// the call target is resolved with the error-returning lookup, not with the panicking application()/endpoint()
	gSdTarget := countCalls(fdSd, func(c *ast.CallExpr) bool {
		ch := selChain(c.Fun)
		return len(ch) == 2 && ch[0] == "e" && ch[1] == "target"
	}) > 0 &&
		countCalls(fdSd, func(c *ast.CallExpr) bool {
			ch := selChain(c.Fun)
			return len(ch) == 2 && ch[0] == "e" && (ch[1] == "application" || ch[1] == "endpoint")
		}) == 0
	// ---- delta scripts
	_, fdModify, err := need("pkg/database/databasescriptview.go", "ScriptView", "generateDatabaseScriptModify")
	if err != nil {
		return "", err
	}
	gDeltaRel := true
	nilTested := map[string]bool{}
	ast.Inspect(fdModify.Body, func(nd ast.Node) bool {
		if be, ok := nd.(*ast.BinaryExpr); ok && be.Op == token.NEQ && isNilIdent(be.Y) {
			if id, ok := be.X.(*ast.Ident); ok {
				nilTested[id.Name] = true
			}
		}
		return true
	})
	ast.Inspect(fdModify.Body, func(nd ast.Node) bool {
		if c, ok := nd.(*ast.CallExpr); ok {
			ch := selChain(c.Fun)
			if len(ch) == 2 && (ch[1] == "writeCreateSQLForATable" || ch[1] == "writeModifySQLForATable") {
				nrel := 1
				if ch[1] == "writeModifySQLForATable" {
					nrel = 2
				}
				for i := 1; i <= nrel && i < len(c.Args); i++ {
					id, isId := c.Args[i].(*ast.Ident)
					if !isId || !nilTested[id.Name] {
						gDeltaRel = false
					}
				}
			}
		}
		return true
	})
	_, fdColumn, err := need("pkg/database/postgres.go", "ScriptView", "writeCreateSQLForAColumn")
	if err != nil {
		return "", err
	}
	cdRef, cdAuto, cdPlain, cdFkOnly := coldefArms(fdColumn)
	_, fdModTable, err := need("pkg/database/postgres.go", "ScriptView", "writeModifySQLForATable")
	if err != nil {
		return "", err
	}
	slicesStr := false
	ast.Inspect(fdModTable.Body, func(nd ast.Node) bool {
		if se, ok := nd.(*ast.SliceExpr); ok && isIdent(se.X, "str") && se.High != nil {
			if _, isLit := se.High.(*ast.BasicLit); !isLit {
				slicesStr = true
			}
		}
		return true
	})
	gDeltaTrim := !slicesStr || hasLenTest(fdModTable, "str")
	// ---- template / test-rig
	_, fdTmplExec, err := need("cmd/sysl/cmd_template.go", "templateCmd", "Execute")
	if err != nil {
		return "", err
	}
	nilAppSkip := func(rel, recv string) (bool, error) {
		_, fd, err := need(rel, recv, "Apply")
		if err != nil {
			return false, err
		}
		found := false
		ast.Inspect(fd.Body, func(nd ast.Node) bool {
			if is, ok := nd.(*ast.IfStmt); ok {
				if be, ok := is.Cond.(*ast.BinaryExpr); ok && be.Op == token.EQL && isNilIdent(be.Y) && exprMentions(be.X, "Apps", "GetApps") {
					for _, st := range is.Body.List {
						if br, ok := st.(*ast.BranchStmt); ok && br.Tok == token.CONTINUE {
							found = true
						}
					}
				}
			}
			return true
		})
		return found, nil
	}
	libT, err := nilAppSkip("pkg/transforms/templates.go", "templated")
	if err != nil {
		return "", err
	}
	libS, err := nilAppSkip("pkg/transforms/semantic.go", "semantic")
	if err != nil {
		return "", err
	}
	gTmplApp := hasCommaOkReturn(fdTmplExec) || (libT && libS)
	notes = append(notes, fmt.Sprintf("template: lookup in Execute=%v, nil skip in templated.Apply=%v semantic.Apply=%v", hasCommaOkReturn(fdTmplExec), libT, libS))
	_, fdNeedsDB, err := need("pkg/testrig/testrig.go", "", "appNeedsDB")
	if err != nil {
		return "", err
	}
	gRigNil := hasNilTestReturn(fdNeedsDB)
	// ---- renderer
	gfDiag, err := parseGo(repo, "cmd/sysl/cmd_diagram.go")
	if err != nil {
		return "", err
	}
	gRender, sawInit := true, false
	for _, fd := range funcDecls(gfDiag.file) {
		if fd.Body == nil {
			continue
		}
		calls := countCalls(fd, func(c *ast.CallExpr) bool {
			ch := selChain(c.Fun)
			return len(ch) == 2 && ch[0] == "mermaid" && ch[1] == "Init"
		})
		if calls > 0 {
			sawInit = true
			if !(hasDeferredRecover(fd) && recoverSetsNamedResult(fd)) {
				gRender = false
			}
		}
	}
	if !sawInit {
		notes = append(notes, "cmd_diagram.go: no call of mermaid.Init found")
	}
	// ---- process level: recover around command execution; exit code
	topRecover := false
	for _, rel := range []string{"cmd/sysl/sysl.go", "cmd/sysl/cmd_runner.go"} {
		gf, err := parseGo(repo, rel)
		if err != nil {
			return "", err
		}
		for _, fd := range funcDecls(gf.file) {
			switch fd.Name.Name {
			case "main", "main2", "main3", "Run":
				if hasDeferredRecover(fd) {
					topRecover = true
				}
			}
		}
	}
	// ---- table of panic / exit sites in the packages the commands drive
	dirs := []string{"cmd/sysl", "pkg/cmdutils", "pkg/integrationdiagram", "pkg/datamodeldiagram", "pkg/database", "pkg/exporter",
		"pkg/mermaid", "pkg/mermaid/sequencediagram", "pkg/mermaid/integrationdiagram", "pkg/mermaid/datamodeldiagram",
		"pkg/mermaid/endpointanalysisdiagram", "pkg/sequencediagram", "pkg/syslwrapper", "pkg/syslutil", "pkg/loader",
		// round 3: the packages template, codegen, transform, test-rig, repl and lsp reach
		"pkg/importer", "pkg/transforms", "pkg/testrig", "pkg/eval", "pkg/validate", "pkg/ebnfparser", "pkg/arrai/transform", "pkg/lspimpl", "pkg/lspimpl/lspframework", "pkg/msg"}
	type site struct {
		fn   string
		kind string
		ord  int
	}
	var sites []site
	var recursive []string
	var idxSites []idxSite
	for _, d := range dirs {
		ents, err := os.ReadDir(filepath.Join(repo, d))
		if err != nil {
			continue
		}
		var files []string
		for _, e := range ents {
			n := e.Name()
			if strings.HasSuffix(n, ".go") && !strings.HasSuffix(n, "_test.go") {
				files = append(files, n)
			}
		}
		sort.Strings(files)
		for _, f := range files {
			gf, err := parseGo(repo, filepath.Join(d, f))
			if err != nil {
				return "", err
			}
			if gf.file.Name.Name == "main" && d != "cmd/sysl" {
				continue
			}
			for _, fd := range funcDecls(gf.file) {
				if fd.Body == nil {
					continue
				}
				name := d[strings.LastIndex(d, "/")+1:] + "."
				if r := recvName(fd); r != "" {
					name += r + "."
				}
				name += fd.Name.Name
				if selfRecursive(fd) {
					recursive = append(recursive, name)
				}
				if s0, other := literalIndexOnCall(fd); s0+other > 0 {
					idxSites = append(idxSites, idxSite{name, s0, other})
				}
				np := countCalls(fd, isPanicCall)
				for i := 0; i < np; i++ {
					sites = append(sites, site{name, "panic", i + 1})
				}
				ne := countCalls(fd, isExitCall)
				for i := 0; i < ne; i++ {
					sites = append(sites, site{name, "exit", i + 1})
				}
				na := uncheckedAsserts(fd)
				for i := 0; i < na; i++ {
					sites = append(sites, site{name, "assert", i + 1})
				}
			}
		}
	}
	var b strings.Builder
	b.WriteString("(* GENERATED by translate/cmdguards.go from the repository source - do not edit. *)\n")
	b.WriteString("From Coq Require Import List String NArith.\nImport ListNotations.\nRequire Import Verif.Cmds.Walk Verif.Cmds.Model Verif.Cmds.FmtModel Verif.Cmds.ImpModel.\nLocal Open Scope string_scope.\n\n")
	fmt.Fprintf(&b, "Definition current : guards := {|\n  g_ints_target := %s;\n  g_ints_disc := %s;\n  g_dm_path := %s;\n  g_swagger_rest := %s;\n  g_sw_param_schema := %s;\n  g_oa3_ret_split := %s;\n  g_db_path := %s;\n  g_db_writer_path := %s;\n  g_db_progress := %s;\n  g_mseq_err := %s;\n  g_mseq_disc := %s;\n  g_mint_app := %s;\n  g_mint_disc := %s;\n  g_render_recover := %s;\n  g_sd_target := %s;\n  g_sd_disc := %s;\n  g_delta_relation := %s;\n  g_coldef_ref := %s;\n  g_coldef_auto := %s;\n  g_coldef_plain := %s;\n  g_delta_trim := %s;\n  g_db_short_done := %s;\n  g_coldef_fk_only := %s;\n  g_oa3_nested_rets := %s;\n  g_tmpl_app := %s;\n  g_rig_nilapp := %s |}.\n\n",
		coqBool(gIntsTarget), discInts, coqBool(gDmPath), coqBool(gSwagger), coqBool(gSwParam), coqBool(gOa3), coqBool(gDbPath), coqBool(gDbWriter), coqBool(gDbProgress), coqBool(gMseq), discMseq, coqBool(gMint), discMint, coqBool(gRender), coqBool(gSdTarget), discSd, coqBool(gDeltaRel), coqBool(cdRef), coqBool(cdAuto), coqBool(cdPlain), coqBool(gDeltaTrim), coqBool(gDbShortDone), coqBool(cdFkOnly), coqBool(gOa3Nested), coqBool(gTmplApp), coqBool(gRigNil))
	fmt.Fprintf(&b, "(* cmd/sysl main / main2 / main3 / cmdRunner.Run run the command under a deferred recover *)\nDefinition top_recover : bool := %s.\n\n", coqBool(topRecover))
	b.WriteString("(* (package.function, kind, ordinal) of every panic( call [panic], os.Exit / *.Fatal* call [exit] and type assertion without ok [assert] in the packages the commands drive *)\n")
	b.WriteString("Definition abort_sites : list (string * string * N) := [\n")
	for i, s := range sites {
		sep := ";"
		if i == len(sites)-1 {
			sep = ""
		}
		fmt.Fprintf(&b, "  (\"%s\", \"%s\", %d%%N)%s\n", s.fn, s.kind, s.ord, sep)
	}
	b.WriteString("].\n\n")
	b.WriteString("(* package.function of every function of those packages that calls itself directly *)\n")
	b.WriteString("Definition recursive_functions : list string := [\n")
	for i, r := range recursive {
		sep := ";"
		if i == len(recursive)-1 {
			sep = ""
		}
		fmt.Fprintf(&b, "  \"%s\"%s\n", r, sep)
	}
	b.WriteString("].\n\n")
	b.WriteString("(* (package.function, n0, n): the function indexes the result of a call with an integer literal - `f(..)[k]` - n0 times as\n   `strings.Split*(..)[0]` (never out of range) and n times otherwise (safe only if the callee's result is long enough) *)\n")
	b.WriteString("Definition literal_index_sites : list (string * N * N) := [\n")
	for i, x := range idxSites {
		sep := ";"
		if i == len(idxSites)-1 {
			sep = ""
		}
		fmt.Fprintf(&b, "  (\"%s\", %d%%N, %d%%N)%s\n", x.fn, x.split0, x.other, sep)
	}
	b.WriteString("].\n\n")
	for _, n := range notes {
		fmt.Fprintf(&b, "(* %s *)\n", n)
	}
	// second table: the facts about the error paths (format strings of the model, the importer's name stack)
	ep, err := cmdGuardsErrorPaths(repo)
	if err != nil {
		return "", err
	}
	b.WriteString("\n" + ep)
	return b.String(), nil
}
