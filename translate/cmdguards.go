package main

import (
	"fmt"
	"go/ast"
	"go/token"
	"os"
	"path/filepath"
	"sort"
	"strings"
)

// CmdGuards (C20): for the lookups of the command generators that Cmds/Model.v models, is each one guarded
// in the CURRENT source? Plus the process-level facts: does cmd/sysl run commands under a recover, which
// exit code does main2 use, and the table of panic( / os.Exit / *.Fatal* call sites in the packages the
// commands drive, keyed by package.function and ordinal (never by line).
//
//	g_ints_target      IndirectCalls / MyCallers / ProcessExcludeAndPassthrough and every function of ints_view.go:
//	                   no `<map lookup>.Endpoints|Attrs|IsPubsub` field read (only the nil-safe getters)
//	g_ints_walk_once   WalkPassthrough has a comma-ok map test that returns (an endpoint being expanded is not re-entered)
//	g_dm_path          DrawRelation: every Path[<literal>] sits in a function that tests len(...Path...)
//	g_swagger_rest     populateEndpoint: tests len(...) of the split endpoint name before indexing [1]
//	g_sw_param_schema  setCommonAttributes: an index into `<x>.Schema.ExtraProps` only with an `<x>.Schema == nil` test in the function
//	g_oa3_ret_split    syslwrapper mapResponse: every strings.Split/SplitN separator literal is one of the literals the
//	                   function tests with strings.Contains (or the function tests len(...) of the split result)
//	g_db_path          findTableDepth (+ foreignKeyTarget): no unchecked Path[<literal>]
//	g_db_writer_path   writeCreateSQLForAColumn / writeModifySQLForAColumn (+ foreignKeyTarget): same
//	g_db_progress      processTableDepth: the self-recursion is preceded by a conditional return
//	g_mseq_err         mermaid/sequencediagram.printSequenceDiagramStatements contains no panic( call
//	g_mint_app         mermaid/integrationdiagram.generateIntegrationDiagramHelper: no `<map lookup>.Endpoints` read
//	g_render_recover   the function of cmd/sysl/cmd_diagram.go that calls mermaid.Init has a deferred recover
//	                   that sets a named result
func init() { register("CmdGuards", cmdGuards) }

func findFunc(gf *goFile, recv, name string) *ast.FuncDecl {
	for _, fd := range funcDecls(gf.file) {
		if fd.Name.Name == name && (recv == "*" || recvName(fd) == recv) {
			return fd
		}
	}
	return nil
}

// `X[...].Endpoints` : a struct field read on the result of a map lookup (nil for a missing key)
func hasFieldOnLookup(fd *ast.FuncDecl, fields ...string) bool {
	found := false
	ast.Inspect(fd.Body, func(n ast.Node) bool {
		if s, ok := n.(*ast.SelectorExpr); ok {
			for _, field := range fields {
				if s.Sel.Name == field {
					if _, isIdx := s.X.(*ast.IndexExpr); isIdx {
						found = true
					}
				}
			}
		}
		return true
	})
	return found
}

func isNilIdent(e ast.Expr) bool { return isIdent(e, "nil") }

func bodyReturns(b *ast.BlockStmt) bool {
	for _, st := range b.List {
		if _, ok := st.(*ast.ReturnStmt); ok {
			return true
		}
	}
	return false
}

// if <x> == nil { ...return } at any depth
func hasNilTestReturn(fd *ast.FuncDecl) bool {
	found := false
	ast.Inspect(fd.Body, func(n ast.Node) bool {
		if is, ok := n.(*ast.IfStmt); ok {
			if be, ok := is.Cond.(*ast.BinaryExpr); ok && be.Op == token.EQL && (isNilIdent(be.X) || isNilIdent(be.Y)) && bodyReturns(is.Body) {
				found = true
			}
		}
		return true
	})
	return found
}

// if _, ok := m[k]; ok { return }  (or !ok)
func hasCommaOkReturn(fd *ast.FuncDecl) bool {
	found := false
	ast.Inspect(fd.Body, func(n ast.Node) bool {
		if is, ok := n.(*ast.IfStmt); ok && is.Init != nil {
			if as, ok := is.Init.(*ast.AssignStmt); ok && len(as.Lhs) == 2 && len(as.Rhs) == 1 {
				if _, isIdx := as.Rhs[0].(*ast.IndexExpr); isIdx && bodyReturns(is.Body) {
					found = true
				}
			}
		}
		return true
	})
	return found
}

func exprMentions(e ast.Expr, names ...string) bool {
	hit := false
	ast.Inspect(e, func(n ast.Node) bool {
		switch x := n.(type) {
		case *ast.Ident:
			for _, nm := range names {
				if x.Name == nm {
					hit = true
				}
			}
		}
		return true
	})
	return hit
}

// number of `<...>.Path[<int literal>]` index expressions
func pathLiteralIndexes(fd *ast.FuncDecl) int {
	n := 0
	ast.Inspect(fd.Body, func(nd ast.Node) bool {
		if ix, ok := nd.(*ast.IndexExpr); ok {
			if _, lit := ix.Index.(*ast.BasicLit); lit {
				if s, ok := ix.X.(*ast.SelectorExpr); ok && s.Sel.Name == "Path" {
					n++
				}
				if id, ok := ix.X.(*ast.Ident); ok && strings.Contains(strings.ToLower(id.Name), "path") {
					n++
				}
			}
		}
		return true
	})
	return n
}

// a comparison one side of which is len(<something mentioning Path/GetPath/path or a Split>)
func hasLenTest(fd *ast.FuncDecl, mention ...string) bool {
	found := false
	ast.Inspect(fd.Body, func(nd ast.Node) bool {
		if be, ok := nd.(*ast.BinaryExpr); ok {
			switch be.Op {
			case token.LSS, token.GTR, token.LEQ, token.GEQ, token.EQL, token.NEQ:
				for _, side := range []ast.Expr{be.X, be.Y} {
					if c, ok := side.(*ast.CallExpr); ok && isIdent(c.Fun, "len") && len(c.Args) == 1 && exprMentions(c.Args[0], mention...) {
						found = true
					}
				}
			}
		}
		return true
	})
	return found
}

func pathSafe(fd *ast.FuncDecl) bool {
	if fd == nil {
		return true
	}
	return pathLiteralIndexes(fd) == 0 || hasLenTest(fd, "Path", "GetPath", "path")
}

// index [<literal >= 1>] directly on a call result (strings.Split(...)[1])
func indexesCallResult(fd *ast.FuncDecl) bool {
	found := false
	ast.Inspect(fd.Body, func(nd ast.Node) bool {
		if ix, ok := nd.(*ast.IndexExpr); ok {
			if lit, isLit := ix.Index.(*ast.BasicLit); isLit && lit.Value != "0" {
				if _, isCall := ix.X.(*ast.CallExpr); isCall {
					found = true
				}
			}
		}
		return true
	})
	return found
}

func countCalls(fd *ast.FuncDecl, pred func(*ast.CallExpr) bool) int {
	n := 0
	if fd.Body == nil {
		return 0
	}
	ast.Inspect(fd.Body, func(nd ast.Node) bool {
		if c, ok := nd.(*ast.CallExpr); ok && pred(c) {
			n++
		}
		return true
	})
	return n
}

func isPanicCall(c *ast.CallExpr) bool { return isIdent(c.Fun, "panic") }
func isExitCall(c *ast.CallExpr) bool {
	ch := selChain(c.Fun)
	if len(ch) < 2 {
		return false
	}
	last := ch[len(ch)-1]
	if ch[0] == "os" && last == "Exit" {
		return true
	}
	return strings.HasPrefix(last, "Fatal")
}

// self-recursion preceded (in source order) by an `if ... { ... return }`
func recursionHasConditionalReturn(fd *ast.FuncDecl) (recursive, guarded bool) {
	var selfPos token.Pos
	ast.Inspect(fd.Body, func(nd ast.Node) bool {
		if c, ok := nd.(*ast.CallExpr); ok && isIdent(c.Fun, fd.Name.Name) && selfPos == 0 {
			selfPos = c.Pos()
		}
		return true
	})
	if selfPos == 0 {
		return false, true
	}
	ast.Inspect(fd.Body, func(nd ast.Node) bool {
		if is, ok := nd.(*ast.IfStmt); ok && is.Pos() < selfPos && bodyReturns(is.Body) {
			guarded = true
		}
		return true
	})
	return true, guarded
}

func coqBool(b bool) string {
	if b {
		return "true"
	}
	return "false"
}

func cmdGuards(repo string) (string, error) {
	need := func(rel, recv, name string) (*goFile, *ast.FuncDecl, error) {
		gf, err := parseGo(repo, rel)
		if err != nil {
			return nil, nil, err
		}
		fd := findFunc(gf, recv, name)
		if fd == nil || fd.Body == nil {
			return nil, nil, fmt.Errorf("%s: function %s not found", rel, name)
		}
		return gf, fd, nil
	}
	var notes []string
	// ---- ints builder
	gIntsTarget := true
	for _, fn := range []string{"IndirectCalls", "MyCallers", "ProcessExcludeAndPassthrough"} {
		_, fd, err := need("pkg/integrationdiagram/ints_builder.go", "IntsBuilder", fn)
		if err != nil {
			return "", err
		}
		bad := hasFieldOnLookup(fd, "Endpoints", "Attrs")
		notes = append(notes, fmt.Sprintf("IntsBuilder.%s: field-on-lookup=%v", fn, bad))
		gIntsTarget = gIntsTarget && !bad
	}
	// the view draws every dependency the builder found, resolved or not: it must read them nil-safely too
	gfView, err := parseGo(repo, "pkg/integrationdiagram/ints_view.go")
	if err != nil {
		return "", err
	}
	for _, fd := range funcDecls(gfView.file) {
		if fd.Body != nil && hasFieldOnLookup(fd, "Endpoints", "Attrs", "IsPubsub") {
			notes = append(notes, fmt.Sprintf("ints_view.go %s: field read on a map lookup result", fd.Name.Name))
			gIntsTarget = false
		}
	}
	_, fdWalk, err := need("pkg/integrationdiagram/ints_builder.go", "IntsBuilder", "WalkPassthrough")
	if err != nil {
		return "", err
	}
	gIntsWalk := hasCommaOkReturn(fdWalk)
	// ---- datamodel
	_, fdDraw, err := need("pkg/datamodeldiagram/datamodelview.go", "DataModelView", "DrawRelation")
	if err != nil {
		return "", err
	}
	gDmPath := pathSafe(fdDraw)
	// ---- swagger
	_, fdPop, err := need("pkg/exporter/endpoint_exporter.go", "EndpointExporter", "populateEndpoint")
	if err != nil {
		return "", err
	}
	gSwagger := !indexesCallResult(fdPop) || hasLenTest(fdPop, "path", "Split", "tokens", "endpointTokens")
	_, fdCommon, err := need("pkg/exporter/endpoint_exporter.go", "EndpointExporter", "setCommonAttributes")
	if err != nil {
		return "", err
	}
	usesSchemaProps, testsSchemaNil := false, false
	ast.Inspect(fdCommon.Body, func(nd ast.Node) bool {
		switch x := nd.(type) {
		case *ast.IndexExpr:
			if ch := selChain(x.X); len(ch) >= 2 && ch[len(ch)-1] == "ExtraProps" && ch[len(ch)-2] == "Schema" {
				usesSchemaProps = true
			}
		case *ast.BinaryExpr:
			if x.Op == token.EQL && (isNilIdent(x.X) || isNilIdent(x.Y)) {
				for _, side := range []ast.Expr{x.X, x.Y} {
					if ch := selChain(side); len(ch) >= 1 && ch[len(ch)-1] == "Schema" {
						testsSchemaNil = true
					}
				}
			}
		}
		return true
	})
	gSwParam := !usesSchemaProps || testsSchemaNil
	_, fdResp, err := need("pkg/syslwrapper/app.go", "AppMapper", "mapResponse")
	if err != nil {
		return "", err
	}
	tested := map[string]bool{}
	var seps []string
	ast.Inspect(fdResp.Body, func(nd ast.Node) bool {
		if c, ok := nd.(*ast.CallExpr); ok {
			ch := selChain(c.Fun)
			if len(ch) == 2 && ch[0] == "strings" && len(c.Args) >= 2 {
				if lit, ok := c.Args[1].(*ast.BasicLit); ok {
					switch ch[1] {
					case "Contains":
						tested[lit.Value] = true
					case "Split", "SplitN":
						seps = append(seps, lit.Value)
					}
				}
			}
		}
		return true
	})
	gOa3 := true
	for _, sp := range seps {
		if !tested[sp] {
			gOa3 = false
		}
	}
	if hasLenTest(fdResp, "returnStatement", "parts") {
		gOa3 = true
	}
	// ---- database
	gfDb, fdFtd, err := need("pkg/database/db_utils.go", "", "findTableDepth")
	if err != nil {
		return "", err
	}
	fdFk := findFunc(gfDb, "", "foreignKeyTarget")
	gDbPath := pathSafe(fdFtd) && pathSafe(fdFk)
	_, fdPtd, err := need("pkg/database/db_utils.go", "", "processTableDepth")
	if err != nil {
		return "", err
	}
	rec, condRet := recursionHasConditionalReturn(fdPtd)
	gDbProgress := !rec || condRet
	gDbWriter := pathSafe(fdFk)
	for _, fn := range []string{"writeCreateSQLForAColumn", "writeModifySQLForAColumn"} {
		_, fd, err := need("pkg/database/postgres.go", "ScriptView", fn)
		if err != nil {
			return "", err
		}
		gDbWriter = gDbWriter && pathSafe(fd)
	}
	// ---- mermaid
	_, fdMseq, err := need("pkg/mermaid/sequencediagram/sequencediagram.go", "", "printSequenceDiagramStatements")
	if err != nil {
		return "", err
	}
	gMseq := countCalls(fdMseq, isPanicCall) == 0
	_, fdMint, err := need("pkg/mermaid/integrationdiagram/integrationdiagram.go", "", "generateIntegrationDiagramHelper")
	if err != nil {
		return "", err
	}
	gMint := !hasFieldOnLookup(fdMint, "Endpoints")
	// ---- renderer
	gfDiag, err := parseGo(repo, "cmd/sysl/cmd_diagram.go")
	if err != nil {
		return "", err
	}
	gRender, sawInit := true, false
	for _, fd := range funcDecls(gfDiag.file) {
		if fd.Body == nil {
			continue
		}
		calls := countCalls(fd, func(c *ast.CallExpr) bool {
			ch := selChain(c.Fun)
			return len(ch) == 2 && ch[0] == "mermaid" && ch[1] == "Init"
		})
		if calls > 0 {
			sawInit = true
			if !(hasDeferredRecover(fd) && recoverSetsNamedResult(fd)) {
				gRender = false
			}
		}
	}
	if !sawInit {
		notes = append(notes, "cmd_diagram.go: no call of mermaid.Init found")
	}
	// ---- process level: recover around command execution; exit code
	topRecover := false
	for _, rel := range []string{"cmd/sysl/sysl.go", "cmd/sysl/cmd_runner.go"} {
		gf, err := parseGo(repo, rel)
		if err != nil {
			return "", err
		}
		for _, fd := range funcDecls(gf.file) {
			switch fd.Name.Name {
			case "main", "main2", "main3", "Run":
				if hasDeferredRecover(fd) {
					topRecover = true
				}
			}
		}
	}
	// ---- table of panic / exit sites in the packages the commands drive
	dirs := []string{"cmd/sysl", "pkg/cmdutils", "pkg/integrationdiagram", "pkg/datamodeldiagram", "pkg/database", "pkg/exporter",
		"pkg/mermaid", "pkg/mermaid/sequencediagram", "pkg/mermaid/integrationdiagram", "pkg/mermaid/datamodeldiagram",
		"pkg/mermaid/endpointanalysisdiagram", "pkg/sequencediagram", "pkg/syslwrapper", "pkg/syslutil", "pkg/loader"}
	type site struct {
		fn   string
		kind string
		ord  int
	}
	var sites []site
	for _, d := range dirs {
		ents, err := os.ReadDir(filepath.Join(repo, d))
		if err != nil {
			continue
		}
		var files []string
		for _, e := range ents {
			n := e.Name()
			if strings.HasSuffix(n, ".go") && !strings.HasSuffix(n, "_test.go") {
				files = append(files, n)
			}
		}
		sort.Strings(files)
		for _, f := range files {
			gf, err := parseGo(repo, filepath.Join(d, f))
			if err != nil {
				return "", err
			}
			if gf.file.Name.Name == "main" && d != "cmd/sysl" {
				continue
			}
			for _, fd := range funcDecls(gf.file) {
				if fd.Body == nil {
					continue
				}
				name := d[strings.LastIndex(d, "/")+1:] + "."
				if r := recvName(fd); r != "" {
					name += r + "."
				}
				name += fd.Name.Name
				np := countCalls(fd, isPanicCall)
				for i := 0; i < np; i++ {
					sites = append(sites, site{name, "panic", i + 1})
				}
				ne := countCalls(fd, isExitCall)
				for i := 0; i < ne; i++ {
					sites = append(sites, site{name, "exit", i + 1})
				}
			}
		}
	}
	var b strings.Builder
	b.WriteString("(* GENERATED by translate/cmdguards.go from the repository source - do not edit. *)\n")
	b.WriteString("From Coq Require Import List String NArith.\nImport ListNotations.\nRequire Import Verif.Cmds.Model.\nLocal Open Scope string_scope.\n\n")
	fmt.Fprintf(&b, "Definition current : guards := {|\n  g_ints_target := %s;\n  g_ints_walk_once := %s;\n  g_dm_path := %s;\n  g_swagger_rest := %s;\n  g_sw_param_schema := %s;\n  g_oa3_ret_split := %s;\n  g_db_path := %s;\n  g_db_writer_path := %s;\n  g_db_progress := %s;\n  g_mseq_err := %s;\n  g_mint_app := %s;\n  g_render_recover := %s |}.\n\n",
		coqBool(gIntsTarget), coqBool(gIntsWalk), coqBool(gDmPath), coqBool(gSwagger), coqBool(gSwParam), coqBool(gOa3), coqBool(gDbPath), coqBool(gDbWriter), coqBool(gDbProgress), coqBool(gMseq), coqBool(gMint), coqBool(gRender))
	fmt.Fprintf(&b, "(* cmd/sysl main / main2 / main3 / cmdRunner.Run run the command under a deferred recover *)\nDefinition top_recover : bool := %s.\n\n", coqBool(topRecover))
	b.WriteString("(* (package.function, kind, ordinal) of every panic( / os.Exit / *.Fatal* call in the packages the commands drive *)\n")
	b.WriteString("Definition abort_sites : list (string * string * N) := [\n")
	for i, s := range sites {
		sep := ";"
		if i == len(sites)-1 {
			sep = ""
		}
		fmt.Fprintf(&b, "  (\"%s\", \"%s\", %d%%N)%s\n", s.fn, s.kind, s.ord, sep)
	}
	b.WriteString("].\n\n")
	for _, n := range notes {
		fmt.Fprintf(&b, "(* %s *)\n", n)
	}
	return b.String(), nil
}
