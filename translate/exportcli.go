package main

import (
	"bytes"
	"fmt"
	"go/ast"
	"go/printer"
	"go/token"
	"strings"
)

// ExportCli: what the C12 model of the command `sysl export` (Export/CliExport.v) is parameterised by, read from
// cmd/sysl/cmd_export.go:
//
//	Configure               flag name -> field of exportCmd it is bound to (StringVar(&p.X)), its default
//	determineOperationMode  case label -> returned mode (constants resolved); the expression the extension is taken from
//	Execute                 the field handed to determineOperationMode and the field its result is stored in; the modes sent
//	                        to the transform exporter; the texts of the selection condition, of the condition for the
//	                        application infix and of the expression that builds the name; what is handed to writeSwaggerForApp
//	writeSwaggerForApp      the field `switch` looks at; per case label the exporter constructed and the FIELD handed to
//	                        SerializeOutput as mode; what afero.WriteFile writes where
//
// Anything unexpected is listed in `cli_unknown`; the reflexivity lemma of Export/CliExportProps.v then fails.
func init() { register("ExportCli", exportCli) }

func ecText(fset *token.FileSet, n ast.Node) string {
	var b bytes.Buffer
	printer.Fprint(&b, fset, n)
	return strings.Join(strings.Fields(b.String()), " ")
}

func exportCli(repo string) (string, error) {
	x := &etx{}
	gf, err := parseGo(repo, "cmd/sysl/cmd_export.go")
	if err != nil {
		return "", err
	}
	consts := map[string]string{}
	for _, d := range gf.file.Decls {
		gd, ok := d.(*ast.GenDecl)
		if !ok || gd.Tok != token.CONST {
			continue
		}
		for _, sp := range gd.Specs {
			vs := sp.(*ast.ValueSpec)
			for i, n := range vs.Names {
				if i < len(vs.Values) {
					if s, ok := etStrLit(vs.Values[i]); ok {
						consts[n.Name] = s
					}
				}
			}
		}
	}
	str := func(e ast.Expr, where string) string {
		if s, ok := etStrLit(e); ok {
			return s
		}
		if id, ok := e.(*ast.Ident); ok {
			if s, ok := consts[id.Name]; ok {
				return s
			}
		}
		x.unk("%s: %s is neither a string literal nor a string constant of the file", where, ecText(gf.fset, e))
		return "?"
	}
	recvField := func(fd *ast.FuncDecl, e ast.Expr) string { // p.X -> "X"
		if ch := selChain(e); len(ch) == 2 && ch[0] == recvVar(fd) {
			return ch[1]
		}
		return ""
	}

	// ---- Configure
	var flags []string
	if fd := etFindFunc(gf, "exportCmd", "Configure"); fd == nil {
		x.unk("Configure not found")
	} else {
		ast.Inspect(fd.Body, func(n ast.Node) bool {
			es, ok := n.(*ast.ExprStmt)
			if !ok {
				return true
			}
			base, chain := callChain(es.X)
			_ = base
			name, field, def := "", "", "None"
			for _, c := range chain {
				switch c.name {
				case "Flag":
					if len(c.args) > 0 {
						if s, ok := etStrLit(c.args[0]); ok {
							name = s
						}
					}
				case "Default":
					if len(c.args) == 1 {
						def = "(Some " + etStr(str(c.args[0], "Configure: Default")) + ")"
					}
				case "StringVar":
					if len(c.args) == 1 {
						if u, ok := c.args[0].(*ast.UnaryExpr); ok && u.Op == token.AND {
							field = recvField(fd, u.X)
						}
					}
				}
			}
			if name != "" {
				if field == "" {
					x.unk("Configure: flag %s is not bound by StringVar(&p.<field>)", name)
					field = "?"
				}
				flags = append(flags, fmt.Sprintf("(%s, (%s, %s))", etStr(name), etStr(field), def))
			}
			return true
		})
	}

	// ---- determineOperationMode
	var extModes []string
	if fd := etFindFunc(gf, "exportCmd", "determineOperationMode"); fd == nil || len(fd.Type.Params.List) != 1 {
		x.unk("determineOperationMode not found")
	} else {
		param := fd.Type.Params.List[0].Names[0].Name
		seenExt := false
		for _, st := range fd.Body.List {
			switch s := st.(type) {
			case *ast.AssignStmt:
				if got, want := ecText(gf.fset, s), `fileExtn := strings.TrimPrefix(filepath.Ext(`+param+`), ".")`; got != want {
					x.unk("determineOperationMode: %s (expected %s)", got, want)
				} else {
					seenExt = true
				}
			case *ast.SwitchStmt:
				if !isIdent(s.Tag, "fileExtn") {
					x.unk("determineOperationMode: switch on %s", ecText(gf.fset, s.Tag))
				}
				for _, cl := range s.Body.List {
					cc := cl.(*ast.CaseClause)
					var ret *ast.ReturnStmt
					if len(cc.Body) == 1 {
						ret, _ = cc.Body[0].(*ast.ReturnStmt)
					}
					if ret == nil || len(ret.Results) != 2 {
						x.unk("determineOperationMode: an arm is not a single return of two values")
						continue
					}
					if cc.List == nil {
						if s, ok := etStrLit(ret.Results[0]); !ok || s != "" || isIdent(ret.Results[1], "nil") {
							x.unk("determineOperationMode: the default arm does not return an error")
						}
						continue
					}
					if !isIdent(ret.Results[1], "nil") {
						x.unk("determineOperationMode: a labelled arm returns an error")
					}
					for _, le := range cc.List {
						extModes = append(extModes, fmt.Sprintf("(%s, %s)", etStr(str(le, "determineOperationMode: label")), etStr(str(ret.Results[0], "determineOperationMode: result"))))
					}
				}
			default:
				x.unk("determineOperationMode: unexpected statement %s", ecText(gf.fset, st))
			}
		}
		if !seenExt {
			x.unk("determineOperationMode: the extension is not computed")
		}
	}

	// ---- Execute
	modeArg, modeDest, selectCond, infixCond, infixExpr := "?", "?", "?", "?", "?"
	var transform []string
	if fd := etFindFunc(gf, "exportCmd", "Execute"); fd == nil {
		x.unk("Execute not found")
	} else {
		resVar := ""
		firstSwitch := true
		for _, st := range fd.Body.List {
			switch s := st.(type) {
			case *ast.AssignStmt:
				if c, ok := s.Rhs[0].(*ast.CallExpr); ok && len(s.Lhs) == 2 {
					if ch := selChain(c.Fun); len(ch) == 2 && ch[1] == "determineOperationMode" && len(c.Args) == 1 {
						modeArg = recvField(fd, c.Args[0])
						if id, ok := s.Lhs[0].(*ast.Ident); ok {
							resVar = id.Name
						}
					}
				} else if f := recvField(fd, s.Lhs[0]); f != "" && len(s.Rhs) == 1 && resVar != "" && isIdent(s.Rhs[0], resVar) {
					modeDest = f
				}
			case *ast.SwitchStmt:
				if firstSwitch && resVar != "" && isIdent(s.Tag, resVar) {
					firstSwitch = false
					for _, cl := range s.Body.List {
						cc := cl.(*ast.CaseClause)
						uses := false
						for _, b := range cc.Body {
							ast.Inspect(b, func(n ast.Node) bool {
								if c, ok := n.(*ast.CallExpr); ok {
									if ch := selChain(c.Fun); len(ch) == 2 && ch[1] == "MakeTransformExporter" {
										uses = true
									}
								}
								return true
							})
						}
						if !uses || cc.List == nil {
							x.unk("Execute: an arm of the first switch does not go to MakeTransformExporter")
						}
						for _, le := range cc.List {
							transform = append(transform, etStr(str(le, "Execute: label")))
						}
					}
				} else {
					x.unk("Execute: unexpected switch on %s", ecText(gf.fset, s.Tag))
				}
			case *ast.RangeStmt:
				if got := ecText(gf.fset, s.X); got != "args.Modules[0].GetApps()" {
					x.unk("Execute: the loop ranges over %s", got)
				}
				if len(s.Body.List) != 1 {
					x.unk("Execute: the loop body is not a single if")
					continue
				}
				sel, ok := s.Body.List[0].(*ast.IfStmt)
				if !ok {
					x.unk("Execute: the loop body is not a single if")
					continue
				}
				selectCond = ecText(gf.fset, sel.Cond)
				for _, b := range sel.Body.List {
					switch bs := b.(type) {
					case *ast.AssignStmt:
						t := ecText(gf.fset, bs)
						switch {
						case strings.HasPrefix(t, "outputFileName :="):
							if t != `outputFileName := cmdutils.MakeFormatParser(p.out).LabelApp(appName, "", syslApp.GetAttrs())` {
								x.unk("Execute: %s", t)
							}
						case strings.HasPrefix(t, "err :="):
							if t != "err := p.writeSwaggerForApp(args.Filesystem, outputFileName, syslApp, args.Logger)" {
								x.unk("Execute: %s", t)
							}
						default:
							x.unk("Execute: %s", t)
						}
					case *ast.IfStmt:
						t := ecText(gf.fset, bs.Cond)
						switch {
						case strings.Contains(t, "outputFileName == "):
							infixCond = t
							for _, is := range bs.Body.List {
								if as, ok := is.(*ast.AssignStmt); ok && isIdent(as.Lhs[0], "outputFileName") {
									infixExpr = ecText(gf.fset, as.Rhs[0])
								} else if as, ok := is.(*ast.AssignStmt); !ok || ecText(gf.fset, as) != "ext := filepath.Ext(outputFileName)" {
									x.unk("Execute: %s", ecText(gf.fset, is))
								}
							}
						case t == "err != nil", strings.HasSuffix(t, "err != nil"):
						default:
							x.unk("Execute: if %s", t)
						}
					case *ast.IncDecStmt, *ast.ExprStmt:
					default:
						x.unk("Execute: %s", ecText(gf.fset, b))
					}
				}
			}
		}
	}

	// ---- writeSwaggerForApp
	switchField := "?"
	var branches []string
	if fd := etFindFunc(gf, "exportCmd", "writeSwaggerForApp"); fd == nil {
		x.unk("writeSwaggerForApp not found")
	} else {
		wrote := false
		for _, st := range fd.Body.List {
			if sw, ok := st.(*ast.SwitchStmt); ok {
				switchField = recvField(fd, sw.Tag)
				if switchField == "" {
					x.unk("writeSwaggerForApp: switch on %s", ecText(gf.fset, sw.Tag))
					switchField = "?"
				}
				for _, cl := range sw.Body.List {
					cc := cl.(*ast.CaseClause)
					if cc.List == nil {
						if len(cc.Body) != 1 {
							x.unk("writeSwaggerForApp: default arm")
						} else if r, ok := cc.Body[0].(*ast.ReturnStmt); !ok || len(r.Results) != 1 || isIdent(r.Results[0], "nil") {
							x.unk("writeSwaggerForApp: the default arm does not return an error")
						}
						continue
					}
					exp, argf, nser := "?", "?", 0
					for _, b := range cc.Body {
						ast.Inspect(b, func(n ast.Node) bool {
							c, ok := n.(*ast.CallExpr)
							if !ok {
								return true
							}
							ch := selChain(c.Fun)
							if len(ch) == 2 && ch[0] == "exporter" {
								switch ch[1] {
								case "MakeSwaggerExporter":
									exp = "swagger"
								case "MakeOpenAPI3Exporter":
									exp = "openapi3"
								}
							}
							if len(ch) == 2 && ch[1] == "SerializeOutput" && len(c.Args) > 0 {
								nser++
								if f := recvField(fd, c.Args[len(c.Args)-1]); f != "" {
									argf = f
								} else {
									x.unk("writeSwaggerForApp: SerializeOutput is handed %s", ecText(gf.fset, c.Args[len(c.Args)-1]))
								}
							}
							return true
						})
					}
					if exp == "?" || nser != 1 {
						x.unk("writeSwaggerForApp: an arm without exporter or without exactly one SerializeOutput")
					}
					for _, le := range cc.List {
						branches = append(branches, fmt.Sprintf("(%s, (%s, %s))", etStr(str(le, "writeSwaggerForApp: label")), etStr(exp), etStr(argf)))
					}
				}
			}
			ast.Inspect(st, func(n ast.Node) bool {
				if c, ok := n.(*ast.CallExpr); ok {
					if ch := selChain(c.Fun); len(ch) == 2 && ch[0] == "afero" && ch[1] == "WriteFile" {
						wrote = true
						if len(c.Args) < 3 || ecText(gf.fset, c.Args[0]) != "fs" || ecText(gf.fset, c.Args[1]) != "filename" || ecText(gf.fset, c.Args[2]) != "output" {
							x.unk("writeSwaggerForApp: afero.WriteFile is not (fs, filename, output, ..)")
						}
					}
				}
				return true
			})
		}
		if !wrote {
			x.unk("writeSwaggerForApp: no afero.WriteFile")
		}
	}

	var b strings.Builder
	b.WriteString("(* GENERATED by translate/exportcli.go from cmd/sysl/cmd_export.go - do not edit *)\n")
	b.WriteString("From Coq Require Import String List.\nImport ListNotations.\nRequire Import Verif.Export.CliExport.\nLocal Open Scope string_scope.\n\n")
	fmt.Fprintf(&b, "Definition cli_tables_of_source : cli_tables := {|\n  c_flags := [%s];\n  c_ext_modes := [%s];\n  c_mode_arg := %s;\n  c_mode_dest := %s;\n  c_transform := [%s];\n  c_switch_field := %s;\n  c_branches := [%s];\n  c_select := %s;\n  c_infix_cond := %s;\n  c_infix_expr := %s\n|}.\n\n",
		strings.Join(flags, "; "), strings.Join(extModes, "; "), etStr(modeArg), etStr(modeDest), strings.Join(transform, "; "), etStr(switchField),
		strings.Join(branches, "; "), etStr(selectCond), etStr(infixCond), etStr(infixExpr))
	var us []string
	for _, u := range x.unknown {
		us = append(us, etStr(u))
	}
	fmt.Fprintf(&b, "Definition cli_unknown : list string := [%s].\n", strings.Join(us, "; "))
	return b.String(), nil
}
