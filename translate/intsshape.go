package main

import (
	"fmt"
	"go/ast"
	"go/token"
	"go/types"
	"strings"
)

// IntsShape: the shape facts of pkg/integrationdiagram/ints_builder.go (+ deps.go) that the model of C14
// (theories/Ints/IntsModel.v) was transliterated from, re-read from the source on every run:
//
//	seed_filter        the conjuncts under which a listed name becomes a seed (defined / not human / not excluded)
//	passes             the three loops of MakeBuilderfromStmt: which app list, sorted endpoint names, collector
//	                   endpoint skipped, which handler
//	handler_pep, handler_my_callers, handler_indirect
//	                   per handler, IN SOURCE ORDER: the early-return guards (excluded source/target, target not a
//	                   seed / not final, target human), AddCall unless the target endpoint is hidden (read through the
//	                   nil-safe getters apps[t].GetEndpoints()[e].GetAttrs(); the dereferencing form is Unknown), the append to
//	                   FinalApps (of source or target), the call of WalkPassthrough
//	walk_passthrough   WalkPassthrough: test on Passthroughs, the "already being expanded" guard, recursion
//	process_calls      ProcessCalls: statement kind -> handler / skip / recurse / recurse into every choice / panic
//	add_call_shape     AddCall: key from dep.String(), skip if present, insert, append
//	dep_key            deps.go String(): the four fields of the key, in order
//	views_loop         GenerateIntegrations: per view own exclude / passthrough attributes, a fresh union handed to
//	                   a fresh builder, diagram parameters from that builder, shared exclude set otherwise untouched
//
// A statement or condition that is not recognised becomes ...Unknown and the reflexivity lemmas of
// Ints/Shape.v stop checking. Expressions are compared in the canonical spelling of go/types.ExprString after
// renaming the receiver and the parameters.
func init() { register("IntsShape", intsShape) }

func intsX(e ast.Expr) string { return types.ExprString(e) }

// intsStripParens removes redundant parentheses
func intsStripParens(e ast.Expr) ast.Expr {
	for {
		p, ok := e.(*ast.ParenExpr)
		if !ok {
			return e
		}
		e = p.X
	}
}

func intsSplit(e ast.Expr, op token.Token) []ast.Expr {
	e = intsStripParens(e)
	if b, ok := e.(*ast.BinaryExpr); ok && b.Op == op {
		return append(intsSplit(b.X, op), intsSplit(b.Y, op)...)
	}
	return []ast.Expr{e}
}

func intsIsBareReturn(b *ast.BlockStmt) bool {
	if b == nil || len(b.List) != 1 {
		return false
	}
	r, ok := b.List[0].(*ast.ReturnStmt)
	return ok && len(r.Results) == 0
}

type intsHandlerCtx struct {
	recv, src, ep, stmt string // receiver, 1st, 2nd, 3rd parameter
	call, tgt           string // names bound to t.GetCall() and syslutil.GetAppName(call.GetTarget())
}

func (h *intsHandlerCtx) who(name string) string {
	switch name {
	case h.src:
		return "Src"
	case h.tgt:
		if h.tgt != "" {
			return "Tgt"
		}
	}
	return ""
}

// guard classifies one disjunct of an `if cond { return }`
func (h *intsHandlerCtx) guard(e ast.Expr) string {
	s := intsX(intsStripParens(e))
	r := h.recv
	for _, w := range []string{h.src, h.tgt} {
		if w == "" {
			continue
		}
		switch s {
		case r + ".Excludes.Contains(" + w + ")":
			return "GExcluded " + h.who(w)
		case "!" + r + ".SeedAppsMap.Contains(" + w + ")":
			return "GNotSeed " + h.who(w)
		case "!" + r + ".FinalAppsMap.Contains(" + w + ")":
			return "GNotFinal " + h.who(w)
		case "syslutil.HasPattern(" + r + ".M.GetApps()[" + w + "].GetAttrs(), \"human\")":
			return "GHuman " + h.who(w)
		}
	}
	return "StepUnknown"
}

func intsHandler(fd *ast.FuncDecl) []string {
	if fd == nil || fd.Body == nil {
		return []string{"StepUnknown"}
	}
	h := &intsHandlerCtx{recv: recvVar(fd)}
	var ps []string
	for _, f := range fd.Type.Params.List {
		for _, n := range f.Names {
			ps = append(ps, n.Name)
		}
	}
	if len(ps) != 3 || h.recv == "" {
		return []string{"StepUnknown"}
	}
	h.src, h.ep, h.stmt = ps[0], ps[1], ps[2]
	var out []string
	for _, st := range fd.Body.List {
		switch s := st.(type) {
		case *ast.AssignStmt:
			if len(s.Lhs) != 1 || len(s.Rhs) != 1 {
				out = append(out, "StepUnknown")
				continue
			}
			lhs, rhs := intsX(s.Lhs[0]), intsX(s.Rhs[0])
			switch {
			case s.Tok == token.DEFINE && rhs == h.stmt+".GetCall()":
				h.call = lhs
			case s.Tok == token.DEFINE && h.call != "" && rhs == "syslutil.GetAppName("+h.call+".GetTarget())":
				h.tgt = lhs
			case s.Tok == token.ASSIGN && lhs == h.recv+".FinalApps":
				w := ""
				for _, c := range []string{h.src, h.tgt} {
					if c != "" && rhs == "append("+h.recv+".FinalApps, "+c+")" {
						w = h.who(c)
					}
				}
				if w == "" {
					out = append(out, "StepUnknown")
				} else {
					out = append(out, "AppendFinal "+w)
				}
			default:
				out = append(out, "StepUnknown")
			}
		case *ast.IfStmt:
			if s.Init != nil || s.Else != nil {
				out = append(out, "StepUnknown")
				continue
			}
			if intsIsBareReturn(s.Body) {
				// `if a || b { return }` is the same as two guards in that order
				for _, d := range intsSplit(s.Cond, token.LOR) {
					out = append(out, h.guard(d))
				}
				continue
			}
			addCall := h.recv + ".AddCall(" + h.src + ", " + h.ep + ", " + h.stmt + ")"
			hidden := "!syslutil.HasPattern(" + h.recv + ".M.GetApps()[" + h.tgt + "].GetEndpoints()[" + h.call + ".Endpoint].GetAttrs(), \"hidden\")"
			if h.tgt != "" && intsX(intsStripParens(s.Cond)) == hidden && len(s.Body.List) == 1 {
				if es, ok := s.Body.List[0].(*ast.ExprStmt); ok && intsX(es.X) == addCall {
					out = append(out, "AddUnlessHidden")
					continue
				}
			}
			out = append(out, "StepUnknown")
		case *ast.ExprStmt:
			x := intsX(s.X)
			switch {
			case x == h.recv+".AddCall("+h.src+", "+h.ep+", "+h.stmt+")":
				out = append(out, "AddAlways")
			case h.tgt != "" && x == h.recv+".WalkPassthrough("+h.tgt+", "+h.call+".Endpoint)":
				out = append(out, "WalkPass")
			default:
				out = append(out, "StepUnknown")
			}
		default:
			out = append(out, "StepUnknown")
		}
	}
	return out
}

func intsWalk(fd *ast.FuncDecl) []string {
	if fd == nil || fd.Body == nil || len(fd.Body.List) != 1 {
		return []string{"WUnknown"}
	}
	recv := recvVar(fd)
	var ps []string
	for _, f := range fd.Type.Params.List {
		for _, n := range f.Names {
			ps = append(ps, n.Name)
		}
	}
	is, ok := fd.Body.List[0].(*ast.IfStmt)
	if !ok || len(ps) != 2 || is.Init != nil || is.Else != nil || intsX(is.Cond) != recv+".Passthroughs.Contains("+ps[0]+")" {
		return []string{"WUnknown"}
	}
	app, ep := ps[0], ps[1]
	out := []string{"WIfPassthrough"}
	key, set, endpt := "", "", ""
	for _, st := range is.Body.List {
		switch s := st.(type) {
		case *ast.AssignStmt:
			if len(s.Lhs) == 1 && len(s.Rhs) == 1 {
				lhs, rhs := intsX(s.Lhs[0]), intsX(s.Rhs[0])
				if s.Tok == token.DEFINE && intsIsAppElement(s.Rhs[0], app, ep) {
					key = lhs
					out = append(out, "WKeyAppEp")
					continue
				}
				if s.Tok == token.DEFINE && rhs == recv+".M.GetApps()["+app+"].GetEndpoints()["+ep+"]" {
					endpt = lhs
					continue
				}
				if s.Tok == token.ASSIGN && key != "" && set != "" && lhs == recv+"."+set+"["+key+"]" && rhs == "struct{}{}" {
					out = append(out, "WMarkActive")
					continue
				}
			}
			out = append(out, "WUnknown")
		case *ast.IfStmt:
			// if _, active := b.<set>[key]; active { return }
			if as, ok := s.Init.(*ast.AssignStmt); ok && key != "" && s.Else == nil && intsIsBareReturn(s.Body) &&
				as.Tok == token.DEFINE && len(as.Lhs) == 2 && len(as.Rhs) == 1 && intsX(as.Lhs[0]) == "_" && intsX(as.Lhs[1]) == intsX(s.Cond) {
				r := intsX(as.Rhs[0])
				if strings.HasPrefix(r, recv+".") && strings.HasSuffix(r, "["+key+"]") {
					f := strings.TrimSuffix(strings.TrimPrefix(r, recv+"."), "["+key+"]")
					if !strings.ContainsAny(f, ".[(") && (set == "" || set == f) {
						set = f
						out = append(out, "WSkipIfActive")
						continue
					}
				}
			}
			// if b.<set> == nil { b.<set> = map[AppElement]struct{}{} }
			if s.Init == nil && s.Else == nil && set != "" && intsX(s.Cond) == recv+"."+set+" == nil" && len(s.Body.List) == 1 {
				if as, ok := s.Body.List[0].(*ast.AssignStmt); ok && len(as.Lhs) == 1 && intsX(as.Lhs[0]) == recv+"."+set && len(as.Rhs) == 1 {
					if cl, ok := as.Rhs[0].(*ast.CompositeLit); ok && len(cl.Elts) == 0 {
						out = append(out, "WInitSet")
						continue
					}
				}
			}
			out = append(out, "WUnknown")
		case *ast.DeferStmt:
			// defer delete(b.<set>, key); when it comes BEFORE the re-entrancy test it is what names the set
			call := intsX(s.Call)
			if key != "" && set == "" && strings.HasPrefix(call, "delete("+recv+".") && strings.HasSuffix(call, ", "+key+")") {
				if f := strings.TrimSuffix(strings.TrimPrefix(call, "delete("+recv+"."), ", "+key+")"); !strings.ContainsAny(f, ".[(, ") {
					set = f
				}
			}
			if key != "" && set != "" && call == "delete("+recv+"."+set+", "+key+")" {
				out = append(out, "WDeferUnmark")
			} else {
				out = append(out, "WUnknown")
			}
		case *ast.ExprStmt:
			if endpt != "" && intsX(s.X) == "ProcessCalls("+app+", "+ep+", "+endpt+".GetStmt(), "+recv+".ProcessExcludeAndPassthrough)" {
				out = append(out, "WRecursePep")
			} else {
				out = append(out, "WUnknown")
			}
		default:
			out = append(out, "WUnknown")
		}
	}
	return out
}

// AppElement{Name: app, Endpoint: ep} (or positional)
func intsIsAppElement(e ast.Expr, app, ep string) bool {
	cl, ok := e.(*ast.CompositeLit)
	if !ok || intsX(cl.Type) != "AppElement" || len(cl.Elts) != 2 {
		return false
	}
	want := []string{"Name", "Endpoint"}
	vals := []string{app, ep}
	for i, el := range cl.Elts {
		if kv, ok := el.(*ast.KeyValueExpr); ok {
			if intsX(kv.Key) != want[i] || intsX(kv.Value) != vals[i] {
				return false
			}
		} else if intsX(el) != vals[i] {
			return false
		}
	}
	return true
}

// x.(type)
func intsIsTypeSwitchOn(e ast.Expr, x string) bool {
	ta, ok := e.(*ast.TypeAssertExpr)
	return ok && ta.Type == nil && intsX(ta.X) == x
}

func intsProcessCalls(fd *ast.FuncDecl) []string {
	bad := []string{`("?", ArmUnknown)`}
	if fd == nil || fd.Body == nil || len(fd.Body.List) != 1 {
		return bad
	}
	var ps []string
	for _, f := range fd.Type.Params.List {
		for _, n := range f.Names {
			ps = append(ps, n.Name)
		}
	}
	rs, ok := fd.Body.List[0].(*ast.RangeStmt)
	if !ok || len(ps) != 4 || intsX(rs.X) != ps[2] || rs.Value == nil || len(rs.Body.List) != 1 {
		return bad
	}
	app, ep, fn, stmt := ps[0], ps[1], ps[3], intsX(rs.Value)
	ts, ok := rs.Body.List[0].(*ast.TypeSwitchStmt)
	if !ok {
		return bad
	}
	tv := ""
	if as, ok := ts.Assign.(*ast.AssignStmt); ok && len(as.Lhs) == 1 && len(as.Rhs) == 1 && intsIsTypeSwitchOn(as.Rhs[0], stmt+".GetStmt()") {
		tv = intsX(as.Lhs[0])
	} else {
		return bad
	}
	var out []string
	for _, c := range ts.Body.List {
		cc := c.(*ast.CaseClause)
		arm := "ArmUnknown"
		var kinds []string
		for _, t := range cc.List {
			k := intsX(t)
			if !strings.HasPrefix(k, "*sysl.Statement_") {
				kinds = append(kinds, "?"+k)
			} else {
				kinds = append(kinds, strings.TrimPrefix(k, "*sysl.Statement_"))
			}
		}
		if cc.List == nil {
			kinds = []string{"default"}
		}
		if len(cc.Body) == 1 {
			switch b := cc.Body[0].(type) {
			case *ast.ExprStmt:
				x := intsX(b.X)
				switch {
				case x == fn+"("+app+", "+ep+", "+stmt+")":
					arm = "ArmHandler"
				case len(kinds) == 1 && x == "ProcessCalls("+app+", "+ep+", "+tv+"."+kinds[0]+".GetStmt(), "+fn+")":
					arm = "ArmRecurse"
				case containsPanic(b) && strings.HasPrefix(x, "panic("):
					arm = "ArmPanic"
				}
			case *ast.BranchStmt:
				if b.Tok == token.CONTINUE && b.Label == nil {
					arm = "ArmSkip"
				}
			case *ast.RangeStmt:
				if len(kinds) == 1 && b.Value != nil && intsX(b.X) == tv+"."+kinds[0]+".GetChoice()" && len(b.Body.List) == 1 {
					if es, ok := b.Body.List[0].(*ast.ExprStmt); ok && intsX(es.X) == "ProcessCalls("+app+", "+ep+", "+intsX(b.Value)+".GetStmt(), "+fn+")" {
						arm = "ArmChoices"
					}
				}
			}
		}
		for _, k := range kinds {
			out = append(out, fmt.Sprintf("(%q, %s)", k, arm))
		}
	}
	return out
}

func intsAddCall(fd *ast.FuncDecl) []string {
	if fd == nil || fd.Body == nil {
		return []string{"AUnknown"}
	}
	recv := recvVar(fd)
	dep, key := "", ""
	var out []string
	for _, st := range fd.Body.List {
		switch s := st.(type) {
		case *ast.AssignStmt:
			if len(s.Lhs) != 1 || len(s.Rhs) != 1 {
				out = append(out, "AUnknown")
				continue
			}
			lhs, rhs := intsX(s.Lhs[0]), intsX(s.Rhs[0])
			if cl, ok := s.Rhs[0].(*ast.CompositeLit); ok && s.Tok == token.DEFINE && intsX(cl.Type) == "AppDependency" {
				dep = lhs
				continue
			}
			switch {
			case s.Tok == token.DEFINE && (strings.HasSuffix(rhs, ".GetCall()") || strings.HasPrefix(rhs, "syslutil.GetAppName(")):
			case s.Tok == token.DEFINE && dep != "" && rhs == dep+".String()":
				key = lhs
				out = append(out, "AKeyFromString")
			case s.Tok == token.ASSIGN && dep != "" && lhs == recv+".DepsOut" && rhs == "append("+recv+".DepsOut, "+dep+")":
				out = append(out, "AAppendDep")
			default:
				out = append(out, "AUnknown")
			}
		case *ast.IfStmt:
			ok := false
			if as, isAs := s.Init.(*ast.AssignStmt); isAs && key != "" && s.Else == nil && intsIsBareReturn(s.Body) && len(as.Lhs) == 2 && len(as.Rhs) == 1 &&
				intsX(as.Lhs[0]) == "_" && intsX(as.Lhs[1]) == intsX(s.Cond) && intsX(as.Rhs[0]) == recv+".Deps["+key+"]" {
				ok = true
			}
			if ok {
				out = append(out, "ASkipIfPresent")
			} else {
				out = append(out, "AUnknown")
			}
		case *ast.ExprStmt:
			if key != "" && intsX(s.X) == recv+".Deps.Insert("+key+")" {
				out = append(out, "AInsertKey")
			} else {
				out = append(out, "AUnknown")
			}
		default:
			out = append(out, "AUnknown")
		}
	}
	return out
}

func intsDepKey(fd *ast.FuncDecl) []string {
	if fd == nil || fd.Body == nil || len(fd.Body.List) != 1 {
		return []string{"KUnknown"}
	}
	recv := recvVar(fd)
	rs, ok := fd.Body.List[0].(*ast.ReturnStmt)
	if !ok || len(rs.Results) != 1 {
		return []string{"KUnknown"}
	}
	c, ok := rs.Results[0].(*ast.CallExpr)
	if !ok || intsX(c.Fun) != "fmt.Sprintf" || len(c.Args) < 1 {
		return []string{"KUnknown"}
	}
	f, ok := strLit(c.Args[0])
	if !ok || f != strings.TrimSuffix(strings.Repeat("%s:", len(c.Args)-1), ":") {
		return []string{"KUnknown"}
	}
	var out []string
	for _, a := range c.Args[1:] {
		switch intsX(a) {
		case recv + ".Self.Name":
			out = append(out, "KSelfName")
		case recv + ".Self.Endpoint":
			out = append(out, "KSelfEp")
		case recv + ".Target.Name":
			out = append(out, "KTargetName")
		case recv + ".Target.Endpoint":
			out = append(out, "KTargetEp")
		default:
			out = append(out, "KUnknown")
		}
	}
	return out
}

// intsMake reads MakeBuilderfromStmt: the seed filter and the three passes
func intsMake(fd *ast.FuncDecl, sortedSliceSorts bool) (seed []string, passes []string) {
	if fd == nil || fd.Body == nil {
		return []string{"SeedUnknown"}, []string{"{| p_apps := OverUnknown; p_eps_sorted := false; p_skip_collector := false; p_handler := \"?\" |}"}
	}
	var ps []string
	for _, f := range fd.Type.Params.List {
		for _, n := range f.Names {
			ps = append(ps, n.Name)
		}
	}
	if len(ps) != 4 {
		return []string{"SeedUnknown"}, nil
	}
	stmts, excl := ps[1], ps[2]
	b, apps, collector := "", "", ""
	sorted := map[string]bool{}      // identifiers passed to sort.Strings so far
	rangedMap := map[string]string{} // name list -> map it collects the keys of
	seedSeen := false
	for _, st := range fd.Body.List {
		switch s := st.(type) {
		case *ast.AssignStmt:
			if len(s.Lhs) != 1 || len(s.Rhs) != 1 {
				continue
			}
			lhs, rhs := intsX(s.Lhs[0]), intsX(s.Rhs[0])
			if u, ok := s.Rhs[0].(*ast.UnaryExpr); ok && u.Op == token.AND && s.Tok == token.DEFINE {
				if cl, ok := u.X.(*ast.CompositeLit); ok && intsX(cl.Type) == "IntsBuilder" {
					b = lhs
				}
			}
			if s.Tok == token.DEFINE && b != "" && rhs == b+".M.GetApps()" {
				apps = lhs
			}
			if s.Tok == token.DEFINE && rhs == "endpointWildcard" {
				collector = lhs
			}
		case *ast.ExprStmt:
			if c, ok := s.X.(*ast.CallExpr); ok && intsX(c.Fun) == "sort.Strings" && len(c.Args) == 1 {
				sorted[intsX(c.Args[0])] = true
			}
		case *ast.RangeStmt:
			x := intsX(s.X)
			// the seed loop
			if x == stmts && s.Value != nil {
				seedSeen = true
				seed = intsSeedLoop(s, b, apps, excl)
				continue
			}
			// `for appname := range apps { appsNames = append(appsNames, appname) }`
			if x == apps && s.Key != nil && s.Value == nil && len(s.Body.List) == 1 {
				if as, ok := s.Body.List[0].(*ast.AssignStmt); ok && len(as.Lhs) == 1 && len(as.Rhs) == 1 &&
					intsX(as.Rhs[0]) == "append("+intsX(as.Lhs[0])+", "+intsX(s.Key)+")" {
					rangedMap[intsX(as.Lhs[0])] = apps
					continue
				}
			}
			// a pass
			if s.Value == nil {
				passes = append(passes, "{| p_apps := OverUnknown; p_eps_sorted := false; p_skip_collector := false; p_handler := \"?\" |}")
				continue
			}
			src := "OverUnknown"
			switch {
			case x == b+".SeedApps":
				src = "OverSeeds"
			case x == b+".FinalApps":
				src = "OverFinal"
			case rangedMap[x] == apps && sorted[x]:
				src = "OverAllSorted"
			}
			appname := intsX(s.Value)
			epsSorted, skip, handler := false, false, "?"
			appv := ""
			for _, st2 := range s.Body.List {
				switch s2 := st2.(type) {
				case *ast.AssignStmt:
					if len(s2.Lhs) == 1 && len(s2.Rhs) == 1 && s2.Tok == token.DEFINE && intsX(s2.Rhs[0]) == apps+"["+appname+"]" {
						appv = intsX(s2.Lhs[0])
					}
				case *ast.RangeStmt:
					if appv == "" || s2.Value == nil || len(s2.Body.List) != 1 {
						continue
					}
					epname := intsX(s2.Value)
					epsSorted = sortedSliceSorts && intsX(s2.X) == "sortedSlice("+appv+".GetEndpoints())"
					body := s2.Body.List
					if is, ok := body[0].(*ast.IfStmt); ok && is.Init == nil && is.Else == nil && collector != "" && intsX(is.Cond) == epname+" != "+collector {
						skip = true
						body = is.Body.List
					}
					endpt := ""
					for _, st3 := range body {
						switch s3 := st3.(type) {
						case *ast.AssignStmt:
							if len(s3.Lhs) == 1 && len(s3.Rhs) == 1 && intsX(s3.Rhs[0]) == appv+".GetEndpoints()["+epname+"]" {
								endpt = intsX(s3.Lhs[0])
							}
						case *ast.ExprStmt:
							pre := "ProcessCalls(" + appname + ", " + epname + ", " + endpt + ".GetStmt(), " + b + "."
							if x3 := intsX(s3.X); endpt != "" && strings.HasPrefix(x3, pre) && strings.HasSuffix(x3, ")") {
								handler = strings.TrimSuffix(strings.TrimPrefix(x3, pre), ")")
							}
						}
					}
				}
			}
			passes = append(passes, fmt.Sprintf("{| p_apps := %s; p_eps_sorted := %s; p_skip_collector := %s; p_handler := %q |}", src, coqBoolInts(epsSorted), coqBoolInts(skip), handler))
		}
	}
	if !seedSeen {
		seed = []string{"SeedUnknown"}
	}
	return seed, passes
}

func coqBoolInts(b bool) string {
	if b {
		return "true"
	}
	return "false"
}

// for _, stmt := range stmts { if a, ok := stmt.Stmt.(*sysl.Statement_Action); ok { app := apps[a.Action.Action]; if COND { seed } } }
func intsSeedLoop(rs *ast.RangeStmt, b, apps, excl string) []string {
	bad := []string{"SeedUnknown"}
	if len(rs.Body.List) != 1 {
		return bad
	}
	outer, ok := rs.Body.List[0].(*ast.IfStmt)
	if !ok || outer.Else != nil {
		return bad
	}
	as, ok := outer.Init.(*ast.AssignStmt)
	if !ok || len(as.Lhs) != 2 || len(as.Rhs) != 1 || intsX(as.Rhs[0]) != intsX(rs.Value)+".Stmt.(*sysl.Statement_Action)" || intsX(outer.Cond) != intsX(as.Lhs[1]) {
		return bad
	}
	name := intsX(as.Lhs[0]) + ".Action.Action"
	if len(outer.Body.List) != 2 {
		return bad
	}
	bind, ok := outer.Body.List[0].(*ast.AssignStmt)
	if !ok || len(bind.Lhs) != 1 || len(bind.Rhs) != 1 || intsX(bind.Rhs[0]) != apps+"["+name+"]" {
		return bad
	}
	app := intsX(bind.Lhs[0])
	inner, ok := outer.Body.List[1].(*ast.IfStmt)
	if !ok || inner.Init != nil || inner.Else != nil {
		return bad
	}
	// the body must add the name to SeedApps and FinalApps
	want := map[string]bool{
		b + ".SeedApps = append(" + b + ".SeedApps, " + name + ")":   false,
		b + ".FinalApps = append(" + b + ".FinalApps, " + name + ")": false,
	}
	for _, st := range inner.Body.List {
		a, ok := st.(*ast.AssignStmt)
		if !ok || len(a.Lhs) != 1 || len(a.Rhs) != 1 {
			return bad
		}
		k := intsX(a.Lhs[0]) + " = " + intsX(a.Rhs[0])
		if _, ok := want[k]; !ok {
			return bad
		}
		want[k] = true
	}
	for _, v := range want {
		if !v {
			return bad
		}
	}
	var out []string
	for _, c := range intsSplit(inner.Cond, token.LAND) {
		switch intsX(intsStripParens(c)) {
		case app + " != nil":
			out = append(out, "SeedDefined")
		case "!syslutil.HasPattern(" + app + ".GetAttrs(), \"human\")":
			out = append(out, "SeedNotHuman")
		case "!" + excl + ".Contains(" + name + ")", "!" + b + ".Excludes.Contains(" + name + ")":
			out = append(out, "SeedNotExcluded")
		default:
			out = append(out, "SeedUnknown")
		}
	}
	return out
}

// intsViewsLoop reads GenerateIntegrations (integrationdiagram.go): inside the loop over the project's endpoints,
// every view must take its own `exclude` / `passthrough` attributes, hand MakeBuilderfromStmt a FRESH union
// shared.Union(own) (never the shared set itself), take the diagram's parameters from the builder it has just
// made, and must not touch the shared set in any other statement.
func intsViewsLoop(fd *ast.FuncDecl) []string {
	if fd == nil || fd.Body == nil {
		return []string{"VUnknown"}
	}
	shared := ""
	var loop *ast.RangeStmt
	for _, st := range fd.Body.List {
		switch s := st.(type) {
		case *ast.AssignStmt:
			if len(s.Lhs) == 1 && len(s.Rhs) == 1 && s.Tok == token.DEFINE {
				if c, ok := s.Rhs[0].(*ast.CallExpr); ok && intsX(c.Fun) == "syslutil.MakeStrSet" {
					shared = intsX(s.Lhs[0])
				}
			}
		case *ast.RangeStmt:
			if strings.Contains(intsX(s.X), ".GetEndpoints()") {
				loop = s
			}
		}
	}
	if shared == "" || loop == nil {
		return []string{"VUnknown"}
	}
	var out []string
	endpt, own, pass, bld, param := "", "", "", "", ""
	for _, st := range loop.Body.List {
		known := false
		if as, ok := st.(*ast.AssignStmt); ok && len(as.Lhs) == 1 && len(as.Rhs) == 1 {
			lhs, rhs := intsX(as.Lhs[0]), intsX(as.Rhs[0])
			switch {
			case as.Tok == token.DEFINE && strings.HasSuffix(rhs, ".GetEndpoints()["+intsX(loop.Value)+"]") && loop.Value != nil:
				endpt, known = lhs, true
			case as.Tok == token.DEFINE && endpt != "" && rhs == "syslutil.MakeStrSetFromAttr(\"exclude\", "+endpt+".GetAttrs())":
				own, known = lhs, true
				out = append(out, "VOwnExcludes")
			case as.Tok == token.DEFINE && endpt != "" && rhs == "syslutil.MakeStrSetFromAttr(\"passthrough\", "+endpt+".GetAttrs())":
				pass, known = lhs, true
				out = append(out, "VOwnPassthrough")
			case as.Tok == token.DEFINE && strings.HasPrefix(rhs, "MakeBuilderfromStmt("):
				bld, known = lhs, true
				if own != "" && pass != "" && strings.HasSuffix(rhs, ", "+endpt+".GetStmt(), "+shared+".Union("+own+"), "+pass+")") {
					out = append(out, "VBuildFreshUnion")
				} else {
					out = append(out, "VUnknown")
				}
			case as.Tok == token.DEFINE && bld != "" && strings.HasPrefix(rhs, "&IntsParam{"):
				param, known = lhs, true
				ok := false
				if u, isU := as.Rhs[0].(*ast.UnaryExpr); isU {
					if cl, isC := u.X.(*ast.CompositeLit); isC && len(cl.Elts) == 5 &&
						intsX(cl.Elts[0]) == bld+".FinalApps" && intsX(cl.Elts[1]) == bld+".SeedAppsMap" && intsX(cl.Elts[2]) == bld+".DepsOut" && intsX(cl.Elts[4]) == endpt {
						ok = true
					}
				}
				if ok {
					out = append(out, "VParamsFromThisBuilder")
				} else {
					out = append(out, "VUnknown")
				}
			case as.Tok == token.ASSIGN && param != "" && strings.HasPrefix(rhs, "GenerateView(") && strings.Contains(rhs, ", "+param+", "):
				known = true
				out = append(out, "VRender")
			}
		}
		if !known && mentions(st, shared) {
			out = append(out, "VSharedTouched")
		}
	}
	return out
}

// sortedSlice must collect the keys and sort them
func intsSortedSliceSorts(fd *ast.FuncDecl) bool {
	if fd == nil || fd.Body == nil {
		return false
	}
	sorts := false
	ast.Inspect(fd.Body, func(n ast.Node) bool {
		if c, ok := n.(*ast.CallExpr); ok && intsX(c.Fun) == "sort.Strings" {
			sorts = true
		}
		return true
	})
	return sorts
}

func intsShape(repo string) (string, error) {
	gf, err := parseGo(repo, "pkg/integrationdiagram/ints_builder.go")
	if err != nil {
		return "", err
	}
	df, err := parseGo(repo, "pkg/integrationdiagram/deps.go")
	if err != nil {
		return "", err
	}
	byName := map[string]*ast.FuncDecl{}
	for _, fd := range funcDecls(gf.file) {
		byName[recvName(fd)+"."+fd.Name.Name] = fd
	}
	for _, fd := range funcDecls(df.file) {
		byName[recvName(fd)+"."+fd.Name.Name] = fd
	}
	vf, err := parseGo(repo, "pkg/integrationdiagram/integrationdiagram.go")
	if err != nil {
		return "", err
	}
	for _, fd := range funcDecls(vf.file) {
		byName[recvName(fd)+"."+fd.Name.Name] = fd
	}
	seed, passes := intsMake(byName[".MakeBuilderfromStmt"], intsSortedSliceSorts(byName[".sortedSlice"]))
	list := func(xs []string) string { return "[" + strings.Join(xs, "; ") + "]" }
	var sb strings.Builder
	sb.WriteString("(* GENERATED by vt IntsShape from pkg/integrationdiagram/ints_builder.go and deps.go -- do not edit *)\n")
	sb.WriteString("From Coq Require Import List String.\nImport ListNotations.\nRequire Import Verif.Ints.ShapeTypes.\nLocal Open Scope string_scope.\n")
	fmt.Fprintf(&sb, "Definition seed_filter : list seedcond := %s.\n", list(seed))
	fmt.Fprintf(&sb, "Definition passes : list pass := [\n  %s\n].\n", strings.Join(passes, ";\n  "))
	fmt.Fprintf(&sb, "Definition handler_pep : list step := %s.\n", list(intsHandler(byName["IntsBuilder.ProcessExcludeAndPassthrough"])))
	fmt.Fprintf(&sb, "Definition handler_my_callers : list step := %s.\n", list(intsHandler(byName["IntsBuilder.MyCallers"])))
	fmt.Fprintf(&sb, "Definition handler_indirect : list step := %s.\n", list(intsHandler(byName["IntsBuilder.IndirectCalls"])))
	fmt.Fprintf(&sb, "Definition walk_passthrough : list wstep := %s.\n", list(intsWalk(byName["IntsBuilder.WalkPassthrough"])))
	fmt.Fprintf(&sb, "Definition process_calls : list (string * arm) := %s.\n", list(intsProcessCalls(byName[".ProcessCalls"])))
	fmt.Fprintf(&sb, "Definition add_call_shape : list astep := %s.\n", list(intsAddCall(byName["IntsBuilder.AddCall"])))
	fmt.Fprintf(&sb, "Definition dep_key : list keyfield := %s.\n", list(intsDepKey(byName["AppDependency.String"])))
	fmt.Fprintf(&sb, "Definition views_loop : list vstep := %s.\n", list(intsViewsLoop(byName[".GenerateIntegrations"])))
	return sb.String(), nil
}
