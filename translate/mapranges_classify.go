package main

import (
	"go/ast"
	"go/types"
)

func classifyRange(si *srcImporter, info *types.Info, fd *ast.FuncDecl, rs *ast.RangeStmt) (string, string) {
	return "Other", ""
}
