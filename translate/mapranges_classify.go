package main

// Shape classification of one `for ... range <map>` statement (C19).
//
// The loop body (through if / switch / blocks / nested loops) is reduced to a set of effect kinds:
//
//	append   x = append(x, ...)  or  m[k] = append(m[k], ...)       (ordered accumulation into x / m)
//	store    m[k] = v, delete(m, k)                                  (map-to-map)
//	write    fmt.Fprint*(w, ...), x.WriteString/Write/WriteByte/WriteRune(...), x += <non-constant>
//	assign   x = v for an x declared outside the loop (last writer wins)
//	count    x++ / x-- / x += <integer literal> on an outer variable
//	call     any other call used as a statement (effect not visible here)
//	log      a call on a logger (Warnf, Infof, ...): diagnostics, not output
//	exit     break out of the loop / return that is not an error return (first entry met wins)
//	probe    return of constants only (true/false/nil/literals): an exists/forall test
//	flag     x = <constant> for an outer x that receives this one constant only in the loop (found = true)
//
// Calls in expression position (right-hand sides, conditions) are taken to be effect-free, except a call
// whose only results are `err` / `_` (made for its effect: counted as call); x = make(...) is ignored; error exits
// (`if err != nil { return ... }`, panic) are ignored: which error is reported first is outside C19.
//
// Classes, in order of precedence:
//
//	Emit         write / assign / exit, or an append whose target is not sorted afterwards in the function
//	Delegate     a call statement and none of the above
//	CollectSort  appends only to targets that are sorted after the loop (sort.Strings/Ints/Slice/SliceStable/
//	             Sort/Stable, a .Sort*() method on the target, or a local helper whose name starts with
//	             "sort" taking the target first), possibly with map stores
//	MapInsert    map stores / deletes only
//	LogOnly      logger calls only
//	Reduce       counters / probes / flags only
//	NoEffect     nothing visible
import (
	"go/ast"
	"go/token"
	"go/types"
	"sort"
	"strings"
)

type effects struct {
	appends map[string]bool // printed target expression
	kinds   map[string]bool
}

var writeMethods = map[string]bool{"WriteString": true, "Write": true, "WriteByte": true, "WriteRune": true,
	"Fprintf": true, "Fprint": true, "Fprintln": true, "Printf": true, "Println": true, "Print": true}
var logMethods = map[string]bool{"Warnf": true, "Warn": true, "Warnln": true, "Infof": true, "Info": true, "Infoln": true,
	"Debugf": true, "Debug": true, "Debugln": true, "Errorf": true, "Error": true, "Errorln": true, "Tracef": true, "Trace": true}

func isLoggerExpr(e ast.Expr) bool {
	ch := selChain(e)
	if len(ch) == 0 {
		return false
	}
	last := strings.ToLower(ch[len(ch)-1])
	return last == "log" || last == "logger" || last == "logrus"
}

// baseIdent returns the leftmost identifier of x, x.f, x[i], *x, (x)
func baseIdent(e ast.Expr) *ast.Ident {
	for {
		switch x := e.(type) {
		case *ast.Ident:
			return x
		case *ast.SelectorExpr:
			e = x.X
		case *ast.IndexExpr:
			e = x.X
		case *ast.StarExpr:
			e = x.X
		case *ast.ParenExpr:
			e = x.X
		default:
			return nil
		}
	}
}

func classifyRange(si *srcImporter, info *types.Info, fd *ast.FuncDecl, rs *ast.RangeStmt) (string, string) {
	ef := &effects{appends: map[string]bool{}, kinds: map[string]bool{}}
	// declaredInside: objects defined within the loop statement (key/value variables, locals)
	inside := func(id *ast.Ident) bool {
		obj := info.Uses[id]
		if obj == nil {
			obj = info.Defs[id]
		}
		if obj == nil {
			return false
		}
		return obj.Pos() >= rs.Pos() && obj.Pos() <= rs.End()
	}
	isErrReturn := func(stack []ast.Node) bool {
		// innermost enclosing if whose condition mentions `err` / `!ok`-style failure: `x != nil`
		for i := len(stack) - 1; i >= 0; i-- {
			if is, ok := stack[i].(*ast.IfStmt); ok {
				cond := nodeSrc(si, is.Cond)
				if strings.Contains(cond, "err") && strings.Contains(cond, "!= nil") {
					return true
				}
			}
			if stack[i] == ast.Node(rs) {
				break
			}
		}
		return false
	}
	flags := map[string]string{}  // target -> the one constant assigned to it
	nonConst := map[string]bool{} // targets that also receive a non-constant
	var stack []ast.Node
	loopDepth := 0 // nested for/range/switch/select statements between rs and the current node (break binds to them)
	var walk func(n ast.Node)
	walkList := func(l []ast.Stmt) {
		for _, s := range l {
			walk(s)
		}
	}
	walk = func(n ast.Node) {
		if n == nil {
			return
		}
		stack = append(stack, n)
		defer func() { stack = stack[:len(stack)-1] }()
		switch s := n.(type) {
		case *ast.BlockStmt:
			walkList(s.List)
		case *ast.IfStmt:
			walk(s.Init)
			walk(s.Body)
			if s.Else != nil {
				walk(s.Else)
			}
		case *ast.SwitchStmt:
			walk(s.Init)
			loopDepth++
			walk(s.Body)
			loopDepth--
		case *ast.TypeSwitchStmt:
			walk(s.Init)
			loopDepth++
			walk(s.Body)
			loopDepth--
		case *ast.CaseClause:
			walkList(s.Body)
		case *ast.ForStmt:
			walk(s.Init)
			walk(s.Post)
			loopDepth++
			walk(s.Body)
			loopDepth--
		case *ast.RangeStmt:
			loopDepth++
			walk(s.Body)
			loopDepth--
		case *ast.LabeledStmt:
			walk(s.Stmt)
		case *ast.DeclStmt, *ast.EmptyStmt:
		case *ast.IncDecStmt:
			if id := baseIdent(s.X); id != nil && !inside(id) {
				ef.kinds["count"] = true
			}
		case *ast.AssignStmt:
			// err := f(...)  /  _ = f(...)  /  if err := f(...); err != nil: a call made for its effect
			if len(s.Rhs) == 1 {
				if _, isCall := s.Rhs[0].(*ast.CallExpr); isCall {
					onlyErr := true
					for _, lhs := range s.Lhs {
						id, ok := lhs.(*ast.Ident)
						if !ok || (id.Name != "_" && id.Name != "err") {
							onlyErr = false
						}
					}
					if onlyErr {
						ef.kinds["call"] = true
						return
					}
				}
			}
			if s.Tok == token.DEFINE {
				return
			}
			for i, lhs := range s.Lhs {
				if id, ok := lhs.(*ast.Ident); ok && id.Name == "_" {
					continue
				}
				var rhs ast.Expr
				if len(s.Rhs) == len(s.Lhs) {
					rhs = s.Rhs[i]
				} else if len(s.Rhs) == 1 {
					rhs = s.Rhs[0]
				}
				// x = append(x, ...)
				if call, ok := rhs.(*ast.CallExpr); ok && isIdent(call.Fun, "append") && s.Tok == token.ASSIGN {
					tgt := lhs
					if ix, ok := lhs.(*ast.IndexExpr); ok {
						if isMap, _ := isMapType(info.TypeOf(ix.X)); isMap {
							tgt = ix.X // m[k] = append(m[k], ...): ordered accumulation inside m
						}
					}
					if id := baseIdent(tgt); id != nil && inside(id) {
						continue
					}
					ef.appends[nodeSrc(si, tgt)] = true
					ef.kinds["append"] = true
					continue
				}
				if ix, ok := lhs.(*ast.IndexExpr); ok {
					if isMap, _ := isMapType(info.TypeOf(ix.X)); isMap {
						if id := baseIdent(ix.X); id != nil && inside(id) {
							continue
						}
						ef.kinds["store"] = true
						continue
					}
				}
				id := baseIdent(lhs)
				if id == nil || inside(id) {
					continue
				}
				if call, ok := rhs.(*ast.CallExpr); ok && isIdent(call.Fun, "make") {
					continue // x = make(...): allocation of an empty container (lazy initialisation)
				}
				switch s.Tok {
				case token.ASSIGN:
					// x = <constant>: a flag; order-independent as long as the loop writes one constant only to x
					if c, ok := constantSrc(rhs); ok {
						t := nodeSrc(si, lhs)
						if prev, seen := flags[t]; seen && prev != c {
							ef.kinds["assign"] = true
						}
						flags[t] = c
						ef.kinds["flag"] = true
						continue
					}
					nonConst[nodeSrc(si, lhs)] = true
					ef.kinds["assign"] = true
				case token.ADD_ASSIGN:
					if lit, ok := rhs.(*ast.BasicLit); ok && (lit.Kind == token.INT) {
						ef.kinds["count"] = true
					} else if lit, ok := rhs.(*ast.BasicLit); ok && lit.Kind == token.STRING && (lit.Value == `""` || lit.Value == "``") {
						// result += "" : no effect
					} else if b, ok := info.TypeOf(lhs).Underlying().(*types.Basic); ok && b.Info()&types.IsNumeric != 0 {
						ef.kinds["count"] = true // numeric sum: commutative
					} else {
						ef.kinds["write"] = true
					}
				default:
					ef.kinds["assign"] = true
				}
			}
		case *ast.ExprStmt:
			call, ok := s.X.(*ast.CallExpr)
			if !ok {
				return
			}
			if isIdent(call.Fun, "delete") {
				if len(call.Args) > 0 {
					if id := baseIdent(call.Args[0]); id != nil && inside(id) {
						return
					}
				}
				ef.kinds["store"] = true
				return
			}
			if isIdent(call.Fun, "panic") {
				return
			}
			if sel, ok := call.Fun.(*ast.SelectorExpr); ok {
				if logMethods[sel.Sel.Name] && isLoggerExpr(sel.X) {
					ef.kinds["log"] = true
					return
				}
				if writeMethods[sel.Sel.Name] {
					ef.kinds["write"] = true
					return
				}
				// method on a map-based set type (syslutil.StrSet.Insert/Remove): a map store
				if isMap, known := isMapType(info.TypeOf(sel.X)); known && isMap && (sel.Sel.Name == "Insert" || sel.Sel.Name == "Remove") {
					if id := baseIdent(sel.X); id == nil || !inside(id) {
						ef.kinds["store"] = true
					}
					return
				}
			}
			ef.kinds["call"] = true
		case *ast.GoStmt, *ast.DeferStmt, *ast.SendStmt:
			ef.kinds["call"] = true
		case *ast.ReturnStmt:
			if isErrReturn(stack) {
				return
			}
			// `return false` / `return true` / `return nil`: an exists/forall probe, the same whichever entry triggers it
			constant := len(s.Results) > 0
			for _, r := range s.Results {
				switch x := r.(type) {
				case *ast.BasicLit:
				case *ast.Ident:
					if x.Name != "true" && x.Name != "false" && x.Name != "nil" {
						constant = false
					}
				default:
					constant = false
				}
			}
			if constant {
				ef.kinds["probe"] = true
			} else {
				ef.kinds["exit"] = true
			}
		case *ast.BranchStmt:
			if s.Tok == token.BREAK && loopDepth == 0 && !isErrReturn(stack) {
				ef.kinds["exit"] = true
			}
			if s.Tok == token.GOTO {
				ef.kinds["exit"] = true
			}
		}
	}
	walk(rs.Body)
	for t := range flags {
		if nonConst[t] {
			ef.kinds["assign"] = true
		}
	}

	// which append targets are sorted after the loop, inside the same function?
	unsorted := []string{}
	for tgt := range ef.appends {
		if !sortedAfter(si, fd, rs, tgt) {
			unsorted = append(unsorted, tgt)
		}
	}
	sort.Strings(unsorted)
	var ks []string
	for k := range ef.kinds {
		ks = append(ks, k)
	}
	sort.Strings(ks)
	detail := strings.Join(ks, "+")
	if len(unsorted) > 0 {
		detail += " unsorted:" + strings.Join(unsorted, ",")
	}
	k := ef.kinds
	switch {
	case k["write"] || k["assign"] || k["exit"] || len(unsorted) > 0:
		return "Emit", detail
	case k["call"]:
		return "Delegate", detail
	case k["append"]:
		return "CollectSort", detail
	case k["store"]:
		return "MapInsert", detail
	case k["log"]:
		return "LogOnly", detail
	case k["count"] || k["probe"] || k["flag"]:
		return "Reduce", detail
	}
	return "NoEffect", detail
}

// constantSrc: true / false / nil / a basic literal
func constantSrc(e ast.Expr) (string, bool) {
	switch x := e.(type) {
	case *ast.BasicLit:
		return x.Value, true
	case *ast.Ident:
		if x.Name == "true" || x.Name == "false" || x.Name == "nil" {
			return x.Name, true
		}
	}
	return "", false
}

var sortFuncs = map[string]bool{"Strings": true, "Ints": true, "Float64s": true, "Slice": true, "SliceStable": true, "Sort": true, "Stable": true}

// sortedAfter: is there, after the loop and in the same function, a call sort.X(<expr mentioning tgt>, ...)
// or <tgt>.Sort...() or a local helper sort...(<tgt>, ...) ?
func sortedAfter(si *srcImporter, fd *ast.FuncDecl, rs *ast.RangeStmt, tgt string) bool {
	found := false
	ast.Inspect(fd.Body, func(n ast.Node) bool {
		call, ok := n.(*ast.CallExpr)
		if !ok || call.Pos() < rs.End() {
			return true
		}
		// a package-local helper named sort...(tgt, ...) (database.sortNamesByLine)
		if id, ok := call.Fun.(*ast.Ident); ok && len(call.Args) > 0 &&
			strings.HasPrefix(strings.ToLower(id.Name), "sort") && nodeSrc(si, call.Args[0]) == tgt {
			found = true
		}
		sel, ok := call.Fun.(*ast.SelectorExpr)
		if !ok {
			return true
		}
		if isIdent(sel.X, "sort") && sortFuncs[sel.Sel.Name] && len(call.Args) > 0 {
			arg := nodeSrc(si, call.Args[0])
			if arg == tgt || strings.Contains(arg, "("+tgt+")") {
				found = true
			}
		}
		if strings.HasPrefix(sel.Sel.Name, "Sort") && nodeSrc(si, sel.X) == tgt {
			found = true
		}
		return true
	})
	return found
}
