package main

import (
	"bytes"
	"fmt"
	"go/ast"
	"go/printer"
	"go/token"
	"regexp"
	"strconv"
	"strings"
)

// RelmodShape: shape facts of pkg/arrai/relmod/normalize.go the C17 model depends on.
//
//	child_index_mode   how normalizeChildren builds the position path of a child from the parent's:
//	                   ShareAppend = append(parent, i) on the parent slice itself (spare capacity shared between
//	                   siblings), CopyParent = a fresh slice per child, UnknownMode = anything else
//	alt_index_mode     the same for the row of an alt choice (statement.StmtIndex = ...)
//	children_visited   the statement kinds whose nested statements are handed to normalizeChildren
//	alt_visits_choice_children / alt_appends_choice_row
//	app_calls          the normalize* functions normalizeApp calls, in order
//	endpoint_calls     the normalize* functions normalizeEndpoint calls, in order
//	statement_appends  does normalizeStatement append the statement row / call normalizeStatementMeta on the non-alt path
func init() { register("RelmodShape", relmodShape) }

func exprStr(e ast.Expr) string {
	switch x := e.(type) {
	case *ast.Ident:
		return x.Name
	case *ast.SelectorExpr:
		return exprStr(x.X) + "." + x.Sel.Name
	case *ast.BasicLit:
		return x.Value
	}
	return "?"
}

func isCall(e ast.Expr, fn string, nargs int) (*ast.CallExpr, bool) {
	c, ok := e.(*ast.CallExpr)
	if !ok || exprStr(c.Fun) != fn || (nargs >= 0 && len(c.Args) != nargs) {
		return nil, false
	}
	return c, true
}

// isFreshCopyOf: e evaluates to a slice with the elements of parent and NO spare capacity shared with parent:
// parent[:len(parent):len(parent)], slices.Clip(parent), append([]int{}, parent...), append([]int(nil), parent...)
func isFreshCopyOf(e ast.Expr, parent string) bool {
	switch x := e.(type) {
	case *ast.SliceExpr:
		if !x.Slice3 || exprStr(x.X) != parent || x.Low != nil {
			return false
		}
		h, ok1 := isCall(x.High, "len", 1)
		m, ok2 := isCall(x.Max, "len", 1)
		return ok1 && ok2 && exprStr(h.Args[0]) == parent && exprStr(m.Args[0]) == parent
	case *ast.CallExpr:
		if c, ok := isCall(x, "slices.Clip", 1); ok {
			return exprStr(c.Args[0]) == parent
		}
		if c, ok := isCall(x, "slices.Clone", 1); ok {
			return exprStr(c.Args[0]) == parent
		}
		if c, ok := isCall(x, "append", 2); ok && c.Ellipsis != token.NoPos && exprStr(c.Args[1]) == parent {
			switch b := c.Args[0].(type) {
			case *ast.CompositeLit:
				return len(b.Elts) == 0
			case *ast.CallExpr: // []int(nil)
				return len(b.Args) == 1 && exprStr(b.Args[0]) == "nil"
			}
		}
	}
	return false
}

// helperMode: a package-level function f(parent []int, i int) []int that returns a fresh child path
func helperMode(fd *ast.FuncDecl) string {
	if fd == nil || fd.Body == nil || fd.Type.Params == nil {
		return "UnknownMode"
	}
	var ps []string
	for _, f := range fd.Type.Params.List {
		for _, n := range f.Names {
			ps = append(ps, n.Name)
		}
	}
	if len(ps) != 2 {
		return "UnknownMode"
	}
	l := fd.Body.List
	if len(l) == 1 {
		if r, ok := l[0].(*ast.ReturnStmt); ok && len(r.Results) == 1 {
			return indexMode(r.Results[0], ps[0], nil)
		}
	}
	// x := make([]int, len(p)+1); copy(x, p); x[len(p)] = i; return x
	if len(l) == 4 {
		as, ok := l[0].(*ast.AssignStmt)
		if !ok || len(as.Lhs) != 1 || len(as.Rhs) != 1 {
			return "UnknownMode"
		}
		x := exprStr(as.Lhs[0])
		mk, ok := isCall(as.Rhs[0], "make", 2)
		if !ok {
			return "UnknownMode"
		}
		be, ok := mk.Args[1].(*ast.BinaryExpr)
		if !ok || be.Op != token.ADD || exprStr(be.Y) != "1" {
			return "UnknownMode"
		}
		if ln, ok := isCall(be.X, "len", 1); !ok || exprStr(ln.Args[0]) != ps[0] {
			return "UnknownMode"
		}
		es, ok := l[1].(*ast.ExprStmt)
		if !ok {
			return "UnknownMode"
		}
		if cp, ok := isCall(es.X, "copy", 2); !ok || exprStr(cp.Args[0]) != x || exprStr(cp.Args[1]) != ps[0] {
			return "UnknownMode"
		}
		st, ok := l[2].(*ast.AssignStmt)
		if !ok || len(st.Lhs) != 1 || len(st.Rhs) != 1 || exprStr(st.Rhs[0]) != ps[1] {
			return "UnknownMode"
		}
		ix, ok := st.Lhs[0].(*ast.IndexExpr)
		if !ok || exprStr(ix.X) != x {
			return "UnknownMode"
		}
		if ln, ok := isCall(ix.Index, "len", 1); !ok || exprStr(ln.Args[0]) != ps[0] {
			return "UnknownMode"
		}
		if r, ok := l[3].(*ast.ReturnStmt); ok && len(r.Results) == 1 && exprStr(r.Results[0]) == x {
			return "CopyParent"
		}
	}
	return "UnknownMode"
}

// indexMode classifies the expression that builds a child's position path from `parent`.
func indexMode(e ast.Expr, parent string, funcs map[string]*ast.FuncDecl) string {
	c, ok := e.(*ast.CallExpr)
	if !ok {
		return "UnknownMode"
	}
	if exprStr(c.Fun) == "append" && len(c.Args) == 2 && c.Ellipsis == token.NoPos {
		if exprStr(c.Args[0]) == parent {
			return "ShareAppend"
		}
		if isFreshCopyOf(c.Args[0], parent) {
			return "CopyParent"
		}
		return "UnknownMode"
	}
	if id, ok := c.Fun.(*ast.Ident); ok && funcs != nil && len(c.Args) == 2 && exprStr(c.Args[0]) == parent {
		return helperMode(funcs[id.Name])
	}
	return "UnknownMode"
}

var kindOfGetter = map[string]string{"GetCond": "BCond", "GetLoop": "BLoop", "GetLoopN": "BLoopN", "GetForeach": "BForeach", "GetGroup": "BGroup"}

// calledNormalizers lists, in source order, the calls to functions named normalize* in body (closures included)
func calledNormalizers(body ast.Node) []string {
	var out []string
	ast.Inspect(body, func(n ast.Node) bool {
		if c, ok := n.(*ast.CallExpr); ok {
			if id, ok := c.Fun.(*ast.Ident); ok && strings.HasPrefix(id.Name, "normalize") {
				out = append(out, id.Name)
			}
		}
		return true
	})
	return out
}

func relmodShape(repo string) (string, error) {
	gf, err := parseGo(repo, "pkg/arrai/relmod/normalize.go")
	if err != nil {
		return "", err
	}
	funcs := map[string]*ast.FuncDecl{}
	for _, fd := range funcDecls(gf.file) {
		if fd.Recv == nil {
			funcs[fd.Name.Name] = fd
		}
	}
	ns := funcs["normalizeStatement"]
	if ns == nil {
		return "", fmt.Errorf("normalizeStatement not found")
	}
	var pnames []string
	for _, f := range ns.Type.Params.List {
		for _, n := range f.Names {
			pnames = append(pnames, n.Name)
		}
	}
	if len(pnames) != 6 {
		return "", fmt.Errorf("normalizeStatement: expected 6 parameters, found %d", len(pnames))
	}
	stmtParam, idxParam := pnames[4], pnames[5]

	childMode, altMode := "UnknownMode", "UnknownMode"
	var visited []string
	altChildren, altRow := false, false
	appendsRow, callsMeta := false, false

	// the closure normalizeChildren := func(children, parentIndex) error { for i, child := range children { normalizeStatement(..., <expr>) } }
	childrenFn := ""
	for _, st := range ns.Body.List {
		as, ok := st.(*ast.AssignStmt)
		if !ok || len(as.Lhs) != 1 || len(as.Rhs) != 1 {
			continue
		}
		lit, ok := as.Rhs[0].(*ast.FuncLit)
		if !ok {
			continue
		}
		var lp []string
		for _, f := range lit.Type.Params.List {
			for _, n := range f.Names {
				lp = append(lp, n.Name)
			}
		}
		nrec := 0
		ast.Inspect(lit.Body, func(n ast.Node) bool {
			if c, ok := n.(*ast.CallExpr); ok && exprStr(c.Fun) == "normalizeStatement" && len(c.Args) == 6 && len(lp) == 2 {
				nrec++
				if nrec == 1 {
					childMode = indexMode(c.Args[5], lp[1], funcs)
				} else {
					childMode = "UnknownMode"
				}
			}
			return true
		})
		if nrec > 0 {
			childrenFn = exprStr(as.Lhs[0])
			// the loop must visit every child: `for i, child := range children` with no continue/break and the call unconditional
			ok := false
			if len(lit.Body.List) >= 1 {
				if rs, isR := lit.Body.List[0].(*ast.RangeStmt); isR && exprStr(rs.X) == lp[0] && len(rs.Body.List) >= 1 {
					if a2, isA := rs.Body.List[0].(*ast.AssignStmt); isA && len(a2.Rhs) == 1 {
						if c, isC := a2.Rhs[0].(*ast.CallExpr); isC && exprStr(c.Fun) == "normalizeStatement" {
							ok = true
						}
					}
				}
			}
			if !ok {
				childMode = "UnknownMode"
			}
		}
	}
	if childrenFn == "" {
		return "", fmt.Errorf("normalizeStatement: the closure recursing over children was not found")
	}

	// top-level `if stmt.GetX() != nil { ... }` arms
	for _, st := range ns.Body.List {
		is, ok := st.(*ast.IfStmt)
		if !ok {
			// non-alt tail: s.Stmt = append(s.Stmt, statement) ; normalizeStatementMeta(...)
			if as, ok := st.(*ast.AssignStmt); ok && len(as.Lhs) == 1 && exprStr(as.Lhs[0]) == "s.Stmt" {
				if c, ok := isCall(as.Rhs[0], "append", 2); ok && exprStr(c.Args[0]) == "s.Stmt" {
					appendsRow = true
				}
			}
			if es, ok := st.(*ast.ExprStmt); ok {
				if c, ok := isCall(es.X, "normalizeStatementMeta", 5); ok && exprStr(c.Args[4]) == idxParam {
					callsMeta = true
				}
			}
			continue
		}
		getter := ""
		ast.Inspect(is.Cond, func(n ast.Node) bool {
			if c, ok := n.(*ast.CallExpr); ok && getter == "" {
				if se, ok := c.Fun.(*ast.SelectorExpr); ok && exprStr(se.X) == stmtParam {
					getter = se.Sel.Name
				}
			}
			return true
		})
		if k, ok := kindOfGetter[getter]; ok {
			// normalizeChildren(stmt.GetX().Stmt, stmtIndex)
			found := false
			ast.Inspect(is.Body, func(n ast.Node) bool {
				if c, ok := n.(*ast.CallExpr); ok && exprStr(c.Fun) == childrenFn && len(c.Args) == 2 && exprStr(c.Args[1]) == idxParam {
					if se, ok := c.Args[0].(*ast.SelectorExpr); ok && se.Sel.Name == "Stmt" {
						if g, ok := se.X.(*ast.CallExpr); ok && exprStr(g.Fun) == stmtParam+"."+getter {
							found = true
						}
					}
				}
				return true
			})
			if found {
				visited = append(visited, k)
			}
		}
		if getter == "GetAlt" {
			for _, s2 := range is.Body.List {
				rs, ok := s2.(*ast.RangeStmt)
				if !ok {
					continue
				}
				n := 0
				for _, s3 := range rs.Body.List {
					switch x := s3.(type) {
					case *ast.AssignStmt:
						if len(x.Lhs) == 1 && exprStr(x.Lhs[0]) == "statement.StmtIndex" && len(x.Rhs) == 1 {
							n++
							// after `statement = stmtSkeleton()` statement.StmtIndex IS stmtIndex: both spellings name the parent
							m := indexMode(x.Rhs[0], "statement.StmtIndex", funcs)
							if m == "UnknownMode" {
								m = indexMode(x.Rhs[0], idxParam, funcs)
							}
							if n == 1 {
								altMode = m
							} else {
								altMode = "UnknownMode"
							}
						}
						if len(x.Lhs) == 1 && exprStr(x.Lhs[0]) == "s.Stmt" {
							altRow = true
						}
					case *ast.IfStmt:
						ast.Inspect(x, func(nd ast.Node) bool {
							if c, ok := nd.(*ast.CallExpr); ok && exprStr(c.Fun) == childrenFn && len(c.Args) == 2 &&
								exprStr(c.Args[0]) == exprStr(rs.Value)+".Stmt" && exprStr(c.Args[1]) == "statement.StmtIndex" {
								altChildren = true
							}
							return true
						})
					}
				}
			}
		}
	}

	coqList := func(l []string, quote bool) string {
		it := make([]string, len(l))
		for i, s := range l {
			if quote {
				it[i] = fmt.Sprintf("%q", s)
			} else {
				it[i] = s
			}
		}
		return "[" + strings.Join(it, "; ") + "]"
	}
	b := func(x bool) string {
		if x {
			return "true"
		}
		return "false"
	}
	var appCalls, epCalls, evCalls []string
	if fd := funcs["normalizeApp"]; fd != nil {
		appCalls = calledNormalizers(fd.Body)
	}
	if fd := funcs["normalizeEndpoint"]; fd != nil {
		epCalls = calledNormalizers(fd.Body)
	}
	if fd := funcs["normalizeEvent"]; fd != nil {
		evCalls = calledNormalizers(fd.Body)
	}
	// every range statement: over sortedKeys(...), over a known slice, or flagged
	slices := map[string]bool{"m.Imports": true, "app.Mixin2": true, "ep.Param": true, "event.Param": true,
		"ep.RestParams.UrlParam": true, "ep.RestParams.QueryParam": true, "ep.Stmt": true, "children": true,
		"field.Constraint": true, "tags": true, "keys": true}
	var unsorted []string
	for _, fd := range funcDecls(gf.file) {
		if fd.Body == nil || fd.Name.Name == "sortedKeys" {
			continue
		}
		ast.Inspect(fd.Body, func(n ast.Node) bool {
			rs, ok := n.(*ast.RangeStmt)
			if !ok {
				return true
			}
			if c, ok := rs.X.(*ast.CallExpr); ok {
				if exprStr(c.Fun) == "sortedKeys" {
					return true
				}
				if se, ok := c.Fun.(*ast.SelectorExpr); ok && se.Sel.Name == "Choice" { // stmt.GetAlt().Choice
					return true
				}
			}
			if se, ok := rs.X.(*ast.SelectorExpr); ok && se.Sel.Name == "Choice" {
				return true
			}
			if slices[exprStr(rs.X)] {
				return true
			}
			unsorted = append(unsorted, fd.Name.Name+":"+exprStr(rs.X))
			return true
		})
	}
	var sb strings.Builder
	sb.WriteString("(* GENERATED by vt RelmodShape from pkg/arrai/relmod/normalize.go -- do not edit *)\n")
	sb.WriteString("From Coq Require Import List String.\nImport ListNotations.\nRequire Import Verif.Relmod.Model.\nLocal Open Scope string_scope.\n")
	fmt.Fprintf(&sb, "Definition child_index_mode : idx_mode := %s.\n", childMode)
	fmt.Fprintf(&sb, "Definition alt_index_mode : idx_mode := %s.\n", altMode)
	fmt.Fprintf(&sb, "Definition children_visited : list blockkind := %s.\n", coqList(visited, false))
	fmt.Fprintf(&sb, "Definition alt_visits_choice_children : bool := %s.\n", b(altChildren))
	fmt.Fprintf(&sb, "Definition alt_appends_choice_row : bool := %s.\n", b(altRow))
	fmt.Fprintf(&sb, "Definition statement_appends_row : bool := %s.\n", b(appendsRow))
	fmt.Fprintf(&sb, "Definition statement_calls_meta : bool := %s.\n", b(callsMeta))
	fmt.Fprintf(&sb, "Definition app_calls : list string := %s.\n", coqList(appCalls, true))
	fmt.Fprintf(&sb, "Definition endpoint_calls : list string := %s.\n", coqList(epCalls, true))
	fmt.Fprintf(&sb, "Definition event_calls : list string := %s.\n", coqList(evCalls, true))
	fmt.Fprintf(&sb, "Definition unsorted_map_ranges : list string := %s.\n", coqList(unsorted, true))
	pay, err := payloadShape(repo)
	if err != nil {
		return "", err
	}
	sb.WriteString(pay)
	// the type / field / view / parameter functions as Model.v transliterates them (which kinds of type get which row,
	// the constraint fold, what of a view is read), and the assembly of the transform input
	fmt.Fprintf(&sb, "Definition normalize_fn_text : list (string * string) := [%s].\n",
		strings.Join(fnTexts(gf, funcs, []string{"normalizeType", "normalizeField", "normalizeView", "normalizeParam"}), ";\n  "))
	tfuncs := map[string]*ast.FuncDecl{}
	tf, terr := parseGo(repo, "pkg/arrai/transform/utils.go")
	if terr == nil {
		for _, fd := range funcDecls(tf.file) {
			if fd.Recv == nil {
				tfuncs[fd.Name.Name] = fd
			}
		}
	}
	fmt.Fprintf(&sb, "Definition transform_fn_text : list (string * string) := [%s].\n",
		strings.Join(fnTexts(tf, tfuncs, []string{"BuildTransformInput", "buildModel"}), ";\n  "))
	return sb.String(), nil
}

// nilMode: what parseFieldType(appName, t) does with t == nil. NilGuarded: its first statement is `if t == nil { return nil }`;
// NilDeref: its first statement is the type switch on t.Type (a nil t is dereferenced); anything else: NilUnknown.
func nilMode(fd *ast.FuncDecl) string {
	if fd == nil || fd.Body == nil || len(fd.Body.List) == 0 || fd.Type.Params == nil || len(fd.Type.Params.List) != 2 ||
		len(fd.Type.Params.List[1].Names) != 1 {
		return "NilUnknown"
	}
	param := fd.Type.Params.List[1].Names[0].Name
	switch st := fd.Body.List[0].(type) {
	case *ast.IfStmt:
		be, isBin := st.Cond.(*ast.BinaryExpr)
		if st.Init == nil && st.Else == nil && isBin && be.Op == token.EQL && exprStr(be.X) == param && exprStr(be.Y) == "nil" && len(st.Body.List) == 1 {
			if r, ok := st.Body.List[0].(*ast.ReturnStmt); ok && len(r.Results) == 1 && exprStr(r.Results[0]) == "nil" {
				return "NilGuarded"
			}
		}
	case *ast.TypeSwitchStmt:
		if as, ok := st.Assign.(*ast.AssignStmt); ok && len(as.Rhs) == 1 {
			if ta, ok := as.Rhs[0].(*ast.TypeAssertExpr); ok && ta.Type == nil && exprStr(ta.X) == param+".Type" {
				return "NilDeref"
			}
		}
	}
	return "NilUnknown"
}

// fnTexts: go/printer text (comments dropped, blanks collapsed) of the named functions; "<missing>" for one not found
func fnTexts(gf *goFile, funcs map[string]*ast.FuncDecl, names []string) []string {
	var texts []string
	for _, fn := range names {
		txt := "<missing>"
		if fd := funcs[fn]; fd != nil && gf != nil {
			var buf bytes.Buffer
			fd.Doc = nil
			if err := printer.Fprint(&buf, gf.fset, fd); err == nil {
				txt = wsRE.ReplaceAllString(buf.String(), " ")
			}
		}
		texts = append(texts, fmt.Sprintf("(%s, %s)", coqString(fn), coqString(txt)))
	}
	return texts
}

// ---- pkg/arrai/relmod/relmod.go: the return-payload reader and the annotation value conversion ----
//
//	payload_grammar     how the PRIMITIVE rule of the embedded wbnf grammar is written (PrimChoice: an ordered choice of
//	                    string literals, PrimWord: one regular expression (?:a|b|...)\b) and its alternatives in order;
//	                    whether parseReturnPayload sorts the modifiers (ModsSorted) or hands over the order of arr.ai's
//	                    set export (ModsSetOrder); whether a name with several values is refused with an error
//	                    (DupRefused) or runs into the failing type assertion of ToStringInterfaceMap (DupPanics);
//	                    g_nil: whether parseFieldType guards a nil type (NilGuarded) or dereferences it (NilDeref)
//	payload_rules       the grammar text without the PRIMITIVE rule, blanks collapsed
//	payload_tx          the arr.ai function applied to the parse tree, blanks collapsed
//	payload_status_default  the status parseReturnPayload starts from
//	relmod_fn_text      go/printer text of unpackType, attrToValue, tags, annos, parseFieldType
var wsRE = regexp.MustCompile(`\s+`)

func coqString(s string) string { return "\"" + strings.ReplaceAll(s, "\"", "\"\"") + "\"" }

func rawStringAssigned(fd *ast.FuncDecl, name string) (string, bool) {
	out, found := "", false
	ast.Inspect(fd.Body, func(n ast.Node) bool {
		as, ok := n.(*ast.AssignStmt)
		if !ok || len(as.Lhs) != 1 || len(as.Rhs) != 1 || exprStr(as.Lhs[0]) != name {
			return true
		}
		if bl, ok := as.Rhs[0].(*ast.BasicLit); ok && bl.Kind == token.STRING {
			if v, err := strconv.Unquote(bl.Value); err == nil {
				out, found = v, true
			}
		}
		return true
	})
	return out, found
}

var primRuleRE = regexp.MustCompile(`(?s)PRIMITIVE\s*->\s*(.*?);`)
var primChoiceRE = regexp.MustCompile(`^"[^"\\|]+"(\s*\|\s*"[^"\\|]+")*$`)
var primWordRE = regexp.MustCompile(`^/\{\(\?:([A-Za-z0-9_]+(\|[A-Za-z0-9_]+)*)\)\\b\}$`)

func payloadShape(repo string) (string, error) {
	gf, err := parseGo(repo, "pkg/arrai/relmod/relmod.go")
	if err != nil {
		return "", err
	}
	funcs := map[string]*ast.FuncDecl{}
	for _, fd := range funcDecls(gf.file) {
		if fd.Recv == nil {
			funcs[fd.Name.Name] = fd
		}
	}
	bp := funcs["buildPayloadParser"]
	prp := funcs["parseReturnPayload"]
	if bp == nil || prp == nil {
		return "", fmt.Errorf("buildPayloadParser / parseReturnPayload not found")
	}
	parse, ok1 := rawStringAssigned(bp, "parse")
	tx, ok2 := rawStringAssigned(bp, "tx")
	if !ok1 || !ok2 {
		return "", fmt.Errorf("buildPayloadParser: the grammar / tx string literals were not found")
	}
	primMode, prims := "PrimUnknown", []string{}
	rules := parse
	if m := primRuleRE.FindStringSubmatchIndex(parse); m != nil {
		body := strings.TrimSpace(parse[m[2]:m[3]])
		rules = parse[:m[2]] + "<PRIMITIVE>" + parse[m[3]:]
		if primChoiceRE.MatchString(body) {
			primMode = "PrimChoice"
			for _, alt := range strings.Split(body, "|") {
				prims = append(prims, strings.Trim(strings.TrimSpace(alt), "\""))
			}
		} else if w := primWordRE.FindStringSubmatch(body); w != nil {
			primMode = "PrimWord"
			prims = strings.Split(w[1], "|")
		}
	}
	rules = strings.TrimSpace(wsRE.ReplaceAllString(rules, " "))
	tx = strings.TrimSpace(wsRE.ReplaceAllString(tx, " "))

	// parseReturnPayload: StatementReturnAttrs{Modifier: X, Nvp: Y}
	modsMode, dupMode, statusDefault := "ModsUnknown", "DupUnknown", ""
	assigned := map[string]ast.Expr{}
	sorted := map[string]bool{}
	guarded := false
	ast.Inspect(prp.Body, func(n ast.Node) bool {
		switch x := n.(type) {
		case *ast.AssignStmt:
			if len(x.Lhs) == 1 && len(x.Rhs) == 1 {
				if _, seen := assigned[exprStr(x.Lhs[0])]; !seen {
					assigned[exprStr(x.Lhs[0])] = x.Rhs[0]
				}
			}
		case *ast.ExprStmt:
			if c, ok := isCall(x.X, "sort.Strings", 1); ok {
				sorted[exprStr(c.Args[0])] = true
			}
		case *ast.IfStmt:
			// if _, ok := v.(rel.Value); !ok { return ..., <error> }
			if as, ok := x.Init.(*ast.AssignStmt); ok && len(as.Rhs) == 1 {
				if ta, ok := as.Rhs[0].(*ast.TypeAssertExpr); ok && ta.Type != nil && exprStr(ta.Type) == "rel.Value" {
					if u, ok := x.Cond.(*ast.UnaryExpr); ok && u.Op == token.NOT && len(x.Body.List) == 1 {
						if r, ok := x.Body.List[0].(*ast.ReturnStmt); ok && len(r.Results) == 2 && exprStr(r.Results[1]) != "nil" {
							guarded = true
						}
					}
				}
			}
		}
		return true
	})
	if bl, ok := assigned["status"].(*ast.BasicLit); ok && bl.Kind == token.STRING {
		statusDefault, _ = strconv.Unquote(bl.Value)
	}
	exportOf := func(e ast.Expr, key string) bool { // t.MustGet("<key>").Export(ctx)
		c, ok := e.(*ast.CallExpr)
		if !ok {
			return false
		}
		se, ok := c.Fun.(*ast.SelectorExpr)
		if !ok || se.Sel.Name != "Export" {
			return false
		}
		g, ok := se.X.(*ast.CallExpr)
		return ok && exprStr(g.Fun) == "t.MustGet" && len(g.Args) == 1 && exprStr(g.Args[0]) == strconv.Quote(key)
	}
	ast.Inspect(prp.Body, func(n ast.Node) bool {
		cl, ok := n.(*ast.CompositeLit)
		if !ok || exprStr(cl.Type) != "StatementReturnAttrs" {
			return true
		}
		for _, el := range cl.Elts {
			kv, ok := el.(*ast.KeyValueExpr)
			if !ok {
				continue
			}
			switch exprStr(kv.Key) {
			case "Modifier":
				if c, ok := isCall(kv.Value, "arrai.ToStrings", 1); ok && exportOf(c.Args[0], "modifier") {
					modsMode = "ModsSetOrder"
				} else if id, ok := kv.Value.(*ast.Ident); ok {
					if c, ok := isCall(assigned[id.Name], "arrai.ToStrings", 1); ok && exportOf(c.Args[0], "modifier") && sorted[id.Name] {
						modsMode = "ModsSorted"
					}
				}
			case "Nvp":
				if c, ok := isCall(kv.Value, "arrai.ToStringInterfaceMap", 1); ok {
					if exportOf(c.Args[0], "nvp") {
						dupMode = "DupPanics"
					} else if id, ok := c.Args[0].(*ast.Ident); ok && exportOf(assigned[id.Name], "nvp") && guarded {
						dupMode = "DupRefused"
					}
				}
			}
		}
		return true
	})

	var sb strings.Builder
	q := make([]string, len(prims))
	for i, p := range prims {
		q[i] = coqString(p)
	}
	fmt.Fprintf(&sb, "Definition payload_grammar : grammar := {| g_prim_mode := %s; g_prims := map bytes [%s]; g_mods := %s; g_dup := %s; g_nil := %s |}.\n",
		primMode, strings.Join(q, "; "), modsMode, dupMode, nilMode(funcs["parseFieldType"]))
	fmt.Fprintf(&sb, "Definition payload_rules : string := %s.\n", coqString(rules))
	fmt.Fprintf(&sb, "Definition payload_tx : string := %s.\n", coqString(tx))
	fmt.Fprintf(&sb, "Definition payload_status_default : string := %s.\n", coqString(statusDefault))
	var texts []string
	for _, fn := range []string{"unpackType", "attrToValue", "tags", "annos", "parseFieldType"} {
		txt := "<missing>"
		if fd := funcs[fn]; fd != nil {
			var buf bytes.Buffer
			fd.Doc = nil
			if err := printer.Fprint(&buf, gf.fset, fd); err == nil {
				txt = wsRE.ReplaceAllString(buf.String(), " ")
			}
		}
		texts = append(texts, fmt.Sprintf("(%s, %s)", coqString(fn), coqString(txt)))
	}
	fmt.Fprintf(&sb, "Definition relmod_fn_text : list (string * string) := [%s].\n", strings.Join(texts, ";\n  "))
	return sb.String(), nil
}
