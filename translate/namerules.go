package main

import (
	"bytes"
	"fmt"
	"go/ast"
	"go/printer"
	"go/token"
	"os"
	"path/filepath"
	"sort"
	"strconv"
	"strings"
)

// NameRules: what the source says about (a) the state of a parse.Parser across calls and (b) the construction of
// the NAME of an imported file, as statement texts (go/printer, white space normalised) for Imports/NameTables.v
// (property C05). Keyed by function and role, never by line number.
//
//	pkg/parse/parse.go          Settings (field names), (*Parser).Set, every function of the package that assigns
//	                            to a Settings field, Parse up to and including the flattenSpecs call, syslExt,
//	                            fileNameToIndex, localReadName, parseImports, collectSpecs: the branch taken by a
//	                            second claimer and the statements from the read to `fi.imports = children`
//	pkg/parse/listener_impl.go  newImportDef, EnterImport_stmt up to and including `id := newImportDef(filename)`
//	pkg/parse/utils.go          cleanImportFilename, importDir
//	pkg/parse/constants.go      syslExt
//	pkg/syslutil/helpers.go     IsRemoteImport, repoRegexp, GetRemoteRepoRoot
//	go.mod                      the version of github.com/anz-bank/golden-retriever (RemoteFs.IsRemote and its
//	                            resourceRegexp live there)
//
// A function that is not found yields the single line "<missing>", so the obligation fails.
func init() { register("NameRules", nameRules) }

func nrSrc(fset *token.FileSet, n ast.Node) string {
	var b bytes.Buffer
	printer.Fprint(&b, fset, n)
	return strings.Join(strings.Fields(b.String()), " ")
}

func nrCoq(s string) string { return "\"" + strings.ReplaceAll(s, "\"", "\"\"") + "\"" }

func nrList(ss []string) string {
	it := make([]string, len(ss))
	for i, s := range ss {
		it[i] = nrCoq(s)
	}
	return "[" + strings.Join(it, ";\n     ") + "]"
}

func nrFunc(f *goFile, recv, name string) *ast.FuncDecl {
	for _, fd := range funcDecls(f.file) {
		if fd.Name.Name == name && recvName(fd) == recv && fd.Body != nil {
			return fd
		}
	}
	return nil
}

func nrBody(f *goFile, recv, name string) []string {
	fd := nrFunc(f, recv, name)
	if fd == nil {
		return []string{"<missing>"}
	}
	var out []string
	for _, s := range fd.Body.List {
		out = append(out, nrSrc(f.fset, s))
	}
	return out
}

// the statements of a function up to and including the first one whose text starts with `last`
func nrUpTo(f *goFile, recv, name, last string) []string {
	all := nrBody(f, recv, name)
	for i, s := range all {
		if strings.HasPrefix(s, last) {
			return all[:i+1]
		}
	}
	return append(all, "<missing "+last+">")
}

// nrIsCleanStep: the normalisation statement of fileNameToIndex (used by ImportRules to skip it)
func nrIsCleanStep(f *goFile, s ast.Stmt, v string) bool {
	return nrSrc(f.fset, s) == fmt.Sprintf(`if syslutil.IsRemoteImport(%[1]s) { %[1]s = "/" + path.Clean(%[1]s) } else { %[1]s = path.Clean(%[1]s) }`, v)
}

func nrStringDecl(f *goFile, name string) string {
	for _, d := range f.file.Decls {
		gd, ok := d.(*ast.GenDecl)
		if !ok || (gd.Tok != token.CONST && gd.Tok != token.VAR) {
			continue
		}
		for _, sp := range gd.Specs {
			vs, ok := sp.(*ast.ValueSpec)
			if !ok {
				continue
			}
			for i, n := range vs.Names {
				if n.Name == name && i < len(vs.Values) {
					if l, ok := vs.Values[i].(*ast.BasicLit); ok && l.Kind == token.STRING {
						if s, err := strconv.Unquote(l.Value); err == nil {
							return s
						}
					}
				}
			}
		}
	}
	return "<missing>"
}

func nameRules(repo string) (string, error) {
	pf, err := parseGo(repo, "pkg/parse/parse.go")
	if err != nil {
		return "", err
	}
	lf, err := parseGo(repo, "pkg/parse/listener_impl.go")
	if err != nil {
		return "", err
	}
	uf, err := parseGo(repo, "pkg/parse/utils.go")
	if err != nil {
		return "", err
	}
	hf, err := parseGo(repo, "pkg/syslutil/helpers.go")
	if err != nil {
		return "", err
	}
	cf, err := parseGo(repo, "pkg/parse/constants.go")
	if err != nil {
		return "", err
	}

	// Settings: field names
	var fields []string
	for _, d := range pf.file.Decls {
		gd, ok := d.(*ast.GenDecl)
		if !ok || gd.Tok != token.TYPE {
			continue
		}
		for _, sp := range gd.Specs {
			ts := sp.(*ast.TypeSpec)
			if st, ok := ts.Type.(*ast.StructType); ok && ts.Name.Name == "Settings" {
				for _, fl := range st.Fields.List {
					for _, n := range fl.Names {
						fields = append(fields, n.Name)
					}
				}
			}
		}
	}
	isField := map[string]bool{"Settings": true}
	for _, f := range fields {
		isField[f] = true
	}

	// every function of package parse (tests excluded) that writes a Settings field: x.F = / x.F op= / x.F++ / &x.F
	writers := map[string]bool{}
	ents, err := os.ReadDir(filepath.Join(repo, "pkg/parse"))
	if err != nil {
		return "", err
	}
	for _, e := range ents {
		n := e.Name()
		if !strings.HasSuffix(n, ".go") || strings.HasSuffix(n, "_test.go") {
			continue
		}
		gf, err := parseGo(repo, "pkg/parse/"+n)
		if err != nil {
			return "", err
		}
		for _, fd := range funcDecls(gf.file) {
			if fd.Body == nil {
				continue
			}
			who := fd.Name.Name
			if r := recvName(fd); r != "" {
				who = r + "." + who
			}
			hit := func(e ast.Expr) {
				if se, ok := e.(*ast.SelectorExpr); ok && isField[se.Sel.Name] {
					writers[who] = true
				}
			}
			ast.Inspect(fd.Body, func(x ast.Node) bool {
				switch s := x.(type) {
				case *ast.AssignStmt:
					if s.Tok != token.DEFINE {
						for _, l := range s.Lhs {
							hit(l)
						}
					}
				case *ast.IncDecStmt:
					hit(s.X)
				case *ast.UnaryExpr:
					if s.Op == token.AND {
						hit(s.X)
					}
				}
				return true
			})
		}
	}
	var ws []string
	for w := range writers {
		ws = append(ws, w)
	}
	sort.Strings(ws)

	// collectSpecs: the second-claimer branch, and the statements from the read to the recording of the imports
	second := []string{"<missing>"}
	var readPart []string
	if fd := nrFunc(pf, "Parser", "collectSpecs"); fd != nil {
		in := false
		for _, s := range fd.Body.List {
			t := nrSrc(pf.fset, s)
			if is, ok := s.(*ast.IfStmt); ok && is.Init != nil && strings.Contains(nrSrc(pf.fset, is.Init), "retrieved.l[") {
				second = nil
				for _, b := range is.Body.List {
					second = append(second, nrSrc(pf.fset, b))
				}
			}
			if strings.Contains(t, "ReadHashBranch(") {
				in = true
			}
			if in {
				readPart = append(readPart, t)
			}
			if strings.HasPrefix(t, "fi.imports =") {
				break
			}
		}
	}
	if len(readPart) == 0 {
		readPart = []string{"<missing>"}
	}

	// go.mod: golden-retriever version
	retr := "<missing>"
	if gm, err := os.ReadFile(filepath.Join(repo, "go.mod")); err == nil {
		for _, l := range strings.Split(string(gm), "\n") {
			f := strings.Fields(l)
			for i := range f {
				if f[i] == "github.com/anz-bank/golden-retriever" && i+1 < len(f) {
					retr = f[i+1]
				}
			}
		}
	}

	var sb strings.Builder
	sb.WriteString("(* GENERATED by vt NameRules from pkg/parse/{parse,listener_impl,utils}.go, pkg/syslutil/helpers.go, go.mod -- do not edit *)\n")
	sb.WriteString("From Coq Require Import String List.\nImport ListNotations.\nRequire Import Verif.Imports.NameTables.\nLocal Open Scope string_scope.\n")
	sb.WriteString("Definition current_name_rules : name_rules := {|\n")
	fmt.Fprintf(&sb, "  settings_fields := %s;\n", nrList(fields))
	fmt.Fprintf(&sb, "  set_shape := %s;\n", nrList(nrBody(pf, "Parser", "Set")))
	fmt.Fprintf(&sb, "  settings_writers := %s;\n", nrList(ws))
	fmt.Fprintf(&sb, "  parse_collect_shape := %s;\n", nrList(nrUpTo(pf, "Parser", "Parse", "flattenSpecs(")))
	fmt.Fprintf(&sb, "  sysl_ext := %s;\n", nrCoq(nrStringDecl(cf, "syslExt")))
	fmt.Fprintf(&sb, "  index_shape := %s;\n", nrList(nrBody(pf, "", "fileNameToIndex")))
	fmt.Fprintf(&sb, "  clean_import_filename_shape := %s;\n", nrList(nrBody(uf, "", "cleanImportFilename")))
	fmt.Fprintf(&sb, "  local_read_name_shape := %s;\n", nrList(nrBody(pf, "", "localReadName")))
	fmt.Fprintf(&sb, "  parse_imports_shape := %s;\n", nrList(nrBody(pf, "", "parseImports")))
	fmt.Fprintf(&sb, "  second_claim_shape := %s;\n", nrList(second))
	fmt.Fprintf(&sb, "  collect_read_shape := %s;\n", nrList(readPart))
	fmt.Fprintf(&sb, "  new_import_def_shape := %s;\n", nrList(nrBody(lf, "", "newImportDef")))
	fmt.Fprintf(&sb, "  import_name_shape := %s;\n", nrList(nrUpTo(lf, "TreeShapeListener", "EnterImport_stmt", "id := newImportDef(")))
	fmt.Fprintf(&sb, "  import_dir_shape := %s;\n", nrList(nrBody(uf, "", "importDir")))
	fmt.Fprintf(&sb, "  is_remote_import_shape := %s;\n", nrList(nrBody(hf, "", "IsRemoteImport")))
	fmt.Fprintf(&sb, "  repo_regexp := %s;\n", nrCoq(nrStringDecl(hf, "repoRegexp")))
	fmt.Fprintf(&sb, "  remote_repo_root_shape := %s;\n", nrList(nrBody(hf, "", "GetRemoteRepoRoot")))
	fmt.Fprintf(&sb, "  retriever_version := %s\n|}.\n", nrCoq(retr))
	return sb.String(), nil
}
