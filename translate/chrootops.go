package main

import (
	"bytes"
	"fmt"
	"go/ast"
	"go/parser"
	"go/printer"
	"go/token"
	"os"
	"path/filepath"
	"sort"
	"strings"
)

// ChrootOps: for every method of syslutil.ChrootFs, for every string parameter, how the value
// travels to the inner filesystem (fs.fs.X(...)):
//
//	Checked    - result of fs.join, passed through `if err := fs.openAllowed(v); err != nil { return }`
//	             before the inner call (directly, or as the argument a checked wrapper hands to its callback)
//	JoinedOnly - result of fs.join, no dominating openAllowed test
//	Raw        - the parameter itself
//	Unknown    - anything else
func init() { register("ChrootOps", chrootOps) }

type scope struct {
	body   *ast.BlockStmt
	params []string
}

// classifyVar: how was identifier v (used at position pos inside function body b) obtained?
// returns class and the identifier it was derived from ("" if none)
func classifyVar(recv string, b *ast.BlockStmt, v string, pos token.Pos) (string, string) {
	class, src := "", ""
	ast.Inspect(b, func(n ast.Node) bool {
		if n == nil || n.Pos() >= pos {
			return n == nil || n.Pos() < pos
		}
		if _, isLit := n.(*ast.FuncLit); isLit {
			// a nested closure has its own scope unless it contains pos
			if !(n.Pos() <= pos && pos <= n.End()) {
				return false
			}
		}
		switch s := n.(type) {
		case *ast.AssignStmt:
			if len(s.Lhs) >= 1 && isIdent(s.Lhs[0], v) && len(s.Rhs) == 1 {
				if c, ok := s.Rhs[0].(*ast.CallExpr); ok {
					ch := selChain(c.Fun)
					if len(ch) == 2 && ch[0] == recv && ch[1] == "join" && len(c.Args) == 1 {
						if id, ok := c.Args[0].(*ast.Ident); ok {
							class, src = "JoinedOnly", id.Name
							return true
						}
					}
				}
				class, src = "Unknown", ""
			}
		case *ast.IfStmt:
			// if err := recv.openAllowed(v); err != nil { ... return ... }
			if as, ok := s.Init.(*ast.AssignStmt); ok && len(as.Lhs) == 1 && len(as.Rhs) == 1 {
				if c, ok := as.Rhs[0].(*ast.CallExpr); ok {
					ch := selChain(c.Fun)
					if len(ch) == 2 && ch[0] == recv && ch[1] == "openAllowed" && len(c.Args) == 1 && isIdent(c.Args[0], v) {
						errName := ""
						if id, ok := as.Lhs[0].(*ast.Ident); ok {
							errName = id.Name
						}
						be, ok := s.Cond.(*ast.BinaryExpr)
						good := ok && be.Op == token.NEQ && isIdent(be.X, errName) && isIdent(be.Y, "nil")
						hasRet := false
						for _, st := range s.Body.List {
							if _, ok := st.(*ast.ReturnStmt); ok {
								hasRet = true
							}
						}
						if good && hasRet && s.End() <= pos && class == "JoinedOnly" {
							class = "Checked"
						}
					}
				}
			}
		}
		return true
	})
	return class, src
}

func chrootOps(repo string) (string, error) {
	gf, err := parseGo(repo, "pkg/syslutil/chroot_fs.go")
	if err != nil {
		return "", err
	}
	methods := map[string]*ast.FuncDecl{}
	for _, fd := range funcDecls(gf.file) {
		if recvName(fd) == "ChrootFs" {
			methods[fd.Name.Name] = fd
		}
	}
	// 1. wrappers: methods taking (path string, fn func...) and calling fn(x): class of x
	wrapper := map[string]string{} // wrapper name -> class its callback argument has
	for name, fd := range methods {
		ps := fd.Type.Params.List
		if len(ps) != 2 || len(ps[0].Names) != 1 || len(ps[1].Names) != 1 {
			continue
		}
		if _, ok := ps[1].Type.(*ast.FuncType); !ok {
			continue
		}
		pathParam, fnParam := ps[0].Names[0].Name, ps[1].Names[0].Name
		recv := recvVar(fd)
		cls := "Unknown"
		n := 0
		ast.Inspect(fd.Body, func(nd ast.Node) bool {
			c, ok := nd.(*ast.CallExpr)
			if !ok || !isIdent(c.Fun, fnParam) || len(c.Args) != 1 {
				return true
			}
			n++
			if id, ok := c.Args[0].(*ast.Ident); ok {
				k, src := classifyVar(recv, fd.Body, id.Name, c.Pos())
				if id.Name == pathParam {
					k = "Raw"
				} else if src != pathParam {
					k = "Unknown"
				}
				if n == 1 {
					cls = k
				} else if cls != k {
					cls = "Unknown"
				}
			} else {
				cls = "Unknown"
			}
			return true
		})
		if n > 0 {
			wrapper[name] = cls
		}
	}
	// 2. operations
	type op struct {
		name string
		args []string
	}
	var ops []op
	for name, fd := range methods {
		if _, isW := wrapper[name]; isW {
			continue
		}
		recv := recvVar(fd)
		var strParams []string
		for _, f := range fd.Type.Params.List {
			if id, ok := f.Type.(*ast.Ident); ok && id.Name == "string" {
				for _, nm := range f.Names {
					strParams = append(strParams, nm.Name)
				}
			}
		}
		if len(strParams) == 0 {
			continue
		}
		classOf := map[string]string{}
		merge := func(p, k string) {
			if old, ok := classOf[p]; ok && old != k {
				k = "Unknown"
			}
			classOf[p] = k
		}
		reaches := false
		// walk, tracking the enclosing wrapper call of each closure
		var walk func(n ast.Node, encl []*ast.FuncLit, wrapOf map[*ast.FuncLit][2]string)
		wrapOf := map[*ast.FuncLit][2]string{} // closure -> (class, source param)
		ast.Inspect(fd.Body, func(nd ast.Node) bool {
			c, ok := nd.(*ast.CallExpr)
			if !ok {
				return true
			}
			ch := selChain(c.Fun)
			if len(ch) == 2 && ch[0] == recv {
				if wc, isW := wrapper[ch[1]]; isW && len(c.Args) == 2 {
					if lit, ok := c.Args[1].(*ast.FuncLit); ok {
						src := ""
						if id, ok := c.Args[0].(*ast.Ident); ok {
							src = id.Name
						}
						wrapOf[lit] = [2]string{wc, src}
					}
				}
			}
			return true
		})
		_ = walk
		var stack []ast.Node
		ast.Inspect(fd.Body, func(nd ast.Node) bool {
			if nd == nil {
				stack = stack[:len(stack)-1]
				return true
			}
			stack = append(stack, nd)
			c, ok := nd.(*ast.CallExpr)
			if !ok {
				return true
			}
			ch := selChain(c.Fun)
			if !(len(ch) == 3 && ch[0] == recv && ch[1] == "fs") {
				return true
			}
			reaches = true
			// innermost enclosing closure
			var lit *ast.FuncLit
			for i := len(stack) - 1; i >= 0; i-- {
				if l, ok := stack[i].(*ast.FuncLit); ok {
					lit = l
					break
				}
			}
			for _, a := range c.Args {
				id, ok := a.(*ast.Ident)
				if !ok {
					continue
				}
				// closure's first parameter?
				if lit != nil && len(lit.Type.Params.List) > 0 && len(lit.Type.Params.List[0].Names) > 0 &&
					lit.Type.Params.List[0].Names[0].Name == id.Name {
					if w, ok := wrapOf[lit]; ok {
						merge(w[1], w[0])
					} else {
						merge(id.Name, "Unknown")
					}
					continue
				}
				isParam := false
				for _, p := range strParams {
					if p == id.Name {
						isParam = true
					}
				}
				if isParam {
					merge(id.Name, "Raw")
					continue
				}
				var body *ast.BlockStmt = fd.Body
				if lit != nil {
					body = lit.Body
				}
				k, src := classifyVar(recv, body, id.Name, c.Pos())
				if k != "" && src != "" {
					merge(src, k)
				}
			}
			return true
		})
		if !reaches {
			continue
		}
		o := op{name: name}
		for _, p := range strParams {
			k, ok := classOf[p]
			if !ok {
				k = "Unknown"
			}
			o.args = append(o.args, k)
		}
		ops = append(ops, o)
	}
	sort.Slice(ops, func(i, j int) bool { return ops[i].name < ops[j].name })
	var sb strings.Builder
	sb.WriteString("(* GENERATED by vt ChrootOps from pkg/syslutil/chroot_fs.go -- do not edit *)\n")
	sb.WriteString("From Coq Require Import List String.\nImport ListNotations.\nRequire Import Verif.Chroot.Path.\nLocal Open Scope string_scope.\n")
	var wn []string
	for w := range wrapper {
		wn = append(wn, w)
	}
	sort.Strings(wn)
	sb.WriteString("Definition wrappers : list (string * argclass) := [")
	for i, w := range wn {
		if i > 0 {
			sb.WriteString("; ")
		}
		fmt.Fprintf(&sb, "(%q, %s)", w, wrapper[w])
	}
	sb.WriteString("].\n")
	sb.WriteString("Definition ops : list opdesc := [\n")
	for i, o := range ops {
		sep := ";"
		if i == len(ops)-1 {
			sep = ""
		}
		fmt.Fprintf(&sb, "  {| op_name := %q; op_args := [%s] |}%s\n", o.name, strings.Join(o.args, "; "), sep)
	}
	sb.WriteString("].\n")
	// state the wrapper could keep between two calls (the history model `run_history = map run_op` needs none)
	state := chrootState(repo, gf, methods)
	sb.WriteString("(* anything a ChrootFs could remember from one call to the next: struct fields other than fs/root,\n")
	sb.WriteString("   package-level variables declared in or used by chroot_fs.go, writes to / addresses of receiver fields in methods *)\n")
	sb.WriteString("Definition chroot_state : list string := [")
	for i, st := range state {
		if i > 0 {
			sb.WriteString("; ")
		}
		fmt.Fprintf(&sb, "%q", st)
	}
	sb.WriteString("].\n")
	if err := chrootPathFacts(repo, &sb); err != nil {
		return "", err
	}
	return sb.String(), nil
}

// chrootState lists, by name, everything through which a ChrootFs could carry information from one call to the next:
//
//	field:<name>        a struct field of ChrootFs other than fs / root (an embedded field is "field:(embedded)<type>")
//	fieldtype:<name>    fs or root declared with another type than afero.Fs / string
//	var:<name>          a package-level variable declared in chroot_fs.go (the blank `var _ afero.Fs = ...` assertion is none)
//	uses-var:<name>     a package-level variable of another file of package syslutil mentioned in chroot_fs.go
//	write:<method>.<f>  an assignment to / inc-dec of a receiver field (or of the receiver itself: field "*") in a method
//	addr:<method>.<f>   the address of a receiver field taken in a method
func chrootState(repo string, gf *goFile, methods map[string]*ast.FuncDecl) []string {
	var state []string
	sawStruct := false
	for _, d := range gf.file.Decls {
		gd, ok := d.(*ast.GenDecl)
		if !ok {
			continue
		}
		switch gd.Tok {
		case token.VAR:
			for _, sp := range gd.Specs {
				for _, nm := range sp.(*ast.ValueSpec).Names {
					if nm.Name != "_" {
						state = append(state, "var:"+nm.Name)
					}
				}
			}
		case token.TYPE:
			for _, sp := range gd.Specs {
				ts := sp.(*ast.TypeSpec)
				if ts.Name.Name != "ChrootFs" {
					continue
				}
				st, ok := ts.Type.(*ast.StructType)
				if !ok {
					state = append(state, "field:(ChrootFs is not a struct)")
					continue
				}
				sawStruct = true
				for _, f := range st.Fields.List {
					ty := strings.Join(selChain(f.Type), ".")
					if len(f.Names) == 0 {
						state = append(state, "field:(embedded)"+ty)
					}
					for _, nm := range f.Names {
						switch {
						case nm.Name == "fs" && ty == "afero.Fs", nm.Name == "root" && ty == "string":
						case nm.Name == "fs" || nm.Name == "root":
							state = append(state, "fieldtype:"+nm.Name)
						default:
							state = append(state, "field:"+nm.Name)
						}
					}
				}
			}
		}
	}
	if !sawStruct {
		state = append(state, "field:(struct ChrootFs not found)")
	}
	// package-level variables of the other files of the package that chroot_fs.go mentions
	others := map[string]bool{}
	dir := filepath.Join(repo, "pkg/syslutil")
	if ents, err := os.ReadDir(dir); err == nil {
		for _, e := range ents {
			n := e.Name()
			if !strings.HasSuffix(n, ".go") || strings.HasSuffix(n, "_test.go") || n == "chroot_fs.go" {
				continue
			}
			f, err := parser.ParseFile(token.NewFileSet(), filepath.Join(dir, n), nil, 0)
			if err != nil {
				state = append(state, "uses-var:(cannot parse "+n+")")
				continue
			}
			for _, d := range f.Decls {
				if gd, ok := d.(*ast.GenDecl); ok && gd.Tok == token.VAR {
					for _, sp := range gd.Specs {
						for _, nm := range sp.(*ast.ValueSpec).Names {
							if nm.Name != "_" {
								others[nm.Name] = true
							}
						}
					}
				}
			}
		}
	} else {
		state = append(state, "uses-var:(cannot list pkg/syslutil)")
	}
	seen := map[string]bool{}
	for _, fd := range funcDecls(gf.file) {
		if fd.Body == nil {
			continue
		}
		ast.Inspect(fd.Body, func(n ast.Node) bool {
			if sel, ok := n.(*ast.SelectorExpr); ok {
				// x.Sel: only x can be a package-level variable
				ast.Inspect(sel.X, func(m ast.Node) bool {
					if id, ok := m.(*ast.Ident); ok && id.Obj == nil && others[id.Name] && !seen[id.Name] {
						seen[id.Name] = true
						state = append(state, "uses-var:"+id.Name)
					}
					return true
				})
				return false
			}
			if id, ok := n.(*ast.Ident); ok && id.Obj == nil && others[id.Name] && !seen[id.Name] {
				seen[id.Name] = true
				state = append(state, "uses-var:"+id.Name)
			}
			return true
		})
	}
	// writes to the receiver inside methods
	var names []string
	for name := range methods {
		names = append(names, name)
	}
	sort.Strings(names)
	for _, name := range names {
		fd := methods[name]
		recv := recvVar(fd)
		if recv == "" || fd.Body == nil {
			continue
		}
		lhs := func(kind string, e ast.Expr) {
			if st, ok := e.(*ast.StarExpr); ok && isIdent(st.X, recv) {
				state = append(state, kind+":"+name+".*")
				return
			}
			// recv.f, recv.f.g, recv.f[i] ...
			for {
				switch x := e.(type) {
				case *ast.IndexExpr:
					e = x.X
					continue
				case *ast.StarExpr:
					e = x.X
					continue
				case *ast.ParenExpr:
					e = x.X
					continue
				}
				break
			}
			if ch := selChain(e); len(ch) >= 2 && ch[0] == recv {
				state = append(state, kind+":"+name+"."+ch[1])
			}
		}
		ast.Inspect(fd.Body, func(n ast.Node) bool {
			switch s := n.(type) {
			case *ast.AssignStmt:
				for _, l := range s.Lhs {
					lhs("write", l)
				}
			case *ast.IncDecStmt:
				lhs("write", s.X)
			case *ast.UnaryExpr:
				if s.Op == token.AND {
					lhs("addr", s.X)
				}
			case *ast.RangeStmt:
				if s.Key != nil {
					lhs("write", s.Key)
				}
				if s.Value != nil {
					lhs("write", s.Value)
				}
			}
			return true
		})
	}
	sort.Strings(state)
	return state
}

// c18CoqStr: a Go string as a Coq string literal (only printable ASCII is expected here)
func c18CoqStr(s string) string { return `"` + strings.ReplaceAll(s, `"`, `""`) + `"` }

func c18CoqStrList(l []string) string {
	q := make([]string, len(l))
	for i, s := range l {
		q[i] = c18CoqStr(s)
	}
	return "[" + strings.Join(q, "; ") + "]"
}

// the functions of chroot_fs.go through which a path travels before it reaches the inner filesystem
var chrootPathFuncs = []string{"NewChrootFs", "cleanPathForMemFs", "join", "openAllowed", "trimVolumeName", "wrapCall", "wrapCallWithData"}

// chrootPathFacts appends to Gen/ChrootOps.v what the byte-level model (Chroot/Bytes.v) takes for granted about the
// BODIES of the path functions:
//
//	path_shapes          for each function of chrootPathFuncs the go/printer text of its top-level statements, alpha-normalised
//	                     (receiver -> recv, parameters -> p0 p1.., locals -> v0 v1.. in order of appearance, string
//	                     literals longer than 4 bytes -> "<text>", white space collapsed). A function that is missing
//	                     has no entry.
//	open_allowed_calls   every function called in openAllowed (no case folding, no normalisation besides
//	                     filepath.Rel and strings.Split)
//	open_allowed_rel_args the operands of filepath.Rel in openAllowed ("recv.root" / "param" / other text)
//	chroot_type_tests    "<function>:<type>" for every type assertion and type switch case in chroot_fs.go
//	constructor_fs_uses  how NewChrootFs uses the filesystem it is given ("field:<f>" stored in the ChrootFs literal,
//	                     "arg:<callee>" passed on, "assert:<type>", "method:<name>", "assign", "other")
//	chroot_consts        the package-level constants of chroot_fs.go with their values
func chrootPathFacts(repo string, sb *strings.Builder) error {
	gf, err := parseGo(repo, "pkg/syslutil/chroot_fs.go") // an own copy: identifiers are renamed in place below
	if err != nil {
		return err
	}
	fds := map[string]*ast.FuncDecl{}
	for _, fd := range funcDecls(gf.file) {
		fds[fd.Name.Name] = fd
	}
	text := func(n ast.Node) string {
		var b bytes.Buffer
		printer.Fprint(&b, gf.fset, n)
		return strings.Join(strings.Fields(b.String()), " ")
	}
	calleeName := func(recv string, c *ast.CallExpr) string {
		ch := selChain(c.Fun)
		if ch == nil {
			return "(" + text(c.Fun) + ")"
		}
		if recv != "" && ch[0] == recv {
			ch = append([]string{"recv"}, ch[1:]...)
		}
		return strings.Join(ch, ".")
	}
	uniq := func(l []string) []string {
		sort.Strings(l)
		var out []string
		for i, s := range l {
			if i == 0 || l[i-1] != s {
				out = append(out, s)
			}
		}
		return out
	}
	// ---- facts read before the renaming ----
	var oaCalls, relArgs []string
	if fd := fds["openAllowed"]; fd != nil && fd.Body != nil {
		recv := recvVar(fd)
		param := ""
		if ps := fd.Type.Params.List; len(ps) == 1 && len(ps[0].Names) == 1 {
			param = ps[0].Names[0].Name
		}
		ast.Inspect(fd.Body, func(n ast.Node) bool {
			c, ok := n.(*ast.CallExpr)
			if !ok {
				return true
			}
			nm := calleeName(recv, c)
			oaCalls = append(oaCalls, nm)
			if nm == "filepath.Rel" {
				for _, a := range c.Args {
					ch := selChain(a)
					switch {
					case len(ch) == 2 && ch[0] == recv && ch[1] == "root":
						relArgs = append(relArgs, "recv.root")
					case len(ch) == 1 && ch[0] == param && param != "":
						relArgs = append(relArgs, "param")
					default:
						relArgs = append(relArgs, text(a))
					}
				}
			}
			return true
		})
		// the parameter must reach Rel as it came in
		ast.Inspect(fd.Body, func(n ast.Node) bool {
			if as, ok := n.(*ast.AssignStmt); ok {
				for _, l := range as.Lhs {
					if isIdent(l, param) {
						relArgs = append(relArgs, "param-reassigned")
					}
				}
			}
			return true
		})
	} else {
		oaCalls = []string{"(openAllowed not found)"}
	}
	var typeTests []string
	for _, fd := range funcDecls(gf.file) {
		if fd.Body == nil {
			continue
		}
		name := fd.Name.Name
		ast.Inspect(fd.Body, func(n ast.Node) bool {
			switch x := n.(type) {
			case *ast.TypeAssertExpr:
				if x.Type != nil {
					typeTests = append(typeTests, name+":"+text(x.Type))
				}
			case *ast.TypeSwitchStmt:
				for _, cl := range x.Body.List {
					for _, t := range cl.(*ast.CaseClause).List {
						typeTests = append(typeTests, name+":"+text(t))
					}
				}
			}
			return true
		})
	}
	var fsUses []string
	if fd := fds["NewChrootFs"]; fd != nil && fd.Body != nil && len(fd.Type.Params.List) >= 1 && len(fd.Type.Params.List[0].Names) == 1 {
		fsParam := fd.Type.Params.List[0].Names[0].Name
		var stack []ast.Node
		ast.Inspect(fd.Body, func(n ast.Node) bool {
			if n == nil {
				stack = stack[:len(stack)-1]
				return true
			}
			stack = append(stack, n)
			id, ok := n.(*ast.Ident)
			if !ok || id.Name != fsParam || len(stack) < 2 {
				return true
			}
			switch par := stack[len(stack)-2].(type) {
			case *ast.KeyValueExpr:
				if par.Value == ast.Expr(id) {
					fsUses = append(fsUses, "field:"+text(par.Key))
				} // as a key it is the field name `fs`, not the parameter
			case *ast.CallExpr:
				isArg := false
				for _, a := range par.Args {
					if a == ast.Expr(id) {
						isArg = true
					}
				}
				if isArg {
					fsUses = append(fsUses, "arg:"+calleeName("", par))
				} else {
					fsUses = append(fsUses, "other")
				}
			case *ast.TypeAssertExpr:
				if par.Type == nil {
					fsUses = append(fsUses, "assert:(switch)")
				} else {
					fsUses = append(fsUses, "assert:"+text(par.Type))
				}
			case *ast.SelectorExpr:
				if par.X == ast.Expr(id) {
					fsUses = append(fsUses, "method:"+par.Sel.Name)
				}
			case *ast.AssignStmt:
				fsUses = append(fsUses, "assign")
			default:
				fsUses = append(fsUses, "other")
			}
			return true
		})
	} else {
		fsUses = []string{"(NewChrootFs not found)"}
	}
	var consts []string
	for _, d := range gf.file.Decls {
		if gd, ok := d.(*ast.GenDecl); ok && gd.Tok == token.CONST {
			for _, sp := range gd.Specs {
				vs := sp.(*ast.ValueSpec)
				for i, nm := range vs.Names {
					v := "(none)"
					if i < len(vs.Values) {
						v = text(vs.Values[i])
					}
					consts = append(consts, nm.Name+"="+v)
				}
			}
		}
	}
	// ---- alpha-normalised statement texts ----
	type shape struct {
		name  string
		stmts []string
	}
	var shapes []shape
	for _, name := range chrootPathFuncs {
		fd := fds[name]
		if fd == nil || fd.Body == nil {
			continue
		}
		ren := map[*ast.Object]string{}
		if fd.Recv != nil {
			for _, f := range fd.Recv.List {
				for _, nm := range f.Names {
					if nm.Obj != nil {
						ren[nm.Obj] = "recv"
					}
				}
			}
		}
		k := 0
		for _, f := range fd.Type.Params.List {
			for _, nm := range f.Names {
				if nm.Obj != nil {
					ren[nm.Obj] = fmt.Sprintf("p%d", k)
				}
				k++
			}
		}
		v := 0
		// the keys of a composite literal (`fs:`, `root:`) are field names although the parser resolves them to a
		// parameter of the same name
		keys := map[*ast.Ident]bool{}
		ast.Inspect(fd.Body, func(n ast.Node) bool {
			if kv, ok := n.(*ast.KeyValueExpr); ok {
				if id, ok := kv.Key.(*ast.Ident); ok {
					keys[id] = true
				}
			}
			return true
		})
		ast.Inspect(fd.Body, func(n ast.Node) bool {
			switch x := n.(type) {
			case *ast.Ident:
				if x.Obj != nil && x.Obj.Kind == ast.Var && x.Name != "_" {
					if _, ok := ren[x.Obj]; !ok && x.Obj.Pos() >= fd.Body.Pos() && x.Obj.Pos() <= fd.Body.End() {
						ren[x.Obj] = fmt.Sprintf("v%d", v)
						v++
					}
				}
			case *ast.BasicLit:
				if x.Kind == token.STRING && len(x.Value) > 6 {
					x.Value = `"<text>"`
				}
			}
			return true
		})
		ast.Inspect(fd.Body, func(n ast.Node) bool {
			if id, ok := n.(*ast.Ident); ok && id.Obj != nil && !keys[id] {
				if nn, ok := ren[id.Obj]; ok {
					id.Name = nn
				}
			}
			return true
		})
		sh := shape{name: name}
		for _, st := range fd.Body.List {
			sh.stmts = append(sh.stmts, text(st))
		}
		shapes = append(shapes, sh)
	}
	sb.WriteString("(* ---- the bodies of the path functions, as the byte-level model (Chroot/Bytes.v) transliterates them ---- *)\n")
	sb.WriteString("Definition path_shapes : list (string * list string) := [\n")
	for i, sh := range shapes {
		sep := ";"
		if i == len(shapes)-1 {
			sep = ""
		}
		fmt.Fprintf(sb, "  (%s, [\n", c18CoqStr(sh.name))
		for j, st := range sh.stmts {
			s2 := ";"
			if j == len(sh.stmts)-1 {
				s2 = ""
			}
			fmt.Fprintf(sb, "     %s%s\n", c18CoqStr(st), s2)
		}
		fmt.Fprintf(sb, "  ])%s\n", sep)
	}
	sb.WriteString("].\n")
	fmt.Fprintf(sb, "Definition open_allowed_calls : list string := %s.\n", c18CoqStrList(uniq(oaCalls)))
	fmt.Fprintf(sb, "Definition open_allowed_rel_args : list string := %s.\n", c18CoqStrList(relArgs))
	fmt.Fprintf(sb, "Definition chroot_type_tests : list string := %s.\n", c18CoqStrList(uniq(typeTests)))
	fmt.Fprintf(sb, "Definition constructor_fs_uses : list string := %s.\n", c18CoqStrList(uniq(fsUses)))
	fmt.Fprintf(sb, "Definition chroot_consts : list string := %s.\n", c18CoqStrList(consts))
	return nil
}
