package main

import (
	"fmt"
	"go/ast"
	"go/token"
	"sort"
	"strings"
)

// ChrootOps: for every method of syslutil.ChrootFs, for every string parameter, how the value
// travels to the inner filesystem (fs.fs.X(...)):
//
//	Checked    - result of fs.join, passed through `if err := fs.openAllowed(v); err != nil { return }`
//	             before the inner call (directly, or as the argument a checked wrapper hands to its callback)
//	JoinedOnly - result of fs.join, no dominating openAllowed test
//	Raw        - the parameter itself
//	Unknown    - anything else
func init() { register("ChrootOps", chrootOps) }

type scope struct {
	body   *ast.BlockStmt
	params []string
}

// classifyVar: how was identifier v (used at position pos inside function body b) obtained?
// returns class and the identifier it was derived from ("" if none)
func classifyVar(recv string, b *ast.BlockStmt, v string, pos token.Pos) (string, string) {
	class, src := "", ""
	ast.Inspect(b, func(n ast.Node) bool {
		if n == nil || n.Pos() >= pos {
			return n == nil || n.Pos() < pos
		}
		if _, isLit := n.(*ast.FuncLit); isLit {
			// a nested closure has its own scope unless it contains pos
			if !(n.Pos() <= pos && pos <= n.End()) {
				return false
			}
		}
		switch s := n.(type) {
		case *ast.AssignStmt:
			if len(s.Lhs) >= 1 && isIdent(s.Lhs[0], v) && len(s.Rhs) == 1 {
				if c, ok := s.Rhs[0].(*ast.CallExpr); ok {
					ch := selChain(c.Fun)
					if len(ch) == 2 && ch[0] == recv && ch[1] == "join" && len(c.Args) == 1 {
						if id, ok := c.Args[0].(*ast.Ident); ok {
							class, src = "JoinedOnly", id.Name
							return true
						}
					}
				}
				class, src = "Unknown", ""
			}
		case *ast.IfStmt:
			// if err := recv.openAllowed(v); err != nil { ... return ... }
			if as, ok := s.Init.(*ast.AssignStmt); ok && len(as.Lhs) == 1 && len(as.Rhs) == 1 {
				if c, ok := as.Rhs[0].(*ast.CallExpr); ok {
					ch := selChain(c.Fun)
					if len(ch) == 2 && ch[0] == recv && ch[1] == "openAllowed" && len(c.Args) == 1 && isIdent(c.Args[0], v) {
						errName := ""
						if id, ok := as.Lhs[0].(*ast.Ident); ok {
							errName = id.Name
						}
						be, ok := s.Cond.(*ast.BinaryExpr)
						good := ok && be.Op == token.NEQ && isIdent(be.X, errName) && isIdent(be.Y, "nil")
						hasRet := false
						for _, st := range s.Body.List {
							if _, ok := st.(*ast.ReturnStmt); ok {
								hasRet = true
							}
						}
						if good && hasRet && s.End() <= pos && class == "JoinedOnly" {
							class = "Checked"
						}
					}
				}
			}
		}
		return true
	})
	return class, src
}

func chrootOps(repo string) (string, error) {
	gf, err := parseGo(repo, "pkg/syslutil/chroot_fs.go")
	if err != nil {
		return "", err
	}
	methods := map[string]*ast.FuncDecl{}
	for _, fd := range funcDecls(gf.file) {
		if recvName(fd) == "ChrootFs" {
			methods[fd.Name.Name] = fd
		}
	}
	// 1. wrappers: methods taking (path string, fn func...) and calling fn(x): class of x
	wrapper := map[string]string{} // wrapper name -> class its callback argument has
	for name, fd := range methods {
		ps := fd.Type.Params.List
		if len(ps) != 2 || len(ps[0].Names) != 1 || len(ps[1].Names) != 1 {
			continue
		}
		if _, ok := ps[1].Type.(*ast.FuncType); !ok {
			continue
		}
		pathParam, fnParam := ps[0].Names[0].Name, ps[1].Names[0].Name
		recv := recvVar(fd)
		cls := "Unknown"
		n := 0
		ast.Inspect(fd.Body, func(nd ast.Node) bool {
			c, ok := nd.(*ast.CallExpr)
			if !ok || !isIdent(c.Fun, fnParam) || len(c.Args) != 1 {
				return true
			}
			n++
			if id, ok := c.Args[0].(*ast.Ident); ok {
				k, src := classifyVar(recv, fd.Body, id.Name, c.Pos())
				if id.Name == pathParam {
					k = "Raw"
				} else if src != pathParam {
					k = "Unknown"
				}
				if n == 1 {
					cls = k
				} else if cls != k {
					cls = "Unknown"
				}
			} else {
				cls = "Unknown"
			}
			return true
		})
		if n > 0 {
			wrapper[name] = cls
		}
	}
	// 2. operations
	type op struct {
		name string
		args []string
	}
	var ops []op
	for name, fd := range methods {
		if _, isW := wrapper[name]; isW {
			continue
		}
		recv := recvVar(fd)
		var strParams []string
		for _, f := range fd.Type.Params.List {
			if id, ok := f.Type.(*ast.Ident); ok && id.Name == "string" {
				for _, nm := range f.Names {
					strParams = append(strParams, nm.Name)
				}
			}
		}
		if len(strParams) == 0 {
			continue
		}
		classOf := map[string]string{}
		merge := func(p, k string) {
			if old, ok := classOf[p]; ok && old != k {
				k = "Unknown"
			}
			classOf[p] = k
		}
		reaches := false
		// walk, tracking the enclosing wrapper call of each closure
		var walk func(n ast.Node, encl []*ast.FuncLit, wrapOf map[*ast.FuncLit][2]string)
		wrapOf := map[*ast.FuncLit][2]string{} // closure -> (class, source param)
		ast.Inspect(fd.Body, func(nd ast.Node) bool {
			c, ok := nd.(*ast.CallExpr)
			if !ok {
				return true
			}
			ch := selChain(c.Fun)
			if len(ch) == 2 && ch[0] == recv {
				if wc, isW := wrapper[ch[1]]; isW && len(c.Args) == 2 {
					if lit, ok := c.Args[1].(*ast.FuncLit); ok {
						src := ""
						if id, ok := c.Args[0].(*ast.Ident); ok {
							src = id.Name
						}
						wrapOf[lit] = [2]string{wc, src}
					}
				}
			}
			return true
		})
		_ = walk
		var stack []ast.Node
		ast.Inspect(fd.Body, func(nd ast.Node) bool {
			if nd == nil {
				stack = stack[:len(stack)-1]
				return true
			}
			stack = append(stack, nd)
			c, ok := nd.(*ast.CallExpr)
			if !ok {
				return true
			}
			ch := selChain(c.Fun)
			if !(len(ch) == 3 && ch[0] == recv && ch[1] == "fs") {
				return true
			}
			reaches = true
			// innermost enclosing closure
			var lit *ast.FuncLit
			for i := len(stack) - 1; i >= 0; i-- {
				if l, ok := stack[i].(*ast.FuncLit); ok {
					lit = l
					break
				}
			}
			for _, a := range c.Args {
				id, ok := a.(*ast.Ident)
				if !ok {
					continue
				}
				// closure's first parameter?
				if lit != nil && len(lit.Type.Params.List) > 0 && len(lit.Type.Params.List[0].Names) > 0 &&
					lit.Type.Params.List[0].Names[0].Name == id.Name {
					if w, ok := wrapOf[lit]; ok {
						merge(w[1], w[0])
					} else {
						merge(id.Name, "Unknown")
					}
					continue
				}
				isParam := false
				for _, p := range strParams {
					if p == id.Name {
						isParam = true
					}
				}
				if isParam {
					merge(id.Name, "Raw")
					continue
				}
				var body *ast.BlockStmt = fd.Body
				if lit != nil {
					body = lit.Body
				}
				k, src := classifyVar(recv, body, id.Name, c.Pos())
				if k != "" && src != "" {
					merge(src, k)
				}
			}
			return true
		})
		if !reaches {
			continue
		}
		o := op{name: name}
		for _, p := range strParams {
			k, ok := classOf[p]
			if !ok {
				k = "Unknown"
			}
			o.args = append(o.args, k)
		}
		ops = append(ops, o)
	}
	sort.Slice(ops, func(i, j int) bool { return ops[i].name < ops[j].name })
	var sb strings.Builder
	sb.WriteString("(* GENERATED by vt ChrootOps from pkg/syslutil/chroot_fs.go -- do not edit *)\n")
	sb.WriteString("From Coq Require Import List String.\nImport ListNotations.\nRequire Import Verif.Chroot.Path.\nLocal Open Scope string_scope.\n")
	var wn []string
	for w := range wrapper {
		wn = append(wn, w)
	}
	sort.Strings(wn)
	sb.WriteString("Definition wrappers : list (string * argclass) := [")
	for i, w := range wn {
		if i > 0 {
			sb.WriteString("; ")
		}
		fmt.Fprintf(&sb, "(%q, %s)", w, wrapper[w])
	}
	sb.WriteString("].\n")
	sb.WriteString("Definition ops : list opdesc := [\n")
	for i, o := range ops {
		sep := ";"
		if i == len(ops)-1 {
			sep = ""
		}
		fmt.Fprintf(&sb, "  {| op_name := %q; op_args := [%s] |}%s\n", o.name, strings.Join(o.args, "; "), sep)
	}
	sb.WriteString("].\n")
	return sb.String(), nil
}
