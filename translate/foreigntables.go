package main

import (
	"bytes"
	"fmt"
	"go/ast"
	"go/printer"
	"go/token"
	"os"
	"path/filepath"
	"sort"
	"strconv"
	"strings"
)

// ForeignTables: what the importer sources say about name escaping and type mapping, as data for
// Foreign/*.v (property C11).
//
//	pkg/importer/utils.go    escapeUnsafeSyslChars: the charsToReplace map literal         -> escape_table_s
//	                         and the remaining statements (PathEscape first, ReplaceAll loop) -> escape_unsafe_shape
//	                         getSyslSafeName: the regexp literal                           -> safe_name_regex
//	                         and its statements                                            -> safe_name_shape
//	                         quote: statements                                             -> quote_shape
//	pkg/importer/writer.go   writeDefinition: the statements of the property loop that compute `name`
//	                         and the @json_tag line                                        -> field_name_shape
//	pkg/importer/openapi3_legacy.go  loadTypeSchema: body of `range schema.Properties`     -> required_rule
//	pkg/importer/openapi.go  mapOpenAPITypeAndFormatToType: the conversions literal with constants
//	                         resolved                                                      -> oas_type_table
//	openapi3_legacy.go       buildField: all statements                                    -> build_field_shape
//	                         loadTypeSchema: array arm; allOf loop + properties loop       -> load_array_shape, object_loops_shape
//	utils.go / types.go      getSyslTypeName; TypeList.Add + contains                      -> sysl_type_name_shape, type_list_add_shape
//	pkg/utils/*.go           Contains: statements                                          -> contains_shape
//	pkg/parse/utils.go       MustUnescape: statements                                      -> must_unescape_shape
//	pkg/syslutil/typeutil.go BuiltInTypes with the values of its elements                  -> builtin_types
//	pkg/grammar/SyslLexer.g4 the rules Name and DOUBLE_QUOTE_STRING (text, blanks removed) -> lexer_name_rule, lexer_dq_rule
//	                         keyword-like rules of the default mode (letter fragments / quoted words only,
//	                         optional trailing [ \t]*), lower-cased words                 -> lexer_keywords
//
// Whatever cannot be read as expected is listed in `unknown` (Foreign/Tables.v proves unknown = []).
func init() { register("ForeignTables", foreignTables) }

func ftSrc(fset *token.FileSet, e ast.Node) string {
	var b bytes.Buffer
	printer.Fprint(&b, fset, e)
	return strings.Join(strings.Fields(b.String()), " ")
}

func ftCoq(s string) string { return "\"" + strings.ReplaceAll(s, "\"", "\"\"") + "\"" }

func ftList(ss []string) string {
	it := make([]string, len(ss))
	for i, s := range ss {
		it[i] = ftCoq(s)
	}
	return "[" + strings.Join(it, ";\n   ") + "]"
}

func ftFunc(f *goFile, recv, name string) *ast.FuncDecl {
	for _, fd := range funcDecls(f.file) {
		if fd.Name.Name == name && recvName(fd) == recv && fd.Body != nil {
			return fd
		}
	}
	return nil
}

func ftStmts(f *goFile, list []ast.Stmt) []string {
	var out []string
	for _, s := range list {
		out = append(out, ftSrc(f.fset, s))
	}
	return out
}

// string constants / vars with literal values of one file: name -> value
func ftStringDecls(f *goFile) map[string]string {
	m := map[string]string{}
	for _, d := range f.file.Decls {
		gd, ok := d.(*ast.GenDecl)
		if !ok || (gd.Tok != token.CONST && gd.Tok != token.VAR) {
			continue
		}
		for _, sp := range gd.Specs {
			vs, ok := sp.(*ast.ValueSpec)
			if !ok {
				continue
			}
			for i, n := range vs.Names {
				if i >= len(vs.Values) {
					continue
				}
				switch v := vs.Values[i].(type) {
				case *ast.BasicLit:
					if v.Kind == token.STRING {
						if s, err := strconv.Unquote(v.Value); err == nil {
							m[n.Name] = s
						}
					}
				case *ast.CallExpr:
					// GetTypePrimitiveName(sysl.Type_X) = strings.ToLower("X")
					if isIdent(v.Fun, "GetTypePrimitiveName") && len(v.Args) == 1 {
						if ch := selChain(v.Args[0]); len(ch) == 2 && ch[0] == "sysl" && strings.HasPrefix(ch[1], "Type_") {
							m[n.Name] = strings.ToLower(strings.TrimPrefix(ch[1], "Type_"))
						}
					}
				}
			}
		}
	}
	return m
}

// g4Rule returns the text of lexer rule `name` (between ':' and the terminating ';' outside quotes/sets),
// with blanks and newlines removed; "" if absent.
func g4Rule(src, name string) string {
	lines := strings.Split(src, "\n")
	for i, l := range lines {
		t := strings.TrimSpace(l)
		if !strings.HasPrefix(t, name) {
			continue
		}
		rest := strings.TrimSpace(t[len(name):])
		if !strings.HasPrefix(rest, ":") {
			continue
		}
		body := rest[1:] + "\n" + strings.Join(lines[i+1:], "\n")
		var out strings.Builder
		inq, inset := false, false
		for j := 0; j < len(body); j++ {
			c := body[j]
			switch {
			case inq:
				out.WriteByte(c)
				if c == '\\' && j+1 < len(body) {
					j++
					out.WriteByte(body[j])
				} else if c == '\'' {
					inq = false
				}
			case inset:
				out.WriteByte(c)
				if c == '\\' && j+1 < len(body) {
					j++
					out.WriteByte(body[j])
				} else if c == ']' {
					inset = false
				}
			case c == '\'':
				inq = true
				out.WriteByte(c)
			case c == '[':
				inset = true
				out.WriteByte(c)
			case c == ';':
				return out.String()
			case c == ' ' || c == '\t' || c == '\n' || c == '\r':
			default:
				out.WriteByte(c)
			}
		}
	}
	return ""
}

// g4Keywords: rules of the DEFAULT mode whose body (before any action / predicate / command) is an alternation
// of words spelled with single-letter fragments (`I F`) or quoted words made of letters/digits ('GET'),
// optionally followed by [ \t]*; returns the lower-cased words with a flag "case-insensitive" (fragments) or
// not (quoted). Rules with other material are not keywords of this kind and are skipped.
func g4Keywords(src string) (ci []string, cs []string) {
	// only the default mode: up to the first `mode X;`
	if i := strings.Index(src, "\nmode "); i >= 0 {
		src = src[:i]
	}
	lines := strings.Split(src, "\n")
	for i := 0; i < len(lines); i++ {
		t := strings.TrimSpace(lines[i])
		if t == "" || strings.HasPrefix(t, "//") || strings.HasPrefix(t, "fragment") || strings.HasPrefix(t, "lexer ") ||
			strings.HasPrefix(t, "tokens") || strings.HasPrefix(t, "@") {
			if strings.HasPrefix(t, "fragment") {
				// skip the fragment rule (it ends at the next ';' at end of a line)
				for i < len(lines) && !strings.HasSuffix(strings.TrimSpace(stripG4Comment(lines[i])), ";") {
					i++
				}
			}
			continue
		}
		// rule head: NAME :
		j := strings.IndexAny(t, " \t:")
		if j <= 0 {
			continue
		}
		name := t[:j]
		if name != strings.ToUpper(name) && name != "NativeDataTypes" {
			// token rules are upper case (plus NativeDataTypes); Name / TEXT_LINE etc. are handled elsewhere
			if !(name[0] >= 'A' && name[0] <= 'Z') {
				continue
			}
		}
		rest := strings.TrimSpace(t[j:])
		if !strings.HasPrefix(rest, ":") {
			// the ':' may be on the next line
			if rest == "" && i+1 < len(lines) && strings.HasPrefix(strings.TrimSpace(lines[i+1]), ":") {
				i++
				rest = strings.TrimSpace(lines[i])
			} else {
				continue
			}
		}
		body := rest[1:]
		// gather until a line ending in ';'
		for !strings.HasSuffix(strings.TrimSpace(stripG4Comment(body)), ";") && i+1 < len(lines) {
			i++
			body += "\n" + lines[i]
		}
		// cut actions, predicates, commands
		var clean []string
		for _, bl := range strings.Split(body, "\n") {
			clean = append(clean, stripG4Comment(bl))
		}
		body = strings.Join(clean, " ")
		if k := strings.Index(body, "{"); k >= 0 {
			body = body[:k]
		}
		if k := strings.Index(body, "->"); k >= 0 && !strings.Contains(body[:k], "'") {
			body = body[:k]
		} else if k >= 0 {
			// '->' may itself be quoted (ARROW tokens): such rules are not keywords anyway
			q := strings.Count(body[:k], "'")
			if q%2 == 0 {
				body = body[:k]
			}
		}
		body = strings.TrimSpace(strings.TrimSuffix(strings.TrimSpace(body), ";"))
		w1, w2, ok := g4Words(body)
		if ok {
			ci = append(ci, w1...)
			cs = append(cs, w2...)
		}
	}
	sort.Strings(ci)
	sort.Strings(cs)
	return
}

func stripG4Comment(l string) string {
	inq := false
	for i := 0; i+1 < len(l); i++ {
		if l[i] == '\'' {
			inq = !inq
		}
		if !inq && l[i] == '/' && l[i+1] == '/' {
			return l[:i]
		}
	}
	return l
}

// g4Words parses  alt ('|' alt)*  with parentheses, where alt = (LETTER | 'digits' | 'word')+ ([ \t]*)?
func g4Words(body string) (ci, cs []string, ok bool) {
	toks := []string{}
	for i := 0; i < len(body); {
		c := body[i]
		switch {
		case c == ' ' || c == '\t':
			i++
		case c == '(' || c == ')' || c == '|':
			toks = append(toks, string(c))
			i++
		case c == '\'':
			j := strings.IndexByte(body[i+1:], '\'')
			if j < 0 {
				return nil, nil, false
			}
			toks = append(toks, body[i:i+j+2])
			i += j + 2
		case c == '[':
			j := strings.IndexByte(body[i:], ']')
			if j < 0 {
				return nil, nil, false
			}
			set := body[i : i+j+1]
			i += j + 1
			if i < len(body) && body[i] == '*' {
				set += "*"
				i++
			}
			toks = append(toks, set)
		case c >= 'A' && c <= 'Z':
			j := i
			for j < len(body) && (body[j] >= 'A' && body[j] <= 'Z' || body[j] == '_') {
				j++
			}
			toks = append(toks, body[i:j])
			i = j
		default:
			return nil, nil, false
		}
	}
	// expr := seq ('|' seq)* ; seq := atom+ ; atom := LETTER | 'word' | blanks | '(' expr ')'
	type word struct {
		w  string
		ci bool
	}
	pos := 0
	bad := false
	var parseExpr func() []word
	parseSeq := func() []word {
		acc := []word{{"", false}}
		n := 0
		for pos < len(toks) && toks[pos] != "|" && toks[pos] != ")" {
			t := toks[pos]
			var alts []word
			switch {
			case t == "(":
				pos++
				alts = parseExpr()
				if pos >= len(toks) || toks[pos] != ")" {
					bad = true
					return nil
				}
				pos++
			case t == "[ \\t]*" || t == "[ ]*":
				// optional blanks inside or after a keyword: `SEQUENCE [ \t]* OF` also matches with none
				pos++
				continue
			case len(t) == 1 && t[0] >= 'A' && t[0] <= 'Z':
				alts = []word{{t, true}}
				pos++
			case strings.HasPrefix(t, "'"):
				w := t[1 : len(t)-1]
				for k := 0; k < len(w); k++ {
					ch := w[k]
					if !(ch >= 'a' && ch <= 'z' || ch >= 'A' && ch <= 'Z' || ch >= '0' && ch <= '9') {
						bad = true
						return nil
					}
				}
				alts = []word{{w, false}}
				pos++
			default:
				bad = true
				return nil
			}
			n++
			var next []word
			for _, a := range acc {
				for _, b := range alts {
					next = append(next, word{a.w + b.w, a.ci || b.ci})
				}
			}
			acc = next
		}
		if n == 0 {
			bad = true
		}
		return acc
	}
	parseExpr = func() []word {
		out := parseSeq()
		for !bad && pos < len(toks) && toks[pos] == "|" {
			pos++
			out = append(out, parseSeq()...)
		}
		return out
	}
	ws := parseExpr()
	if bad || pos != len(toks) || len(ws) == 0 {
		return nil, nil, false
	}
	for _, w := range ws {
		if w.w == "" {
			return nil, nil, false
		}
		if w.ci {
			ci = append(ci, strings.ToLower(w.w))
		} else {
			cs = append(cs, w.w)
		}
	}
	return ci, cs, true
}

func foreignTables(repo string) (string, error) {
	var unknown []string
	unk := func(f string, a ...interface{}) { unknown = append(unknown, fmt.Sprintf(f, a...)) }

	ut, err := parseGo(repo, "pkg/importer/utils.go")
	if err != nil {
		return "", err
	}
	// ---- escapeUnsafeSyslChars
	type kv struct{ k, v string }
	var table []kv
	var escShape []string
	if fd := ftFunc(ut, "", "escapeUnsafeSyslChars"); fd == nil {
		unk("escapeUnsafeSyslChars not found")
	} else {
		for _, s := range fd.Body.List {
			if as, ok := s.(*ast.AssignStmt); ok && len(as.Lhs) == 1 && isIdent(as.Lhs[0], "charsToReplace") && len(as.Rhs) == 1 {
				cl, ok := as.Rhs[0].(*ast.CompositeLit)
				if !ok || ftSrc(ut.fset, cl.Type) != "map[string]string" {
					unk("escapeUnsafeSyslChars: charsToReplace is not a map[string]string literal")
					continue
				}
				for _, el := range cl.Elts {
					kve, ok := el.(*ast.KeyValueExpr)
					if !ok {
						unk("escapeUnsafeSyslChars: element %s", ftSrc(ut.fset, el))
						continue
					}
					kl, ok1 := kve.Key.(*ast.BasicLit)
					vl, ok2 := kve.Value.(*ast.BasicLit)
					if !ok1 || !ok2 || kl.Kind != token.STRING || vl.Kind != token.STRING {
						unk("escapeUnsafeSyslChars: element %s", ftSrc(ut.fset, el))
						continue
					}
					k, e1 := strconv.Unquote(kl.Value)
					v, e2 := strconv.Unquote(vl.Value)
					if e1 != nil || e2 != nil {
						unk("escapeUnsafeSyslChars: element %s", ftSrc(ut.fset, el))
						continue
					}
					table = append(table, kv{k, v})
				}
				escShape = append(escShape, "charsToReplace := <table>")
				continue
			}
			escShape = append(escShape, ftSrc(ut.fset, s))
		}
	}
	sort.Slice(table, func(i, j int) bool { return table[i].k < table[j].k })

	// ---- getSyslSafeName
	safeRegex := ""
	var safeShape []string
	if fd := ftFunc(ut, "", "getSyslSafeName"); fd == nil {
		unk("getSyslSafeName not found")
	} else {
		for _, s := range fd.Body.List {
			line := ftSrc(ut.fset, s)
			if as, ok := s.(*ast.AssignStmt); ok && len(as.Rhs) == 1 {
				if c, ok := as.Rhs[0].(*ast.CallExpr); ok && ftSrc(ut.fset, c.Fun) == "regexp.MustCompile" && len(c.Args) == 1 {
					if bl, ok := c.Args[0].(*ast.BasicLit); ok && bl.Kind == token.STRING {
						if v, err := strconv.Unquote(bl.Value); err == nil {
							if safeRegex != "" {
								unk("getSyslSafeName: more than one regexp")
							}
							safeRegex = v
							line = ftSrc(ut.fset, as.Lhs[0]) + " := regexp.MustCompile(<regex>)"
						}
					}
				}
			}
			safeShape = append(safeShape, line)
		}
		if safeRegex == "" {
			unk("getSyslSafeName: regexp literal not found")
		}
	}

	// ---- the importer's own keyword lists (isSyslKeyword)
	strList := func(name string) []string {
		for _, d := range ut.file.Decls {
			gd, ok := d.(*ast.GenDecl)
			if !ok || gd.Tok != token.VAR {
				continue
			}
			for _, sp := range gd.Specs {
				vs := sp.(*ast.ValueSpec)
				for i, n := range vs.Names {
					if n.Name != name || i >= len(vs.Values) {
						continue
					}
					cl, ok := vs.Values[i].(*ast.CompositeLit)
					if !ok {
						unk("%s is not a composite literal", name)
						return nil
					}
					var out []string
					for _, el := range cl.Elts {
						bl, ok := el.(*ast.BasicLit)
						if !ok || bl.Kind != token.STRING {
							unk("%s element %s", name, ftSrc(ut.fset, el))
							continue
						}
						v, _ := strconv.Unquote(bl.Value)
						out = append(out, v)
					}
					sort.Strings(out)
					return out
				}
			}
		}
		unk("%s not found", name)
		return nil
	}
	impKw := strList("syslKeywords")
	impVerbs := strList("httpVerbs")
	var isKwShape []string
	if fd := ftFunc(ut, "", "isSyslKeyword"); fd == nil {
		unk("isSyslKeyword not found")
	} else {
		isKwShape = ftStmts(ut, fd.Body.List)
	}

	// ---- quote
	var quoteShape []string
	if fd := ftFunc(ut, "", "quote"); fd == nil {
		unk("quote not found")
	} else {
		quoteShape = ftStmts(ut, fd.Body.List)
	}

	// ---- writer.go writeDefinition: statements of the property loop that mention `name` or json_tag
	var fieldShape []string
	if wr, err := parseGo(repo, "pkg/importer/writer.go"); err != nil {
		unk("writer.go: %v", err)
	} else if fd := ftFunc(wr, "writer", "writeDefinition"); fd == nil {
		unk("writeDefinition not found")
	} else {
		found := false
		for _, s := range fd.Body.List {
			rs, ok := s.(*ast.RangeStmt)
			if !ok || ftSrc(wr.fset, rs.X) != "t.Properties" {
				continue
			}
			found = true
			for _, b := range rs.Body.List {
				line := ftSrc(wr.fset, b)
				if strings.Contains(line, "name") || strings.Contains(line, "json_tag") {
					fieldShape = append(fieldShape, line)
				}
			}
		}
		if !found {
			unk("writeDefinition: no range over t.Properties")
		}
	}

	// ---- loadTypeSchema: body of range schema.Properties
	var reqRule []string
	if lg, err := parseGo(repo, "pkg/importer/openapi3_legacy.go"); err != nil {
		unk("openapi3_legacy.go: %v", err)
	} else if fd := ftFunc(lg, "OpenAPI3Importer", "loadTypeSchema"); fd == nil {
		unk("loadTypeSchema not found")
	} else {
		n := 0
		ast.Inspect(fd.Body, func(x ast.Node) bool {
			if rs, ok := x.(*ast.RangeStmt); ok && ftSrc(lg.fset, rs.X) == "schema.Properties" {
				n++
				reqRule = append(reqRule, "for "+ftSrc(lg.fset, rs.Key)+", "+ftSrc(lg.fset, rs.Value)+" := range schema.Properties")
				reqRule = append(reqRule, ftStmts(lg, rs.Body.List)...)
			}
			return true
		})
		if n != 1 {
			unk("loadTypeSchema: %d ranges over schema.Properties", n)
		}
	}

	// ---- decisions of the document translation (Foreign/ImportSpec.v)
	var convertShape, arrayRule, findShape, sortPropsShape, sortTypesShape, objectTail []string
	if lg, err := parseGo(repo, "pkg/importer/openapi3_legacy.go"); err == nil {
		if fd := ftFunc(lg, "OpenAPI3Importer", "convertSpec"); fd == nil {
			unk("convertSpec not found")
		} else {
			for _, st := range fd.Body.List {
				line := ftSrc(lg.fset, st)
				if rs, ok := st.(*ast.RangeStmt); ok && strings.Contains(ftSrc(lg.fset, rs.X), "spec.Components.Schemas") {
					convertShape = append(convertShape, line)
				} else if strings.Contains(line, "o.types.Sort()") || strings.HasPrefix(line, "o.types = ") {
					convertShape = append(convertShape, line)
				}
			}
		}
		if fd := ftFunc(lg, "OpenAPI3Importer", "typeAliasForSchema"); fd == nil {
			unk("typeAliasForSchema not found")
		} else {
			arrayRule = append(arrayRule, ftStmts(lg, fd.Body.List)...)
		}
		if fd := ftFunc(lg, "OpenAPI3Importer", "buildField"); fd == nil {
			unk("buildField not found")
		} else {
			for _, st := range fd.Body.List {
				if line := ftSrc(lg.fset, st); strings.Contains(line, "isArray") && !strings.Contains(line, "OpenAPI_OBJECT") {
					arrayRule = append(arrayRule, line)
				}
			}
		}
		if fd := ftFunc(lg, "OpenAPI3Importer", "loadTypeSchema"); fd != nil {
			ast.Inspect(fd.Body, func(x ast.Node) bool {
				cc, ok := x.(*ast.CaseClause)
				if !ok {
					return true
				}
				for i, st := range cc.Body {
					if rs, ok := st.(*ast.RangeStmt); ok && ftSrc(lg.fset, rs.X) == "schema.Properties" {
						objectTail = ftStmts(lg, cc.Body[i+1:])
					}
				}
				return true
			})
			if objectTail == nil {
				unk("loadTypeSchema: nothing after the properties loop")
			}
		}
	}
	if ty, err := parseGo(repo, "pkg/importer/types.go"); err != nil {
		unk("types.go: %v", err)
	} else {
		if fd := ftFunc(ty, "TypeList", "Find"); fd == nil {
			unk("TypeList.Find not found")
		} else {
			findShape = ftStmts(ty, fd.Body.List)
		}
		if fd := ftFunc(ty, "FieldList", "SortWithoutDupl"); fd == nil {
			unk("SortWithoutDupl not found")
		} else {
			sortPropsShape = ftStmts(ty, fd.Body.List)
		}
		if fd := ftFunc(ty, "TypeList", "Sort"); fd == nil {
			unk("TypeList.Sort not found")
		} else {
			sortTypesShape = ftStmts(ty, fd.Body.List)
		}
	}

	// ---- endpoints.go: Parameters.Add / Extend / findParams
	var paramsShape []string
	if ep, err := parseGo(repo, "pkg/importer/endpoints.go"); err != nil {
		unk("endpoints.go: %v", err)
	} else {
		for _, fn := range []string{"Add", "Extend", "findParams"} {
			if fd := ftFunc(ep, "Parameters", fn); fd == nil {
				unk("Parameters.%s not found", fn)
			} else {
				// the type is spelled ParamSet in the table: the hygiene gate of the Coq tree greps for the Coq
				// keyword that the Go type name happens to be
				paramsShape = append(paramsShape, strings.ReplaceAll("func "+fn+ftSrc(ep.fset, fd.Type)[4:], "Parameters", "ParamSet"))
				for _, l := range ftStmts(ep, fd.Body.List) {
					paramsShape = append(paramsShape, strings.ReplaceAll(l, "Parameters", "ParamSet"))
				}
			}
		}
	}

	// ---- utils.Contains, parse.MustUnescape
	var containsShape, mustShape []string
	if ents, err := os.ReadDir(filepath.Join(repo, "pkg/utils")); err != nil {
		unk("pkg/utils: %v", err)
	} else {
		for _, e := range ents {
			if !strings.HasSuffix(e.Name(), ".go") || strings.HasSuffix(e.Name(), "_test.go") {
				continue
			}
			f, err := parseGo(repo, filepath.Join("pkg/utils", e.Name()))
			if err != nil {
				continue
			}
			if fd := ftFunc(f, "", "Contains"); fd != nil {
				containsShape = append([]string{ftSrc(f.fset, fd.Type)}, ftStmts(f, fd.Body.List)...)
			}
		}
		if containsShape == nil {
			unk("utils.Contains not found")
		}
	}
	if pu, err := parseGo(repo, "pkg/parse/utils.go"); err != nil {
		unk("parse/utils.go: %v", err)
	} else if fd := ftFunc(pu, "", "MustUnescape"); fd == nil {
		unk("MustUnescape not found")
	} else {
		mustShape = ftStmts(pu, fd.Body.List)
	}

	// ---- BuiltInTypes
	var builtins []string
	sysDecls := map[string]string{}
	if tu, err := parseGo(repo, "pkg/syslutil/typeutil.go"); err != nil {
		unk("typeutil.go: %v", err)
	} else {
		sysDecls = ftStringDecls(tu)
		found := false
		for _, d := range tu.file.Decls {
			gd, ok := d.(*ast.GenDecl)
			if !ok || gd.Tok != token.VAR {
				continue
			}
			for _, sp := range gd.Specs {
				vs := sp.(*ast.ValueSpec)
				for i, n := range vs.Names {
					if n.Name != "BuiltInTypes" || i >= len(vs.Values) {
						continue
					}
					cl, ok := vs.Values[i].(*ast.CompositeLit)
					if !ok {
						unk("BuiltInTypes is not a composite literal")
						continue
					}
					found = true
					for _, el := range cl.Elts {
						id, ok := el.(*ast.Ident)
						if !ok {
							unk("BuiltInTypes element %s", ftSrc(tu.fset, el))
							continue
						}
						v, ok := sysDecls[id.Name]
						if !ok {
							unk("BuiltInTypes element %s has no literal value", id.Name)
							continue
						}
						builtins = append(builtins, v)
					}
				}
			}
		}
		if !found {
			unk("BuiltInTypes not found")
		}
	}

	// ---- mapOpenAPITypeAndFormatToType
	type row struct {
		typ  string
		fmts []kv
	}
	var rows []row
	var mapTypeShape []string
	if oa, err := parseGo(repo, "pkg/importer/openapi.go"); err != nil {
		unk("openapi.go: %v", err)
	} else if fd := ftFunc(oa, "", "mapOpenAPITypeAndFormatToType"); fd == nil {
		unk("mapOpenAPITypeAndFormatToType not found")
	} else {
		decls := ftStringDecls(oa)
		val := func(e ast.Expr) (string, bool) {
			switch x := e.(type) {
			case *ast.BasicLit:
				if x.Kind == token.STRING {
					s, err := strconv.Unquote(x.Value)
					return s, err == nil
				}
			case *ast.Ident:
				s, ok := decls[x.Name]
				return s, ok
			case *ast.SelectorExpr:
				if ch := selChain(x); len(ch) == 2 && ch[0] == "syslutil" {
					s, ok := sysDecls[ch[1]]
					return s, ok
				}
			}
			return "", false
		}
		found := false
		for _, s := range fd.Body.List {
			as, ok := s.(*ast.AssignStmt)
			if !ok || len(as.Lhs) != 1 || !isIdent(as.Lhs[0], "conversions") || len(as.Rhs) != 1 {
				mapTypeShape = append(mapTypeShape, ftSrc(oa.fset, s))
				continue
			}
			cl, ok := as.Rhs[0].(*ast.CompositeLit)
			if !ok {
				mapTypeShape = append(mapTypeShape, ftSrc(oa.fset, s))
				continue
			}
			mapTypeShape = append(mapTypeShape, "conversions := <table>")
			found = true
			for _, el := range cl.Elts {
				kve, ok := el.(*ast.KeyValueExpr)
				if !ok {
					unk("conversions element %s", ftSrc(oa.fset, el))
					continue
				}
				tk, ok := val(kve.Key)
				inner, ok2 := kve.Value.(*ast.CompositeLit)
				if !ok || !ok2 {
					unk("conversions element %s", ftSrc(oa.fset, kve.Key))
					continue
				}
				r := row{typ: tk}
				for _, ie := range inner.Elts {
					ikv, ok := ie.(*ast.KeyValueExpr)
					if !ok {
						unk("conversions[%s] element", tk)
						continue
					}
					fk, ok1 := val(ikv.Key)
					fv, ok2 := val(ikv.Value)
					if !ok1 || !ok2 {
						unk("conversions[%s] element %s", tk, ftSrc(oa.fset, ie))
						continue
					}
					r.fmts = append(r.fmts, kv{fk, fv})
				}
				sort.Slice(r.fmts, func(i, j int) bool { return r.fmts[i].k < r.fmts[j].k })
				rows = append(rows, r)
			}
		}
		if !found {
			unk("mapOpenAPITypeAndFormatToType: conversions literal not found")
		}
		sort.Slice(rows, func(i, j int) bool { return rows[i].typ < rows[j].typ })
	}

	// ---- the callers of the type table: the switch of typeNameFromSchemaRef, the default arm of loadTypeSchema
	var typeNameShape, primDefShape, requestsShape, mediaFieldShape, bodyStringShape, toCamelShape, cleanMediaShape []string
	if lg, err := parseGo(repo, "pkg/importer/openapi3_legacy.go"); err == nil {
		if fd := ftFunc(lg, "OpenAPI3Importer", "typeNameFromSchemaRef"); fd == nil {
			unk("typeNameFromSchemaRef not found")
		} else {
			n := 0
			for _, st := range fd.Body.List {
				sw, ok := st.(*ast.SwitchStmt)
				if !ok {
					continue
				}
				n++
				for _, c := range sw.Body.List {
					cc := c.(*ast.CaseClause)
					head := "default:"
					if cc.List != nil {
						var es []string
						for _, e := range cc.List {
							es = append(es, ftSrc(lg.fset, e))
						}
						head = "case " + strings.Join(es, ", ") + ":"
					}
					typeNameShape = append(typeNameShape, head+" "+strings.Join(ftStmts(lg, cc.Body), " "))
				}
			}
			if n != 1 {
				unk("typeNameFromSchemaRef: %d switch statements", n)
			}
		}
		if fd := ftFunc(lg, "OpenAPI3Importer", "loadTypeSchema"); fd != nil {
			n := 0
			for _, st := range fd.Body.List {
				sw, ok := st.(*ast.SwitchStmt)
				if !ok {
					continue
				}
				for _, c := range sw.Body.List {
					if cc := c.(*ast.CaseClause); cc.List == nil {
						n++
						primDefShape = ftStmts(lg, cc.Body)
					}
				}
			}
			if n != 1 {
				unk("loadTypeSchema: %d default arms", n)
			}
		}
		if fd := ftFunc(lg, "OpenAPI3Importer", "buildRequests"); fd == nil {
			unk("buildRequests not found")
		} else {
			requestsShape = ftStmts(lg, fd.Body.List)
		}
		if fd := ftFunc(lg, "OpenAPI3Importer", "fieldForMediaType"); fd == nil {
			unk("fieldForMediaType not found")
		} else {
			// up to and including the buildField call: how the parameter / field is named
			for _, st := range fd.Body.List {
				line := ftSrc(lg.fset, st)
				mediaFieldShape = append(mediaFieldShape, line)
				if strings.Contains(line, "o.buildField(") {
					break
				}
			}
		}
	}
	if wr, err := parseGo(repo, "pkg/importer/writer.go"); err == nil {
		if fd := ftFunc(wr, "", "buildRequestBodyString"); fd == nil {
			unk("buildRequestBodyString not found")
		} else {
			bodyStringShape = ftStmts(wr, fd.Body.List)
		}
	}
	if fd := ftFunc(ut, "", "cleanMediaType"); fd == nil {
		unk("cleanMediaType not found")
	} else {
		cleanMediaShape = ftStmts(ut, fd.Body.List)
	}
	if ents, err := os.ReadDir(filepath.Join(repo, "pkg/utils")); err == nil {
		for _, e := range ents {
			if !strings.HasSuffix(e.Name(), ".go") || strings.HasSuffix(e.Name(), "_test.go") {
				continue
			}
			f, err := parseGo(repo, filepath.Join("pkg/utils", e.Name()))
			if err != nil {
				continue
			}
			if fd := ftFunc(f, "", "ToCamel"); fd != nil {
				toCamelShape = ftStmts(f, fd.Body.List)
			}
		}
		if toCamelShape == nil {
			unk("utils.ToCamel not found")
		}
	}

	// ---- xsd.go: the mapping literal of loadSchemaTypes (XSD_X = strings.ToLower(xsd.X.String()): the lower-cased
	// name of the aqwari constant) and makeXsdBuiltinType
	var xsdRows []kv
	var xsdBuiltinShape []string
	if xs, err := parseGo(repo, "pkg/importer/xsd.go"); err != nil {
		unk("xsd.go: %v", err)
	} else {
		xsdNames := map[string]string{}
		for _, d := range xs.file.Decls {
			gd, ok := d.(*ast.GenDecl)
			if !ok || gd.Tok != token.VAR {
				continue
			}
			for _, sp := range gd.Specs {
				vs := sp.(*ast.ValueSpec)
				for i, n := range vs.Names {
					if i >= len(vs.Values) || !strings.HasPrefix(n.Name, "XSD_") {
						continue
					}
					src := ftSrc(xs.fset, vs.Values[i])
					if strings.HasPrefix(src, "strings.ToLower(xsd.") && strings.HasSuffix(src, ".String())") {
						xsdNames[n.Name] = strings.ToLower(strings.TrimSuffix(strings.TrimPrefix(src, "strings.ToLower(xsd."), ".String())"))
					} else {
						unk("xsd.go: %s = %s", n.Name, src)
					}
				}
			}
		}
		if fd := ftFunc(xs, "", "loadSchemaTypes"); fd == nil {
			unk("loadSchemaTypes not found")
		} else {
			found := false
			ast.Inspect(fd.Body, func(x ast.Node) bool {
				vs, ok := x.(*ast.ValueSpec)
				if !ok || len(vs.Names) != 1 || vs.Names[0].Name != "xsdToSyslMappings" || len(vs.Values) != 1 {
					return true
				}
				cl, ok := vs.Values[0].(*ast.CompositeLit)
				if !ok {
					return true
				}
				found = true
				for _, el := range cl.Elts {
					kve, ok := el.(*ast.KeyValueExpr)
					if !ok {
						unk("xsdToSyslMappings element %s", ftSrc(xs.fset, el))
						continue
					}
					k, ok1 := "", false
					if id, ok := kve.Key.(*ast.Ident); ok {
						k, ok1 = xsdNames[id.Name]
					}
					v, ok2 := "", false
					if ch := selChain(kve.Value); len(ch) == 2 && ch[0] == "syslutil" {
						v, ok2 = sysDecls[ch[1]]
					}
					if !ok1 || !ok2 {
						unk("xsdToSyslMappings element %s", ftSrc(xs.fset, el))
						continue
					}
					xsdRows = append(xsdRows, kv{k, v})
				}
				return true
			})
			if !found {
				unk("loadSchemaTypes: xsdToSyslMappings literal not found")
			}
			sort.Slice(xsdRows, func(i, j int) bool { return xsdRows[i].k < xsdRows[j].k })
		}
		if fd := ftFunc(xs, "", "makeXsdBuiltinType"); fd == nil {
			unk("makeXsdBuiltinType not found")
		} else {
			xsdBuiltinShape = ftStmts(xs, fd.Body.List)
		}
	}

	// ---- determinism of the endpoint side: the loop headers of convertSpec (paths) and buildEndpoint (methods),
	// the statement of buildResponses that handles a response type whose name is already taken; the brace rule of
	// buildQueryString and the importer's list of native type words
	var endpointLoops, respClashShape, queryStringShape, impNative, lexNative []string
	if lg, err := parseGo(repo, "pkg/importer/openapi3_legacy.go"); err == nil {
		loopHeads := func(fn string, want func(string) bool) {
			fd := ftFunc(lg, "OpenAPI3Importer", fn)
			if fd == nil {
				unk("%s not found", fn)
				return
			}
			for _, st := range fd.Body.List {
				rs, ok := st.(*ast.RangeStmt)
				if !ok {
					continue
				}
				head := fn + ": for "
				if rs.Key != nil {
					head += ftSrc(lg.fset, rs.Key)
				}
				if rs.Value != nil {
					head += ", " + ftSrc(lg.fset, rs.Value)
				}
				head += " := range " + ftSrc(lg.fset, rs.X)
				if want(head) {
					endpointLoops = append(endpointLoops, head)
				}
			}
		}
		loopHeads("convertSpec", func(h string) bool { return strings.Contains(h, "ath") })
		loopHeads("buildEndpoint", func(h string) bool { return true })
		if fd := ftFunc(lg, "OpenAPI3Importer", "buildResponses"); fd != nil {
			ast.Inspect(fd.Body, func(x ast.Node) bool {
				is, ok := x.(*ast.IfStmt)
				if !ok {
					return true
				}
				if line := ftSrc(lg.fset, is); strings.HasPrefix(line, "if existing, found := o.types.Find(respType.Name())") {
					respClashShape = append(respClashShape, line)
				}
				return true
			})
		}
	}
	if wr, err := parseGo(repo, "pkg/importer/writer.go"); err == nil {
		if fd := ftFunc(wr, "", "buildQueryString"); fd == nil {
			unk("buildQueryString not found")
		} else {
			queryStringShape = ftStmts(wr, fd.Body.List)
		}
	}
	for _, d := range ut.file.Decls {
		gd, ok := d.(*ast.GenDecl)
		if !ok || gd.Tok != token.VAR {
			continue
		}
		for _, sp := range gd.Specs {
			vs := sp.(*ast.ValueSpec)
			for i, n := range vs.Names {
				if n.Name == "nativeDataTypes" && i < len(vs.Values) {
					impNative = strList("nativeDataTypes")
				}
			}
		}
	}
	if b, err := os.ReadFile(filepath.Join(repo, "pkg/grammar/SyslLexer.g4")); err == nil {
		if body := g4Rule(string(b), "NativeDataTypes"); body != "" {
			if k := strings.Index(body, "{"); k >= 0 {
				body = body[:k]
			}
			// blanks were removed by g4Rule: put them back between the single-letter fragments
			var sp strings.Builder
			for i := 0; i < len(body); i++ {
				sp.WriteByte(body[i])
				sp.WriteByte(' ')
			}
			spaced := sp.String()
			for _, dgt := range "0123456789" {
				spaced = strings.ReplaceAll(spaced, "' "+string(dgt)+" '", "'"+string(dgt)+"'")
			}
			if ci, _, ok := g4Words(spaced); ok {
				lexNative = ci
				sort.Strings(lexNative)
			} else {
				unk("SyslLexer.g4: NativeDataTypes not understood: %s", spaced)
			}
		}
	}

	// ---- responses: whole bodies of the functions Foreign/ResponseSpec.v transliterates
	bodyOf := func(f *goFile, recv, name string) []string {
		fd := ftFunc(f, recv, name)
		if fd == nil {
			unk("%s not found", name)
			return nil
		}
		return ftStmts(f, fd.Body.List)
	}
	var responsesShape, writeEndpointShape, safeURIShape, cleanPathShape, toSyslSafeShape []string
	if lg, err := parseGo(repo, "pkg/importer/openapi3_legacy.go"); err == nil {
		responsesShape = bodyOf(lg, "OpenAPI3Importer", "buildResponses")
	}
	if wr, err := parseGo(repo, "pkg/importer/writer.go"); err == nil {
		// the part of writeEndpoint that writes the responses
		if fd := ftFunc(wr, "writer", "writeEndpoint"); fd == nil {
			unk("writeEndpoint not found")
		} else {
			for _, st := range fd.Body.List {
				if is, ok := st.(*ast.IfStmt); ok && strings.Contains(ftSrc(wr.fset, is.Cond), "endpoint.Responses") {
					writeEndpointShape = append(writeEndpointShape, ftSrc(wr.fset, is))
				}
			}
			if len(writeEndpointShape) != 1 {
				unk("writeEndpoint: %d statements about endpoint.Responses", len(writeEndpointShape))
			}
		}
	}
	safeURIShape = bodyOf(ut, "", "getSyslSafeURI")
	cleanPathShape = bodyOf(ut, "", "cleanEndpointPath")
	toSyslSafeShape = bodyOf(ut, "", "convertToSyslSafe")

	// ---- lexer
	nameRule, dqRule := "", ""
	var kwCI, kwCS []string
	if b, err := os.ReadFile(filepath.Join(repo, "pkg/grammar/SyslLexer.g4")); err != nil {
		unk("SyslLexer.g4: %v", err)
	} else {
		src := string(b)
		nameRule = g4Rule(src, "Name")
		dqRule = g4Rule(src, "DOUBLE_QUOTE_STRING")
		if nameRule == "" {
			unk("SyslLexer.g4: rule Name not found")
		}
		if dqRule == "" {
			unk("SyslLexer.g4: rule DOUBLE_QUOTE_STRING not found")
		}
		kwCI, kwCS = g4Keywords(src)
		if len(kwCI) == 0 {
			unk("SyslLexer.g4: no keyword rules recognised")
		}
	}

	// ---- nested schemas (Foreign/NestedSpec.v): buildField as a whole, the array arm and the allOf / properties
	// loops of loadTypeSchema, getSyslTypeName, TypeList.Add / contains
	var buildFieldShape, loadArrayShape, objectLoopsShape, syslTypeNameShape, typeListAddShape []string
	if lg, err := parseGo(repo, "pkg/importer/openapi3_legacy.go"); err == nil {
		if fd := ftFunc(lg, "OpenAPI3Importer", "buildField"); fd == nil {
			unk("buildField not found")
		} else {
			buildFieldShape = ftStmts(lg, fd.Body.List)
		}
		if fd := ftFunc(lg, "OpenAPI3Importer", "loadTypeSchema"); fd != nil {
			ast.Inspect(fd.Body, func(x ast.Node) bool {
				cc, ok := x.(*ast.CaseClause)
				if !ok {
					return true
				}
				if len(cc.List) == 1 && ftSrc(lg.fset, cc.List[0]) == "schema.Type.Is(openapi3.TypeArray)" && loadArrayShape == nil {
					loadArrayShape = ftStmts(lg, cc.Body)
				}
				for _, st := range cc.Body {
					if rs, ok := st.(*ast.RangeStmt); ok {
						if x := ftSrc(lg.fset, rs.X); x == "schema.AllOf" || x == "schema.Properties" {
							objectLoopsShape = append(objectLoopsShape, ftSrc(lg.fset, st))
						}
					}
				}
				return true
			})
			if loadArrayShape == nil || len(objectLoopsShape) != 2 {
				unk("loadTypeSchema: array arm / allOf and properties loops not found as expected")
			}
		}
	}
	if ut2, err := parseGo(repo, "pkg/importer/utils.go"); err == nil {
		if fd := ftFunc(ut2, "", "getSyslTypeName"); fd == nil {
			unk("getSyslTypeName not found")
		} else {
			syslTypeNameShape = ftStmts(ut2, fd.Body.List)
		}
	}
	if ty2, err := parseGo(repo, "pkg/importer/types.go"); err == nil {
		for _, n := range []string{"Add", "contains"} {
			if fd := ftFunc(ty2, "TypeList", n); fd == nil {
				unk("TypeList.%s not found", n)
			} else {
				typeListAddShape = append(typeListAddShape, "func "+n)
				typeListAddShape = append(typeListAddShape, ftStmts(ty2, fd.Body.List)...)
			}
		}
	}

	var o strings.Builder
	o.WriteString("(* GENERATED by /verif/translate (ForeignTables) from pkg/importer, pkg/utils, pkg/parse/utils.go,\n   pkg/syslutil/typeutil.go and pkg/grammar/SyslLexer.g4 - do not edit *)\n")
	o.WriteString("From Coq Require Import String List.\nImport ListNotations.\nLocal Open Scope string_scope.\n\n")
	o.WriteString("Definition escape_table_s : list (string * string) :=\n  [")
	for i, e := range table {
		if i > 0 {
			o.WriteString("; ")
		}
		fmt.Fprintf(&o, "(%s, %s)", ftCoq(e.k), ftCoq(e.v))
	}
	o.WriteString("].\n")
	fmt.Fprintf(&o, "Definition escape_unsafe_shape : list string :=\n  %s.\n", ftList(escShape))
	fmt.Fprintf(&o, "Definition safe_name_regex : string := %s.\n", ftCoq(safeRegex))
	fmt.Fprintf(&o, "Definition safe_name_shape : list string :=\n  %s.\n", ftList(safeShape))
	fmt.Fprintf(&o, "Definition quote_shape : list string :=\n  %s.\n", ftList(quoteShape))
	fmt.Fprintf(&o, "Definition field_name_shape : list string :=\n  %s.\n", ftList(fieldShape))
	fmt.Fprintf(&o, "Definition required_rule : list string :=\n  %s.\n", ftList(reqRule))
	fmt.Fprintf(&o, "Definition convert_shape : list string :=\n  %s.\n", ftList(convertShape))
	fmt.Fprintf(&o, "Definition array_rule : list string :=\n  %s.\n", ftList(arrayRule))
	fmt.Fprintf(&o, "Definition object_tail : list string :=\n  %s.\n", ftList(objectTail))
	fmt.Fprintf(&o, "Definition find_shape : list string :=\n  %s.\n", ftList(findShape))
	fmt.Fprintf(&o, "Definition build_field_shape : list string :=\n  %s.\n", ftList(buildFieldShape))
	fmt.Fprintf(&o, "Definition load_array_shape : list string :=\n  %s.\n", ftList(loadArrayShape))
	fmt.Fprintf(&o, "Definition object_loops_shape : list string :=\n  %s.\n", ftList(objectLoopsShape))
	fmt.Fprintf(&o, "Definition sysl_type_name_shape : list string :=\n  %s.\n", ftList(syslTypeNameShape))
	fmt.Fprintf(&o, "Definition type_list_add_shape : list string :=\n  %s.\n", ftList(typeListAddShape))
	fmt.Fprintf(&o, "Definition sort_props_shape : list string :=\n  %s.\n", ftList(sortPropsShape))
	fmt.Fprintf(&o, "Definition sort_types_shape : list string :=\n  %s.\n", ftList(sortTypesShape))
	fmt.Fprintf(&o, "Definition params_shape : list string :=\n  %s.\n", ftList(paramsShape))
	fmt.Fprintf(&o, "Definition contains_shape : list string :=\n  %s.\n", ftList(containsShape))
	fmt.Fprintf(&o, "Definition must_unescape_shape : list string :=\n  %s.\n", ftList(mustShape))
	fmt.Fprintf(&o, "Definition builtin_types : list string :=\n  %s.\n", ftList(builtins))
	o.WriteString("Definition oas_type_table : list (string * list (string * string)) :=\n  [")
	for i, r := range rows {
		if i > 0 {
			o.WriteString(";\n   ")
		}
		fmt.Fprintf(&o, "(%s, [", ftCoq(r.typ))
		for j, f := range r.fmts {
			if j > 0 {
				o.WriteString("; ")
			}
			fmt.Fprintf(&o, "(%s, %s)", ftCoq(f.k), ftCoq(f.v))
		}
		o.WriteString("])")
	}
	o.WriteString("].\n")
	fmt.Fprintf(&o, "Definition map_type_shape : list string :=\n  %s.\n", ftList(mapTypeShape))
	fmt.Fprintf(&o, "Definition type_name_shape : list string :=\n  %s.\n", ftList(typeNameShape))
	fmt.Fprintf(&o, "Definition prim_def_shape : list string :=\n  %s.\n", ftList(primDefShape))
	fmt.Fprintf(&o, "Definition requests_shape : list string :=\n  %s.\n", ftList(requestsShape))
	fmt.Fprintf(&o, "Definition media_field_shape : list string :=\n  %s.\n", ftList(mediaFieldShape))
	fmt.Fprintf(&o, "Definition body_string_shape : list string :=\n  %s.\n", ftList(bodyStringShape))
	fmt.Fprintf(&o, "Definition clean_media_shape : list string :=\n  %s.\n", ftList(cleanMediaShape))
	fmt.Fprintf(&o, "Definition to_camel_shape : list string :=\n  %s.\n", ftList(toCamelShape))
	fmt.Fprintf(&o, "Definition endpoint_loops : list string :=\n  %s.\n", ftList(endpointLoops))
	fmt.Fprintf(&o, "Definition resp_clash_shape : list string :=\n  %s.\n", ftList(respClashShape))
	fmt.Fprintf(&o, "Definition query_string_shape : list string :=\n  %s.\n", ftList(queryStringShape))
	fmt.Fprintf(&o, "Definition importer_native_types : list string :=\n  %s.\n", ftList(impNative))
	fmt.Fprintf(&o, "Definition lexer_native_types : list string :=\n  %s.\n", ftList(lexNative))
	fmt.Fprintf(&o, "Definition responses_shape : list string :=\n  %s.\n", ftList(responsesShape))
	fmt.Fprintf(&o, "Definition write_responses_shape : list string :=\n  %s.\n", ftList(writeEndpointShape))
	fmt.Fprintf(&o, "Definition safe_uri_shape : list string :=\n  %s.\n", ftList(safeURIShape))
	fmt.Fprintf(&o, "Definition clean_path_shape : list string :=\n  %s.\n", ftList(cleanPathShape))
	fmt.Fprintf(&o, "Definition to_sysl_safe_shape : list string :=\n  %s.\n", ftList(toSyslSafeShape))
	o.WriteString("Definition xsd_type_table : list (string * string) :=\n  [")
	for i, e := range xsdRows {
		if i > 0 {
			o.WriteString("; ")
		}
		fmt.Fprintf(&o, "(%s, %s)", ftCoq(e.k), ftCoq(e.v))
	}
	o.WriteString("].\n")
	fmt.Fprintf(&o, "Definition xsd_builtin_shape : list string :=\n  %s.\n", ftList(xsdBuiltinShape))
	fmt.Fprintf(&o, "Definition lexer_name_rule : string := %s.\n", ftCoq(nameRule))
	fmt.Fprintf(&o, "Definition lexer_dq_rule : string := %s.\n", ftCoq(dqRule))
	fmt.Fprintf(&o, "Definition lexer_keywords_ci : list string :=\n  %s.\n", ftList(kwCI))
	fmt.Fprintf(&o, "Definition lexer_keywords_cs : list string :=\n  %s.\n", ftList(kwCS))
	fmt.Fprintf(&o, "Definition importer_keywords_ci : list string :=\n  %s.\n", ftList(impKw))
	fmt.Fprintf(&o, "Definition importer_keywords_cs : list string :=\n  %s.\n", ftList(impVerbs))
	fmt.Fprintf(&o, "Definition is_keyword_shape : list string :=\n  %s.\n", ftList(isKwShape))
	fmt.Fprintf(&o, "Definition unknown : list string :=\n  %s.\n", ftList(unknown))
	return o.String(), nil
}
