package main

// Sort sites (C19): every sort.Slice / sort.SliceStable / sort.Sort / sort.Stable call in the generator packages,
// keyed by package.function + ordinal, with
//
//	api    Slice | SliceStable | Sort | Stable                         (stable or not)
//	keys   the comparator read as a lexicographic chain of compared projections, outermost first; each projection is
//	       KElem    the whole element (`s[i] < s[j]`, strings.Compare(s[i], s[j]) < 0): a tie means equal elements
//	       KMapKey  a field that the loop filling the slice initialises with the key of the ranged map (unique)
//	       KProj    any other projection of the element (field, method, function of the element): ties possible
//	       an empty list = the comparator is not one of the recognised chains
//	src    where the order of the sorted slice comes from:
//	       SrcMapRange  appended to inside a `range` over a map in the same function (map order)
//	       SrcLocal     built in the same function otherwise
//	       SrcParam     a parameter / field / receiver / call result (order decided by the callers)
//
// Recognised comparator bodies (after inlining `a := e` / `a, b := e1, e2` definitions; A(j) must be A(i) with the two
// index variables exchanged):
//
//	return A(i) < A(j)            return A(i) > A(j)          return strings.Compare(A(i), A(j)) < 0
//	if A(i) != A(j) { return A(i) < A(j) } ; <chain>
//	if A(i) == A(j) { <chain> } ; return A(i) < A(j)
//
// For sort.Sort / sort.Stable the Less method of the argument's named type (same package) is the comparator.

import (
	"fmt"
	"go/ast"
	"go/token"
	"go/types"
	"strings"
)

type sortKey struct {
	kind string // KElem | KMapKey | KProj
	text string // the projection with the element written `_`
}

type sortSite struct {
	pkg, fn string
	ord     int
	api     string
	keys    []sortKey
	src     string
	detail  string
}

var sortAPIs = map[string]string{"Slice": "ApiSlice", "SliceStable": "ApiSliceStable", "Sort": "ApiSort", "Stable": "ApiStable"}

// lessMethods: named type -> its Less method, for one package
func lessMethods(files []*ast.File) map[string]*ast.FuncDecl {
	out := map[string]*ast.FuncDecl{}
	for _, f := range files {
		for _, fd := range funcDecls(f) {
			if fd.Name.Name == "Less" && fd.Body != nil && recvName(fd) != "" {
				out[recvName(fd)] = fd
			}
		}
	}
	return out
}

// render prints an expression with local definitions inlined and the two compared elements written $i / $j
type cmpEnv struct {
	si     *srcImporter
	slice  string            // printed slice expression
	pi, pj string            // index parameter names
	defs   map[string]string // local name -> rendered definition
}

func (ce *cmpEnv) render(e ast.Expr) string {
	switch x := e.(type) {
	case *ast.Ident:
		if d, ok := ce.defs[x.Name]; ok {
			return d
		}
		return x.Name
	case *ast.ParenExpr:
		return "(" + ce.render(x.X) + ")"
	case *ast.SelectorExpr:
		return ce.render(x.X) + "." + x.Sel.Name
	case *ast.StarExpr:
		return "*" + ce.render(x.X)
	case *ast.UnaryExpr:
		return x.Op.String() + ce.render(x.X)
	case *ast.BinaryExpr:
		return ce.render(x.X) + " " + x.Op.String() + " " + ce.render(x.Y)
	case *ast.IndexExpr:
		if id, ok := x.Index.(*ast.Ident); ok && nodeSrc(ce.si, x.X) == ce.slice {
			if id.Name == ce.pi {
				return "$i"
			}
			if id.Name == ce.pj {
				return "$j"
			}
		}
		return ce.render(x.X) + "[" + ce.render(x.Index) + "]"
	case *ast.CallExpr:
		args := make([]string, len(x.Args))
		for i, a := range x.Args {
			args[i] = ce.render(a)
		}
		return ce.render(x.Fun) + "(" + strings.Join(args, ", ") + ")"
	}
	return nodeSrc(ce.si, e)
}

func swapIJ(s string) string {
	s = strings.ReplaceAll(s, "$i", "$\x00")
	s = strings.ReplaceAll(s, "$j", "$i")
	return strings.ReplaceAll(s, "$\x00", "$j")
}

// lessPair: e is `A < B`, `A > B` or `strings.Compare(A, B) < 0` with B = A under the exchange of the elements
func (ce *cmpEnv) lessPair(e ast.Expr) (string, bool) {
	for {
		p, ok := e.(*ast.ParenExpr)
		if !ok {
			break
		}
		e = p.X
	}
	b, ok := e.(*ast.BinaryExpr)
	if !ok {
		return "", false
	}
	var l, r string
	if call, ok := b.X.(*ast.CallExpr); ok && b.Op == token.LSS && nodeSrc(ce.si, call.Fun) == "strings.Compare" && len(call.Args) == 2 {
		if lit, ok := b.Y.(*ast.BasicLit); !ok || lit.Value != "0" {
			return "", false
		}
		l, r = ce.render(call.Args[0]), ce.render(call.Args[1])
	} else if b.Op == token.LSS || b.Op == token.GTR {
		l, r = ce.render(b.X), ce.render(b.Y)
	} else {
		return "", false
	}
	if !strings.Contains(l, "$i") && !strings.Contains(l, "$j") {
		return "", false
	}
	if swapIJ(l) != r {
		return "", false
	}
	if strings.Contains(l, "$j") {
		l = r
	}
	return strings.ReplaceAll(l, "$i", "_"), true
}

// eqPair: e is `A == B` / `A != B` with B = A under the exchange
func (ce *cmpEnv) eqPair(e ast.Expr, op token.Token) (string, bool) {
	b, ok := e.(*ast.BinaryExpr)
	if !ok || b.Op != op {
		return "", false
	}
	l, r := ce.render(b.X), ce.render(b.Y)
	if swapIJ(l) != r || (!strings.Contains(l, "$i") && !strings.Contains(l, "$j")) {
		return "", false
	}
	if strings.Contains(l, "$j") {
		l = r
	}
	return strings.ReplaceAll(l, "$i", "_"), true
}

func singleReturn(b *ast.BlockStmt) (ast.Expr, bool) {
	if b == nil || len(b.List) != 1 {
		return nil, false
	}
	r, ok := b.List[0].(*ast.ReturnStmt)
	if !ok || len(r.Results) != 1 {
		return nil, false
	}
	return r.Results[0], true
}

// chain reads a statement list as a lexicographic chain; nil = not recognised
func (ce *cmpEnv) chain(stmts []ast.Stmt) []string {
	for len(stmts) > 0 {
		as, ok := stmts[0].(*ast.AssignStmt)
		if !ok || as.Tok != token.DEFINE || len(as.Lhs) != len(as.Rhs) {
			break
		}
		vals := make([]string, len(as.Rhs))
		for i, r := range as.Rhs {
			vals[i] = ce.render(r)
		}
		for i, l := range as.Lhs {
			id, ok := l.(*ast.Ident)
			if !ok {
				return nil
			}
			ce.defs[id.Name] = vals[i]
		}
		stmts = stmts[1:]
	}
	if len(stmts) == 0 {
		return nil
	}
	switch s := stmts[0].(type) {
	case *ast.ReturnStmt:
		if len(s.Results) != 1 || len(stmts) != 1 {
			return nil
		}
		if k, ok := ce.lessPair(s.Results[0]); ok {
			return []string{k}
		}
	case *ast.IfStmt:
		if s.Init != nil || s.Else != nil {
			return nil
		}
		if k, ok := ce.eqPair(s.Cond, token.NEQ); ok {
			// if A != B { return A < B }; rest
			ret, ok := singleReturn(s.Body)
			if !ok {
				return nil
			}
			k2, ok := ce.lessPair(ret)
			if !ok || k2 != k {
				return nil
			}
			rest := ce.chain(stmts[1:])
			if rest == nil {
				return nil
			}
			return append([]string{k}, rest...)
		}
		if k, ok := ce.eqPair(s.Cond, token.EQL); ok {
			// if A == B { chain }; return A < B
			if len(stmts) != 2 {
				return nil
			}
			ret, ok := stmts[1].(*ast.ReturnStmt)
			if !ok || len(ret.Results) != 1 {
				return nil
			}
			k2, ok := ce.lessPair(ret.Results[0])
			if !ok || k2 != k {
				return nil
			}
			inner := ce.chain(s.Body.List)
			if inner == nil {
				return nil
			}
			return append([]string{k}, inner...)
		}
	}
	return nil
}

// fill describes how the sorted slice got its elements inside fd before position `before`
type sliceFill struct {
	src       string          // SrcMapRange | SrcLocal | SrcParam
	keyFields map[string]bool // fields of the appended composite literal initialised with the range key
	keyElem   bool            // the range key itself is appended
}

func sliceSource(si *srcImporter, info *types.Info, fd *ast.FuncDecl, slice ast.Expr, before token.Pos) sliceFill {
	out := sliceFill{src: "SrcParam", keyFields: map[string]bool{}}
	id, ok := slice.(*ast.Ident)
	if !ok {
		return out
	}
	obj := info.Uses[id]
	if obj == nil {
		return out
	}
	// a parameter, a receiver or a package-level variable is not built here - unless the function refills it
	// (`props = make(...)` followed by appends inside a range over a map)
	if fd.Body == nil {
		return out
	}
	if obj.Pos() >= fd.Body.Pos() && obj.Pos() <= fd.Body.End() {
		out.src = "SrcLocal"
	}
	name := id.Name
	var visit func(n ast.Node, rangeKey string, inMap bool)
	visit = func(n ast.Node, rangeKey string, inMap bool) {
		ast.Inspect(n, func(nd ast.Node) bool {
			if nd == nil || nd.Pos() >= before {
				return false
			}
			if rs, ok := nd.(*ast.RangeStmt); ok && nd != n {
				isMap, known := isMapType(info.TypeOf(rs.X))
				k := ""
				if kid, ok := rs.Key.(*ast.Ident); ok && isMap {
					k = kid.Name
				}
				if isMap || !known {
					visit(rs.Body, k, true)
				} else {
					visit(rs.Body, rangeKey, inMap)
				}
				return false
			}
			as, ok := nd.(*ast.AssignStmt)
			if !ok || len(as.Lhs) != 1 || len(as.Rhs) != 1 || !isIdent(as.Lhs[0], name) {
				return true
			}
			call, ok := as.Rhs[0].(*ast.CallExpr)
			if !ok || !isIdent(call.Fun, "append") || len(call.Args) < 2 || !isIdent(call.Args[0], name) {
				return true
			}
			if !inMap {
				return true
			}
			out.src = "SrcMapRange"
			for _, a := range call.Args[1:] {
				if rangeKey != "" && isIdent(a, rangeKey) {
					out.keyElem = true
				}
				cl, ok := a.(*ast.CompositeLit)
				if u, isU := a.(*ast.UnaryExpr); isU && u.Op == token.AND {
					cl, ok = u.X.(*ast.CompositeLit)
				}
				if ok && rangeKey != "" {
					for _, el := range cl.Elts {
						if kv, ok := el.(*ast.KeyValueExpr); ok && isIdent(kv.Value, rangeKey) {
							if f, ok := kv.Key.(*ast.Ident); ok {
								out.keyFields[f.Name] = true
							}
						}
					}
				}
			}
			return true
		})
	}
	visit(fd.Body, "", false)
	return out
}

// collectSortSites: the sort calls of one function declaration
func collectSortSites(si *srcImporter, info *types.Info, pkg string, fd *ast.FuncDecl, less map[string]*ast.FuncDecl) []sortSite {
	var out []sortSite
	n := 0
	ast.Inspect(fd.Body, func(nd ast.Node) bool {
		call, ok := nd.(*ast.CallExpr)
		if !ok {
			return true
		}
		sel, ok := call.Fun.(*ast.SelectorExpr)
		if !ok || !isIdent(sel.X, "sort") || sortAPIs[sel.Sel.Name] == "" || len(call.Args) == 0 {
			return true
		}
		n++
		s := sortSite{pkg: pkg, fn: funcKey(fd), ord: n, api: sortAPIs[sel.Sel.Name]}
		sliceArg := call.Args[0]
		var keys []string
		switch sel.Sel.Name {
		case "Slice", "SliceStable":
			if len(call.Args) == 2 {
				if fl, ok := call.Args[1].(*ast.FuncLit); ok && len(fl.Type.Params.List) > 0 {
					var names []string
					for _, f := range fl.Type.Params.List {
						for _, nm := range f.Names {
							names = append(names, nm.Name)
						}
					}
					if len(names) == 2 {
						ce := &cmpEnv{si: si, slice: nodeSrc(si, sliceArg), pi: names[0], pj: names[1], defs: map[string]string{}}
						keys = ce.chain(fl.Body.List)
					}
				}
			}
		case "Sort", "Stable":
			// sort.Sort(T(x)) / sort.Sort(x) with x of named type T
			if conv, ok := sliceArg.(*ast.CallExpr); ok && len(conv.Args) == 1 {
				if tv, ok := info.Types[conv.Fun]; ok && tv.IsType() {
					sliceArg = conv.Args[0]
				}
			}
			tn := ""
			if t := info.TypeOf(call.Args[0]); t != nil {
				if p, ok := t.(*types.Pointer); ok {
					t = p.Elem()
				}
				if nt, ok := t.(*types.Named); ok {
					tn = nt.Obj().Name()
				}
			}
			if lm := less[tn]; lm != nil && len(lm.Type.Params.List) > 0 {
				var names []string
				for _, f := range lm.Type.Params.List {
					for _, nm := range f.Names {
						names = append(names, nm.Name)
					}
				}
				if len(names) == 2 && recvVar(lm) != "" {
					ce := &cmpEnv{si: si, slice: recvVar(lm), pi: names[0], pj: names[1], defs: map[string]string{}}
					keys = ce.chain(lm.Body.List)
				}
			} else {
				s.detail = "no Less method of " + tn + " in this package"
			}
		}
		fill := sliceSource(si, info, fd, sliceArg, call.Pos())
		s.src = fill.src
		for _, k := range keys {
			kind := "KProj"
			switch {
			case k == "_":
				kind = "KElem"
			case strings.HasPrefix(k, "_.") && fill.keyFields[k[2:]]:
				kind = "KMapKey"
			}
			s.keys = append(s.keys, sortKey{kind, k})
		}
		if s.detail == "" {
			s.detail = fmt.Sprintf("slice %s keyElem=%v keyFields=%v", nodeSrc(si, sliceArg), fill.keyElem, fill.keyFields)
		}
		out = append(out, s)
		return true
	})
	return out
}
