package main

import (
	"bytes"
	"fmt"
	"go/ast"
	"go/printer"
	"go/token"
	"sort"
	"strconv"
	"strings"
)

// LexerTables: what pkg/grammar says about indentation handling, as data for Front/Indent.v.
//
//	sysl_lexer.go   const block "SyslLexer<NAME> = <id>"             -> token ids
//	                every <RULE>_Action method: does it assign gotNewLine = true, spaces = 0,
//	                spaces = calcSpaces(l.GetText())                     -> t_actions (keyed by token id)
//	lexer_impl.go   getNextToken: case labels of the switch under `if ls.gotNewLine` whose clause chain
//	                reaches `return next`                                -> t_bypass
//	                the token compared in `else if next.GetTokenType() == X { ls.spaces = 0; return next }`
//	                                                                     -> t_comment
//	                calcSpaces: `if text[i] == C { s++ | s += N }`      -> calc_weights (byte, weight)
//	                ls(): the composite literal of a fresh lexerState    -> t_init_nl
//	                getNextToken, one rendered line per statement        -> gnt_shape (statement order + guards)
//
// Anything that cannot be classified is listed in `unknown` (Front/Tables.v proves `unknown = []` by reflexivity).
func init() { register("LexerTables", lexerTables) }

func ltSrc(fset *token.FileSet, e ast.Node) string {
	var b bytes.Buffer
	printer.Fprint(&b, fset, e)
	return strings.Join(strings.Fields(b.String()), " ")
}

// ltStateField: is e `ls.<f>` or `ls(l).<f>` (any receiver spelling of the lexer state)? returns f
func ltStateField(e ast.Expr) string {
	s, ok := e.(*ast.SelectorExpr)
	if !ok {
		return ""
	}
	switch x := s.X.(type) {
	case *ast.Ident:
		if x.Name == "ls" {
			return s.Sel.Name
		}
	case *ast.CallExpr:
		if isIdent(x.Fun, "ls") {
			return s.Sel.Name
		}
	}
	return ""
}

func ltCoqString(s string) string { return "\"" + strings.ReplaceAll(s, "\"", "\"\"") + "\"" }

func lexerTables(repo string) (string, error) {
	gl, err := parseGo(repo, "pkg/grammar/sysl_lexer.go")
	if err != nil {
		return "", err
	}
	li, err := parseGo(repo, "pkg/grammar/lexer_impl.go")
	if err != nil {
		return "", err
	}
	var unknown []string
	unk := func(f string, a ...interface{}) { unknown = append(unknown, fmt.Sprintf(f, a...)) }

	// ---- token ids
	ids := map[string]int{}
	var names []string
	for _, d := range gl.file.Decls {
		gd, ok := d.(*ast.GenDecl)
		if !ok || gd.Tok != token.CONST {
			continue
		}
		for _, sp := range gd.Specs {
			vs := sp.(*ast.ValueSpec)
			for i, n := range vs.Names {
				if !strings.HasPrefix(n.Name, "SyslLexer") || i >= len(vs.Values) {
					continue
				}
				bl, ok := vs.Values[i].(*ast.BasicLit)
				if !ok || bl.Kind != token.INT {
					continue // the mode constants use iota
				}
				v, err := strconv.Atoi(bl.Value)
				if err != nil {
					continue
				}
				nm := strings.TrimPrefix(n.Name, "SyslLexer")
				ids[nm] = v
				names = append(names, nm)
			}
		}
	}
	if len(ids) == 0 {
		return "", fmt.Errorf("no SyslLexer token constants found")
	}
	sort.Slice(names, func(i, j int) bool { return ids[names[i]] < ids[names[j]] })
	tokID := func(e ast.Expr) (string, int, bool) {
		id, ok := e.(*ast.Ident)
		if !ok || !strings.HasPrefix(id.Name, "SyslLexer") {
			return "", 0, false
		}
		nm := strings.TrimPrefix(id.Name, "SyslLexer")
		v, ok := ids[nm]
		return nm, v, ok
	}

	// ---- rule actions
	type act struct {
		rule    string
		nl      bool
		sp      string // SpKeep | SpZero | SpCalc
		setType bool
	}
	var acts []act
	for _, fd := range funcDecls(gl.file) {
		if recvName(fd) != "SyslLexer" || !strings.HasSuffix(fd.Name.Name, "_Action") || fd.Body == nil {
			continue
		}
		a := act{rule: strings.TrimSuffix(fd.Name.Name, "_Action"), sp: "SpKeep"}
		touched := false
		ast.Inspect(fd.Body, func(n ast.Node) bool {
			switch s := n.(type) {
			case *ast.AssignStmt:
				for i, lhs := range s.Lhs {
					f := ltStateField(lhs)
					if f != "gotNewLine" && f != "spaces" {
						continue
					}
					touched = true
					if s.Tok != token.ASSIGN || i >= len(s.Rhs) {
						unk("%s_Action: %s", a.rule, ltSrc(gl.fset, s))
						continue
					}
					rhs := s.Rhs[i]
					switch f {
					case "gotNewLine":
						if isIdent(rhs, "true") {
							a.nl = true
						} else {
							unk("%s_Action: %s", a.rule, ltSrc(gl.fset, s))
						}
					case "spaces":
						if bl, ok := rhs.(*ast.BasicLit); ok && bl.Value == "0" {
							if a.sp == "SpCalc" {
								unk("%s_Action: spaces assigned twice", a.rule)
							}
							a.sp = "SpZero"
						} else if c, ok := rhs.(*ast.CallExpr); ok && isIdent(c.Fun, "calcSpaces") && len(c.Args) == 1 &&
							ltSrc(gl.fset, c.Args[0]) == "l.GetText()" {
							if a.sp == "SpZero" {
								unk("%s_Action: spaces assigned twice", a.rule)
							}
							a.sp = "SpCalc"
						} else {
							unk("%s_Action: %s", a.rule, ltSrc(gl.fset, s))
						}
					}
				}
			case *ast.IncDecStmt:
				if f := ltStateField(s.X); f == "gotNewLine" || f == "spaces" {
					unk("%s_Action: %s", a.rule, ltSrc(gl.fset, s))
				}
			case *ast.CallExpr:
				if ch := selChain(s.Fun); len(ch) == 2 && ch[1] == "SetType" {
					a.setType = true
				}
			}
			return true
		})
		// an action guarded by a condition would not be the unconditional effect the model applies
		if touched {
			ast.Inspect(fd.Body, func(n ast.Node) bool {
				if ifs, ok := n.(*ast.IfStmt); ok {
					bad := false
					ast.Inspect(ifs.Body, func(m ast.Node) bool {
						if as, ok := m.(*ast.AssignStmt); ok {
							for _, lhs := range as.Lhs {
								if f := ltStateField(lhs); f == "gotNewLine" || f == "spaces" {
									bad = true
								}
							}
						}
						return true
					})
					if bad {
						unk("%s_Action: conditional assignment to gotNewLine/spaces", a.rule)
					}
				}
				return true
			})
			if a.setType {
				unk("%s_Action: changes the token type and the indentation state", a.rule)
			}
			if _, ok := ids[a.rule]; !ok {
				unk("%s_Action: no token constant for the rule", a.rule)
			}
			acts = append(acts, a)
		}
	}
	sort.Slice(acts, func(i, j int) bool { return ids[acts[i].rule] < ids[acts[j].rule] })

	// ---- getNextToken
	var gnt, calc, lsf *ast.FuncDecl
	for _, fd := range funcDecls(li.file) {
		switch fd.Name.Name {
		case "getNextToken":
			gnt = fd
		case "calcSpaces":
			calc = fd
		case "ls":
			lsf = fd
		}
	}
	if gnt == nil || calc == nil || lsf == nil {
		return "", fmt.Errorf("getNextToken / calcSpaces / ls not found in lexer_impl.go")
	}
	var bypass []string
	comment := ""
	for _, st := range gnt.Body.List {
		ifs, ok := st.(*ast.IfStmt)
		if !ok {
			continue
		}
		cond := ltSrc(li.fset, ifs.Cond)
		if cond == "ls.gotNewLine" {
			for _, s2 := range ifs.Body.List {
				sw, ok := s2.(*ast.SwitchStmt)
				if !ok {
					continue
				}
				if ltSrc(li.fset, sw.Tag) != "next.GetTokenType()" {
					unk("getNextToken: switch on %s", ltSrc(li.fset, sw.Tag))
					continue
				}
				// clause chain: a clause reaches `return next` if it ends in it or falls through to one that does
				cl := sw.Body.List
				reach := make([]bool, len(cl))
				for i := len(cl) - 1; i >= 0; i-- {
					cc := cl[i].(*ast.CaseClause)
					if len(cc.Body) == 0 {
						continue
					}
					last := cc.Body[len(cc.Body)-1]
					if r, ok := last.(*ast.ReturnStmt); ok && len(r.Results) == 1 && isIdent(r.Results[0], "next") && len(cc.Body) == 1 {
						reach[i] = true
					} else if b, ok := last.(*ast.BranchStmt); ok && b.Tok == token.FALLTHROUGH && len(cc.Body) == 1 && i+1 < len(cl) {
						reach[i] = reach[i+1]
					} else {
						unk("getNextToken: unclassified case body under gotNewLine")
					}
				}
				for i, c := range cl {
					cc := c.(*ast.CaseClause)
					if !reach[i] {
						continue
					}
					if cc.List == nil {
						unk("getNextToken: default clause returns next")
					}
					for _, e := range cc.List {
						if nm, _, ok := tokID(e); ok {
							bypass = append(bypass, nm)
						} else {
							unk("getNextToken: case label %s", ltSrc(li.fset, e))
						}
					}
				}
			}
		}
		// if !ls.gotNewLine && hidden {...} else if next.GetTokenType() == SyslLexerX { ls.spaces = 0; return next }
		if el, ok := ifs.Else.(*ast.IfStmt); ok {
			if be, ok := el.Cond.(*ast.BinaryExpr); ok && be.Op == token.EQL && ltSrc(li.fset, be.X) == "next.GetTokenType()" {
				if nm, _, ok := tokID(be.Y); ok {
					body := make([]string, 0, 2)
					for _, b := range el.Body.List {
						body = append(body, ltSrc(li.fset, b))
					}
					if strings.Join(body, ";") == "ls.spaces = 0;return next" {
						if comment != "" {
							unk("getNextToken: two comment-like branches")
						}
						comment = nm
					}
				}
			}
		}
	}
	if comment == "" {
		unk("getNextToken: comment branch not found")
		comment = "INDENT"
	}

	// one line per statement, pre-order; the logging statement is left out
	var shape []string
	var walk func(s ast.Stmt)
	walkList := func(l []ast.Stmt) {
		for _, s := range l {
			walk(s)
		}
	}
	walk = func(s ast.Stmt) {
		switch x := s.(type) {
		case *ast.BlockStmt:
			shape = append(shape, "{")
			walkList(x.List)
			shape = append(shape, "}")
		case *ast.IfStmt:
			c := ltSrc(li.fset, x.Cond)
			if c == "syslLexerLog" {
				return
			}
			if x.Init != nil {
				c = ltSrc(li.fset, x.Init) + "; " + c
			}
			shape = append(shape, "if "+c)
			walk(x.Body)
			if x.Else != nil {
				shape = append(shape, "else")
				walk(x.Else)
			}
		case *ast.ForStmt:
			h := "for "
			if x.Init != nil || x.Post != nil {
				h += ltSrc(li.fset, x.Init) + "; "
			}
			if x.Cond != nil {
				h += ltSrc(li.fset, x.Cond)
			}
			if x.Post != nil {
				h += "; " + ltSrc(li.fset, x.Post)
			}
			shape = append(shape, h)
			walk(x.Body)
		case *ast.SwitchStmt:
			shape = append(shape, "switch "+ltSrc(li.fset, x.Tag))
			for _, c := range x.Body.List {
				cc := c.(*ast.CaseClause)
				var ls []string
				for _, e := range cc.List {
					ls = append(ls, ltSrc(li.fset, e))
				}
				if cc.List == nil {
					shape = append(shape, "default")
				} else {
					shape = append(shape, "case "+strings.Join(ls, ", "))
				}
				walkList(cc.Body)
			}
			shape = append(shape, "endswitch")
		default:
			shape = append(shape, ltSrc(li.fset, s))
		}
	}
	walkList(gnt.Body.List)
	// the helpers the loop relies on, rendered the same way
	helperShape := map[string][]string{}
	var helperNames []string
	for _, fd := range funcDecls(li.file) {
		key := fd.Name.Name
		if r := recvName(fd); r != "" {
			key = r + "." + key
		}
		switch key {
		case "getPreviousIndent", "stack.Push", "stack.Pop", "stack.Size", "stack.Peek", "createIndentToken", "createDedentToken":
			saved := shape
			shape = nil
			walkList(fd.Body.List)
			helperShape[key] = shape
			helperNames = append(helperNames, key)
			shape = saved
		}
	}
	sort.Strings(helperNames)

	// ---- calcSpaces: for i ... { if text[i] == C { s++ | s += N } }
	type wt struct{ ch, w int }
	var weights []wt
	okShape := false
	for _, st := range calc.Body.List {
		fs, ok := st.(*ast.ForStmt)
		if !ok {
			continue
		}
		okShape = true
		for _, b := range fs.Body.List {
			ifs, ok := b.(*ast.IfStmt)
			if !ok || ifs.Else != nil || len(ifs.Body.List) != 1 {
				unk("calcSpaces: %s", ltSrc(li.fset, b))
				continue
			}
			be, ok := ifs.Cond.(*ast.BinaryExpr)
			if !ok || be.Op != token.EQL || ltSrc(li.fset, be.X) != "text[i]" {
				unk("calcSpaces: condition %s", ltSrc(li.fset, ifs.Cond))
				continue
			}
			cl, ok := be.Y.(*ast.BasicLit)
			if !ok || cl.Kind != token.CHAR {
				unk("calcSpaces: condition %s", ltSrc(li.fset, ifs.Cond))
				continue
			}
			chs, err := strconv.Unquote(cl.Value)
			if err != nil || len(chs) != 1 {
				unk("calcSpaces: char %s", cl.Value)
				continue
			}
			w := -1
			switch s := ifs.Body.List[0].(type) {
			case *ast.IncDecStmt:
				if isIdent(s.X, "s") && s.Tok == token.INC {
					w = 1
				}
			case *ast.AssignStmt:
				if len(s.Lhs) == 1 && isIdent(s.Lhs[0], "s") && s.Tok == token.ADD_ASSIGN && len(s.Rhs) == 1 {
					if bl, ok := s.Rhs[0].(*ast.BasicLit); ok && bl.Kind == token.INT {
						w, _ = strconv.Atoi(bl.Value)
					}
				}
			}
			if w < 0 {
				unk("calcSpaces: %s", ltSrc(li.fset, ifs.Body.List[0]))
				continue
			}
			weights = append(weights, wt{int(chs[0]), w})
		}
	}
	if !okShape {
		unk("calcSpaces: no loop over the text")
	}
	// everything else in calcSpaces must be `s := 0` and `return s`
	for _, st := range calc.Body.List {
		switch ltSrc(li.fset, st) {
		case "s := 0", "return s":
		default:
			if _, ok := st.(*ast.ForStmt); !ok {
				unk("calcSpaces: %s", ltSrc(li.fset, st))
			}
		}
	}

	// ---- fresh state
	initNL := "false"
	nlit := 0
	ast.Inspect(lsf.Body, func(n ast.Node) bool {
		cl, ok := n.(*ast.CompositeLit)
		if !ok || !isIdent(cl.Type, "lexerState") {
			return true
		}
		nlit++
		for _, e := range cl.Elts {
			kv, ok := e.(*ast.KeyValueExpr)
			if !ok {
				unk("ls: positional lexerState literal")
				continue
			}
			k, _ := kv.Key.(*ast.Ident)
			if k == nil {
				continue
			}
			switch k.Name {
			case "gotNewLine":
				if isIdent(kv.Value, "true") {
					initNL = "true"
				} else if !isIdent(kv.Value, "false") {
					unk("ls: gotNewLine: %s", ltSrc(li.fset, kv.Value))
				}
			case "spaces", "level", "prevToken":
				unk("ls: fresh state sets %s", k.Name)
			}
		}
		return true
	})
	if nlit != 1 {
		unk("ls: %d lexerState literals", nlit)
	}

	// ---- output
	var b strings.Builder
	b.WriteString("(* GENERATED by vt LexerTables from pkg/grammar/sysl_lexer.go and pkg/grammar/lexer_impl.go -- do not edit *)\n")
	b.WriteString("From Coq Require Import List String NArith Bool.\nImport ListNotations.\nRequire Import Verif.Front.Indent.\nLocal Open Scope N_scope.\n")
	b.WriteString("Definition token_ids : list (string * N) := [\n")
	for i, n := range names {
		sep := ";"
		if i == len(names)-1 {
			sep = ""
		}
		fmt.Fprintf(&b, "  (%s%%string, %d)%s\n", ltCoqString(n), ids[n], sep)
	}
	b.WriteString("].\n")
	used := map[string]bool{"INDENT": true, "DEDENT": true, "WS": true, "E_WS": true, comment: true}
	for _, n := range bypass {
		used[n] = true
	}
	for _, a := range acts {
		used[a.rule] = true
	}
	for _, n := range names {
		if used[n] {
			fmt.Fprintf(&b, "Definition tok_%s : N := %d.\n", n, ids[n])
		}
	}
	ref := func(n string) string {
		if _, ok := ids[n]; ok {
			return "tok_" + n
		}
		return "0"
	}
	b.WriteString("Definition action_table : list (N * action) := [\n")
	for i, a := range acts {
		sep := ";"
		if i == len(acts)-1 {
			sep = ""
		}
		fmt.Fprintf(&b, "  (%s, {| a_nl := %v; a_sp := %s |})%s\n", ref(a.rule), a.nl, a.sp, sep)
	}
	b.WriteString("].\n")
	var bp []string
	for _, n := range bypass {
		bp = append(bp, ref(n))
	}
	fmt.Fprintf(&b, "Definition bypass_list : list N := [%s].\n", strings.Join(bp, "; "))
	fmt.Fprintf(&b, "Definition lexer_tables : tables := {| t_actions := action_table; t_bypass := bypass_list; t_comment := %s;\n  t_indent := %s; t_dedent := %s; t_init_nl := %s |}.\n", ref(comment), ref("INDENT"), ref("DEDENT"), initNL)
	var ws []string
	for _, w := range weights {
		ws = append(ws, fmt.Sprintf("(%d, %d)", w.ch, w.w))
	}
	fmt.Fprintf(&b, "(* calcSpaces: (byte, what it adds) *)\nDefinition calc_weights : list (N * N) := [%s].\n", strings.Join(ws, "; "))
	b.WriteString("(* getNextToken, one entry per statement in source order *)\nDefinition gnt_shape : list string := [\n")
	for i, s := range shape {
		sep := ";"
		if i == len(shape)-1 {
			sep = ""
		}
		fmt.Fprintf(&b, "  %s%%string%s\n", ltCoqString(s), sep)
	}
	b.WriteString("].\n")
	b.WriteString("Definition helper_shapes : list (string * list string) := [\n")
	for i, h := range helperNames {
		var it []string
		for _, l := range helperShape[h] {
			it = append(it, ltCoqString(l)+"%string")
		}
		sep := ";"
		if i == len(helperNames)-1 {
			sep = ""
		}
		fmt.Fprintf(&b, "  (%s%%string, [%s])%s\n", ltCoqString(h), strings.Join(it, "; "), sep)
	}
	b.WriteString("].\n")
	var us []string
	for _, u := range unknown {
		us = append(us, ltCoqString(u)+"%string")
	}
	fmt.Fprintf(&b, "(* source the translator could not classify *)\nDefinition unknown : list string := [%s].\n", strings.Join(us, "; "))
	return b.String(), nil
}
