package main

import (
	"fmt"
	"go/ast"
	"go/token"
	"sort"
	"strings"
)

// LoopSites (C01, "never fails to terminate"): every hand-written loop or recursion on the compile path whose
// termination is not evident from its shape. Same package set as KillSites (pkg/parse and what it imports,
// transitively); files with a "Code generated" header (the ANTLR parser / lexer, protobuf code) are counted, not listed:
// the generated automaton is outside every model.
//
//	LFor cond      `for cond {}` / `for ;cond; {}` whose condition is not a comparison of a variable with a bound
//	               together with a ++/--/+=/-= post statement (or `for {}`: cond = "")
//	LRec           a function that mentions its own name in its body (direct recursion)
//	LMutual        a function on a cycle of the name-based call graph restricted to its own package (size of the cycle > 1)
//
// `for range` loops over a slice / map / string / channel-free value end by construction and are only counted.
func init() { register("LoopSites", loopSites) }

// boundedFor: i < n / i <= n / i > n / i >= n / i != n with a post statement that steps the same variable
func boundedFor(fs *ast.ForStmt) bool {
	be, ok := fs.Cond.(*ast.BinaryExpr)
	if !ok {
		return false
	}
	switch be.Op {
	case token.LSS, token.LEQ, token.GTR, token.GEQ:
	default:
		return false
	}
	v, ok := be.X.(*ast.Ident)
	if !ok {
		return false
	}
	switch p := fs.Post.(type) {
	case *ast.IncDecStmt:
		return isIdent(p.X, v.Name)
	case *ast.AssignStmt:
		return len(p.Lhs) == 1 && isIdent(p.Lhs[0], v.Name) && (p.Tok == token.ADD_ASSIGN || p.Tok == token.SUB_ASSIGN)
	}
	return false
}

func loopSites(repo string) (string, error) {
	pkgs, err := ksCompilePath(repo)
	if err != nil {
		return "", err
	}
	type fn struct {
		pkg, name string
		fd        *ast.FuncDecl
		fset      *token.FileSet
	}
	var rows []string
	nRange, nBounded, nGenLoops, nGenFuncs, nFuncs := 0, 0, 0, 0, 0
	for _, p := range pkgs {
		var fns []*fn
		byName := map[string][]*fn{}
		for _, fname := range ksSortedFiles(p) {
			f := p.files[fname]
			gen := p.generated[fname]
			for _, fd := range funcDecls(f) {
				if fd.Body == nil {
					continue
				}
				if gen {
					nGenFuncs++
					ast.Inspect(fd, func(n ast.Node) bool {
						switch n.(type) {
						case *ast.ForStmt, *ast.RangeStmt:
							nGenLoops++
						}
						return true
					})
					continue
				}
				nFuncs++
				name := fd.Name.Name
				if r := recvName(fd); r != "" {
					name = r + "." + name
				}
				k := &fn{p.rel, name, fd, p.fset}
				fns = append(fns, k)
				byName[fd.Name.Name] = append(byName[fd.Name.Name], k)
			}
		}
		// loops
		for _, k := range fns {
			k := k
			ast.Inspect(k.fd, func(n ast.Node) bool {
				switch s := n.(type) {
				case *ast.RangeStmt:
					nRange++
				case *ast.ForStmt:
					if boundedFor(s) {
						nBounded++
					} else {
						rows = append(rows, fmt.Sprintf("  (%s, %s, LFor %s)", ksStr(k.pkg), ksStr(k.name), ksStr(ksText(k.fset, s.Cond))))
					}
				}
				return true
			})
		}
		// recursion: call edges inside the package. f(...) -> the function f; x.f(...) -> the methods named f - of the
		// caller's own receiver type when x is its receiver variable, of type T when x is a call `recv.g()` of a method g
		// of the receiver whose single result is T or *T, of any type otherwise
		resultType := map[string]string{} // "Recv.method" -> result type name
		for _, k := range fns {
			if k.fd.Recv != nil && k.fd.Type.Results != nil && len(k.fd.Type.Results.List) == 1 {
				t := k.fd.Type.Results.List[0].Type
				if st, ok := t.(*ast.StarExpr); ok {
					t = st.X
				}
				if id, ok := t.(*ast.Ident); ok {
					resultType[k.name] = id.Name
				}
			}
		}
		edges := map[*fn][]*fn{}
		for _, k := range fns {
			k := k
			seen := map[*fn]bool{}
			rv, rt := recvVar(k.fd), recvName(k.fd)
			addEdge := func(name, recvType string, methods bool) {
				for _, g := range byName[name] {
					gr := recvName(g.fd)
					if (gr != "") != methods || (recvType != "" && gr != recvType) {
						continue
					}
					if !seen[g] {
						seen[g] = true
						edges[k] = append(edges[k], g)
					}
				}
			}
			ast.Inspect(k.fd.Body, func(n ast.Node) bool {
				c, ok := n.(*ast.CallExpr)
				if !ok {
					return true
				}
				switch f := c.Fun.(type) {
				case *ast.Ident:
					addEdge(f.Name, "", false)
				case *ast.SelectorExpr:
					switch x := f.X.(type) {
					case *ast.Ident:
						if rv != "" && x.Name == rv {
							addEdge(f.Sel.Name, rt, true)
						} else {
							addEdge(f.Sel.Name, "", true)
						}
					case *ast.CallExpr:
						t := ""
						if xs, ok := x.Fun.(*ast.SelectorExpr); ok && rv != "" && isIdent(xs.X, rv) {
							t = resultType[rt+"."+xs.Sel.Name]
						}
						addEdge(f.Sel.Name, t, true)
					default:
						addEdge(f.Sel.Name, "", true)
					}
				}
				return true
			})
		}
		// Tarjan SCC
		index, low := map[*fn]int{}, map[*fn]int{}
		onStack := map[*fn]bool{}
		var stack []*fn
		next := 0
		comp := map[*fn]int{}
		compSize := map[int]int{}
		ncomp := 0
		var strong func(v *fn)
		strong = func(v *fn) {
			index[v], low[v] = next, next
			next++
			stack = append(stack, v)
			onStack[v] = true
			for _, w := range edges[v] {
				if _, ok := index[w]; !ok {
					strong(w)
					if low[w] < low[v] {
						low[v] = low[w]
					}
				} else if onStack[w] && index[w] < low[v] {
					low[v] = index[w]
				}
			}
			if low[v] == index[v] {
				for {
					w := stack[len(stack)-1]
					stack = stack[:len(stack)-1]
					onStack[w] = false
					comp[w] = ncomp
					compSize[ncomp]++
					if w == v {
						break
					}
				}
				ncomp++
			}
		}
		for _, k := range fns {
			if _, ok := index[k]; !ok {
				strong(k)
			}
		}
		for _, k := range fns {
			self := false
			for _, g := range edges[k] {
				if g == k {
					self = true
				}
			}
			switch {
			case compSize[comp[k]] > 1:
				rows = append(rows, fmt.Sprintf("  (%s, %s, LMutual %d)", ksStr(k.pkg), ksStr(k.name), compSize[comp[k]]))
			case self:
				rows = append(rows, fmt.Sprintf("  (%s, %s, LRec)", ksStr(k.pkg), ksStr(k.name)))
			}
		}
	}
	sort.Strings(rows)
	var b strings.Builder
	b.WriteString("(* GENERATED by vt LoopSites from the hand-written non-test Go files of the packages on the compile path -- do not edit *)\n")
	b.WriteString("From Coq Require Import String List NArith.\nImport ListNotations.\nRequire Import Verif.Total.KillTypes.\nLocal Open Scope string_scope.\n")
	fmt.Fprintf(&b, "(* hand-written functions: %d; range loops (end by construction): %d; counting loops `for i < n; i++`: %d;\n   generated files: %d functions, %d loops (not listed) *)\n", nFuncs, nRange, nBounded, nGenFuncs, nGenLoops)
	fmt.Fprintf(&b, "Definition loop_sites : list (string * string * lkind) := [\n%s].\n", strings.Join(rows, ";\n"))
	// the ones that sit in pkg/parse and pkg/grammar's hand-written lexer support: the compile path proper
	var core []string
	for _, r := range rows {
		if strings.HasPrefix(r, "  (\"pkg/parse\"") || strings.HasPrefix(r, "  (\"pkg/grammar\"") {
			core = append(core, r)
		}
	}
	fmt.Fprintf(&b, "Definition loop_sites_parser : list (string * string * lkind) := [\n%s].\n", strings.Join(core, ";\n"))
	return b.String(), nil
}
