package main

import (
	"fmt"
	"go/ast"
	"go/token"
	"strings"
)

// DmShape: shape facts of pkg/datamodeldiagram/datamodelview.go that the C15 model is parameterised by.
//
//   - per Draw* function: how the argument of the UniqueVarForAppName call that defines `encEntity`
//     (the alias of the class being declared) is built: the full '.'-split of the entity name, or
//     only the last token of that split
//   - DrawRelation: how the alias of a foreign-key target is built
//   - DrawRelation / DrawTuple: the Count written into the relationship map on the first and on
//     every further reference to the same target
//   - GenerateDataView: the order of the per-kind branches
//
// Anything the translator cannot classify is emitted as Unknown*, and the reflexivity lemma
// DmCurrent.shape_current fails.
func init() { register("DmShape", dmShape) }

func isSplitDot(e ast.Expr) bool {
	c, ok := e.(*ast.CallExpr)
	if !ok || len(c.Args) != 2 {
		return false
	}
	ch := selChain(c.Fun)
	if len(ch) != 2 || ch[0] != "strings" || ch[1] != "Split" {
		return false
	}
	src := selChain(c.Args[0])
	okSrc := (len(src) == 2 && src[1] == "EntityName") || (len(src) == 1 && src[0] == "name")
	lit, ok := c.Args[1].(*ast.BasicLit)
	return okSrc && ok && lit.Kind == token.STRING && lit.Value == `"."`
}

// splitVars: identifiers assigned exactly once in the body, from strings.Split(<entity name>, ".")
func splitVars(body *ast.BlockStmt) map[string]bool {
	n := map[string]int{}
	good := map[string]bool{}
	ast.Inspect(body, func(nd ast.Node) bool {
		as, ok := nd.(*ast.AssignStmt)
		if !ok {
			return true
		}
		for i, l := range as.Lhs {
			id, ok := l.(*ast.Ident)
			if !ok {
				continue
			}
			n[id.Name]++
			if len(as.Lhs) == len(as.Rhs) && isSplitDot(as.Rhs[i]) {
				good[id.Name] = true
			}
		}
		return true
	})
	out := map[string]bool{}
	for k := range good {
		if n[k] == 1 {
			out[k] = true
		}
	}
	return out
}

// uniqueVarCall returns the call `<recv>.UniqueVarForAppName(...)` assigned (:=) to variable name, if exactly one.
func uniqueVarCall(body *ast.BlockStmt, recv, name string) *ast.CallExpr {
	var found *ast.CallExpr
	cnt := 0
	ast.Inspect(body, func(nd ast.Node) bool {
		as, ok := nd.(*ast.AssignStmt)
		if !ok || len(as.Lhs) != 1 || len(as.Rhs) != 1 || !isIdent(as.Lhs[0], name) {
			return true
		}
		cnt++
		if c, ok := as.Rhs[0].(*ast.CallExpr); ok {
			ch := selChain(c.Fun)
			if len(ch) == 2 && ch[0] == recv && ch[1] == "UniqueVarForAppName" {
				found = c
			}
		}
		return true
	})
	if cnt != 1 {
		return nil
	}
	return found
}

func classifyKey(fd *ast.FuncDecl) string {
	if fd == nil {
		return "UnknownKey"
	}
	c := uniqueVarCall(fd.Body, recvVar(fd), "encEntity")
	if c == nil || len(c.Args) != 1 {
		return "UnknownKey"
	}
	sv := splitVars(fd.Body)
	a := c.Args[0]
	if c.Ellipsis != token.NoPos {
		if isSplitDot(a) {
			return "FullSplit"
		}
		if id, ok := a.(*ast.Ident); ok && sv[id.Name] {
			return "FullSplit"
		}
		return "UnknownKey"
	}
	// tok[len(tok)-1]
	if ix, ok := a.(*ast.IndexExpr); ok {
		if id, ok := ix.X.(*ast.Ident); ok && sv[id.Name] {
			if be, ok := ix.Index.(*ast.BinaryExpr); ok && be.Op == token.SUB {
				if l, ok := be.X.(*ast.CallExpr); ok && isIdent(l.Fun, "len") && len(l.Args) == 1 && isIdent(l.Args[0], id.Name) {
					if lit, ok := be.Y.(*ast.BasicLit); ok && lit.Value == "1" {
						return "LastToken"
					}
				}
			}
		}
	}
	return "UnknownKey"
}

// isPath0: <anything>.Path[0]
func isPath0(e ast.Expr) bool {
	ix, ok := e.(*ast.IndexExpr)
	if !ok {
		return false
	}
	lit, ok := ix.Index.(*ast.BasicLit)
	if !ok || lit.Value != "0" {
		return false
	}
	sel, ok := ix.X.(*ast.SelectorExpr)
	return ok && sel.Sel.Name == "Path"
}

func classifyTarget(fd *ast.FuncDecl) string {
	if fd == nil {
		return "UnknownTarget"
	}
	c := uniqueVarCall(fd.Body, recvVar(fd), "targetEntity")
	if c == nil || c.Ellipsis != token.NoPos {
		return "UnknownTarget"
	}
	switch {
	case len(c.Args) == 1 && isPath0(c.Args[0]):
		return "TargetPathOnly"
	case len(c.Args) == 2 && isPath0(c.Args[1]):
		if _, ok := c.Args[0].(*ast.Ident); ok {
			return "TargetAppPath"
		}
	case len(c.Args) == 2 && isIdent(c.Args[0], "targetApp") && isIdent(c.Args[1], "targetTable") && tableIsPathButLast(fd):
		return "TargetAppTable"
	}
	return "UnknownTarget"
}

// tableIsPathButLast: the function assigns, once each,
//
//	path := typeRef.GetRef().GetPath()
//	targetTable := syslutil.JoinTypePath(path[:len(path)-1])
func tableIsPathButLast(fd *ast.FuncDecl) bool {
	nPath, nTable, okPath, okTable := 0, 0, false, false
	ast.Inspect(fd.Body, func(nd ast.Node) bool {
		as, ok := nd.(*ast.AssignStmt)
		if !ok || len(as.Lhs) != 1 || len(as.Rhs) != 1 {
			return true
		}
		switch {
		case isIdent(as.Lhs[0], "path"):
			nPath++
			if c, ok := as.Rhs[0].(*ast.CallExpr); ok && len(c.Args) == 0 {
				okPath = strings.Join(selChainCalls(c.Fun), ".") == "typeRef.GetRef.GetPath"
			}
		case isIdent(as.Lhs[0], "targetTable"):
			nTable++
			c, ok := as.Rhs[0].(*ast.CallExpr)
			if !ok || len(c.Args) != 1 {
				return true
			}
			ch := selChain(c.Fun)
			sl, ok := c.Args[0].(*ast.SliceExpr)
			if len(ch) != 2 || ch[1] != "JoinTypePath" || !ok || sl.Low != nil || sl.Slice3 || !isIdent(sl.X, "path") {
				return true
			}
			be, ok := sl.High.(*ast.BinaryExpr)
			if !ok || be.Op != token.SUB {
				return true
			}
			l, ok := be.X.(*ast.CallExpr)
			lit, ok2 := be.Y.(*ast.BasicLit)
			okTable = ok && ok2 && isIdent(l.Fun, "len") && len(l.Args) == 1 && isIdent(l.Args[0], "path") && lit.Value == "1"
		}
		return true
	})
	return nPath == 1 && nTable == 1 && okPath && okTable
}

// selChainCalls: a.B().C() -> [a B C] (selectors through calls without arguments)
func selChainCalls(e ast.Expr) []string {
	switch x := e.(type) {
	case *ast.Ident:
		return []string{x.Name}
	case *ast.SelectorExpr:
		return append(selChainCalls(x.X), x.Sel.Name)
	case *ast.CallExpr:
		if len(x.Args) == 0 {
			return selChainCalls(x.Fun)
		}
	}
	return []string{"?"}
}

// classifyRelApp: the single assignment to entityApp in DrawRelation
func classifyRelApp(fd *ast.FuncDecl) string {
	if fd == nil {
		return "UnknownRelApp"
	}
	sv := splitVars(fd.Body)
	n, res := 0, "UnknownRelApp"
	ast.Inspect(fd.Body, func(nd ast.Node) bool {
		as, ok := nd.(*ast.AssignStmt)
		if !ok || len(as.Lhs) != 1 || len(as.Rhs) != 1 || !isIdent(as.Lhs[0], "entityApp") {
			return true
		}
		n++
		if ch := selChain(as.Rhs[0]); len(ch) == 2 && ch[0] == "viewParam" && ch[1] == "EntityApp" {
			res = "RelAppParam"
		}
		if ix, ok := as.Rhs[0].(*ast.IndexExpr); ok {
			if id, ok := ix.X.(*ast.Ident); ok && sv[id.Name] {
				if lit, ok := ix.Index.(*ast.BasicLit); ok && lit.Value == "0" {
					res = "RelAppFirstToken"
				}
			}
		}
		return true
	})
	if n != 1 {
		return "UnknownRelApp"
	}
	return res
}

// entityAppsOK: GenerateDataView fills entityApps[entityName] = entityApp next to typeMap[entityName], with
// entityApp := syslutil.JoinAppName(app.GetName()), and hands EntityApp: entityApps[entityName] to DrawRelation
func entityAppsOK(fd *ast.FuncDecl) bool {
	joinOK, fillOK, handOK := false, false, false
	ast.Inspect(fd.Body, func(nd ast.Node) bool {
		switch x := nd.(type) {
		case *ast.AssignStmt:
			if len(x.Lhs) != 1 || len(x.Rhs) != 1 {
				return true
			}
			if isIdent(x.Lhs[0], "entityApp") {
				c, ok := x.Rhs[0].(*ast.CallExpr)
				joinOK = ok && len(c.Args) == 1 && strings.Join(selChain(c.Fun), ".") == "syslutil.JoinAppName" &&
					strings.Join(selChainCalls(c.Args[0]), ".") == "app.GetName"
			}
			if ix, ok := x.Lhs[0].(*ast.IndexExpr); ok && isIdent(ix.X, "entityApps") && isIdent(ix.Index, "entityName") && isIdent(x.Rhs[0], "entityApp") {
				fillOK = true
			}
		case *ast.KeyValueExpr:
			if isIdent(x.Key, "EntityApp") {
				ix, ok := x.Value.(*ast.IndexExpr)
				handOK = ok && isIdent(ix.X, "entityApps") && isIdent(ix.Index, "entityName")
			}
		}
		return true
	})
	return joinOK && fillOK && handOK
}

// checksTarget: the function contains `if <x>.Types[...] == nil { ...; continue }` before the targetEntity allocation
func checksTarget(fd *ast.FuncDecl) string {
	if fd == nil {
		return "false"
	}
	var tpos token.Pos
	if c := uniqueVarCall(fd.Body, recvVar(fd), "targetEntity"); c != nil {
		tpos = c.Pos()
	}
	found := false
	ast.Inspect(fd.Body, func(nd ast.Node) bool {
		is, ok := nd.(*ast.IfStmt)
		if !ok || is.Init != nil || is.Else != nil || len(is.Body.List) == 0 {
			return true
		}
		be, ok := is.Cond.(*ast.BinaryExpr)
		if !ok || be.Op != token.EQL || !isIdent(be.Y, "nil") {
			return true
		}
		ix, ok := be.X.(*ast.IndexExpr)
		if !ok {
			return true
		}
		sel, ok := ix.X.(*ast.SelectorExpr)
		if !ok || sel.Sel.Name != "Types" {
			return true
		}
		br, ok := is.Body.List[len(is.Body.List)-1].(*ast.BranchStmt)
		if ok && br.Tok == token.CONTINUE && tpos != token.NoPos && is.End() < tpos {
			found = true
		}
		return true
	})
	if found {
		return "true"
	}
	return "false"
}

func countExpr(e ast.Expr) string {
	switch x := e.(type) {
	case *ast.BasicLit:
		if x.Kind == token.INT {
			return "CountConst " + x.Value
		}
	case *ast.SelectorExpr:
		if x.Sel.Name == "Count" {
			return "CountKeep"
		}
	case *ast.BinaryExpr:
		if x.Op == token.ADD {
			if s, ok := x.X.(*ast.SelectorExpr); ok && s.Sel.Name == "Count" {
				if lit, ok := x.Y.(*ast.BasicLit); ok && lit.Kind == token.INT {
					return "CountInc " + lit.Value
				}
			}
		}
	}
	return "UnknownCount"
}

// countOf: the Count: field of the single RelationshipParam literal assigned in a block
func countOf(b *ast.BlockStmt) string {
	res, n := "UnknownCount", 0
	ast.Inspect(b, func(nd ast.Node) bool {
		cl, ok := nd.(*ast.CompositeLit)
		if !ok || !isIdent(cl.Type, "RelationshipParam") {
			return true
		}
		n++
		for _, el := range cl.Elts {
			if kv, ok := el.(*ast.KeyValueExpr); ok && isIdent(kv.Key, "Count") {
				res = countExpr(kv.Value)
			}
		}
		return true
	})
	if n != 1 {
		return "UnknownCount"
	}
	return res
}

// classifyCounts finds `if _, mulRelation := ...; mulRelation { ... } else { ... }` and returns (new, again)
func classifyCounts(fd *ast.FuncDecl) (string, string) {
	if fd == nil {
		return "UnknownCount", "UnknownCount"
	}
	nw, again, n := "UnknownCount", "UnknownCount", 0
	ast.Inspect(fd.Body, func(nd ast.Node) bool {
		is, ok := nd.(*ast.IfStmt)
		if !ok || !isIdent(is.Cond, "mulRelation") {
			return true
		}
		n++
		again = countOf(is.Body)
		if eb, ok := is.Else.(*ast.BlockStmt); ok {
			nw = countOf(eb)
		}
		return true
	})
	if n != 1 {
		return "UnknownCount", "UnknownCount"
	}
	return nw, again
}

func classifyDispatch(fd *ast.FuncDecl) []string {
	if fd == nil {
		return []string{"KUnknown"}
	}
	var chain *ast.IfStmt
	// the outermost if statement whose Init calls entityType.GetRelation()/GetTuple()/...
	getter := func(is *ast.IfStmt) string {
		as, ok := is.Init.(*ast.AssignStmt)
		if !ok || len(as.Rhs) != 1 {
			return ""
		}
		c, ok := as.Rhs[0].(*ast.CallExpr)
		if !ok {
			return ""
		}
		ch := selChain(c.Fun)
		if len(ch) == 2 && ch[0] == "entityType" {
			return ch[1]
		}
		return ""
	}
	ast.Inspect(fd.Body, func(nd ast.Node) bool {
		if is, ok := nd.(*ast.IfStmt); ok && chain == nil && getter(is) != "" {
			chain = is
			return false
		}
		return true
	})
	var out []string
	for is := chain; is != nil; {
		switch getter(is) {
		case "GetRelation":
			out = append(out, "KRelation")
		case "GetTuple":
			out = append(out, "KTuple")
		case "GetPrimitive":
			out = append(out, "KPrimitive")
		case "GetEnum":
			out = append(out, "KEnum")
		default:
			out = append(out, "KUnknown")
		}
		switch e := is.Else.(type) {
		case *ast.IfStmt:
			is = e
		case nil:
			is = nil
		default:
			out = append(out, "KUnknown") // a final else branch the model does not know
			is = nil
		}
	}
	if len(out) == 0 {
		out = []string{"KUnknown"}
	}
	return out
}

// guardsShortPath: DrawRelation has an if whose condition contains `len(<...>.GetPath()) < 2` (or .Path) and whose
// else branch holds the Path[0]/Path[1] indexing (the targetEntity allocation)
func guardsShortPath(fd *ast.FuncDecl) string {
	if fd == nil {
		return "false"
	}
	var tpos token.Pos
	if c := uniqueVarCall(fd.Body, recvVar(fd), "targetEntity"); c != nil {
		tpos = c.Pos()
	}
	found := false
	ast.Inspect(fd.Body, func(nd ast.Node) bool {
		is, ok := nd.(*ast.IfStmt)
		if !ok || is.Else == nil || tpos == token.NoPos || !(is.Else.Pos() <= tpos && tpos <= is.Else.End()) {
			return true
		}
		ast.Inspect(is.Cond, func(c ast.Node) bool {
			be, ok := c.(*ast.BinaryExpr)
			if !ok || be.Op != token.LSS {
				return true
			}
			lit, ok := be.Y.(*ast.BasicLit)
			l, ok2 := be.X.(*ast.CallExpr)
			if ok && ok2 && lit.Value == "2" && isIdent(l.Fun, "len") && len(l.Args) == 1 {
				var last string
				switch a := l.Args[0].(type) {
				case *ast.CallExpr:
					if ch := selChain(a.Fun); len(ch) > 0 {
						last = ch[len(ch)-1]
					} else if sel, ok := a.Fun.(*ast.SelectorExpr); ok {
						last = sel.Sel.Name
					}
				case *ast.SelectorExpr:
					last = a.Sel.Name
				}
				if last == "GetPath" || last == "Path" {
					found = true
				}
			}
			return true
		})
		return true
	})
	if found {
		return "true"
	}
	return "false"
}

// classifyView: the per-application filter of GenerateDataView must be the single statement
//
//	if dataParam.Epname && strings.Split(entityName, ".")[0] != appName { continue }
//
// with appName := syslutil.JoinAppName(dataParam.App.Name); any other test guarded by Epname is UnknownView.
func classifyView(fd *ast.FuncDecl) string {
	if fd == nil {
		return "UnknownView"
	}
	appNameOK := false
	ast.Inspect(fd.Body, func(nd ast.Node) bool {
		as, ok := nd.(*ast.AssignStmt)
		if !ok || len(as.Lhs) != 1 || len(as.Rhs) != 1 || !isIdent(as.Lhs[0], "appName") {
			return true
		}
		c, ok := as.Rhs[0].(*ast.CallExpr)
		if ok && len(c.Args) == 1 {
			ch, arg := selChain(c.Fun), selChain(c.Args[0])
			if len(ch) == 2 && ch[1] == "JoinAppName" && len(arg) == 3 && arg[0] == "dataParam" && arg[1] == "App" && arg[2] == "Name" {
				appNameOK = true
				return true
			}
		}
		appNameOK = false
		return true
	})
	mentionsEpname := func(e ast.Expr) bool {
		found := false
		ast.Inspect(e, func(nd ast.Node) bool {
			if sel, ok := nd.(*ast.SelectorExpr); ok && sel.Sel.Name == "Epname" {
				found = true
			}
			return true
		})
		return found
	}
	n, good, member := 0, 0, 0
	ast.Inspect(fd.Body, func(nd ast.Node) bool {
		is, ok := nd.(*ast.IfStmt)
		if !ok || !mentionsEpname(is.Cond) {
			return true
		}
		n++
		be, ok := is.Cond.(*ast.BinaryExpr)
		if !ok || be.Op != token.LAND || is.Init != nil || is.Else != nil || len(is.Body.List) != 1 {
			return true
		}
		if br, ok := is.Body.List[0].(*ast.BranchStmt); !ok || br.Tok != token.CONTINUE {
			return true
		}
		l := selChain(be.X)
		if len(l) != 2 || l[0] != "dataParam" || l[1] != "Epname" {
			return true
		}
		// (fixes C15-3, C15-9) !viewApps[entityApps[entityName]]
		if un, ok := be.Y.(*ast.UnaryExpr); ok && un.Op == token.NOT {
			if o, ok := un.X.(*ast.IndexExpr); ok && isIdent(o.X, "viewApps") {
				if in, ok := o.Index.(*ast.IndexExpr); ok && isIdent(in.X, "entityApps") && isIdent(in.Index, "entityName") {
					member++
				}
			}
			return true
		}
		ne, ok := be.Y.(*ast.BinaryExpr)
		if !ok || ne.Op != token.NEQ || !isIdent(ne.Y, "appName") {
			return true
		}
		ix, ok := ne.X.(*ast.IndexExpr)
		if !ok {
			return true
		}
		lit, ok := ix.Index.(*ast.BasicLit)
		if !ok || lit.Value != "0" {
			return true
		}
		c, ok := ix.X.(*ast.CallExpr)
		if !ok || len(c.Args) != 2 || !isIdent(c.Args[0], "entityName") {
			return true
		}
		ch := selChain(c.Fun)
		sep, ok := c.Args[1].(*ast.BasicLit)
		if len(ch) == 2 && ch[0] == "strings" && ch[1] == "Split" && ok && sep.Value == `"."` {
			good++
		}
		return true
	})
	if n == 1 && good == 1 && appNameOK {
		return "ViewAppEq"
	}
	if n == 1 && member == 1 && entityAppsOK(fd) {
		return "ViewAppsMember" // how viewApps is filled is under the text obligation (DmWrap: GenerateDataView)
	}
	return "UnknownView"
}

func dmShape(repo string) (string, error) {
	gf, err := parseGo(repo, "pkg/datamodeldiagram/datamodelview.go")
	if err != nil {
		return "", err
	}
	m := map[string]*ast.FuncDecl{}
	for _, fd := range funcDecls(gf.file) {
		if recvName(fd) == "DataModelView" {
			m[fd.Name.Name] = fd
		}
	}
	rn, ra := classifyCounts(m["DrawRelation"])
	tn, ta := classifyCounts(m["DrawTuple"])
	var b strings.Builder
	b.WriteString("(* GENERATED by vt DmShape from pkg/datamodeldiagram/datamodelview.go -- do not edit *)\n")
	b.WriteString("From Coq Require Import List.\nImport ListNotations.\nRequire Import Verif.DataModel.DmShapeTypes.\n")
	fmt.Fprintf(&b, "Definition shape_of_source : shape := {|\n")
	fmt.Fprintf(&b, "  sh_rel_key := %s; sh_prim_key := %s; sh_tuple_key := %s; sh_enum_key := %s;\n",
		classifyKey(m["DrawRelation"]), classifyKey(m["DrawPrimitive"]), classifyKey(m["DrawTuple"]), classifyKey(m["DrawEnum"]))
	fmt.Fprintf(&b, "  sh_rel_target := %s; sh_rel_app := %s; sh_rel_guards_short_path := %s; sh_rel_checks_target := %s;\n", classifyTarget(m["DrawRelation"]), classifyRelApp(m["DrawRelation"]), guardsShortPath(m["DrawRelation"]), checksTarget(m["DrawRelation"]))
	fmt.Fprintf(&b, "  sh_rel_count_new := %s; sh_rel_count_again := %s;\n", rn, ra)
	fmt.Fprintf(&b, "  sh_tuple_count_new := %s; sh_tuple_count_again := %s;\n", tn, ta)
	fmt.Fprintf(&b, "  sh_dispatch := [%s];\n", strings.Join(classifyDispatch(m["GenerateDataView"]), "; "))
	fmt.Fprintf(&b, "  sh_view := %s\n|}.\n", classifyView(m["GenerateDataView"]))
	return b.String(), nil
}
