package main

import (
	"fmt"
	"go/ast"
	"go/token"
	"strconv"
	"strings"
)

// Guards: the panic / error guard structure of the compile pipeline (pkg/parse/parse.go, cmd/sysl/sysl.go):
//
//	g_antlr          the generated parser (p.Sysl_file()) runs in a function with a deferred recover()
//	g_walk_specs     every ParseTreeWalker.Walk reachable from parseSpecs runs in a function with a deferred recover()
//	g_walk_imports   same for parseImports (the import pre-parse)
//	g_post           lint (lintAppDefs, lintEndpoint) and postProcess, as reached from parseSpecs, run in a function with a deferred recover()
//	err_parse / err_collect   every error returned by a pipeline stage call is tested and returned, not dropped
//	exit codes       ParseError, ImportError (constants.go), the default in main2
func init() { register("Guards", guards) }

func hasDeferredRecover(fd *ast.FuncDecl) bool {
	found := false
	if fd.Body == nil {
		return false
	}
	for _, st := range fd.Body.List { // only top-level defers of the function dominate its whole body
		d, ok := st.(*ast.DeferStmt)
		if !ok {
			continue
		}
		lit, ok := d.Call.Fun.(*ast.FuncLit)
		if !ok {
			continue
		}
		ast.Inspect(lit.Body, func(n ast.Node) bool {
			if c, ok := n.(*ast.CallExpr); ok && isIdent(c.Fun, "recover") {
				found = true
			}
			return true
		})
	}
	return found
}

// a deferred recover only helps if the function has a named error result it can set; we require that the
// deferred closure assigns to a named result
func recoverSetsNamedResult(fd *ast.FuncDecl) bool {
	if fd.Type.Results == nil {
		return false
	}
	names := map[string]bool{}
	for _, f := range fd.Type.Results.List {
		for _, n := range f.Names {
			names[n.Name] = true
		}
	}
	ok := false
	for _, st := range fd.Body.List {
		d, isD := st.(*ast.DeferStmt)
		if !isD {
			continue
		}
		if lit, isL := d.Call.Fun.(*ast.FuncLit); isL {
			ast.Inspect(lit.Body, func(n ast.Node) bool {
				if as, isA := n.(*ast.AssignStmt); isA {
					for _, l := range as.Lhs {
						if id, isI := l.(*ast.Ident); isI && names[id.Name] {
							ok = true
						}
					}
				}
				return true
			})
		}
	}
	return ok
}

func callName(c *ast.CallExpr) string {
	ch := selChain(c.Fun)
	if ch == nil {
		// e.g. antlr.NewParseTreeWalker().Walk
		if se, ok := c.Fun.(*ast.SelectorExpr); ok {
			return "?." + se.Sel.Name
		}
		return ""
	}
	return strings.Join(ch, ".")
}

// sites returns, for function fn, the names of functions (fn itself or file-local callees, transitively) that
// directly contain a call whose last selector is sel.
func sites(fns map[string]*ast.FuncDecl, fn, sel string, seen map[string]bool) []string {
	if seen[fn] {
		return nil
	}
	seen[fn] = true
	fd := fns[fn]
	if fd == nil || fd.Body == nil {
		return nil
	}
	var out []string
	direct := false
	ast.Inspect(fd.Body, func(n ast.Node) bool {
		c, ok := n.(*ast.CallExpr)
		if !ok {
			return true
		}
		nm := callName(c)
		last := nm[strings.LastIndex(nm, ".")+1:]
		if last == sel {
			direct = true
		} else if _, local := fns[last]; local {
			out = append(out, sites(fns, last, sel, seen)...)
		}
		return true
	})
	if direct {
		out = append(out, fn)
	}
	return out
}

// errChecked: every call in fn to one of the named callees has its error result tested and returned.
func errChecked(fd *ast.FuncDecl, callees map[string]bool) (checked bool, n int) {
	checked = true
	isStage := func(e ast.Expr) bool {
		c, ok := e.(*ast.CallExpr)
		if !ok {
			return false
		}
		nm := callName(c)
		return callees[nm[strings.LastIndex(nm, ".")+1:]]
	}
	returnsErr := func(body *ast.BlockStmt, errName string) bool {
		for _, st := range body.List {
			if r, ok := st.(*ast.ReturnStmt); ok && len(r.Results) > 0 {
				last := r.Results[len(r.Results)-1]
				if isIdent(last, "nil") {
					return false
				}
				return true
			}
		}
		return false
	}
	errTest := func(ifs *ast.IfStmt, errName string) bool {
		be, ok := ifs.Cond.(*ast.BinaryExpr)
		return ok && be.Op == token.NEQ && isIdent(be.X, errName) && isIdent(be.Y, "nil") && returnsErr(ifs.Body, errName)
	}
	var walkBlock func(list []ast.Stmt)
	walkBlock = func(list []ast.Stmt) {
		for i, st := range list {
			switch s := st.(type) {
			case *ast.AssignStmt:
				if len(s.Rhs) == 1 && isStage(s.Rhs[0]) {
					n++
					errName := ""
					if id, ok := s.Lhs[len(s.Lhs)-1].(*ast.Ident); ok {
						errName = id.Name
					}
					ok := false
					if i+1 < len(list) {
						if ifs, isIf := list[i+1].(*ast.IfStmt); isIf && errTest(ifs, errName) {
							ok = true
						}
					}
					if !ok {
						checked = false
					}
				}
			case *ast.IfStmt:
				if as, ok := s.Init.(*ast.AssignStmt); ok && len(as.Rhs) == 1 && isStage(as.Rhs[0]) {
					n++
					errName := ""
					if id, ok := as.Lhs[len(as.Lhs)-1].(*ast.Ident); ok {
						errName = id.Name
					}
					if !errTest(s, errName) {
						checked = false
					}
				}
				walkBlock(s.Body.List)
				if eb, ok := s.Else.(*ast.BlockStmt); ok {
					walkBlock(eb.List)
				}
			case *ast.ReturnStmt:
				// `return stage(...)` propagates by construction
				for _, r := range s.Results {
					if isStage(r) {
						n++
					}
				}
			case *ast.ForStmt:
				walkBlock(s.Body.List)
			case *ast.RangeStmt:
				walkBlock(s.Body.List)
			case *ast.BlockStmt:
				walkBlock(s.List)
			case *ast.ExprStmt:
				if isStage(s.X) { // result dropped on the floor
					n++
					checked = false
				}
			case *ast.GoStmt, *ast.DeferStmt:
			}
			// closures passed to g.Go(func() error {...})
			ast.Inspect(st, func(nd ast.Node) bool {
				if lit, ok := nd.(*ast.FuncLit); ok {
					walkBlock(lit.Body.List)
					return false
				}
				return true
			})
		}
	}
	walkBlock(fd.Body.List)
	return
}

func gbool(b bool) string {
	if b {
		return "true"
	}
	return "false"
}

func guards(repo string) (string, error) {
	gf, err := parseGo(repo, "pkg/parse/parse.go")
	if err != nil {
		return "", err
	}
	fns := map[string]*ast.FuncDecl{}
	for _, fd := range funcDecls(gf.file) {
		fns[fd.Name.Name] = fd
	}
	guardedFn := func(name string) bool {
		fd := fns[name]
		return fd != nil && hasDeferredRecover(fd) && recoverSetsNamedResult(fd)
	}
	allGuarded := func(root, sel string) (bool, []string) {
		ss := sites(fns, root, sel, map[string]bool{})
		if len(ss) == 0 {
			return false, ss
		}
		ok := true
		for _, s := range ss {
			if !guardedFn(s) {
				ok = false
			}
		}
		return ok, ss
	}
	gAntlr, sA := allGuarded("parseString", "Sysl_file")
	gSpecs, sS := allGuarded("parseSpecs", "Walk")
	gImports, sI := allGuarded("parseImports", "Walk")
	gPost := true
	var sP []string
	for _, sel := range []string{"postProcess", "lintEndpoint", "lintAppDefs"} {
		g, ss := allGuarded("parseSpecs", sel)
		gPost = gPost && g
		sP = append(sP, ss...)
	}

	parseStages := map[string]bool{"parseString": true, "walkTree": true, "importForeign": true, "Wait": true, "Merge": true, "finishModule": true}
	collectStages := map[string]bool{"ReadHashBranch": true, "parseImports": true, "Wait": true, "collectSpecs": true, "parseString": true, "walkTree": true}
	errParse, nP := false, 0
	if fd := fns["parseSpecs"]; fd != nil {
		errParse, nP = errChecked(fd, parseStages)
	}
	errCollect, nC := true, 0
	for _, f := range []string{"collectSpecs", "parseImports", "Parse"} {
		if fd := fns[f]; fd != nil {
			ok, n := errChecked(fd, collectStages)
			errCollect = errCollect && ok
			nC += n
		} else {
			errCollect = false
		}
	}
	if nP == 0 {
		errParse = false
	}
	if nC == 0 {
		errCollect = false
	}

	// constants
	consts := map[string]string{}
	cf, err := parseGo(repo, "pkg/parse/constants.go")
	if err != nil {
		return "", err
	}
	ast.Inspect(cf.file, func(n ast.Node) bool {
		if vs, ok := n.(*ast.ValueSpec); ok {
			for i, nm := range vs.Names {
				if i < len(vs.Values) {
					if bl, ok := vs.Values[i].(*ast.BasicLit); ok && bl.Kind == token.INT {
						consts[nm.Name] = bl.Value
					}
				}
			}
		}
		return true
	})
	// main2: default exit code and use of Exit.Code
	sf, err := parseGo(repo, "cmd/sysl/sysl.go")
	if err != nil {
		return "", err
	}
	defCode, usesCode := "", false
	for _, fd := range funcDecls(sf.file) {
		if fd.Name.Name != "main2" {
			continue
		}
		ast.Inspect(fd.Body, func(n ast.Node) bool {
			switch x := n.(type) {
			case *ast.ValueSpec:
				for i, nm := range x.Names {
					if nm.Name == "exitCode" && i < len(x.Values) {
						if bl, ok := x.Values[i].(*ast.BasicLit); ok {
							defCode = bl.Value
						}
					}
				}
			case *ast.AssignStmt:
				if len(x.Lhs) == 1 && isIdent(x.Lhs[0], "exitCode") && len(x.Rhs) == 1 {
					if ch := selChain(x.Rhs[0]); len(ch) == 2 && ch[1] == "Code" {
						usesCode = true
					}
					if bl, ok := x.Rhs[0].(*ast.BasicLit); ok && x.Tok == token.DEFINE {
						defCode = bl.Value
					}
				}
			}
			return true
		})
	}
	num := func(s string) string {
		if _, err := strconv.Atoi(s); err != nil {
			return "0"
		}
		return s
	}
	var sb strings.Builder
	sb.WriteString("(* GENERATED by vt Guards from pkg/parse/parse.go, pkg/parse/constants.go, cmd/sysl/sysl.go -- do not edit *)\n")
	sb.WriteString("From Coq Require Import ZArith Bool.\nRequire Import Verif.Total.Pipeline.\nLocal Open Scope Z_scope.\n")
	fmt.Fprintf(&sb, "(* Sysl_file sites: %v ; Walk sites from parseSpecs: %v ; from parseImports: %v ; post-processing sites: %v ; stage calls checked: parse %d, collect %d *)\n", sA, sS, sI, sP, nP, nC)
	fmt.Fprintf(&sb, "Definition guards : guardset := {|\n  g_antlr := %s;\n  g_walk_specs := %s;\n  g_walk_imports := %s;\n  g_post := %s;\n  err_parse_propagated := %s;\n  err_collect_propagated := %s;\n  exit_uses_code := %s;\n  parse_error_code := %s;\n  import_error_code := %s;\n  default_exit_code := %s |}.\n",
		gbool(gAntlr), gbool(gSpecs), gbool(gImports), gbool(gPost), gbool(errParse), gbool(errCollect), gbool(usesCode),
		num(consts["ParseError"]), num(consts["ImportError"]), num(defCode))
	return sb.String(), nil
}
