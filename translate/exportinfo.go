package main

import (
	"fmt"
	"go/ast"
	"regexp"
	"strings"
)

// ExportInfo: what the C12 model of the `info` / `servers` / `host` part of the exported documents (Export/OasInfo.v) is
// parameterised by, read from
//
//	pkg/exporter/openapi3.go  GenerateOpenAPI3: every assignment `spec.Info.<Field> = <source>` (ISet) and every
//	                          `if spec.Info.<Field> == "" { spec.Info.<Field> = <source> }` (IDefault), in source order, the loop over
//	                          app.Attributes that copies the extensions (the prefix handed to strings.HasPrefix), the fields
//	                          of the `server` literal and the guard around spec.AddServer
//	pkg/exporter/swagger.go   GenerateSwagger: the same for s.buildSwagger.Host and s.buildSwagger.SwaggerProps.Info.<Field>
//	pkg/syslwrapper/app.go    BuildApplication hands `syslutil.GetAppName(a.Name)` and `am.mapAttributes(a.GetAttrs())` on;
//	                          mapAttributes stores `value.GetS()` under every key
//
// A source is the application's name, its long name, an attribute (by key) or a string literal.  Anything else is listed in
// `info_unknown`; the reflexivity lemma of Export/OasInfoProps.v then fails.
func init() { register("ExportInfo", exportInfo) }

var (
	eiAttr3 = regexp.MustCompile(`^app\.Attributes\[("(?:[^"\\]|\\.)*")\]$`)
	eiAttr2 = regexp.MustCompile(`^s\.app\.GetAttrs\(\)\[("(?:[^"\\]|\\.)*")\]\.GetS\(\)$`)
	eiLit   = regexp.MustCompile(`^"(?:[^"\\]|\\.)*"$`)
	eiPref  = regexp.MustCompile(`^strings\.HasPrefix\(k, ("(?:[^"\\]|\\.)*")\)$`)
)

func eiUnq(s string) string { // a Go string literal without escapes -> its text ("?" otherwise)
	if len(s) >= 2 && !strings.Contains(s, `\`) {
		return s[1 : len(s)-1]
	}
	return "?"
}

func exportInfo(repo string) (string, error) {
	x := &etx{}
	src := func(text string, fmtName string) string {
		switch {
		case fmtName == "3" && text == "app.Name", fmtName == "2" && text == "syslutil.GetAppName(s.app.GetName())":
			return "IName"
		case fmtName == "2" && text == "s.app.LongName":
			return "ILong"
		case eiLit.MatchString(text):
			return "(ILit " + etStr(eiUnq(text)) + ")"
		}
		re := eiAttr3
		if fmtName == "2" {
			re = eiAttr2
		}
		if m := re.FindStringSubmatch(text); m != nil {
			return "(IAttr " + etStr(eiUnq(m[1])) + ")"
		}
		x.unk("source %s is not the name, the long name, an attribute or a literal", text)
		return "IUnknownSrc"
	}
	pair := func(f, s string) string { return fmt.Sprintf("(%s, %s)", etStr(f), s) }

	// ---- OpenAPI 3
	var f3, srv []string
	extPrefix, guard := "None", "None"
	served := false
	g3, err := parseGo(repo, "pkg/exporter/openapi3.go")
	if err != nil {
		return "", err
	}
	if fd := etFindFunc(g3, "OpenAPI3Exporter", "GenerateOpenAPI3"); fd == nil {
		x.unk("GenerateOpenAPI3 not found")
	} else {
		const pre = "spec.Info."
		for _, st := range fd.Body.List {
			text := ecText(g3.fset, st)
			switch s := st.(type) {
			case *ast.AssignStmt:
				if len(s.Lhs) != 1 || len(s.Rhs) != 1 {
					continue
				}
				lhs, rhs := ecText(g3.fset, s.Lhs[0]), ecText(g3.fset, s.Rhs[0])
				switch {
				case lhs == "spec.Info" || lhs == "spec.Info.Contact":
					if !strings.HasSuffix(rhs, "{}") {
						x.unk("GenerateOpenAPI3: %s", text)
					}
				case strings.HasPrefix(lhs, pre):
					f3 = append(f3, "ISet "+etStr(strings.TrimPrefix(lhs, pre))+" "+src(rhs, "3"))
				case lhs == "server":
					u, ok := s.Rhs[0].(*ast.UnaryExpr)
					var cl *ast.CompositeLit
					if ok {
						cl, _ = u.X.(*ast.CompositeLit)
					}
					if cl == nil {
						x.unk("GenerateOpenAPI3: %s", text)
						continue
					}
					for _, el := range cl.Elts {
						kv, ok := el.(*ast.KeyValueExpr)
						if !ok {
							x.unk("GenerateOpenAPI3: server literal element %s", ecText(g3.fset, el))
							continue
						}
						k, v := ecText(g3.fset, kv.Key), ecText(g3.fset, kv.Value)
						if k == "Variables" {
							continue
						}
						srv = append(srv, pair(k, src(v, "3")))
					}
				}
			case *ast.IfStmt:
				cond := ecText(g3.fset, s.Cond)
				switch {
				case strings.HasPrefix(cond, pre) && strings.HasSuffix(cond, ` == ""`) && s.Else == nil && len(s.Body.List) == 1:
					f := strings.TrimSuffix(strings.TrimPrefix(cond, pre), ` == ""`)
					as, ok := s.Body.List[0].(*ast.AssignStmt)
					if !ok || len(as.Lhs) != 1 || ecText(g3.fset, as.Lhs[0]) != pre+f {
						x.unk("GenerateOpenAPI3: %s", text)
						continue
					}
					f3 = append(f3, "IDefault "+etStr(f)+" "+src(ecText(g3.fset, as.Rhs[0]), "3"))
				case strings.HasPrefix(cond, "server.") && strings.HasSuffix(cond, ` != ""`) && s.Else == nil && len(s.Body.List) == 1 &&
					ecText(g3.fset, s.Body.List[0]) == "spec.AddServer(server)":
					guard = "(Some " + etStr(strings.TrimSuffix(strings.TrimPrefix(cond, "server."), ` != ""`)) + ")"
					served = true
				case strings.Contains(text, "spec.Info") || strings.Contains(text, "server"):
					x.unk("GenerateOpenAPI3: %s", text)
				}
			case *ast.ExprStmt:
				if text == "spec.AddServer(server)" {
					served = true
				} else if strings.Contains(text, "spec.Info") || strings.Contains(text, "AddServer") {
					x.unk("GenerateOpenAPI3: %s", text)
				}
			case *ast.RangeStmt:
				if ecText(g3.fset, s.X) != "app.Attributes" {
					continue
				}
				ok := isIdent(s.Key, "k") && isIdent(s.Value, "v") && len(s.Body.List) == 1
				var ifs *ast.IfStmt
				if ok {
					ifs, _ = s.Body.List[0].(*ast.IfStmt)
				}
				if ifs == nil || ifs.Else != nil || len(ifs.Body.List) != 2 ||
					ecText(g3.fset, ifs.Body.List[0]) != "if spec.Info.Extensions == nil { spec.Info.Extensions = make(map[string]interface{}) }" ||
					ecText(g3.fset, ifs.Body.List[1]) != "spec.Info.Extensions[k] = v" {
					x.unk("GenerateOpenAPI3: the loop over app.Attributes is not the extension copy: %s", text)
					continue
				}
				if m := eiPref.FindStringSubmatch(ecText(g3.fset, ifs.Cond)); m != nil {
					extPrefix = "(Some " + etStr(eiUnq(m[1])) + ")"
				} else {
					x.unk("GenerateOpenAPI3: extension condition %s", ecText(g3.fset, ifs.Cond))
				}
			}
		}
		if !served {
			x.unk("GenerateOpenAPI3: spec.AddServer(server) not found")
		}
	}

	// ---- Swagger 2
	var f2 []string
	g2, err := parseGo(repo, "pkg/exporter/swagger.go")
	if err != nil {
		return "", err
	}
	if fd := etFindFunc(g2, "SwaggerExporter", "GenerateSwagger"); fd == nil {
		x.unk("GenerateSwagger not found")
	} else {
		const pre = "s.buildSwagger.SwaggerProps.Info."
		field := func(lhs string) string {
			switch {
			case lhs == "s.buildSwagger.Host" || lhs == "s.buildSwagger.BasePath":
				return strings.TrimPrefix(lhs, "s.buildSwagger.")
			case strings.HasPrefix(lhs, pre):
				return strings.TrimPrefix(lhs, pre)
			}
			return ""
		}
		for _, st := range fd.Body.List {
			text := ecText(g2.fset, st)
			switch s := st.(type) {
			case *ast.AssignStmt:
				if len(s.Lhs) != 1 || len(s.Rhs) != 1 {
					continue
				}
				lhs, rhs := ecText(g2.fset, s.Lhs[0]), ecText(g2.fset, s.Rhs[0])
				if f := field(lhs); f != "" {
					f2 = append(f2, "ISet "+etStr(f)+" "+src(rhs, "2"))
				} else if lhs == "s.buildSwagger.SwaggerProps.Info" && !strings.HasSuffix(rhs, "{}") {
					x.unk("GenerateSwagger: %s", text)
				}
			case *ast.IfStmt:
				cond := ecText(g2.fset, s.Cond)
				if !strings.Contains(cond, "Info.") && !strings.Contains(cond, "Host") {
					continue
				}
				f := field(strings.TrimSuffix(cond, ` == ""`))
				var as *ast.AssignStmt
				if len(s.Body.List) == 1 {
					as, _ = s.Body.List[0].(*ast.AssignStmt)
				}
				if f == "" || !strings.HasSuffix(cond, ` == ""`) || s.Else != nil || as == nil || len(as.Lhs) != 1 || field(ecText(g2.fset, as.Lhs[0])) != f {
					x.unk("GenerateSwagger: %s", text)
					continue
				}
				f2 = append(f2, "IDefault "+etStr(f)+" "+src(ecText(g2.fset, as.Rhs[0]), "2"))
			}
		}
	}

	// ---- syslwrapper
	wrapper := true
	gw, err := parseGo(repo, "pkg/syslwrapper/app.go")
	if err != nil {
		return "", err
	}
	if fd := etFindFunc(gw, "AppMapper", "mapAttributes"); fd == nil {
		x.unk("mapAttributes not found")
		wrapper = false
	} else {
		found := false
		for _, st := range fd.Body.List {
			if r, ok := st.(*ast.RangeStmt); ok {
				found = ecText(gw.fset, r) == "for key, value := range attributes { attr[key] = value.GetS() }"
			}
		}
		if !found {
			x.unk("mapAttributes: the loop is not `for key, value := range attributes { attr[key] = value.GetS() }`")
			wrapper = false
		}
	}
	if fd := etFindFunc(gw, "AppMapper", "BuildApplication"); fd == nil {
		x.unk("BuildApplication not found")
		wrapper = false
	} else {
		text := ecText(gw.fset, fd.Body)
		for _, want := range []string{"Name: syslutil.GetAppName(a.Name),", "Attributes: am.mapAttributes(a.GetAttrs()),"} {
			if !strings.Contains(text, want) {
				x.unk("BuildApplication: no `%s`", want)
				wrapper = false
			}
		}
	}

	var b strings.Builder
	b.WriteString("(* GENERATED by translate/exportinfo.go from pkg/exporter/openapi3.go, pkg/exporter/swagger.go, pkg/syslwrapper/app.go. *)\n")
	b.WriteString("From Coq Require Import String List.\nImport ListNotations.\nRequire Import Verif.Export.OasInfo.\nLocal Open Scope string_scope.\n\n")
	b.WriteString("Definition info_tables_of_source : itables := {|\n")
	fmt.Fprintf(&b, "  it3_stmts := [%s];\n", strings.Join(f3, "; "))
	fmt.Fprintf(&b, "  it3_ext_prefix := %s;\n", extPrefix)
	fmt.Fprintf(&b, "  it3_server := [%s];\n", strings.Join(srv, "; "))
	fmt.Fprintf(&b, "  it3_server_guard := %s;\n", guard)
	fmt.Fprintf(&b, "  it_wrapper_plain := %v;\n", wrapper)
	fmt.Fprintf(&b, "  it2_stmts := [%s] |}.\n\n", strings.Join(f2, "; "))
	var us []string
	for _, u := range x.unknown {
		us = append(us, etStr(u))
	}
	fmt.Fprintf(&b, "Definition info_unknown : list string := [%s].\n", strings.Join(us, "; "))
	return b.String(), nil
}
