package main

import (
	"fmt"
	"go/ast"
	"go/printer"
	"go/token"
	"os"
	"path/filepath"
	"sort"
	"strings"
)

// EvalTables: the dispatch tables of the view evaluator, as they are in the source NOW.
//
//	pkg/eval/binexprEval.go   functionEvalStrategy  (operator -> strategy type)
//	                          valueFunctions        (makeKey(op, lhs kind, rhs kind) -> Go function)
//	                          exprFunctions         (makeKey(op, container kind, contained kind) -> Go function)
//	pkg/eval/unaryEval.go     unaryFunctions        (unary operator -> Go function)
//	pkg/eval/exprOp.go        the body of every two-value function that is a single
//	                          `return MakeValueX(lhs.GetA() <op> rhs.GetB())`, a constant, or the negation
//	                          of another table function (vfun_bodies); anything else is BOpaque and is
//	                          modelled by hand in Eval/Interp.v
//	pkg/eval/exprOp.go        concat: does it copy its left operand before appending (concat_copies)
//	pkg/eval/exprEval.go      setAppender / listAppender shape, which appender each transform kind uses
//	pkg/eval/binexprEval.go   LHSOverRHSStrategy.eval: what happens to the scope variable after the iteration
//	pkg/eval/exprEval.go      evalTransform / evalTransformUsingAppender: the same for transforms
//	                          (SvDeleteThenRestore | SvDeleteOnly | SvRestoreOnly | SvLeak | SvUnknown)
//
//	pkg/eval/exprEval.go      evalCall: the ORDER in which a call name is looked up (call_order: the application's
//	                          views / names starting with "." / the helper table), read off the order of its
//	                          statements; the scope a called view's body runs in (call_scope: a fresh map / the caller's)
//	pkg/eval/goFuncs.go       GoFuncMap: helper name -> (Go function, argument types, result type) (go_func_map);
//	                          isReflectValueExpectedType: is element 0 of a slice result read without a length test
//	                          (slice_result_guard)
//	pkg/eval/exprEval.go      does any function assign to <view>.Expr.Type, i.e. write into the module (eval_writes_view_type)
//
// Entries are emitted sorted, keyed by operator / kind names, never by position. A function name the model
// does not know becomes F_unknown / G_unknown / U_unknown / SUnknown, and the `reflexivity` lemmas of
// Eval/Tables.v stop checking. An operator or kind name the model does not know makes the file ill-typed.
func init() { register("EvalTables", evalTables) }

var knownVfun = map[string]bool{"addInt64": true, "addString": true, "andBool": true, "concatListList": true, "setUnion": true,
	"concatListSet": true, "divInt64": true, "cmpBool": true, "cmpInt": true, "cmpNullFalse": true, "cmpNullTrue": true,
	"cmpString": true, "cmpListNull": true, "geInt64": true, "gtInt64": true, "stringInList": true, "stringInNull": true,
	"stringInSet": true, "stringInMapKey": true, "stringNotInList": true, "stringNotInNull": true, "stringNotInSet": true,
	"stringNotInMapKey": true, "leInt64": true, "ltInt64": true, "modInt64": true, "mulInt64": true, "subInt64": true}
var knownEfun = map[string]bool{"flattenListList": true, "flattenListSet": true, "flattenSetList": true, "flattenListMap": true,
	"flattenSetMap": true, "flattenSetSet": true, "whereList": true, "whereMap": true, "whereSet": true}
var knownUfun = map[string]bool{"unaryNeg": true, "unarySingle": true, "UnaryString": true}
var knownStrategy = map[string]string{"DefaultBinExprStrategy": "SDefault", "NegateBinExprStrategy": "SNegate", "LHSOverRHSStrategy": "SLhsOverRhs"}

func findVarLit(f *ast.File, name string) *ast.CompositeLit {
	var out *ast.CompositeLit
	for _, d := range f.Decls {
		gd, ok := d.(*ast.GenDecl)
		if !ok || gd.Tok != token.VAR {
			continue
		}
		for _, sp := range gd.Specs {
			vs, ok := sp.(*ast.ValueSpec)
			if !ok {
				continue
			}
			for i, n := range vs.Names {
				if n.Name == name && i < len(vs.Values) {
					if cl, ok := vs.Values[i].(*ast.CompositeLit); ok {
						out = cl
					}
				}
			}
		}
	}
	return out
}

func selSuffix(e ast.Expr, prefix string) (string, bool) {
	ch := selChain(e)
	if len(ch) == 0 {
		return "", false
	}
	last := ch[len(ch)-1]
	if !strings.HasPrefix(last, prefix) {
		return "", false
	}
	return strings.TrimPrefix(last, prefix), true
}

func kindName(e ast.Expr) (string, bool) {
	id, ok := e.(*ast.Ident)
	if !ok || !strings.HasPrefix(id.Name, "Value") {
		return "", false
	}
	return "K" + strings.TrimPrefix(id.Name, "Value"), true
}

// getterCall: <recv>.GetX()  ->  (recv, "GetX")
func getterCall(e ast.Expr) (string, string, bool) {
	c, ok := e.(*ast.CallExpr)
	if !ok || len(c.Args) != 0 {
		return "", "", false
	}
	ch := selChain(c.Fun)
	if len(ch) != 2 {
		return "", "", false
	}
	return ch[0], ch[1], true
}

var goOps = map[token.Token]string{token.ADD: "GoAdd", token.SUB: "GoSub", token.MUL: "GoMul", token.QUO: "GoQuo", token.REM: "GoRem",
	token.EQL: "GoEq", token.NEQ: "GoNe", token.LSS: "GoLt", token.LEQ: "GoLe", token.GTR: "GoGt", token.GEQ: "GoGe", token.LAND: "GoAnd", token.LOR: "GoOr"}
var mkNames = map[string]string{"MakeValueI64": "MkI64", "MakeValueBool": "MkBool", "MakeValueString": "MkString"}
var getNames = map[string]string{"GetI": "GetI", "GetS": "GetS", "GetB": "GetB"}

// classify the body of a func(lhs, rhs *sysl.Value) *sysl.Value
func vfunBody(fd *ast.FuncDecl) string {
	if fd.Body == nil || len(fd.Body.List) != 1 || fd.Type.Params == nil {
		return "BOpaque"
	}
	var params []string
	for _, p := range fd.Type.Params.List {
		for _, n := range p.Names {
			params = append(params, n.Name)
		}
	}
	if len(params) != 2 {
		return "BOpaque"
	}
	ret, ok := fd.Body.List[0].(*ast.ReturnStmt)
	if !ok || len(ret.Results) != 1 {
		return "BOpaque"
	}
	call, ok := ret.Results[0].(*ast.CallExpr)
	if !ok || len(call.Args) != 1 {
		return "BOpaque"
	}
	mkId, ok := call.Fun.(*ast.Ident)
	if !ok {
		return "BOpaque"
	}
	mk, ok := mkNames[mkId.Name]
	if !ok {
		return "BOpaque"
	}
	arg := call.Args[0]
	// constant
	if id, ok := arg.(*ast.Ident); ok && mk == "MkBool" && (id.Name == "true" || id.Name == "false") {
		return "BConst " + id.Name
	}
	// !(f(lhs, rhs).GetB())
	if un, ok := arg.(*ast.UnaryExpr); ok && un.Op == token.NOT && mk == "MkBool" {
		inner := un.X
		if p, ok := inner.(*ast.ParenExpr); ok {
			inner = p.X
		}
		if c, ok := inner.(*ast.CallExpr); ok && len(c.Args) == 0 {
			if se, ok := c.Fun.(*ast.SelectorExpr); ok && se.Sel.Name == "GetB" {
				if fc, ok := se.X.(*ast.CallExpr); ok && len(fc.Args) == 2 && isIdent(fc.Args[0], params[0]) && isIdent(fc.Args[1], params[1]) {
					if fid, ok := fc.Fun.(*ast.Ident); ok && knownVfun[fid.Name] {
						return "BNot F_" + fid.Name
					}
				}
			}
		}
		return "BOpaque"
	}
	be, ok := arg.(*ast.BinaryExpr)
	if !ok {
		return "BOpaque"
	}
	op, ok := goOps[be.Op]
	if !ok {
		return "BOpaque"
	}
	lr, lg, ok1 := getterCall(be.X)
	rr, rg, ok2 := getterCall(be.Y)
	if !ok1 || !ok2 || lr != params[0] || rr != params[1] {
		return "BOpaque"
	}
	gl, ok1 := getNames[lg]
	gr, ok2 := getNames[rg]
	if !ok1 || !ok2 {
		return "BOpaque"
	}
	return fmt.Sprintf("BBin %s %s %s %s", mk, gl, op, gr)
}

// concat: `result.Value = lhs.Value` followed by append(result.Value, ...) shares storage with lhs (ConcatAlias);
// an append onto a fresh slice / a copy is ConcatCopy; anything else ConcatUnknown.
func concatShape(fd *ast.FuncDecl) string {
	aliasAssign, appendOntoResult, fresh := false, false, false
	ast.Inspect(fd.Body, func(n ast.Node) bool {
		as, ok := n.(*ast.AssignStmt)
		if !ok || len(as.Lhs) != 1 || len(as.Rhs) != 1 {
			return true
		}
		l := selChain(as.Lhs[0])
		if r := selChain(as.Rhs[0]); len(l) == 2 && l[1] == "Value" && len(r) == 2 && r[1] == "Value" && r[0] == "lhs" {
			aliasAssign = true
		}
		if c, ok := as.Rhs[0].(*ast.CallExpr); ok && isIdent(c.Fun, "append") && len(c.Args) >= 2 {
			first := c.Args[0]
			if ch := selChain(first); len(ch) == 2 && ch[1] == "Value" && ch[0] != "lhs" {
				appendOntoResult = true
			}
			// append([]*sysl.Value{}, lhs.Value...) / append(make(...), lhs.Value...) / append([]T(nil), ...)
			switch first.(type) {
			case *ast.CompositeLit, *ast.CallExpr:
				if ch := selChain(c.Args[1]); len(ch) == 2 && ch[0] == "lhs" && ch[1] == "Value" && c.Ellipsis != token.NoPos {
					fresh = true
				}
			}
		}
		if c, ok := as.Rhs[0].(*ast.CallExpr); ok && isIdent(c.Fun, "make") {
			fresh = true
		}
		return true
	})
	copyCall := false
	ast.Inspect(fd.Body, func(n ast.Node) bool {
		if c, ok := n.(*ast.CallExpr); ok && isIdent(c.Fun, "copy") {
			copyCall = true
		}
		return true
	})
	switch {
	case aliasAssign && !fresh:
		return "ConcatAlias"
	case (fresh || copyCall) && !aliasAssign:
		return "ConcatCopy"
	case fresh && aliasAssign:
		return "ConcatUnknown"
	}
	_ = appendOntoResult
	return "ConcatUnknown"
}

func evalTables(repo string) (string, error) {
	bf, err := parseGo(repo, "pkg/eval/binexprEval.go")
	if err != nil {
		return "", err
	}
	uf, err := parseGo(repo, "pkg/eval/unaryEval.go")
	if err != nil {
		return "", err
	}
	of, err := parseGo(repo, "pkg/eval/exprOp.go")
	if err != nil {
		return "", err
	}
	ef, err := parseGo(repo, "pkg/eval/exprEval.go")
	if err != nil {
		return "", err
	}
	gf, err := parseGo(repo, "pkg/eval/goFuncs.go")
	if err != nil {
		return "", err
	}
	var sb strings.Builder
	sb.WriteString("(* GENERATED by vt EvalTables from pkg/eval/{binexprEval,unaryEval,exprOp,exprEval,goFuncs}.go -- do not edit *)\n")
	sb.WriteString("From Coq Require Import List String.\nImport ListNotations.\nRequire Import Verif.Eval.Value.\nLocal Open Scope string_scope.\n")

	// 1. strategy table
	lit := findVarLit(bf.file, "functionEvalStrategy")
	if lit == nil {
		return "", fmt.Errorf("functionEvalStrategy not found")
	}
	var rows []string
	for _, el := range lit.Elts {
		kv, ok := el.(*ast.KeyValueExpr)
		if !ok {
			return "", fmt.Errorf("functionEvalStrategy: unexpected element")
		}
		op, ok := selSuffix(kv.Key, "Expr_BinExpr_")
		if !ok {
			return "", fmt.Errorf("functionEvalStrategy: unexpected key")
		}
		st := "SUnknown"
		if cl, ok := kv.Value.(*ast.CompositeLit); ok {
			if id, ok := cl.Type.(*ast.Ident); ok {
				if s, ok := knownStrategy[id.Name]; ok {
					st = s
				}
			}
		}
		rows = append(rows, fmt.Sprintf("(Op%s, %s)", op, st))
	}
	sort.Strings(rows)
	fmt.Fprintf(&sb, "Definition strategy_table : list (binop * strategy) := [\n  %s].\n", strings.Join(rows, ";\n  "))

	// 2./3. makeKey tables
	keyTable := func(varName, coqName, ty, unk string, known map[string]bool, pfx string) error {
		lit := findVarLit(bf.file, varName)
		if lit == nil {
			return fmt.Errorf("%s not found", varName)
		}
		var rows []string
		for _, el := range lit.Elts {
			kv, ok := el.(*ast.KeyValueExpr)
			if !ok {
				return fmt.Errorf("%s: unexpected element", varName)
			}
			c, ok := kv.Key.(*ast.CallExpr)
			if !ok || !isIdent(c.Fun, "makeKey") || len(c.Args) != 3 {
				return fmt.Errorf("%s: key is not makeKey(op, kind, kind)", varName)
			}
			op, ok1 := selSuffix(c.Args[0], "Expr_BinExpr_")
			l, ok2 := kindName(c.Args[1])
			r, ok3 := kindName(c.Args[2])
			if !ok1 || !ok2 || !ok3 {
				return fmt.Errorf("%s: unreadable makeKey arguments", varName)
			}
			fn := unk
			if id, ok := kv.Value.(*ast.Ident); ok && known[id.Name] {
				fn = pfx + id.Name
			}
			rows = append(rows, fmt.Sprintf("((Op%s, %s, %s), %s)", op, l, r, fn))
		}
		sort.Strings(rows)
		fmt.Fprintf(&sb, "Definition %s : list (key3 * %s) := [\n  %s].\n", coqName, ty, strings.Join(rows, ";\n  "))
		return nil
	}
	if err := keyTable("valueFunctions", "value_functions", "vfun", "F_unknown", knownVfun, "F_"); err != nil {
		return "", err
	}
	if err := keyTable("exprFunctions", "expr_functions", "efun", "G_unknown", knownEfun, "G_"); err != nil {
		return "", err
	}
	// makeKey itself must format (op, lhs, rhs) in that order
	mkOK := false
	for _, fd := range funcDecls(bf.file) {
		if fd.Name.Name != "makeKey" || fd.Body == nil || len(fd.Body.List) != 1 {
			continue
		}
		var ps []string
		for _, p := range fd.Type.Params.List {
			for _, n := range p.Names {
				ps = append(ps, n.Name)
			}
		}
		if ret, ok := fd.Body.List[0].(*ast.ReturnStmt); ok && len(ret.Results) == 1 && len(ps) == 3 {
			if c, ok := ret.Results[0].(*ast.CallExpr); ok && len(c.Args) == 4 {
				if bl, ok := c.Args[0].(*ast.BasicLit); ok && bl.Value == `"%s_%s_%s"` && isIdent(c.Args[1], ps[0]) {
					_, m1, o1 := getterCall(c.Args[2])
					_, m2, o2 := getterCall(c.Args[3])
					r1, _, _ := getterCall(c.Args[2])
					r2, _, _ := getterCall(c.Args[3])
					if o1 && o2 && m1 == "String" && m2 == "String" && r1 == ps[1] && r2 == ps[2] {
						mkOK = true
					}
				}
			}
		}
	}
	fmt.Fprintf(&sb, "Definition make_key_is_op_lhs_rhs : bool := %v.\n", mkOK)

	// 4. unary table
	lit = findVarLit(uf.file, "unaryFunctions")
	if lit == nil {
		return "", fmt.Errorf("unaryFunctions not found")
	}
	rows = nil
	for _, el := range lit.Elts {
		kv, ok := el.(*ast.KeyValueExpr)
		if !ok {
			return "", fmt.Errorf("unaryFunctions: unexpected element")
		}
		op, ok := selSuffix(kv.Key, "Expr_UnExpr_")
		if !ok {
			return "", fmt.Errorf("unaryFunctions: unexpected key")
		}
		fn := "U_unknown"
		if id, ok := kv.Value.(*ast.Ident); ok && knownUfun[id.Name] {
			fn = "U_" + id.Name
		}
		rows = append(rows, fmt.Sprintf("(Uo%s, %s)", op, fn))
	}
	sort.Strings(rows)
	fmt.Fprintf(&sb, "Definition unary_functions : list (unop * ufun) := [\n  %s].\n", strings.Join(rows, ";\n  "))

	// 5. bodies of the two-value functions
	rows = nil
	concat := "ConcatUnknown"
	for _, fd := range funcDecls(of.file) {
		if fd.Recv != nil {
			continue
		}
		if knownVfun[fd.Name.Name] {
			rows = append(rows, fmt.Sprintf("(F_%s, %s)", fd.Name.Name, vfunBody(fd)))
		}
		if fd.Name.Name == "concat" {
			concat = concatShape(fd)
		}
	}
	sort.Strings(rows)
	fmt.Fprintf(&sb, "Definition vfun_bodies : list (vfun * vbody) := [\n  %s].\n", strings.Join(rows, ";\n  "))
	fmt.Fprintf(&sb, "Definition concat_shape : concat_kind := %s.\n", concat)

	// 6. appenders: setAppender must test proto.Equal before appending; which appender each transform wrapper passes
	appender := map[string]string{}
	for _, fd := range funcDecls(ef.file) {
		switch fd.Name.Name {
		case "setAppender", "listAppender":
			hasEqual, hasAppend, hasCond := false, false, false
			ast.Inspect(fd.Body, func(n ast.Node) bool {
				switch x := n.(type) {
				case *ast.CallExpr:
					if ch := selChain(x.Fun); len(ch) == 2 && ch[0] == "proto" && ch[1] == "Equal" {
						hasEqual = true
					}
					if isIdent(x.Fun, "append") {
						hasAppend = true
					}
				case *ast.IfStmt:
					// if !found { collection = append(...) }
					if un, ok := x.Cond.(*ast.UnaryExpr); ok && un.Op == token.NOT {
						ast.Inspect(x.Body, func(m ast.Node) bool {
							if c, ok := m.(*ast.CallExpr); ok && isIdent(c.Fun, "append") {
								hasCond = true
							}
							return true
						})
					}
				}
				return true
			})
			k := "AppUnknown"
			switch {
			case hasEqual && hasAppend && hasCond:
				k = "AppIfAbsent"
			case !hasEqual && hasAppend && !hasCond:
				k = "AppAlways"
			}
			appender[fd.Name.Name] = k
		}
	}
	wrapperUses := func(name string) string {
		for _, fd := range funcDecls(ef.file) {
			if fd.Name.Name != name {
				continue
			}
			res := "AppUnknown"
			ast.Inspect(fd.Body, func(n ast.Node) bool {
				if c, ok := n.(*ast.CallExpr); ok && isIdent(c.Fun, "evalTransformUsingAppender") && len(c.Args) == 5 {
					if id, ok := c.Args[4].(*ast.Ident); ok {
						if k, ok := appender[id.Name]; ok {
							res = k
						}
					}
				}
				return true
			})
			return res
		}
		return "AppUnknown"
	}
	fmt.Fprintf(&sb, "Definition where_flatten_scopevar : sv_after := %s.\n", lhsOverRhsScopeVar(bf.file))
	fmt.Fprintf(&sb, "Definition transform_scopevar : sv_after := %s.\n", transformScopeVar(ef.file))
	fmt.Fprintf(&sb, "Definition set_transform_appender : appender_kind := %s.\n", wrapperUses("evalTransformUsingValueSet"))
	fmt.Fprintf(&sb, "Definition list_transform_appender : appender_kind := %s.\n", wrapperUses("evalTransformUsingValueList"))
	order, cscope := callResolution(ef.file)
	fmt.Fprintf(&sb, "Definition call_order : list call_step := [%s].\n", strings.Join(order, "; "))
	fmt.Fprintf(&sb, "Definition call_scope : call_scope_kind := %s.\n", cscope)
	gm, err := goFuncMap(gf.file)
	if err != nil {
		return "", err
	}
	fmt.Fprintf(&sb, "Definition go_func_map : list (string * (gimpl * list gty * gty)) := [\n  %s].\n", strings.Join(gm, ";\n  "))
	fmt.Fprintf(&sb, "Definition slice_result_guard : slice_guard := %s.\n", sliceResultGuard(gf.file))
	fmt.Fprintf(&sb, "Definition eval_writes_view_type : bool := %v.\n", writesViewType(ef.file))
	st, err := evalState(repo)
	if err != nil {
		return "", err
	}
	sb.WriteString(st)
	return sb.String(), nil
}

// ---- call resolution: evalCall ----

// terminates: control never leaves the block by falling off its end
func terminates(b *ast.BlockStmt) bool {
	if b == nil || len(b.List) == 0 {
		return false
	}
	return stmtTerminates(b.List[len(b.List)-1])
}

func stmtTerminates(st ast.Stmt) bool {
	switch x := st.(type) {
	case *ast.ReturnStmt:
		return true
	case *ast.ExprStmt:
		if c, ok := x.X.(*ast.CallExpr); ok && isIdent(c.Fun, "panic") {
			return true
		}
	case *ast.BlockStmt:
		return terminates(x)
	case *ast.IfStmt:
		if x.Else == nil || !terminates(x.Body) {
			return false
		}
		return stmtTerminates(x.Else)
	case *ast.SwitchStmt, *ast.TypeSwitchStmt:
		var body *ast.BlockStmt
		if s, ok := x.(*ast.SwitchStmt); ok {
			body = s.Body
		} else {
			body = x.(*ast.TypeSwitchStmt).Body
		}
		hasDefault := false
		for _, c := range body.List {
			cc := c.(*ast.CaseClause)
			if cc.List == nil {
				hasDefault = true
			}
			if len(cc.Body) == 0 || !stmtTerminates(cc.Body[len(cc.Body)-1]) {
				return false
			}
		}
		return hasDefault
	}
	return false
}

// endsWith: the selector chain ends in the given names
func endsWith(e ast.Expr, names ...string) bool {
	ch := selChain(e)
	if len(ch) < len(names) {
		return false
	}
	for i, n := range names {
		if ch[len(ch)-len(names)+i] != n {
			return false
		}
	}
	return true
}

// callResolution reads evalCall: the places a call name is looked up in, in statement order, and the scope a called
// view's body is evaluated in.
//
//	if v, has := <..>.Views[<..>.Func]; has { ... every path returns ... }     CallView
//	else if strings.HasPrefix(<..>.Func, ".") { ... returns / panics ... }       CallDot
//	return evalGoFunc(<..>.Func, ...)                                          CallGoFunc (ends the list)
//
// anything else in that chain is CallUnknown (the model answers Unmodelled and the obligation call_order_views_first
// stops checking).
func callResolution(f *ast.File) ([]string, string) {
	var order []string
	cscope := "CsUnknown"
	for _, fd := range funcDecls(f) {
		if fd.Name.Name != "evalCall" || fd.Recv != nil || fd.Body == nil {
			continue
		}
		done := false
		for _, st := range fd.Body.List {
			if done {
				break
			}
			switch x := st.(type) {
			case *ast.IfStmt:
				var link ast.Stmt = x
				for link != nil && !done {
					is, ok := link.(*ast.IfStmt)
					if !ok { // a plain else block
						order = append(order, "CallUnknown")
						done = true
						break
					}
					step := "CallUnknown"
					if as, ok := is.Init.(*ast.AssignStmt); ok && as.Tok == token.DEFINE && len(as.Lhs) == 2 && len(as.Rhs) == 1 {
						if ix, ok := as.Rhs[0].(*ast.IndexExpr); ok && endsWith(ix.X, "Views") && endsWith(ix.Index, "Func") {
							if h, ok := as.Lhs[1].(*ast.Ident); ok && isIdent(is.Cond, h.Name) {
								step = "CallView"
							}
						}
					} else if is.Init == nil {
						if c, ok := is.Cond.(*ast.CallExpr); ok && endsWith(c.Fun, "strings", "HasPrefix") && len(c.Args) == 2 && endsWith(c.Args[0], "Func") {
							if bl, ok := c.Args[1].(*ast.BasicLit); ok && bl.Value == `"."` {
								step = "CallDot"
							}
						}
					}
					if !terminates(is.Body) {
						step = "CallUnknown"
					}
					order = append(order, step)
					if step == "CallUnknown" {
						done = true
					}
					if step == "CallView" {
						cscope = callScopeKind(is.Body)
					}
					link = is.Else
				}
			case *ast.ReturnStmt:
				step := "CallUnknown"
				if len(x.Results) == 1 {
					if c, ok := x.Results[0].(*ast.CallExpr); ok && isIdent(c.Fun, "evalGoFunc") && len(c.Args) == 2 && endsWith(c.Args[0], "Func") {
						step = "CallGoFunc"
					}
				}
				order = append(order, step)
				done = true
			}
		}
	}
	return order, cscope
}

// callScopeKind: in the view branch of evalCall, `return Eval(ee, S, <..>.Expr)` with S := make(Scope) is CsFresh, with
// S the caller's map (`assign` itself or S := assign) CsShared. The arguments must be evaluated in `assign`.
func callScopeKind(b *ast.BlockStmt) string {
	if len(b.List) == 0 {
		return "CsUnknown"
	}
	ret, ok := b.List[len(b.List)-1].(*ast.ReturnStmt)
	if !ok || len(ret.Results) != 1 {
		return "CsUnknown"
	}
	c, ok := ret.Results[0].(*ast.CallExpr)
	if !ok || !isIdent(c.Fun, "Eval") || len(c.Args) != 3 {
		return "CsUnknown"
	}
	// the body: <view>.Expr, or viewBody(<view>) (fixes/C10-5: the type defaulted on a copy)
	if vb, isCall := c.Args[2].(*ast.CallExpr); isCall {
		if !isIdent(vb.Fun, "viewBody") || len(vb.Args) != 1 {
			return "CsUnknown"
		}
	} else if !endsWith(c.Args[2], "Expr") {
		return "CsUnknown"
	}
	sc, ok := c.Args[1].(*ast.Ident)
	if !ok {
		return "CsUnknown"
	}
	kind := "CsUnknown"
	if sc.Name == "assign" {
		kind = "CsShared"
	}
	argsInCaller := true
	ast.Inspect(b, func(n ast.Node) bool {
		as, ok := n.(*ast.AssignStmt)
		if !ok || len(as.Lhs) != 1 || len(as.Rhs) != 1 {
			return true
		}
		if as.Tok == token.DEFINE && isIdent(as.Lhs[0], sc.Name) {
			switch r := as.Rhs[0].(type) {
			case *ast.CallExpr:
				if isIdent(r.Fun, "make") && len(r.Args) >= 1 && isIdent(r.Args[0], "Scope") {
					kind = "CsFresh"
				}
			case *ast.CompositeLit:
				if isIdent(r.Type, "Scope") && len(r.Elts) == 0 {
					kind = "CsFresh"
				}
			case *ast.Ident:
				if r.Name == "assign" {
					kind = "CsShared"
				}
			}
		}
		// S[params[i].Name] = Eval(ee, assign, argExpr)
		if ix, ok := as.Lhs[0].(*ast.IndexExpr); ok && isIdent(ix.X, sc.Name) {
			if ec, ok := as.Rhs[0].(*ast.CallExpr); !ok || !isIdent(ec.Fun, "Eval") || len(ec.Args) != 3 || !isIdent(ec.Args[1], "assign") {
				argsInCaller = false
			}
		}
		return true
	})
	if !argsInCaller {
		return "CsUnknown"
	}
	return kind
}

// ---- the helper table: GoFuncMap ----
var knownGimpl = map[string]bool{"strings_Contains": true, "strings_Count": true, "strings_Fields": true, "FindAllString": true,
	"strings_HasPrefix": true, "strings_HasSuffix": true, "strings_Join": true, "strings_LastIndex": true, "MatchString": true,
	"strings_Replace": true, "strings_Split": true, "titleCaser_String": true, "strings_ToLower": true, "strings_ToTitle": true,
	"strings_ToUpper": true, "strings_Trim": true, "strings_TrimLeft": true, "strings_TrimPrefix": true, "strings_TrimRight": true,
	"strings_TrimSpace": true, "strings_TrimSuffix": true}

// the four type variables of goFuncs.go, checked against what their composite literals mention
func goTypeVars(f *ast.File) map[string]string {
	out := map[string]string{}
	for _, d := range f.Decls {
		gd, ok := d.(*ast.GenDecl)
		if !ok || gd.Tok != token.VAR {
			continue
		}
		for _, sp := range gd.Specs {
			vs, ok := sp.(*ast.ValueSpec)
			if !ok {
				continue
			}
			for i, n := range vs.Names {
				if i >= len(vs.Values) {
					continue
				}
				var sels []string
				ast.Inspect(vs.Values[i], func(m ast.Node) bool {
					if se, ok := m.(*ast.SelectorExpr); ok {
						sels = append(sels, se.Sel.Name)
					}
					return true
				})
				has := func(s string) bool {
					for _, x := range sels {
						if x == s {
							return true
						}
					}
					return false
				}
				isList := has("Type_List_") || has("Type_List")
				switch {
				case n.Name == "stringType" && has("Type_STRING") && !isList:
					out[n.Name] = "GtString"
				case n.Name == "intType" && has("Type_INT") && !isList:
					out[n.Name] = "GtInt"
				case n.Name == "boolType" && has("Type_BOOL") && !isList:
					out[n.Name] = "GtBool"
				case n.Name == "listStringType" && has("Type_STRING") && isList:
					out[n.Name] = "GtListString"
				}
			}
		}
	}
	return out
}

func goFuncMap(f *ast.File) ([]string, error) {
	lit := findVarLit(f, "GoFuncMap")
	if lit == nil {
		return nil, fmt.Errorf("GoFuncMap not found")
	}
	tv := goTypeVars(f)
	ty := func(e ast.Expr) string {
		if id, ok := e.(*ast.Ident); ok {
			if t, ok := tv[id.Name]; ok {
				return t
			}
		}
		return "GtUnknown"
	}
	var rows []string
	for _, el := range lit.Elts {
		kv, ok := el.(*ast.KeyValueExpr)
		if !ok {
			return nil, fmt.Errorf("GoFuncMap: unexpected element")
		}
		key, ok := kv.Key.(*ast.BasicLit)
		if !ok || key.Kind != token.STRING {
			return nil, fmt.Errorf("GoFuncMap: key is not a string literal")
		}
		val, ok := kv.Value.(*ast.CompositeLit)
		if !ok || len(val.Elts) != 3 {
			return nil, fmt.Errorf("GoFuncMap[%s]: value is not {fn, args, ret}", key.Value)
		}
		impl := "I_unknown"
		if c, ok := val.Elts[0].(*ast.CallExpr); ok && endsWith(c.Fun, "reflect", "ValueOf") && len(c.Args) == 1 {
			if n := strings.Join(selChain(c.Args[0]), "_"); knownGimpl[n] {
				impl = "I_" + n
			}
		}
		var args []string
		al, ok := val.Elts[1].(*ast.CompositeLit)
		if !ok {
			return nil, fmt.Errorf("GoFuncMap[%s]: argument types are not a literal", key.Value)
		}
		for _, a := range al.Elts {
			args = append(args, ty(a))
		}
		rows = append(rows, fmt.Sprintf("(%s, (%s, [%s], %s))", key.Value, impl, strings.Join(args, "; "), ty(val.Elts[2])))
	}
	sort.Strings(rows)
	return rows, nil
}

// isReflectValueExpectedType: `r.Index(0)` inside the `kind == reflect.Slice` block with no returning test of r.Len()
// before it is SliceIndexUnguarded (an empty slice result panics); no Index(0) at all, or a returning `if r.Len() ...`
// before it, is SliceLenGuarded.
func sliceResultGuard(f *ast.File) string {
	for _, fd := range funcDecls(f) {
		if fd.Name.Name != "isReflectValueExpectedType" || fd.Body == nil {
			continue
		}
		res := "SliceUnknown"
		ast.Inspect(fd.Body, func(n ast.Node) bool {
			is, ok := n.(*ast.IfStmt)
			if !ok {
				return true
			}
			be, ok := is.Cond.(*ast.BinaryExpr)
			if !ok || be.Op != token.EQL || !endsWith(be.Y, "reflect", "Slice") {
				return true
			}
			guarded, indexed, unguardedIndex := false, false, false
			for _, st := range is.Body.List {
				if g, ok := st.(*ast.IfStmt); ok && terminates(g.Body) {
					mentionsLen := false
					ast.Inspect(g.Cond, func(m ast.Node) bool {
						if c, ok := m.(*ast.CallExpr); ok && endsWith(c.Fun, "Len") {
							mentionsLen = true
						}
						return true
					})
					if mentionsLen {
						guarded = true
						continue
					}
				}
				ast.Inspect(st, func(m ast.Node) bool {
					if c, ok := m.(*ast.CallExpr); ok && endsWith(c.Fun, "Index") {
						indexed = true
						if !guarded {
							unguardedIndex = true
						}
					}
					return true
				})
			}
			switch {
			case unguardedIndex:
				res = "SliceIndexUnguarded"
			case !indexed || guarded:
				res = "SliceLenGuarded"
			}
			return false
		})
		return res
	}
	return "SliceUnknown"
}

// ---- what the code does with the scope variable of an iteration once the iteration is over ----

// isScopeVarIndex: assign[<something>.Scopevar] or assign[scopeVar]
func isScopeVarIndex(e ast.Expr) bool {
	ix, ok := e.(*ast.IndexExpr)
	if !ok || !isIdent(ix.X, "assign") {
		return false
	}
	ch := selChain(ix.Index)
	if len(ch) == 0 {
		return false
	}
	last := ch[len(ch)-1]
	return last == "Scopevar" || last == "scopeVar"
}

// saveStmt: `v, has := assign[...Scopevar]`  ->  (v, has)
func saveStmt(st ast.Stmt) (string, string, bool) {
	as, ok := st.(*ast.AssignStmt)
	if !ok || as.Tok != token.DEFINE || len(as.Lhs) != 2 || len(as.Rhs) != 1 || !isScopeVarIndex(as.Rhs[0]) {
		return "", "", false
	}
	v, ok1 := as.Lhs[0].(*ast.Ident)
	h, ok2 := as.Lhs[1].(*ast.Ident)
	if !ok1 || !ok2 {
		return "", "", false
	}
	return v.Name, h.Name, true
}

// restoreStmt: `if has { assign[...Scopevar] = v }`
func restoreStmt(st ast.Stmt, v, has string) bool {
	is, ok := st.(*ast.IfStmt)
	if !ok || is.Init != nil || is.Else != nil || !isIdent(is.Cond, has) || len(is.Body.List) != 1 {
		return false
	}
	as, ok := is.Body.List[0].(*ast.AssignStmt)
	return ok && as.Tok == token.ASSIGN && len(as.Lhs) == 1 && len(as.Rhs) == 1 && isScopeVarIndex(as.Lhs[0]) && isIdent(as.Rhs[0], v)
}

// deleteStmt: `delete(assign, ...Scopevar)`
func deleteStmt(st ast.Stmt) bool {
	es, ok := st.(*ast.ExprStmt)
	if !ok {
		return false
	}
	c, ok := es.X.(*ast.CallExpr)
	if !ok || !isIdent(c.Fun, "delete") || len(c.Args) != 2 || !isIdent(c.Args[0], "assign") {
		return false
	}
	ch := selChain(c.Args[1])
	return len(ch) > 0 && (ch[len(ch)-1] == "Scopevar" || ch[len(ch)-1] == "scopeVar")
}

// blankAssign: `_, _ = a, b` with plain identifiers on the right: no effect on the scope
func blankAssign(st ast.Stmt) bool {
	as, ok := st.(*ast.AssignStmt)
	if !ok || as.Tok != token.ASSIGN {
		return false
	}
	for _, l := range as.Lhs {
		if !isIdent(l, "_") {
			return false
		}
	}
	for _, r := range as.Rhs {
		if _, ok := r.(*ast.Ident); !ok {
			return false
		}
	}
	return true
}

func svKind(del, restore bool) string {
	switch {
	case del && restore:
		return "SvDeleteThenRestore"
	case del:
		return "SvDeleteOnly"
	case restore:
		return "SvRestoreOnly"
	}
	return "SvLeak"
}

// LHSOverRHSStrategy.eval: the save must precede the `if f, has := exprFunctions[key]; has {` block; inside it
// the iteration call comes first, then (optionally) the delete, then (optionally) the conditional restore.
func lhsOverRhsScopeVar(f *ast.File) string {
	for _, fd := range funcDecls(f) {
		if recvName(fd) != "LHSOverRHSStrategy" || fd.Name.Name != "eval" || fd.Body == nil {
			continue
		}
		v, has, saved := "", "", false
		for _, st := range fd.Body.List {
			if a, b, ok := saveStmt(st); ok {
				v, has, saved = a, b, true
				continue
			}
			is, ok := st.(*ast.IfStmt)
			if !ok || is.Init == nil {
				continue
			}
			// the dispatch block
			called, del, restore := false, false, false
			for _, bs := range is.Body.List {
				switch {
				case !called:
					if as, ok := bs.(*ast.AssignStmt); ok && len(as.Rhs) == 1 {
						if c, ok := as.Rhs[0].(*ast.CallExpr); ok && isIdent(c.Fun, "f") {
							called = true
							continue
						}
					}
					return "SvUnknown"
				case deleteStmt(bs):
					if restore {
						return "SvUnknown" // a delete after the restore would undo it
					}
					del = true
				case saved && restoreStmt(bs, v, has):
					restore = true
				default:
					if _, ok := bs.(*ast.ReturnStmt); ok {
						continue
					}
					if blankAssign(bs) {
						continue
					}
					return "SvUnknown"
				}
			}
			if !called {
				return "SvUnknown"
			}
			return svKind(del, restore)
		}
	}
	return "SvUnknown"
}

// evalTransform: the save follows `argValue := Eval(...)`; the restore sits in the deferred function; the deletes
// follow the loops (one in evalTransformUsingAppender, two in evalTransform: map entries, single value).
func transformScopeVar(f *ast.File) string {
	nDelAppender, nDelTransform := 0, 0
	v, has, saved, restore, argSeen, saveAfterArg := "", "", false, false, false, false
	for _, fd := range funcDecls(f) {
		if fd.Body == nil {
			continue
		}
		switch fd.Name.Name {
		case "evalTransformUsingAppender":
			ast.Inspect(fd.Body, func(n ast.Node) bool {
				if st, ok := n.(ast.Stmt); ok && deleteStmt(st) {
					nDelAppender++
				}
				return true
			})
		case "evalTransform":
			for _, st := range fd.Body.List {
				if as, ok := st.(*ast.AssignStmt); ok && len(as.Lhs) == 1 && isIdent(as.Lhs[0], "argValue") {
					argSeen = true
				}
				if a, b, ok := saveStmt(st); ok {
					v, has, saved = a, b, true
					saveAfterArg = argSeen
				}
				if ds, ok := st.(*ast.DeferStmt); ok && saved {
					if fl, ok := ds.Call.Fun.(*ast.FuncLit); ok {
						for _, bs := range fl.Body.List {
							if restoreStmt(bs, v, has) {
								restore = true
							}
						}
					}
				}
			}
			ast.Inspect(fd.Body, func(n ast.Node) bool {
				if _, ok := n.(*ast.FuncLit); ok {
					return false
				}
				if st, ok := n.(ast.Stmt); ok && deleteStmt(st) {
					nDelTransform++
				}
				return true
			})
		}
	}
	if saved && !saveAfterArg {
		return "SvUnknown"
	}
	switch {
	case nDelAppender == 1 && nDelTransform == 2:
		return svKind(true, restore)
	case nDelAppender == 0 && nDelTransform == 0:
		return svKind(false, restore)
	}
	return "SvUnknown"
}

// writesViewType: does any function of exprEval.go assign to <..>.Expr.Type (the body type of a view of the shared
// module: EvaluateView / evalCall used to default it in place)
func writesViewType(f *ast.File) bool {
	found := false
	for _, fd := range funcDecls(f) {
		if fd.Body == nil {
			continue
		}
		ast.Inspect(fd.Body, func(n ast.Node) bool {
			if as, ok := n.(*ast.AssignStmt); ok {
				for _, l := range as.Lhs {
					if endsWith(l, "Expr", "Type") {
						found = true
					}
				}
			}
			return true
		})
	}
	return found
}

// ---- evaluator state: "evalExpr keeps no per-node state" ----
//
// Everything an evaluation could remember from one evaluation of an expression node to the next is either a field of
// exprEval, a package-level variable of pkg/eval, the expression tree itself (the shared module), or a map some
// function writes to. All four are listed here from the source as it is now (every non-test file of pkg/eval):
//
//	expr_eval_fields    every field of struct exprEval, in declaration order, with what is done to it:
//	                    FuRead (never assigned after construction), FuStack (exprStack: only Push / Pop / Peek),
//	                    FuWritten [functions that assign it or call another pointer method on it]
//	eval_package_vars   every package-level variable: PvNeverWritten | PvWritten [functions] (assignment, index
//	                    assignment, field assignment, delete, append-assignment, ++/--, &x, or a Store / Set / Lock
//	                    style method call)
//	eval_ast_writes     assignments whose target is reached from a parameter / receiver of an expression-tree or module
//	                    type (*sysl.Expr..., *sysl.View, *sysl.Application, *sysl.Module) or a variable derived from
//	                    one; a `v := *node` copy may have its OWN fields assigned (one selector), nothing deeper
//	eval_map_writes     every index assignment and delete(), classified by what the map is: the Scope (MwScope), a
//	                    local map / a map parameter of a set helper (MwLocal / MwParamMap), the Items of a value under
//	                    construction (MwValueItems), a package variable, an exprEval field, the expression tree, other
//	eval_scope_keys     the key expressions under which the Scope is written or deleted (a hidden key would be state)
func evalState(repo string) (string, error) {
	dir := filepath.Join(repo, "pkg/eval")
	ents, err := os.ReadDir(dir)
	if err != nil {
		return "", err
	}
	var files []*goFile
	for _, e := range ents {
		n := e.Name()
		if !strings.HasSuffix(n, ".go") || strings.HasSuffix(n, "_test.go") {
			continue
		}
		gf, err := parseGo(repo, "pkg/eval/"+n)
		if err != nil {
			return "", err
		}
		files = append(files, gf)
	}
	text := func(gf *goFile, n ast.Node) string {
		var b strings.Builder
		printer.Fprint(&b, gf.fset, n)
		return strings.Join(strings.Fields(b.String()), " ")
	}
	cs := func(s string) string { return "\"" + strings.ReplaceAll(s, "\"", "\"\"") + "\"" }
	clist := func(xs []string) string {
		var q []string
		for _, x := range xs {
			q = append(q, cs(x))
		}
		return "[" + strings.Join(q, "; ") + "]"
	}
	typeText := func(gf *goFile, e ast.Expr) string { return text(gf, e) }

	// package-level variables, the fields of exprEval, pointer-receiver methods per type
	pkgVars := map[string]bool{}
	var fields []string
	ptrMethods := map[string]map[string]bool{} // type -> methods with pointer receiver
	for _, gf := range files {
		for _, d := range gf.file.Decls {
			switch x := d.(type) {
			case *ast.GenDecl:
				for _, sp := range x.Specs {
					switch y := sp.(type) {
					case *ast.ValueSpec:
						if x.Tok == token.VAR {
							for _, n := range y.Names {
								if n.Name != "_" {
									pkgVars[n.Name] = true
								}
							}
						}
					case *ast.TypeSpec:
						if st, ok := y.Type.(*ast.StructType); ok && y.Name.Name == "exprEval" {
							for _, f := range st.Fields.List {
								if len(f.Names) == 0 {
									fields = append(fields, typeText(gf, f.Type)) // embedded
								}
								for _, n := range f.Names {
									fields = append(fields, n.Name)
								}
							}
						}
					}
				}
			case *ast.FuncDecl:
				if x.Recv != nil && len(x.Recv.List) == 1 {
					if _, ptr := x.Recv.List[0].Type.(*ast.StarExpr); ptr {
						t := recvName(x)
						if ptrMethods[t] == nil {
							ptrMethods[t] = map[string]bool{}
						}
						ptrMethods[t][x.Name.Name] = true
					}
				}
			}
		}
	}

	fieldWriters := map[string]map[string]bool{}
	fieldStackOnly := map[string]bool{}
	fieldOtherMethod := map[string]bool{}
	varWriters := map[string]map[string]bool{}
	var astWrites, mapWrites []string
	scopeKeys := map[string]bool{} // the key expressions under which the Scope is written
	note := func(m map[string]map[string]bool, k, fn string) {
		if m[k] == nil {
			m[k] = map[string]bool{}
		}
		m[k][fn] = true
	}
	isTreeType := func(t string) bool {
		for _, s := range []string{"sysl.Expr", "sysl.View", "sysl.Application", "sysl.Module"} {
			if strings.Contains(t, s) {
				return true
			}
		}
		return false
	}
	// root identifier of an lvalue / source expression, the number of selectors / indexes on the way, and whether a
	// dereference copy (*x) was taken
	var rootOf func(e ast.Expr) (string, int, bool)
	rootOf = func(e ast.Expr) (string, int, bool) {
		switch x := e.(type) {
		case *ast.Ident:
			return x.Name, 0, false
		case *ast.SelectorExpr:
			r, n, c := rootOf(x.X)
			return r, n + 1, c
		case *ast.IndexExpr:
			r, n, c := rootOf(x.X)
			return r, n + 1, c
		case *ast.ParenExpr:
			return rootOf(x.X)
		case *ast.StarExpr:
			r, n, _ := rootOf(x.X)
			return r, n, true
		case *ast.UnaryExpr:
			if x.Op == token.AND {
				return rootOf(x.X)
			}
		case *ast.TypeAssertExpr:
			return rootOf(x.X)
		case *ast.CallExpr:
			// a getter on a tree node: x.GetFoo()
			if se, ok := x.Fun.(*ast.SelectorExpr); ok && strings.HasPrefix(se.Sel.Name, "Get") && len(x.Args) == 0 {
				r, n, c := rootOf(se.X)
				return r, n + 1, c
			}
		case *ast.SliceExpr:
			return rootOf(x.X)
		}
		return "", 0, false
	}

	for _, gf := range files {
		for _, fd := range funcDecls(gf.file) {
			if fd.Body == nil {
				continue
			}
			fn := fd.Name.Name
			if r := recvName(fd); r != "" {
				fn = r + "." + fn
			}
			// names bound in this function: exprEval variables, tree variables (tainted), copies, scopes, local maps,
			// map parameters, value parameters; locals shadowing package variables
			eeVars, tree, treeCopy, scopes, localMaps, paramMaps, values, locals := map[string]bool{}, map[string]bool{}, map[string]bool{}, map[string]bool{}, map[string]bool{}, map[string]bool{}, map[string]bool{}, map[string]bool{}
			bindParam := func(fl *ast.FieldList) {
				if fl == nil {
					return
				}
				for _, f := range fl.List {
					t := typeText(gf, f.Type)
					for _, n := range f.Names {
						locals[n.Name] = true
						switch {
						case strings.Contains(t, "exprEval"):
							eeVars[n.Name] = true
						case isTreeType(t):
							tree[n.Name] = true
						case t == "Scope" || t == "*Scope":
							scopes[n.Name] = true
						case strings.HasPrefix(t, "map["):
							paramMaps[n.Name] = true
						case strings.Contains(t, "sysl.Value"):
							values[n.Name] = true
						}
					}
				}
			}
			bindParam(fd.Recv)
			bindParam(fd.Type.Params)
			define := func(lhs ast.Expr, rhs ast.Expr) {
				id, ok := lhs.(*ast.Ident)
				if !ok || id.Name == "_" {
					return
				}
				locals[id.Name] = true
				if rhs == nil {
					return
				}
				switch r := rhs.(type) {
				case *ast.CallExpr:
					if isIdent(r.Fun, "make") && len(r.Args) >= 1 {
						if isIdent(r.Args[0], "Scope") {
							scopes[id.Name] = true
						} else {
							localMaps[id.Name] = true
						}
						return
					}
					if fid, ok := r.Fun.(*ast.Ident); ok && strings.HasPrefix(fid.Name, "MakeValue") {
						values[id.Name] = true
						return
					}
				case *ast.CompositeLit:
					if isIdent(r.Type, "Scope") {
						scopes[id.Name] = true
					} else if isIdent(r.Type, "exprEval") {
						eeVars[id.Name] = true
					} else {
						localMaps[id.Name] = true
					}
					return
				case *ast.UnaryExpr:
					if cl, ok := r.X.(*ast.CompositeLit); ok && r.Op == token.AND {
						if strings.Contains(typeText(gf, cl.Type), "sysl.Value") {
							values[id.Name] = true
						} else {
							localMaps[id.Name] = true // a fresh object of this function
						}
						return
					}
				}
				root, _, copied := rootOf(rhs)
				switch {
				case root != "" && tree[root] && copied:
					treeCopy[id.Name] = true
				case root != "" && (tree[root] || treeCopy[root]):
					tree[id.Name] = true
				case root != "" && scopes[root] && root == text(gf, rhs):
					scopes[id.Name] = true
				case root != "" && values[root]:
					values[id.Name] = true
				case root != "" && localMaps[root]:
					localMaps[id.Name] = true
				}
			}
			// first pass: definitions (in source order; enough for straight-line taint)
			ast.Inspect(fd.Body, func(n ast.Node) bool {
				switch x := n.(type) {
				case *ast.AssignStmt:
					if x.Tok == token.DEFINE {
						for i, l := range x.Lhs {
							var r ast.Expr
							if len(x.Rhs) == len(x.Lhs) {
								r = x.Rhs[i]
							} else if len(x.Rhs) == 1 && i == 0 {
								r = x.Rhs[0]
							}
							define(l, r)
						}
					}
				case *ast.RangeStmt:
					if x.Tok == token.DEFINE {
						if x.Key != nil {
							define(x.Key, nil)
						}
						if x.Value != nil {
							define(x.Value, x.X)
						}
					}
				case *ast.TypeSwitchStmt:
					if as, ok := x.Assign.(*ast.AssignStmt); ok && len(as.Lhs) == 1 && len(as.Rhs) == 1 {
						define(as.Lhs[0], as.Rhs[0])
					}
				case *ast.DeclStmt:
					if gd, ok := x.Decl.(*ast.GenDecl); ok {
						for _, sp := range gd.Specs {
							if vs, ok := sp.(*ast.ValueSpec); ok {
								for _, nm := range vs.Names {
									locals[nm.Name] = true
									if strings.HasPrefix(typeText(gf, vs.Type), "map[") {
										localMaps[nm.Name] = true
									}
								}
							}
						}
					}
				case *ast.FuncLit:
					bindParam(x.Type.Params)
				}
				return true
			})
			// a write to lvalue l (isIndex: the last step is an index, i.e. a map / slice element)
			write := func(l ast.Expr, how string) {
				root, depth, _ := rootOf(l)
				lt := text(gf, l)
				_, isIndex := l.(*ast.IndexExpr)
				if how == "delete" {
					isIndex = true
				}
				class := ""
				switch {
				case root == "":
					if isIndex {
						class = "MwOther"
					}
				case eeVars[root]:
					if depth >= 1 {
						ch := selChain(l)
						f := ""
						if len(ch) >= 2 {
							f = ch[1]
						} else if ix, ok := l.(*ast.IndexExpr); ok {
							if c2 := selChain(ix.X); len(c2) >= 2 {
								f = c2[1]
							}
						}
						note(fieldWriters, f, fn)
						class = "MwField"
					}
				case tree[root] && depth >= 1:
					astWrites = append(astWrites, fmt.Sprintf("(%s, %s)", cs(fn), cs(lt)))
					class = "MwAst"
				case treeCopy[root] && depth >= 2:
					astWrites = append(astWrites, fmt.Sprintf("(%s, %s)", cs(fn), cs(lt)))
					class = "MwAst"
				case treeCopy[root]:
					class = "MwLocal"
				case scopes[root]:
					class = "MwScope"
				case localMaps[root]:
					class = "MwLocal"
				case paramMaps[root]:
					class = "MwParamMap"
				case values[root]:
					class = "MwValueItems"
				case pkgVars[root] && !locals[root]:
					note(varWriters, root, fn)
					class = "MwPackage"
				case locals[root] && depth == 0:
					return // a plain local variable
				default:
					class = "MwOther"
				}
				if ix, ok := l.(*ast.IndexExpr); ok && class == "MwScope" {
					scopeKeys[text(gf, ix.Index)] = true
				}
				if isIndex {
					mapWrites = append(mapWrites, fmt.Sprintf("(%s, %s, %s)", cs(fn), cs(how+" "+lt), class))
				}
			}
			ast.Inspect(fd.Body, func(n ast.Node) bool {
				switch x := n.(type) {
				case *ast.AssignStmt:
					if x.Tok != token.DEFINE {
						for _, l := range x.Lhs {
							if isIdent(l, "_") {
								continue
							}
							write(l, "set")
						}
					}
				case *ast.IncDecStmt:
					write(x.X, "set")
				case *ast.UnaryExpr:
					// &pkgVar / &ee.field: the address escapes
					if x.Op == token.AND {
						if root, depth, _ := rootOf(x.X); root != "" {
							if pkgVars[root] && !locals[root] {
								note(varWriters, root, fn)
							}
							if eeVars[root] && depth >= 1 {
								if ch := selChain(x.X); len(ch) >= 2 {
									note(fieldWriters, ch[1], fn)
								}
							}
						}
					}
				case *ast.CallExpr:
					if isIdent(x.Fun, "delete") && len(x.Args) == 2 {
						write(&ast.IndexExpr{X: x.Args[0], Index: x.Args[1]}, "delete")
					}
					if se, ok := x.Fun.(*ast.SelectorExpr); ok {
						ch := selChain(se.X)
						m := se.Sel.Name
						// method on a field of exprEval: ee.exprStack.Push(...)
						if len(ch) == 2 && eeVars[ch[0]] {
							switch {
							case ch[1] == "exprStack" && (m == "Push" || m == "Pop" || m == "Peek"):
								fieldStackOnly[ch[1]] = true
							case ch[1] == "logger":
								// logging
							default:
								fieldOtherMethod[ch[1]] = true
								note(fieldWriters, ch[1], fn)
							}
						}
						// state-keeping method on a package variable
						if len(ch) == 1 && pkgVars[ch[0]] && !locals[ch[0]] {
							switch m {
							case "Store", "LoadOrStore", "LoadAndDelete", "Delete", "Swap", "CompareAndSwap", "Set", "Put", "Add", "Lock", "RLock", "Do", "Range":
								note(varWriters, ch[0], fn)
							}
						}
					}
				}
				return true
			})
		}
	}
	keys := func(m map[string]bool) []string {
		var out []string
		for k := range m {
			out = append(out, k)
		}
		sort.Strings(out)
		return out
	}
	var sb strings.Builder
	var rows []string
	for _, f := range fields {
		use := "FuRead"
		switch {
		case len(fieldWriters[f]) > 0:
			use = "FuWritten " + clist(keys(fieldWriters[f]))
		case fieldStackOnly[f]:
			use = "FuStack"
		}
		rows = append(rows, fmt.Sprintf("(%s, %s)", cs(f), use))
	}
	fmt.Fprintf(&sb, "Definition expr_eval_fields : list (string * field_use) := [\n  %s].\n", strings.Join(rows, ";\n  "))
	rows = nil
	for _, v := range keys(pkgVars) {
		use := "PvNeverWritten"
		if len(varWriters[v]) > 0 {
			use = "PvWritten " + clist(keys(varWriters[v]))
		}
		rows = append(rows, fmt.Sprintf("(%s, %s)", cs(v), use))
	}
	fmt.Fprintf(&sb, "Definition eval_package_vars : list (string * var_use) := [\n  %s].\n", strings.Join(rows, ";\n  "))
	sort.Strings(astWrites)
	fmt.Fprintf(&sb, "Definition eval_ast_writes : list (string * string) := [%s].\n", strings.Join(astWrites, ";\n  "))
	fmt.Fprintf(&sb, "Definition eval_scope_keys : list string := %s.\n", clist(keys(scopeKeys)))
	sort.Strings(mapWrites)
	fmt.Fprintf(&sb, "Definition eval_map_writes : list (string * string * map_write_class) := [\n  %s].\n", strings.Join(mapWrites, ";\n  "))
	return sb.String(), nil
}
