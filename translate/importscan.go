package main

import (
	"fmt"
	"go/ast"
	"go/token"
	"os"
	"path/filepath"
	"strconv"
	"strings"
)

// ImportScan: the two readers of the import section of a .sysl file, as data for Front/ImportScan.v (C03).
//
// The textual pre-scan (pkg/parse/parse.go):
//
//	isc_shapes     isImportLine and extractImports, one rendered line per statement in source order
//	isc_keyword    the bytes of `var importKeyword = []byte("...")`
//	isc_seps       the characters isImportLine compares the byte behind the keyword with, in source order
//	isc_limit      how long a line the scanner of extractImports can hold: SLDefault (no scanner.Buffer call:
//	               bufio.MaxScanTokenSize), SLContentPlus k (scanner.Buffer(_, len(content)+k)), SLUnknown
//	isc_caller     the statements of collectSpecs from the call of extractImports to the assignment of fi.imports
//
// The grammar (pkg/grammar/SyslLexer.g4, SyslParser.g4; comments removed, white space normalised):
//
//	isc_lexer_rules   (rule, mode, body) of the lexer rules that decide what the first token of a line is in the
//	                  import section, in source order (the order decides ties)
//	isc_parser_rules  (rule, body) of sysl_file, imports_decl, import_stmt, import_mode
//	isc_ws            the characters of the character class of the lexer rule WS ( [ \t]+ )
//
// Front/ImportTables.v proves these equal to what Front/ImportScan.v was written against (reflexivity).
func init() { register("ImportScan", importScan) }

// iscG4Rules cuts an ANTLR grammar into rules. Comments are removed; quoted literals, character classes and actions
// are kept verbatim, other white space is collapsed.
type iscRule struct{ name, mode, body string }

func iscG4Rules(src string) ([]iscRule, error) {
	var rules []iscRule
	mode := "DEFAULT_MODE"
	i, n := 0, len(src)
	var cur strings.Builder
	flush := func() error {
		text := strings.TrimSpace(cur.String())
		cur.Reset()
		if text == "" {
			return nil
		}
		f := strings.Fields(text)
		switch f[0] {
		case "mode":
			if len(f) == 2 {
				mode = f[1]
				return nil
			}
		case "lexer", "parser", "grammar", "options", "tokens", "import":
			return nil
		}
		if strings.HasPrefix(text, "@") {
			return nil
		}
		text = strings.TrimSpace(strings.TrimPrefix(text, "fragment "))
		k := strings.Index(text, ":")
		if k < 0 {
			return fmt.Errorf("grammar statement without colon: %.40q", text)
		}
		rules = append(rules, iscRule{strings.TrimSpace(text[:k]), mode, strings.TrimSpace(text[k+1:])})
		return nil
	}
	space := func() {
		s := cur.String()
		if len(s) > 0 && s[len(s)-1] != ' ' {
			cur.WriteByte(' ')
		}
	}
	for i < n {
		c := src[i]
		switch {
		case c == '/' && i+1 < n && src[i+1] == '/':
			for i < n && src[i] != '\n' {
				i++
			}
		case c == '/' && i+1 < n && src[i+1] == '*':
			j := strings.Index(src[i+2:], "*/")
			if j < 0 {
				return nil, fmt.Errorf("unterminated comment")
			}
			i += j + 4
			space()
		case c == '\'':
			j := i + 1
			for j < n && src[j] != '\'' {
				if src[j] == '\\' {
					j++
				}
				j++
			}
			cur.WriteString(src[i : j+1])
			i = j + 1
		case c == '[':
			j := i + 1
			for j < n && src[j] != ']' {
				if src[j] == '\\' {
					j++
				}
				j++
			}
			cur.WriteString(src[i : j+1])
			i = j + 1
		case c == '{':
			depth, j := 0, i
			for j < n {
				if src[j] == '{' {
					depth++
				}
				if src[j] == '}' {
					depth--
					if depth == 0 {
						break
					}
				}
				j++
			}
			if j >= n {
				return nil, fmt.Errorf("unterminated action")
			}
			// semantic predicates ( {...}? ) are kept, actions are reduced to {}: what they do is Gen/LexerState.v
			k := j + 1
			for k < n && (src[k] == ' ' || src[k] == '\t') {
				k++
			}
			if k < n && src[k] == '?' {
				cur.WriteString(strings.Join(strings.Fields(src[i:j+1]), " "))
			} else {
				cur.WriteString("{}")
			}
			i = j + 1
			// the members / tokens blocks end without a semicolon
			t := strings.TrimSpace(cur.String())
			if strings.HasPrefix(t, "@") || strings.HasPrefix(t, "tokens") || strings.HasPrefix(t, "options") {
				cur.Reset()
			}
		case c == ';':
			if err := flush(); err != nil {
				return nil, err
			}
			i++
		case c == ' ' || c == '\t' || c == '\r' || c == '\n':
			space()
			i++
		default:
			cur.WriteByte(c)
			i++
		}
	}
	return rules, nil
}

// iscClassChars: the characters of a rule body of the form `[...]+` (escapes \t \r \n \\ \] handled)
func iscClassChars(body string) ([]int, bool) {
	if !strings.HasPrefix(body, "[") {
		return nil, false
	}
	k := 1
	for k < len(body) && body[k] != ']' {
		if body[k] == '\\' {
			k++
		}
		k++
	}
	if k >= len(body) || !strings.HasPrefix(body[k+1:], "+") {
		return nil, false
	}
	in := body[1:k]
	var out []int
	for i := 0; i < len(in); i++ {
		c := in[i]
		if c == '\\' && i+1 < len(in) {
			i++
			switch in[i] {
			case 't':
				c = '\t'
			case 'r':
				c = '\r'
			case 'n':
				c = '\n'
			default:
				c = in[i]
			}
		} else if c == '-' && i > 0 && i+1 < len(in) {
			return nil, false // ranges are not expected here
		}
		out = append(out, int(c))
	}
	return out, true
}

func importScan(repo string) (string, error) {
	gf, err := parseGo(repo, "pkg/parse/parse.go")
	if err != nil {
		return "", err
	}
	found := map[string]*ast.FuncDecl{}
	for _, fd := range funcDecls(gf.file) {
		if fd.Body != nil {
			switch fd.Name.Name {
			case "isImportLine", "extractImports", "collectSpecs":
				found[fd.Name.Name] = fd
			}
		}
	}
	for _, w := range []string{"extractImports", "collectSpecs"} {
		if found[w] == nil {
			return "", fmt.Errorf("%s not found in pkg/parse/parse.go", w)
		}
	}
	// keyword
	keyword := ""
	for _, d := range gf.file.Decls {
		gd, ok := d.(*ast.GenDecl)
		if !ok || gd.Tok != token.VAR {
			continue
		}
		for _, sp := range gd.Specs {
			vs, ok := sp.(*ast.ValueSpec)
			if !ok || len(vs.Names) != 1 || vs.Names[0].Name != "importKeyword" || len(vs.Values) != 1 {
				continue
			}
			if c, ok := vs.Values[0].(*ast.CallExpr); ok && len(c.Args) == 1 {
				if l, ok := c.Args[0].(*ast.BasicLit); ok && l.Kind == token.STRING {
					if v, err := strconv.Unquote(l.Value); err == nil {
						keyword = v
					}
				}
			}
		}
	}
	// separators: every comparison  <x>[len(importKeyword)] == '<c>'  in isImportLine
	var seps []int
	if f := found["isImportLine"]; f != nil {
		ast.Inspect(f.Body, func(n ast.Node) bool {
			be, ok := n.(*ast.BinaryExpr)
			if !ok || be.Op != token.EQL {
				return true
			}
			ix, ok := be.X.(*ast.IndexExpr)
			lit, ok2 := be.Y.(*ast.BasicLit)
			if !ok || !ok2 || lit.Kind != token.CHAR {
				return true
			}
			if c, ok := ix.Index.(*ast.CallExpr); !ok || !isIdent(c.Fun, "len") || len(c.Args) != 1 || !isIdent(c.Args[0], "importKeyword") {
				return true
			}
			if v, _, _, err := strconv.UnquoteChar(lit.Value[1:len(lit.Value)-1], '\''); err == nil {
				seps = append(seps, int(v))
			}
			return true
		})
	}
	// scanner limit
	limit := "SLDefault"
	ast.Inspect(found["extractImports"].Body, func(n ast.Node) bool {
		c, ok := n.(*ast.CallExpr)
		if !ok {
			return true
		}
		if ch := selChain(c.Fun); len(ch) == 2 && ch[1] == "Buffer" {
			limit = "SLUnknown"
			if len(c.Args) == 2 {
				if be, ok := c.Args[1].(*ast.BinaryExpr); ok && be.Op == token.ADD {
					if l, ok := be.X.(*ast.CallExpr); ok && isIdent(l.Fun, "len") && len(l.Args) == 1 && isIdent(l.Args[0], "content") {
						if k, ok := be.Y.(*ast.BasicLit); ok && k.Kind == token.INT {
							limit = "SLContentPlus " + k.Value
						}
					}
				}
			}
		}
		return true
	})
	// the caller: from the call of extractImports to fi.imports = children
	var caller []string
	on := false
	for _, l := range ldShape(gf.fset, found["collectSpecs"].Body) {
		if strings.Contains(l, "extractImports(") {
			on = true
		}
		if on {
			caller = append(caller, l)
		}
		if strings.HasPrefix(l, "fi.imports =") {
			break
		}
	}

	readRules := func(rel string) ([]iscRule, error) {
		b, err := os.ReadFile(filepath.Join(repo, rel))
		if err != nil {
			return nil, err
		}
		return iscG4Rules(string(b))
	}
	lrules, err := readRules("pkg/grammar/SyslLexer.g4")
	if err != nil {
		return "", err
	}
	prules, err := readRules("pkg/grammar/SyslParser.g4")
	if err != nil {
		return "", err
	}
	wantL := map[string]bool{"IMPORT_KEY": true, "SUB_PATH_NAME": true, "IMPORT": true, "EXTERNAL_IMPORT": true, "COLON": true,
		"EMPTY_COMMENT": true, "HASH": true, "EMPTY_LINE": true, "INDENTED_COMMENT": true, "NEWLINE": true, "SYSL_COMMENT": true,
		"PRINTABLE": true, "TEXT_LINE": true, "WS": true, "ErrorChar": true, "TEXT": true, "IMPORT_PATH": true}
	wantP := map[string]bool{"sysl_file": true, "imports_decl": true, "import_stmt": true, "import_mode": true}
	var ws []int
	wsOK := false

	var b strings.Builder
	b.WriteString("(* GENERATED by vt ImportScan from pkg/parse/parse.go, pkg/grammar/SyslLexer.g4, pkg/grammar/SyslParser.g4 -- do not edit *)\n")
	b.WriteString("From Coq Require Import List String NArith.\nImport ListNotations.\nRequire Import Verif.Front.ImportScan.\nLocal Open Scope string_scope.\n")
	b.WriteString("Definition isc_shapes : list (string * list string) := [\n")
	names := []string{"isImportLine", "extractImports"}
	for i, w := range names {
		var it []string
		if found[w] != nil {
			for _, l := range ldShape(gf.fset, found[w].Body) {
				it = append(it, "    "+ltCoqString(l))
			}
		}
		sep := ";"
		if i == len(names)-1 {
			sep = ""
		}
		fmt.Fprintf(&b, "  (%s, [\n%s])%s\n", ltCoqString(w), strings.Join(it, ";\n"), sep)
	}
	b.WriteString("].\n")
	b.WriteString("Definition isc_caller : list string := [\n")
	for i, l := range caller {
		sep := ";"
		if i == len(caller)-1 {
			sep = ""
		}
		fmt.Fprintf(&b, "  %s%s\n", ltCoqString(l), sep)
	}
	b.WriteString("].\n")
	nlist := func(xs []int) string {
		it := make([]string, len(xs))
		for i, x := range xs {
			it[i] = fmt.Sprintf("%d%%N", x)
		}
		return "[" + strings.Join(it, "; ") + "]"
	}
	kw := make([]int, len(keyword))
	for i := range kw {
		kw[i] = int(keyword[i])
	}
	fmt.Fprintf(&b, "Definition isc_keyword : list N := %s. (* %q *)\n", nlist(kw), keyword)
	fmt.Fprintf(&b, "Definition isc_seps : list N := %s.\n", nlist(seps))
	fmt.Fprintf(&b, "Definition isc_limit : scan_limit := %s.\n", limit)
	b.WriteString("Definition isc_lexer_rules : list (string * string * string) := [\n")
	var it []string
	for _, r := range lrules {
		if wantL[r.name] {
			it = append(it, fmt.Sprintf("  (%s, %s, %s)", ltCoqString(r.name), ltCoqString(r.mode), ltCoqString(r.body)))
			if r.name == "WS" {
				ws, wsOK = iscClassChars(r.body)
			}
		}
	}
	b.WriteString(strings.Join(it, ";\n") + "\n].\n")
	b.WriteString("Definition isc_parser_rules : list (string * string) := [\n")
	it = nil
	for _, r := range prules {
		if wantP[r.name] {
			it = append(it, fmt.Sprintf("  (%s, %s)", ltCoqString(r.name), ltCoqString(r.body)))
		}
	}
	b.WriteString(strings.Join(it, ";\n") + "\n].\n")
	if !wsOK {
		ws = nil
	}
	fmt.Fprintf(&b, "Definition isc_ws : list N := %s.\n", nlist(ws))
	return b.String(), nil
}
