package main

// MapRanges (C19): every `range` over a map-typed expression in the generator packages, keyed by
// package.function + ordinal (source order among the map ranges of that function), classified by the
// shape of the loop body and of what follows the loop.

import (
	"bytes"
	"fmt"
	"go/ast"
	"go/printer"
	"go/types"
	"os"
	"path/filepath"
	"sort"
	"strings"
)

func init() { register("MapRanges", mapRanges) }

// directories (relative to the repository), walked recursively; test files and testdata are skipped
var mapRangeDirs = []string{
	"pkg/pbutil", "pkg/exporter", "pkg/sequencediagram", "pkg/cmdutils", "pkg/integrationdiagram",
	"pkg/datamodeldiagram", "pkg/database", "pkg/importer", "pkg/arrai/relmod", "pkg/mermaid", "pkg/syslwrapper", "pkg/syslutil", "pkg/diagrams", "language/go/pkg/relgom", "language/go/pkg/codegen", "pkg/transforms", "pkg/eval", "cmd/sysl",
}

type mapRange struct {
	pkg, fn string
	ord     int
	class   string
	detail  string
	src     string
}

func goDirs(repo, rel string) []string {
	var out []string
	filepath.Walk(filepath.Join(repo, rel), func(p string, fi os.FileInfo, err error) error {
		if err != nil || !fi.IsDir() {
			return nil
		}
		if fi.Name() == "testdata" || fi.Name() == "tests" {
			return filepath.SkipDir
		}
		ents, _ := os.ReadDir(p)
		for _, e := range ents {
			if strings.HasSuffix(e.Name(), ".go") && !strings.HasSuffix(e.Name(), "_test.go") {
				r, _ := filepath.Rel(repo, p)
				out = append(out, r)
				break
			}
		}
		return nil
	})
	sort.Strings(out)
	return out
}

func funcKey(fd *ast.FuncDecl) string {
	if r := recvName(fd); r != "" {
		return r + "." + fd.Name.Name
	}
	return fd.Name.Name
}

func isMapType(t types.Type) (isMap, known bool) {
	if t == nil {
		return false, false
	}
	u := t.Underlying()
	if b, ok := u.(*types.Basic); ok && b.Kind() == types.Invalid {
		return false, false
	}
	_, isMap = u.(*types.Map)
	return isMap, true
}

func nodeSrc(si *srcImporter, n ast.Node) string {
	var buf bytes.Buffer
	printer.Fprint(&buf, si.fset, n)
	return buf.String()
}

// unorderedCalls: functions (outside the set type's own methods) that call a method returning the elements of a
// map-based set in iteration order (syslutil.StrSet.ToSlice): the caller receives an unordered slice.
var unorderedSetMethods = map[string]bool{"ToSlice": true}

type checkedPkg struct {
	pkg   string
	files []*ast.File
	info  *types.Info
}

func collectMapRanges(repo string) ([]mapRange, []string, []sortSite, []*pkgVar, error) {
	var unordered []string
	var sorts []sortSite
	vars := newVarTable()
	var checked []checkedPkg
	si := newSrcImporter(repo)
	if si.modpath == "" {
		return nil, nil, nil, nil, fmt.Errorf("cannot read %s/go.mod", repo)
	}
	var out []mapRange
	for _, top := range mapRangeDirs {
		dirs := goDirs(repo, top)
		if len(dirs) == 0 {
			return nil, nil, nil, nil, fmt.Errorf("no Go package under %s", top)
		}
		for _, rel := range dirs {
			files, info, _ := si.checkTarget(rel)
			if info == nil {
				return nil, nil, nil, nil, fmt.Errorf("cannot load %s", rel)
			}
			pkg := strings.TrimPrefix(strings.TrimPrefix(filepath.ToSlash(rel), "language/go/"), "pkg/")
			sort.Slice(files, func(i, j int) bool {
				return si.fset.File(files[i].Pos()).Name() < si.fset.File(files[j].Pos()).Name()
			})
			less := lessMethods(files)
			vars.declare(pkg, files, info)
			checked = append(checked, checkedPkg{pkg, files, info})
			for _, f := range files {
				for _, fd := range funcDecls(f) {
					if fd.Body == nil {
						continue
					}
					sorts = append(sorts, collectSortSites(si, info, pkg, fd, less)...)
					n := 0
					ast.Inspect(fd.Body, func(nd ast.Node) bool {
						if call, ok := nd.(*ast.CallExpr); ok {
							if sel, ok := call.Fun.(*ast.SelectorExpr); ok && unorderedSetMethods[sel.Sel.Name] {
								if isMap, known := isMapType(info.TypeOf(sel.X)); isMap || !known {
									if recvName(fd) == "" || !isRecvType(info, fd, sel.X) {
										unordered = append(unordered, pkg+"."+funcKey(fd))
									}
								}
							}
						}
						rs, ok := nd.(*ast.RangeStmt)
						if !ok {
							return true
						}
						isMap, known := isMapType(info.TypeOf(rs.X))
						if known && !isMap {
							return true
						}
						n++
						mr := mapRange{pkg: pkg, fn: funcKey(fd), ord: n, src: nodeSrc(si, rs)}
						if !known {
							mr.class, mr.detail = "Unknown", "type of "+nodeSrc(si, rs.X)+" not resolved"
						} else {
							mr.class, mr.detail = classifyRange(si, info, fd, rs)
						}
						out = append(out, mr)
						return true
					})
				}
			}
		}
	}
	sort.Strings(unordered)
	for _, c := range checked {
		vars.writes(c.pkg, c.files, c.info)
	}
	return out, unordered, sorts, vars.sorted(), nil
}

// isRecvType: does expression e have the receiver's own type (a method of the set calling its sibling)?
func isRecvType(info *types.Info, fd *ast.FuncDecl, e ast.Expr) bool {
	if fd.Recv == nil || len(fd.Recv.List) == 0 {
		return false
	}
	rt := info.TypeOf(fd.Recv.List[0].Type)
	et := info.TypeOf(e)
	return rt != nil && et != nil && types.Identical(rt, et)
}

func mapRanges(repo string) (string, error) {
	rs, unordered, sorts, vars, err := collectMapRanges(repo)
	if err != nil {
		return "", err
	}
	if os.Getenv("VT_DEBUG") != "" {
		for _, r := range rs {
			fmt.Fprintf(os.Stderr, "=== %s.%s #%d: %s (%s)\n%s\n\n", r.pkg, r.fn, r.ord, r.class, r.detail, r.src)
		}
		for _, v := range vars {
			fmt.Fprintf(os.Stderr, "=== VAR %s %s written=%v %v\n", v.name, v.kind, v.written, v.by)
		}
		for _, s := range sorts {
			fmt.Fprintf(os.Stderr, "=== SORT %s.%s #%d: %s %v %s (%s)\n", s.pkg, s.fn, s.ord, s.api, s.keys, s.src, s.detail)
		}
	}
	var sb strings.Builder
	sb.WriteString("(* GENERATED by vt MapRanges from the generator packages -- do not edit *)\n")
	sb.WriteString("From Coq Require Import List String.\nImport ListNotations.\nRequire Import Verif.Determ.MapOrder Verif.Determ.SortSites.\nLocal Open Scope string_scope.\n")
	sb.WriteString("Definition ranges : list map_range := [\n")
	for i, r := range rs {
		sep := ";"
		if i == len(rs)-1 {
			sep = ""
		}
		fmt.Fprintf(&sb, "  MR %q %d %s%s\n", r.pkg+"."+r.fn, r.ord, r.class, sep)
	}
	sb.WriteString("].\n")
	sb.WriteString("(* callers of an unordered set-to-slice conversion (StrSet.ToSlice) outside the set type itself *)\n")
	sb.WriteString("Definition unordered_slice_callers : list string := [")
	for i, u := range unordered {
		if i > 0 {
			sb.WriteString("; ")
		}
		fmt.Fprintf(&sb, "%q", u)
	}
	sb.WriteString("].\n")
	sb.WriteString("(* every sort.Slice / sort.SliceStable / sort.Sort / sort.Stable call: comparator as a lexicographic chain of projections, source of the slice *)\n")
	sb.WriteString("Definition sort_sites : list sort_site := [\n")
	for i, s := range sorts {
		sep := ";"
		if i == len(sorts)-1 {
			sep = ""
		}
		ks := make([]string, len(s.keys))
		for j, k := range s.keys {
			ks[j] = fmt.Sprintf("(%s, %s)", k.kind, coqStr(k.text))
		}
		fmt.Fprintf(&sb, "  SS %q %d %s [%s] %s%s\n", s.pkg+"."+s.fn, s.ord, s.api, strings.Join(ks, "; "), s.src, sep)
	}
	sb.WriteString("].\n")
	sb.WriteString("(* package-level variables of the walked packages: name, kind, written by some function body *)\n")
	sb.WriteString("Definition package_vars : list pkg_var := [\n")
	for i, v := range vars {
		sep := ";"
		if i == len(vars)-1 {
			sep = ""
		}
		w := "false"
		if v.written {
			w = "true"
		}
		fmt.Fprintf(&sb, "  PV %s %s %s%s\n", coqStr(v.name), v.kind, w, sep)
	}
	sb.WriteString("].\n")
	return sb.String(), nil
}
