package main

import (
	"bytes"
	"fmt"
	"go/ast"
	"go/printer"
	"go/token"
	"strconv"
	"strings"
)

// DbTables (C16): from pkg/database
//
//	db_consts.go   defaultTextSize, strConst, bigIntConst
//	postgres.go    getPostgresDataTypes: the switch arms (label -> result shape) and the default arm
//	databasescriptview.go GenerateDatabaseScriptCreate / postgres.go writeCreateSQLForATable:
//	               how (name, source line) pairs become an emission order:
//	                 ByLineMap  - through a map[int32]string keyed by line (names on equal lines collide)
//	                 ByLineName - sort.Slice with comparator "line differs ? line< : name<" (directly or
//	                              through one package-level helper with that body)
//	                 OrderUnknown - anything else
//	db_utils.go    processTableDepth: after a pass that leaves tables incomplete - always recurse (StopNever) / stop
//	               when the pass completed no table and call placeUnorderedTables (StopNoProgress)
//	postgres.go    writeModifySQLForAColumn: what the branch "new and old are both references" emits
//	               (RefRefSilent / RefRefRetarget), and whether a retained autoincrement column is recorded as
//	               bigint for the columns that refer to it (AutoVtPlain / AutoVtBigint);
//	               writeModifySQLForATable: guard of the final ADD CONSTRAINT .. PRIMARY KEY (PkAlways / PkNonEmpty)
func init() { register("DbTables", dbTables) }

func coqStr(s string) string { return "\"" + strings.ReplaceAll(s, "\"", "\"\"") + "\"" }

func constString(e ast.Expr, consts map[string]string) (string, bool) {
	switch x := e.(type) {
	case *ast.BasicLit:
		if x.Kind == token.STRING {
			s, err := strconv.Unquote(x.Value)
			return s, err == nil
		}
	case *ast.Ident:
		s, ok := consts[x.Name]
		return s, ok
	}
	return "", false
}

// isLineNameLess: func(i, j int) bool { a, b := L(xs[i]), L(xs[j]); if a != b { return a < b }; return xs[i] < xs[j] }
func isLineNameLess(lit *ast.FuncLit) bool {
	if lit == nil || lit.Type.Params == nil || lit.Type.Params.NumFields() != 2 || len(lit.Body.List) != 3 {
		return false
	}
	as, ok := lit.Body.List[0].(*ast.AssignStmt)
	if !ok || len(as.Lhs) != 2 || len(as.Rhs) != 2 {
		return false
	}
	a, okA := as.Lhs[0].(*ast.Ident)
	b, okB := as.Lhs[1].(*ast.Ident)
	if !okA || !okB {
		return false
	}
	// both right-hand sides: the same function applied to xs[i] and xs[j]
	var idx [2]*ast.IndexExpr
	var fn [2]string
	for k := 0; k < 2; k++ {
		c, ok := as.Rhs[k].(*ast.CallExpr)
		if !ok || len(c.Args) != 1 {
			return false
		}
		ix, ok := c.Args[0].(*ast.IndexExpr)
		if !ok {
			return false
		}
		idx[k] = ix
		fn[k] = strings.Join(selChain(c.Fun), ".")
	}
	if fn[0] == "" || fn[0] != fn[1] {
		return false
	}
	ifs, ok := lit.Body.List[1].(*ast.IfStmt)
	if !ok || ifs.Init != nil || ifs.Else != nil || len(ifs.Body.List) != 1 {
		return false
	}
	cond, ok := ifs.Cond.(*ast.BinaryExpr)
	if !ok || cond.Op != token.NEQ || !isIdent(cond.X, a.Name) || !isIdent(cond.Y, b.Name) {
		return false
	}
	r1, ok := ifs.Body.List[0].(*ast.ReturnStmt)
	if !ok || len(r1.Results) != 1 {
		return false
	}
	lt, ok := r1.Results[0].(*ast.BinaryExpr)
	if !ok || lt.Op != token.LSS || !isIdent(lt.X, a.Name) || !isIdent(lt.Y, b.Name) {
		return false
	}
	r2, ok := lit.Body.List[2].(*ast.ReturnStmt)
	if !ok || len(r2.Results) != 1 {
		return false
	}
	lt2, ok := r2.Results[0].(*ast.BinaryExpr)
	if !ok || lt2.Op != token.LSS {
		return false
	}
	x, okX := lt2.X.(*ast.IndexExpr)
	y, okY := lt2.Y.(*ast.IndexExpr)
	if !okX || !okY {
		return false
	}
	same := func(p, q *ast.IndexExpr) bool {
		return strings.Join(selChain(p.X), ".") == strings.Join(selChain(q.X), ".") && selChain(p.X) != nil &&
			strings.Join(selChain(p.Index), ".") == strings.Join(selChain(q.Index), ".") && selChain(p.Index) != nil
	}
	return same(x, idx[0]) && same(y, idx[1])
}

// sortsByLineName: body contains sort.Slice(xs, <line-name comparator>)
func sortsByLineName(body *ast.BlockStmt) bool {
	found := false
	ast.Inspect(body, func(n ast.Node) bool {
		c, ok := n.(*ast.CallExpr)
		if !ok {
			return true
		}
		ch := selChain(c.Fun)
		if len(ch) == 2 && ch[0] == "sort" && (ch[1] == "Slice" || ch[1] == "SliceStable") && len(c.Args) == 2 {
			if lit, ok := c.Args[1].(*ast.FuncLit); ok && isLineNameLess(lit) {
				found = true
			}
		}
		return true
	})
	return found
}

func usesLineMap(body *ast.BlockStmt) bool {
	found := false
	ast.Inspect(body, func(n ast.Node) bool {
		if cl, ok := n.(*ast.CompositeLit); ok {
			if mt, ok := cl.Type.(*ast.MapType); ok && isIdent(mt.Key, "int32") && isIdent(mt.Value, "string") {
				found = true
			}
		}
		return true
	})
	return found
}

func orderKind(fd *ast.FuncDecl, helpers map[string]*ast.FuncDecl) string {
	if fd == nil || fd.Body == nil {
		return "OrderUnknown"
	}
	if usesLineMap(fd.Body) {
		return "ByLineMap"
	}
	if sortsByLineName(fd.Body) {
		return "ByLineName"
	}
	// through exactly one helper of the package whose body is the sort
	n, good := 0, 0
	ast.Inspect(fd.Body, func(nd ast.Node) bool {
		c, ok := nd.(*ast.CallExpr)
		if !ok {
			return true
		}
		if id, ok := c.Fun.(*ast.Ident); ok {
			if h, ok := helpers[id.Name]; ok && h.Body != nil && strings.Contains(strings.ToLower(id.Name), "line") {
				n++
				if !usesLineMap(h.Body) && sortsByLineName(h.Body) && len(h.Body.List) == 1 {
					good++
				}
			}
		}
		return true
	})
	if n == 1 && good == 1 {
		return "ByLineName"
	}
	return "OrderUnknown"
}

func dbTables(repo string) (string, error) {
	cf, err := parseGo(repo, "pkg/database/db_consts.go")
	if err != nil {
		return "", err
	}
	pf, err := parseGo(repo, "pkg/database/postgres.go")
	if err != nil {
		return "", err
	}
	vf, err := parseGo(repo, "pkg/database/databasescriptview.go")
	if err != nil {
		return "", err
	}
	uf, err := parseGo(repo, "pkg/database/db_utils.go")
	if err != nil {
		return "", err
	}
	consts := map[string]string{}
	ints := map[string]string{}
	for _, d := range cf.file.Decls {
		gd, ok := d.(*ast.GenDecl)
		if !ok || gd.Tok != token.CONST {
			continue
		}
		for _, sp := range gd.Specs {
			vs := sp.(*ast.ValueSpec)
			for i, n := range vs.Names {
				if i >= len(vs.Values) {
					continue
				}
				if bl, ok := vs.Values[i].(*ast.BasicLit); ok {
					switch bl.Kind {
					case token.STRING:
						if s, err := strconv.Unquote(bl.Value); err == nil {
							consts[n.Name] = s
						}
					case token.INT:
						ints[n.Name] = bl.Value
					}
				}
			}
		}
	}
	helpers := map[string]*ast.FuncDecl{}
	var fns = map[string]*ast.FuncDecl{}
	for _, gf := range []*goFile{pf, vf, uf} {
		for _, fd := range funcDecls(gf.file) {
			fns[fd.Name.Name] = fd
			if fd.Recv == nil {
				helpers[fd.Name.Name] = fd
			}
		}
	}
	var b strings.Builder
	b.WriteString("(* GENERATED by vt DbTables from pkg/database/{db_consts,postgres,databasescriptview,db_utils}.go -- do not edit *)\n")
	b.WriteString("From Coq Require Import List String NArith.\nImport ListNotations.\nRequire Import Verif.Db.Depth.\nLocal Open Scope string_scope.\n")
	num := func(k string) string {
		if v, ok := ints[k]; ok {
			if _, err := strconv.ParseUint(v, 10, 63); err == nil {
				return v + "%N"
			}
		}
		return "0%N (* not found *)"
	}
	str := func(k string) string {
		if v, ok := consts[k]; ok {
			return coqStr(v)
		}
		return coqStr("?unknown?")
	}
	fmt.Fprintf(&b, "Definition default_text_size : N := %s.\n", num("defaultTextSize"))
	fmt.Fprintf(&b, "Definition str_const : string := %s.\n", str("strConst"))
	fmt.Fprintf(&b, "Definition bigint_const : string := %s.\n", str("bigIntConst"))

	// getPostgresDataTypes
	var arms []string
	def := "PgUnknown"
	if fd := fns["getPostgresDataTypes"]; fd != nil && fd.Body != nil && fd.Type.Params.NumFields() == 2 {
		sizeParam := ""
		inputParam := ""
		var pnames []string
		for _, f := range fd.Type.Params.List {
			for _, n := range f.Names {
				pnames = append(pnames, n.Name)
			}
		}
		if len(pnames) == 2 {
			inputParam, sizeParam = pnames[0], pnames[1]
		}
		resultOf := func(body []ast.Stmt) string {
			if len(body) != 1 {
				return "PgUnknown"
			}
			r, ok := body[0].(*ast.ReturnStmt)
			if !ok || len(r.Results) != 1 {
				return "PgUnknown"
			}
			if s, ok := constString(r.Results[0], consts); ok {
				return "Lit " + coqStr(s)
			}
			// pre + strconv.FormatInt(size, 10) + suf
			if be, ok := r.Results[0].(*ast.BinaryExpr); ok && be.Op == token.ADD {
				if inner, ok := be.X.(*ast.BinaryExpr); ok && inner.Op == token.ADD {
					pre, ok1 := constString(inner.X, consts)
					suf, ok2 := constString(be.Y, consts)
					c, ok3 := inner.Y.(*ast.CallExpr)
					if ok1 && ok2 && ok3 && strings.Join(selChain(c.Fun), ".") == "strconv.FormatInt" && len(c.Args) == 2 &&
						isIdent(c.Args[0], sizeParam) {
						if bl, ok := c.Args[1].(*ast.BasicLit); ok && bl.Value == "10" {
							return "Sized " + coqStr(pre) + " " + coqStr(suf)
						}
					}
				}
			}
			return "PgUnknown"
		}
		if len(fd.Body.List) == 1 {
			if sw, ok := fd.Body.List[0].(*ast.SwitchStmt); ok && sw.Init == nil && isIdent(sw.Tag, inputParam) {
				for _, st := range sw.Body.List {
					cc := st.(*ast.CaseClause)
					res := resultOf(cc.Body)
					if cc.List == nil {
						def = res
						continue
					}
					for _, e := range cc.List {
						if s, ok := constString(e, consts); ok {
							arms = append(arms, "("+coqStr(s)+", "+res+")")
						} else {
							arms = append(arms, "("+coqStr("?unknown?")+", PgUnknown)")
						}
					}
				}
			} else {
				arms = append(arms, "("+coqStr("?unknown?")+", PgUnknown)")
			}
		} else {
			arms = append(arms, "("+coqStr("?unknown?")+", PgUnknown)")
		}
	} else {
		arms = append(arms, "("+coqStr("?unknown?")+", PgUnknown)")
	}
	fmt.Fprintf(&b, "Definition pg_types : list (string * pgres) := [%s].\n", strings.Join(arms, "; "))
	fmt.Fprintf(&b, "Definition pg_default : pgres := %s.\n", def)
	fmt.Fprintf(&b, "Definition table_order : order_kind := %s.\n", orderKind(fns["GenerateDatabaseScriptCreate"], helpers))
	fmt.Fprintf(&b, "Definition column_order : order_kind := %s.\n", orderKind(fns["writeCreateSQLForATable"], helpers))
	fmt.Fprintf(&b, "Definition depth_stop : stop_kind := %s.\n", depthStop(fns["processTableDepth"], fns["placeUnorderedTables"]))
	rr, av := modifyColumnShape(fns["writeModifySQLForAColumn"])
	fmt.Fprintf(&b, "Definition delta_cfg : dcfg := DCfg %s %s %s.\n", rr, pkAddGuard(fns["writeModifySQLForATable"]), av)
	fmt.Fprintf(&b, "Definition ref_guard : guard_kind := %s.\n", refGuard(pf.fset, uf.fset, fns))
	fmt.Fprintf(&b, "Definition create_trim : trim_kind := %s.\n", createTrim(pf.fset, fns["writeCreateSQLForATable"]))
	fmt.Fprintf(&b, "Definition addcol_post : post_kind := %s.\n", addColPost(pf.fset, fns["writeModifySQLForATable"]))
	fmt.Fprintf(&b, "Definition column_text_shape : list string := [%s].\n", strings.Join(columnTextShape(pf.fset, fns["writeCreateSQLForAColumn"], fns["addConstraints"]), "; "))
	fmt.Fprintf(&b, "Definition mod_apps_shape : list string := [%s].\n", strings.Join(modAppsShape(vf.fset, fns["ProcessModSysls"]), "; "))
	fmt.Fprintf(&b, "Definition mod_table_shape : list string := [%s].\n", strings.Join(modTableShape(pf.fset, fns["writeModifySQLForATable"]), "; "))
	fmt.Fprintf(&b, "Definition write_mode : write_kind := %s.\n", writeKind(uf.fset, fns["GenerateFromSQLMap"], fns, 0))
	fmt.Fprintf(&b, "Definition write_file_shape : list string := [%s].\n", strings.Join(modTableShape(uf.fset, fns["GenerateFromSQLMap"]), "; "))
	return b.String(), nil
}

func dbText(fset *token.FileSet, n ast.Node) string {
	if n == nil {
		return ""
	}
	var b bytes.Buffer
	printer.Fprint(&b, fset, n)
	// blanks are normalised outside string literals only
	src := b.String()
	var out strings.Builder
	space := false
	for i := 0; i < len(src); i++ {
		ch := src[i]
		switch {
		case ch == '"' || ch == '`':
			j := i + 1
			for j < len(src) && src[j] != ch {
				if ch == '"' && src[j] == '\\' {
					j++
				}
				j++
			}
			if space && out.Len() > 0 {
				out.WriteByte(' ')
			}
			space = false
			if j >= len(src) {
				j = len(src) - 1
			}
			out.WriteString(src[i : j+1])
			i = j
		case ch == '/' && i+1 < len(src) && src[i+1] == '/':
			for i < len(src) && src[i] != '\n' {
				i++
			}
			space = true
		case ch == ' ' || ch == '\t' || ch == '\n' || ch == '\r':
			space = true
		default:
			if space && out.Len() > 0 {
				out.WriteByte(' ')
			}
			space = false
			out.WriteByte(ch)
		}
	}
	return out.String()
}

func dbIfHead(fset *token.FileSet, ifs *ast.IfStmt) string {
	h := ""
	if ifs.Init != nil {
		h = dbText(fset, ifs.Init) + "; "
	}
	return h + dbText(fset, ifs.Cond)
}

// refGuard: which columns take the "reference" branch in findTableDepth, writeCreateSQLForAColumn and
// writeModifySQLForAColumn:
//
//	GuardTypeRef    - every column whose type is a type reference (attrType.GetTypeRef() != nil), whatever its path
//	GuardForeignKey - only <table>.<column> references: the `ok` result of foreignKeyTarget, which itself is
//	                  `len(path) < 2 -> false` over GetTypeRef().GetRef().GetPath(); everything else (primitives, sets,
//	                  sequences, one-element references) takes the primitive branch
func refGuard(pfset, ufset *token.FileSet, fns map[string]*ast.FuncDecl) string {
	fk := fns["foreignKeyTarget"]
	if fk == nil || fk.Body == nil {
		return "GuardUnknown"
	}
	var fkBody []string
	for _, st := range fk.Body.List {
		fkBody = append(fkBody, dbText(ufset, st))
	}
	if strings.Join(fkBody, " | ") != `path := attrType.GetTypeRef().GetRef().GetPath() | if len(path) < 2 { return "", "", false } | return path[0], path[1], true` {
		return "GuardUnknown"
	}
	votes := map[string]int{}
	vote := func(head, fkHead, trHead string) {
		switch head {
		case fkHead:
			votes["GuardForeignKey"]++
		case trHead:
			votes["GuardTypeRef"]++
		default:
			votes["GuardUnknown"]++
		}
	}
	// findTableDepth: the if/else in the loop over the attributes whose else-branch records the primitive
	head := "?"
	if fd := fns["findTableDepth"]; fd != nil && fd.Body != nil {
		n := 0
		ast.Inspect(fd.Body, func(nd ast.Node) bool {
			if ifs, ok := nd.(*ast.IfStmt); ok {
				if eb, ok := ifs.Else.(*ast.BlockStmt); ok && len(eb.List) == 1 &&
					dbText(ufset, eb.List[0]) == `tempVisitedAttrs[tableName+"."+attrName] = attrType.GetPrimitive().String()` {
					head = dbIfHead(ufset, ifs)
					n++
				}
			}
			return true
		})
		if n != 1 {
			head = "?"
		}
	}
	vote(head, "refTable, refColumn, isForeignKey := foreignKeyTarget(attrType); isForeignKey", "attrType.GetTypeRef() != nil")
	// writeCreateSQLForAColumn: the top-level if/else whose else-branch handles isAutoIncrement
	head = "?"
	if fd := fns["writeCreateSQLForAColumn"]; fd != nil && fd.Body != nil {
		n := 0
		for _, st := range fd.Body.List {
			if ifs, ok := st.(*ast.IfStmt); ok {
				if eb, ok := ifs.Else.(*ast.BlockStmt); ok && strings.Contains(dbText(pfset, eb), "if isAutoIncrement {") {
					head = dbIfHead(pfset, ifs)
					n++
				}
			}
		}
		if n != 1 {
			head = "?"
		}
	}
	vote(head, "path0, path1, isForeignKey := foreignKeyTarget(attrType); isForeignKey", "attrType.GetTypeRef() != nil")
	// writeModifySQLForAColumn: the top-level if/else whose else-branch computes getDataTypeAndSize, and in it the
	// guard of the DROP CONSTRAINT of the old foreign key
	head = "?"
	if fd := fns["writeModifySQLForAColumn"]; fd != nil && fd.Body != nil {
		n := 0
		var defs []string
		for _, st := range fd.Body.List {
			if as, ok := st.(*ast.AssignStmt); ok && len(as.Lhs) == 3 {
				defs = append(defs, dbText(pfset, as))
			}
			if ifs, ok := st.(*ast.IfStmt); ok {
				if eb, ok := ifs.Else.(*ast.BlockStmt); ok && strings.Contains(dbText(pfset, eb), "getDataTypeAndSize(attrTypeNew)") {
					inner := "?"
					for _, s2 := range eb.List {
						if in, ok := s2.(*ast.IfStmt); ok && len(in.Body.List) == 1 && strings.Contains(dbText(pfset, in.Body.List[0]), "DROP CONSTRAINT") {
							inner = dbIfHead(pfset, in)
						}
					}
					head = strings.Join(defs, "; ") + " / " + dbIfHead(pfset, ifs) + " / " + inner
					n++
				}
			}
		}
		if n != 1 {
			head = "?"
		}
	}
	vote(head,
		"refTable, refColumn, isForeignKeyNew := foreignKeyTarget(attrTypeNew); oldTable, oldColumn, isForeignKeyOld := foreignKeyTarget(attrTypeOld) / isForeignKeyNew / isForeignKeyOld",
		" / typeRefNew != nil / typeRefOld != nil")
	switch {
	case votes["GuardForeignKey"] == 3:
		return "GuardForeignKey"
	case votes["GuardTypeRef"] == 3:
		return "GuardTypeRef"
	}
	return "GuardUnknown"
}

// createTrim: what writeCreateSQLForATable does with the table body after addConstraints:
//
//	TrimComma   - strings.TrimSuffix(tableData, ",")                                (a body ending in ",\n" keeps its comma)
//	TrimNlComma - strings.TrimSuffix(strings.TrimSuffix(tableData, "\n"), ",")
//
// and then writes the body followed by "\n);\n"
func createTrim(fset *token.FileSet, fd *ast.FuncDecl) string {
	if fd == nil || fd.Body == nil || len(fd.Body.List) < 4 {
		return "TrimUnknown"
	}
	l := fd.Body.List
	var tail []string
	for _, st := range l[len(l)-4:] {
		tail = append(tail, dbText(fset, st))
	}
	if tail[0] != "tableData = v.addConstraints(tableData, tableName, foreignKeyConstraints, primaryKeys)" ||
		tail[2] != "v.stringBuilder.WriteString(tableData)" || tail[3] != `v.stringBuilder.WriteString("\n);\n")` {
		return "TrimUnknown"
	}
	// the body before: every column text appended in order
	loop := ""
	for _, st := range l[:len(l)-4] {
		if r, ok := st.(*ast.RangeStmt); ok && dbText(fset, r.X) == "attrNames" && dbText(fset, r.Key) == "_" {
			loop = dbText(fset, r.Body)
		}
	}
	if loop != "{ attrType := table.AttrDefs[attrName] s, _ := v.writeCreateSQLForAColumn(attrType, tableName, attrName, &primaryKeys, &foreignKeyConstraints, visitedAttributes) tableData += s }" {
		return "TrimUnknown"
	}
	switch tail[1] {
	case `tableData = strings.TrimSuffix(tableData, ",")`:
		return "TrimComma"
	case `tableData = strings.TrimSuffix(strings.TrimSuffix(tableData, "\n"), ",")`:
		return "TrimNlComma"
	}
	return "TrimUnknown"
}

// addColPost: the "attribute added" block of writeModifySQLForATable: TrimSpace, drop the last byte, ADD COLUMN;
// the first foreign-key constraint without its last byte, TrimSpace, ADD
func addColPost(fset *token.FileSet, fd *ast.FuncDecl) string {
	if fd == nil || fd.Body == nil {
		return "PostUnknown"
	}
	var block *ast.BlockStmt
	n := 0
	ast.Inspect(fd.Body, func(nd ast.Node) bool {
		if ifs, ok := nd.(*ast.IfStmt); ok && ifs.Init == nil && dbText(fset, ifs.Cond) == "attrTypeOld == nil" {
			block = ifs.Body
			n++
		}
		return true
	})
	if n != 1 || block == nil {
		return "PostUnknown"
	}
	var got []string
	for _, st := range block.List {
		got = append(got, dbText(fset, st))
	}
	want := []string{
		"var foreignKeyConstraints []string",
		"str, isNewColumnPK := v.writeCreateSQLForAColumn(attrTypeNew, tableName, attrNameNew, &primaryKeys, &foreignKeyConstraints, visitedAttributes)",
		"str = strings.TrimSpace(str)",
		"str = str[:len(str)-1]",
		`v.stringBuilder.WriteString(fmt.Sprintf("ALTER TABLE %s ADD COLUMN %s;\n", tableName, str))`,
		`if len(foreignKeyConstraints) > 0 { constraint := foreignKeyConstraints[0] constraint = constraint[:len(constraint)-1] v.stringBuilder.WriteString(fmt.Sprintf("ALTER TABLE %s ADD %s;\n", tableName, strings.TrimSpace(constraint))) }`,
		"if isNewColumnPK { primaryKeyChanged = true }",
	}
	if strings.Join(got, " | ") == strings.Join(want, " | ") {
		return "PostTrimDropLast"
	}
	return "PostUnknown"
}

// columnTextShape: the texts writeCreateSQLForAColumn / addConstraints build (formats and concatenations), in source
// order: every fmt.Sprintf format assigned to s, the foreign-key constraint expression, the primary-key and
// foreign-key appends of addConstraints
func columnTextShape(fset *token.FileSet, col, cons *ast.FuncDecl) []string {
	var out []string
	if col == nil || col.Body == nil || cons == nil || cons.Body == nil {
		return []string{coqStr("?")}
	}
	ast.Inspect(col.Body, func(nd ast.Node) bool {
		switch x := nd.(type) {
		case *ast.AssignStmt:
			if len(x.Lhs) == 1 && isIdent(x.Lhs[0], "s") {
				out = append(out, coqStr(dbText(fset, x)))
			}
		case *ast.CallExpr:
			if isIdent(x.Fun, "append") && len(x.Args) == 2 && dbText(fset, x.Args[0]) == "*foreignKeyConstraints" {
				out = append(out, coqStr(dbText(fset, x.Args[1])))
			}
		}
		return true
	})
	for _, st := range cons.Body.List {
		out = append(out, coqStr(dbText(fset, st)))
	}
	return out
}

// modAppsShape: the statements of ProcessModSysls (one script per application name that exists in the new version;
// the shared builder is reset before each)
func modAppsShape(fset *token.FileSet, fd *ast.FuncDecl) []string {
	if fd == nil || fd.Body == nil {
		return []string{coqStr("?")}
	}
	var out []string
	for _, st := range fd.Body.List {
		if r, ok := st.(*ast.RangeStmt); ok {
			out = append(out, coqStr("for "+dbText(fset, r.Key)+", "+dbText(fset, r.Value)+" := range "+dbText(fset, r.X)))
			for _, s2 := range r.Body.List {
				if ifs, ok := s2.(*ast.IfStmt); ok {
					for cur := ifs; cur != nil; {
						out = append(out, coqStr("if "+dbIfHead(fset, cur)))
						for _, s3 := range cur.Body.List {
							out = append(out, coqStr(dbText(fset, s3)))
						}
						next, _ := cur.Else.(*ast.IfStmt)
						if cur.Else != nil && next == nil {
							out = append(out, coqStr("else "+dbText(fset, cur.Else)))
						}
						cur = next
					}
				} else {
					out = append(out, coqStr(dbText(fset, s2)))
				}
			}
		} else {
			out = append(out, coqStr(dbText(fset, st)))
		}
	}
	return out
}

// modTableShape: the statements of writeModifySQLForATable, whole: the loop over the old column names (dropped columns,
// their key flags), the loop over the new column names, and the tail - DROP CONSTRAINT of the key when it existed and
// changed, the DROP COLUMN statements, ADD CONSTRAINT .. PRIMARY KEY when it changed and a key column is left
func modTableShape(fset *token.FileSet, fd *ast.FuncDecl) []string {
	if fd == nil || fd.Body == nil {
		return []string{coqStr("?")}
	}
	var out []string
	for _, st := range fd.Body.List {
		out = append(out, coqStr(dbText(fset, st)))
	}
	return out
}

// writeKind: how GenerateFromSQLMap (or the helper of the package it hands the file to) writes a script file:
// afero.WriteFile / Create and OpenFile with O_TRUNC replace what the file held (WriteTruncate); OpenFile without O_TRUNC
// keeps the tail of a longer file (WriteKeepTail); with O_APPEND the script is written behind the old content
// (WriteAppend).  Exactly one writing call must be found, anything else is WriteUnknown.
func writeKind(fset *token.FileSet, fd *ast.FuncDecl, fns map[string]*ast.FuncDecl, depth int) string {
	if fd == nil || fd.Body == nil || depth > 2 {
		return "WriteUnknown"
	}
	var found []string
	ast.Inspect(fd.Body, func(nd ast.Node) bool {
		c, ok := nd.(*ast.CallExpr)
		if !ok {
			return true
		}
		ch := selChain(c.Fun)
		name := ""
		if len(ch) > 0 {
			name = ch[len(ch)-1]
		}
		switch {
		case strings.Join(ch, ".") == "afero.WriteFile", strings.Join(ch, ".") == "ioutil.WriteFile", strings.Join(ch, ".") == "os.WriteFile":
			found = append(found, "WriteTruncate")
		case name == "Create" && len(ch) == 2:
			found = append(found, "WriteTruncate")
		case name == "OpenFile" && len(c.Args) >= 2:
			flags := dbText(fset, c.Args[len(c.Args)-2])
			switch {
			case strings.Contains(flags, "O_APPEND"):
				found = append(found, "WriteAppend")
			case strings.Contains(flags, "O_TRUNC"):
				found = append(found, "WriteTruncate")
			case strings.Contains(flags, "O_WRONLY") || strings.Contains(flags, "O_RDWR"):
				found = append(found, "WriteKeepTail")
			default:
				found = append(found, "WriteUnknown")
			}
		case len(ch) == 1 && fns[ch[0]] != nil && fns[ch[0]] != fd:
			if k := writeKind(fset, fns[ch[0]], fns, depth+1); k != "WriteUnknown" {
				found = append(found, k)
			}
		}
		return true
	})
	if len(found) != 1 {
		return "WriteUnknown"
	}
	return found[0]
}

// formats of the v.stringBuilder.WriteString(fmt.Sprintf(<format>, ...)) statements of a block, in order
func writtenFormats(b *ast.BlockStmt) []string {
	var out []string
	for _, st := range b.List {
		es, ok := st.(*ast.ExprStmt)
		if !ok {
			out = append(out, "?")
			continue
		}
		c, ok := es.X.(*ast.CallExpr)
		if !ok || len(c.Args) != 1 {
			out = append(out, "?")
			continue
		}
		ch := selChain(c.Fun)
		if len(ch) == 0 || ch[len(ch)-1] != "WriteString" {
			out = append(out, "?")
			continue
		}
		sp, ok := c.Args[0].(*ast.CallExpr)
		if !ok || strings.Join(selChain(sp.Fun), ".") != "fmt.Sprintf" || len(sp.Args) == 0 {
			out = append(out, "?")
			continue
		}
		// the format may be "lit" or "lit" + ident + "lit"
		f := sp.Args[0]
		for {
			if be, ok := f.(*ast.BinaryExpr); ok {
				f = be.X
				continue
			}
			break
		}
		if bl, ok := f.(*ast.BasicLit); ok && bl.Kind == token.STRING {
			s, _ := strconv.Unquote(bl.Value)
			out = append(out, s)
		} else {
			out = append(out, "?")
		}
	}
	return out
}

func exprText(e ast.Expr) string {
	switch x := e.(type) {
	case *ast.Ident:
		return x.Name
	case *ast.BasicLit:
		return x.Value
	case *ast.SelectorExpr:
		return exprText(x.X) + "." + x.Sel.Name
	case *ast.CallExpr:
		var a []string
		for _, y := range x.Args {
			a = append(a, exprText(y))
		}
		return exprText(x.Fun) + "(" + strings.Join(a, ",") + ")"
	case *ast.IndexExpr:
		return exprText(x.X) + "[" + exprText(x.Index) + "]"
	case *ast.BinaryExpr:
		return "(" + exprText(x.X) + x.Op.String() + exprText(x.Y) + ")"
	case *ast.ParenExpr:
		return exprText(x.X)
	case *ast.UnaryExpr:
		return x.Op.String() + exprText(x.X)
	}
	return "?"
}

func modifyColumnShape(fd *ast.FuncDecl) (string, string) {
	rr, av := "RefRefUnknown", "AutoVtUnknown"
	if fd == nil || fd.Body == nil {
		return rr, av
	}
	// top-level `a, b, c := foreignKeyTarget(x)` definitions
	var topDefs []string
	for _, st := range fd.Body.List {
		if as, ok := st.(*ast.AssignStmt); ok && len(as.Rhs) == 1 && len(as.Lhs) == 3 {
			topDefs = append(topDefs, exprText(as.Lhs[0])+","+exprText(as.Lhs[1])+","+exprText(as.Lhs[2])+"="+exprText(as.Rhs[0]))
		}
	}
	fkGuarded := strings.Join(topDefs, ";") == "refTable,refColumn,isForeignKeyNew=foreignKeyTarget(attrTypeNew);oldTable,oldColumn,isForeignKeyOld=foreignKeyTarget(attrTypeOld)"
	for _, st := range fd.Body.List {
		ifs, ok := st.(*ast.IfStmt)
		if !ok || !(exprText(ifs.Cond) == "(typeRefNew!=nil)" || (fkGuarded && exprText(ifs.Cond) == "isForeignKeyNew")) {
			continue
		}
		// then-branch: ...; [if !isForeignKey {warn} else] if typeRefOld == nil {...} [else if targets differ {...}]
		for _, s2 := range ifs.Body.List {
			in, ok := s2.(*ast.IfStmt)
			if !ok {
				continue
			}
			if exprText(in.Cond) == "!isForeignKey" {
				// a reference that is not <table>.<column> (never produced by the C16 stream): only a warning
				writes := false
				ast.Inspect(in.Body, func(n ast.Node) bool {
					if c, ok := n.(*ast.CallExpr); ok {
						if ch := selChain(c.Fun); len(ch) > 0 && ch[len(ch)-1] == "WriteString" {
							writes = true
						}
					}
					return true
				})
				next, ok := in.Else.(*ast.IfStmt)
				if writes || !ok {
					continue
				}
				in = next
			}
			if !(exprText(in.Cond) == "(typeRefOld==nil)" || (fkGuarded && exprText(in.Cond) == "!isForeignKeyOld")) {
				continue
			}
			switch e := in.Else.(type) {
			case nil:
				rr = "RefRefSilent"
			case *ast.IfStmt:
				want1 := "((typeRefOld.GetRef().Path[0]!=typeRefNew.GetRef().Path[0])||(typeRefOld.GetRef().Path[1]!=typeRefNew.GetRef().Path[1]))"
				want2 := "((oldTable!=refTable)||(oldColumn!=refColumn))"
				cond := exprText(e.Cond)
				condOK := cond == want1
				if cond == want2 {
					// the four names must be the results of foreignKeyTarget on the old / new column type
					var defs []string
					for _, s3 := range ifs.Body.List {
						if as, ok := s3.(*ast.AssignStmt); ok && len(as.Rhs) == 1 && len(as.Lhs) == 3 {
							defs = append(defs, exprText(as.Lhs[0])+","+exprText(as.Lhs[1])+"="+exprText(as.Rhs[0]))
						}
					}
					condOK = fkGuarded || strings.Join(defs, ";") == "refTable,refColumn=foreignKeyTarget(attrTypeNew);oldTable,oldColumn=foreignKeyTarget(attrTypeOld)"
				}
				fm := writtenFormats(e.Body)
				if condOK && e.Else == nil && len(fm) == 3 &&
					strings.HasPrefix(fm[0], "ALTER TABLE %s DROP CONSTRAINT %s;") &&
					strings.HasPrefix(fm[1], "ALTER TABLE %s ALTER COLUMN %s TYPE %s;") &&
					strings.HasPrefix(fm[2], "ALTER TABLE %s ADD CONSTRAINT ") {
					rr = "RefRefRetarget"
				}
			}
		}
		// else-branch: does it end with `if isAutoIncrementNew { datatype = bigIntConst }`
		if eb, ok := ifs.Else.(*ast.BlockStmt); ok && len(eb.List) > 0 {
			av = "AutoVtPlain"
			if last, ok := eb.List[len(eb.List)-1].(*ast.IfStmt); ok {
				if exprText(last.Cond) == "isAutoIncrementNew" {
					av = "AutoVtUnknown"
					if len(last.Body.List) == 1 && last.Else == nil {
						if as, ok := last.Body.List[0].(*ast.AssignStmt); ok && len(as.Lhs) == 1 && len(as.Rhs) == 1 &&
							as.Tok == token.ASSIGN && isIdent(as.Lhs[0], "datatype") && isIdent(as.Rhs[0], "bigIntConst") {
							av = "AutoVtBigint"
						}
					}
				}
			}
		}
	}
	return rr, av
}

func pkAddGuard(fd *ast.FuncDecl) string {
	if fd == nil || fd.Body == nil {
		return "PkUnknown"
	}
	res := "PkUnknown"
	for _, st := range fd.Body.List {
		ifs, ok := st.(*ast.IfStmt)
		if !ok || ifs.Else != nil {
			continue
		}
		adds := false
		ast.Inspect(ifs.Body, func(n ast.Node) bool {
			if bl, ok := n.(*ast.BasicLit); ok && bl.Kind == token.STRING && strings.Contains(bl.Value, "ADD CONSTRAINT %s PRIMARY KEY") {
				adds = true
			}
			return true
		})
		if !adds {
			continue
		}
		switch exprText(ifs.Cond) {
		case "primaryKeyChanged":
			res = "PkAlways"
		case "(primaryKeyChanged&&(len(primaryKeys)>0))":
			res = "PkNonEmpty"
		default:
			res = "PkUnknown"
		}
	}
	return res
}

// depthStop classifies the tail of processTableDepth:
//
//	if len(incomplete) != 0 { processTableDepth(...) }                                          StopNever
//	if len(incomplete) != 0 { if !progressed { placeUnorderedTables(...); return }; processTableDepth(...) }
//	   with `progressed := false` first, set to true only inside `if processComplete {`,
//	   and placeUnorderedTables = max depth + 1, names through sort.Strings                     StopNoProgress
func depthStop(fd, place *ast.FuncDecl) string {
	if fd == nil || fd.Body == nil || len(fd.Body.List) == 0 {
		return "StopUnknown"
	}
	last, ok := fd.Body.List[len(fd.Body.List)-1].(*ast.IfStmt)
	if !ok || exprText(last.Cond) != "(len(incompleteTableDepthMap)!=0)" || last.Else != nil {
		return "StopUnknown"
	}
	isRec := func(st ast.Stmt) bool {
		es, ok := st.(*ast.ExprStmt)
		if !ok {
			return false
		}
		c, ok := es.X.(*ast.CallExpr)
		return ok && isIdent(c.Fun, "processTableDepth")
	}
	body := last.Body.List
	if len(body) == 1 && isRec(body[0]) {
		return "StopNever"
	}
	if len(body) != 2 || !isRec(body[1]) || place == nil || place.Body == nil {
		return "StopUnknown"
	}
	guard, ok := body[0].(*ast.IfStmt)
	if !ok || exprText(guard.Cond) != "!progressed" || guard.Else != nil || len(guard.Body.List) != 2 {
		return "StopUnknown"
	}
	call, ok := guard.Body.List[0].(*ast.ExprStmt)
	if !ok {
		return "StopUnknown"
	}
	if c, ok := call.X.(*ast.CallExpr); !ok || !isIdent(c.Fun, "placeUnorderedTables") {
		return "StopUnknown"
	}
	if r, ok := guard.Body.List[1].(*ast.ReturnStmt); !ok || len(r.Results) != 0 {
		return "StopUnknown"
	}
	// progressed: declared false first, assigned true exactly once, inside `if processComplete`
	first, ok := fd.Body.List[0].(*ast.AssignStmt)
	if !ok || len(first.Lhs) != 1 || !isIdent(first.Lhs[0], "progressed") || !isIdent(first.Rhs[0], "false") {
		return "StopUnknown"
	}
	sets, inside := 0, 0
	ast.Inspect(fd.Body, func(n ast.Node) bool {
		if as, ok := n.(*ast.AssignStmt); ok && len(as.Lhs) == 1 && isIdent(as.Lhs[0], "progressed") && as.Tok == token.ASSIGN {
			sets++
		}
		if ifs, ok := n.(*ast.IfStmt); ok && exprText(ifs.Cond) == "processComplete" {
			for _, st := range ifs.Body.List {
				if as, ok := st.(*ast.AssignStmt); ok && len(as.Lhs) == 1 && isIdent(as.Lhs[0], "progressed") && isIdent(as.Rhs[0], "true") {
					inside++
				}
			}
		}
		return true
	})
	if sets != 1 || inside != 1 {
		return "StopUnknown"
	}
	// placeUnorderedTables: `lastDepth = depth + 1` under `depth >= lastDepth`, names sorted with sort.Strings
	hasMax, hasSort := false, false
	ast.Inspect(place.Body, func(n ast.Node) bool {
		if ifs, ok := n.(*ast.IfStmt); ok && exprText(ifs.Cond) == "(depth>=lastDepth)" && len(ifs.Body.List) == 1 {
			if as, ok := ifs.Body.List[0].(*ast.AssignStmt); ok && exprText(as.Lhs[0]) == "lastDepth" && exprText(as.Rhs[0]) == "(depth+1)" {
				hasMax = true
			}
		}
		if c, ok := n.(*ast.CallExpr); ok && strings.Join(selChain(c.Fun), ".") == "sort.Strings" {
			hasSort = true
		}
		return true
	})
	if hasMax && hasSort {
		return "StopNoProgress"
	}
	return "StopUnknown"
}
