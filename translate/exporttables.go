package main

import (
	"fmt"
	"go/ast"
	"go/token"
	"strconv"
	"strings"
)

// ExportTables: what the C12 model is parameterised by, read from
//
//	pkg/exporter/openapi3.go       exportType (one arm per case label: constructor, format, what else the arm does,
//	                               the rule that fills `required`, whether it is sorted, how array items are set),
//	                               GenerateOpenAPI3 (how the loops over v.Params / v.Response reach ordered output, the
//	                               `switch paramItem.In` arms, the Required expressions), convertEnum (loop shape)
//	pkg/syslwrapper/app.go         IsPrimitive case list
//	pkg/exporter/type_exporter.go  primitiveTypesMap, findSwaggerType arms, isComposite, the two loops of populateTypes
//
// Anything that cannot be classified becomes an *Unknown constructor and is listed in `unknown`; the reflexivity
// lemmas of Export/OasCurrent.v then fail.
func init() { register("ExportTables", exportTables) }

type etx struct{ unknown []string }

func (x *etx) unk(format string, a ...interface{}) {
	x.unknown = append(x.unknown, fmt.Sprintf(format, a...))
}

func etStrLit(e ast.Expr) (string, bool) {
	l, ok := e.(*ast.BasicLit)
	if !ok || l.Kind != token.STRING {
		return "", false
	}
	s, err := strconv.Unquote(l.Value)
	return s, err == nil
}

func etStr(s string) string { return "\"" + strings.ReplaceAll(s, "\"", "\"\"") + "\"" }

func etFindFunc(f *goFile, recv, name string) *ast.FuncDecl {
	for _, fd := range funcDecls(f.file) {
		if fd.Name.Name == name && recvName(fd) == recv {
			return fd
		}
	}
	return nil
}

// callChain unrolls a.B(x).C(y) into the base expression and the list of (method, args)
type mcall struct {
	name string
	args []ast.Expr
	ell  bool
}

func callChain(e ast.Expr) (ast.Expr, []mcall) {
	var out []mcall
	for {
		c, ok := e.(*ast.CallExpr)
		if !ok {
			return e, out
		}
		sel, ok := c.Fun.(*ast.SelectorExpr)
		if !ok {
			return e, out
		}
		out = append([]mcall{{sel.Sel.Name, c.Args, c.Ellipsis != token.NoPos}}, out...)
		e = sel.X
	}
}

var ctorNames = map[string]string{
	"NewSchema": "CNewSchema", "NewBoolSchema": "CBool", "NewDateTimeSchema": "CDateTime", "NewStringSchema": "CString",
	"NewFloat64Schema": "CFloat64", "NewIntegerSchema": "CInteger", "NewUUIDSchema": "CUUID", "NewBytesSchema": "CBytes",
	"NewArraySchema": "CArray", "NewObjectSchema": "CObject",
}

type armT struct {
	ctor, format, extra string
}

func isChain(e ast.Expr, parts ...string) bool {
	ch := selChain(e)
	if len(ch) != len(parts) {
		return false
	}
	for i := range ch {
		if ch[i] != parts[i] {
			return false
		}
	}
	return true
}

// optionalCond classifies `!v.Optional`, `v.Optional`, `!t.Optional` (v = ranged value, t = function parameter)
func optionalCond(e ast.Expr, valueVar, selfVar string) string {
	neg := false
	if u, ok := e.(*ast.UnaryExpr); ok && u.Op == token.NOT {
		neg = true
		e = u.X
	}
	if p, ok := e.(*ast.ParenExpr); ok {
		e = p.X
	}
	switch {
	case isChain(e, valueVar, "Optional") && neg:
		return "ReqNotFieldOptional"
	case isChain(e, valueVar, "Optional"):
		return "ReqFieldOptional"
	case isChain(e, selfVar, "Optional") && neg:
		return "ReqNotSelfOptional"
	}
	return "ReqUnknown"
}

// isExportTypeOf: <recv>.exportType(<arg>)
func isExportTypeCall(e ast.Expr) (ast.Expr, bool) {
	c, ok := e.(*ast.CallExpr)
	if !ok || len(c.Args) != 1 {
		return nil, false
	}
	sel, ok := c.Fun.(*ast.SelectorExpr)
	if !ok || sel.Sel.Name != "exportType" {
		return nil, false
	}
	return c.Args[0], true
}

func isItems0(e ast.Expr, self string) bool {
	ix, ok := e.(*ast.IndexExpr)
	if !ok {
		return false
	}
	l, ok := ix.Index.(*ast.BasicLit)
	return ok && l.Value == "0" && isChain(ix.X, self, "Items")
}

func isAppendTo(s ast.Stmt, target string) (ast.Expr, bool) {
	as, ok := s.(*ast.AssignStmt)
	if !ok || len(as.Lhs) != 1 || len(as.Rhs) != 1 || as.Tok != token.ASSIGN {
		return nil, false
	}
	c, ok := as.Rhs[0].(*ast.CallExpr)
	if !ok || !isIdent(c.Fun, "append") || len(c.Args) != 2 {
		return nil, false
	}
	lhs := strings.Join(selChain(as.Lhs[0]), ".")
	if lhs != target || strings.Join(selChain(c.Args[0]), ".") != target {
		return nil, false
	}
	return c.Args[1], true
}

func (x *etx) classifyArm(label string, body []ast.Stmt, self string) armT {
	a := armT{ctor: "CNewSchema", format: "None", extra: "XNone"}
	bad := func(why string) armT {
		x.unk("exportType arm %q: %s", label, why)
		return armT{"CUnknownCtor", "None", "XUnknown"}
	}
	reqRule, reqSorted, sawProps, sawRequiredAssign := "ReqNone", false, false, false
	for _, st := range body {
		switch s := st.(type) {
		case *ast.DeclStmt: // var required []string
			continue
		case *ast.AssignStmt:
			if len(s.Lhs) != 1 || len(s.Rhs) != 1 {
				return bad("multi-assignment")
			}
			lhs := strings.Join(selChain(s.Lhs[0]), ".")
			switch lhs {
			case "value":
				base, calls := callChain(s.Rhs[0])
				if len(calls) == 0 || !isIdent(base, "openapi3") {
					return bad("value is not built from an openapi3 constructor")
				}
				c, ok := ctorNames[calls[0].name]
				if !ok || len(calls[0].args) != 0 {
					return bad("unknown constructor " + calls[0].name)
				}
				a.ctor = c
				for _, mc := range calls[1:] {
					switch mc.name {
					case "WithFormat":
						f, ok := etStrLit(mc.args[0])
						if !ok || len(mc.args) != 1 {
							return bad("WithFormat argument")
						}
						a.format = "(Some " + etStr(f) + ")"
					case "WithEnum":
						// convertEnum(t.Enum).Data...
						ok := false
						if len(mc.args) == 1 && mc.ell {
							if sel, isSel := mc.args[0].(*ast.SelectorExpr); isSel && sel.Sel.Name == "Data" {
								if c, isCall := sel.X.(*ast.CallExpr); isCall && isIdent(c.Fun, "convertEnum") && len(c.Args) == 1 && isChain(c.Args[0], self, "Enum") {
									ok = true
								}
							}
						}
						if !ok {
							return bad("WithEnum argument")
						}
						a.extra = "XEnum"
					default:
						return bad("method " + mc.name)
					}
				}
			case "ref":
				c, ok := s.Rhs[0].(*ast.CallExpr)
				if !ok || !isIdent(c.Fun, "SyslRefToJSONSchema") || len(c.Args) != 1 || !isChain(c.Args[0], self, "Reference") {
					return bad("ref assignment")
				}
				a.extra = "XRef"
			case "value.Items":
				arg, ok := isExportTypeCall(s.Rhs[0])
				if !ok || !isItems0(arg, self) {
					return bad("Items assignment")
				}
				a.extra = "XItems ItemsAlways"
			case "value.Required":
				if !isIdent(s.Rhs[0], "required") {
					return bad("Required assignment")
				}
				sawRequiredAssign = true
			default:
				return bad("assignment to " + lhs)
			}
		case *ast.ExprStmt:
			base, calls := callChain(s.X)
			switch {
			case isIdent(base, "value") && len(calls) == 1 && calls[0].name == "WithFormat" && len(calls[0].args) == 1:
				f, ok := etStrLit(calls[0].args[0])
				if !ok {
					return bad("WithFormat argument")
				}
				a.format = "(Some " + etStr(f) + ")"
			case isIdent(base, "sort") && len(calls) == 1 && calls[0].name == "Strings" && len(calls[0].args) == 1 && isIdent(calls[0].args[0], "required"):
				if sawRequiredAssign {
					return bad("sort after value.Required is assigned")
				}
				reqSorted = true
			default:
				return bad("expression statement")
			}
		case *ast.IfStmt: // if !t.Optional { value.Items = ... }
			if s.Init != nil || s.Else != nil || len(s.Body.List) != 1 {
				return bad("if statement")
			}
			as, ok := s.Body.List[0].(*ast.AssignStmt)
			if !ok || len(as.Lhs) != 1 || strings.Join(selChain(as.Lhs[0]), ".") != "value.Items" {
				return bad("if statement")
			}
			arg, ok := isExportTypeCall(as.Rhs[0])
			if !ok || !isItems0(arg, self) || optionalCond(s.Cond, "", self) != "ReqNotSelfOptional" {
				return bad("guarded Items assignment")
			}
			a.extra = "XItems ItemsIfNotOptional"
		case *ast.RangeStmt:
			if !isChain(s.X, self, "Properties") || s.Key == nil || s.Value == nil || sawProps {
				return bad("range statement")
			}
			k, v := s.Key.(*ast.Ident).Name, s.Value.(*ast.Ident).Name
			sawProps = true
			stored := false
			for _, bs := range s.Body.List {
				switch b := bs.(type) {
				case *ast.AssignStmt: // value.Properties[k] = s.exportType(v)
					ix, ok := b.Lhs[0].(*ast.IndexExpr)
					if !ok || !isChain(ix.X, "value", "Properties") || !isIdent(ix.Index, k) {
						return bad("range body assignment")
					}
					arg, ok := isExportTypeCall(b.Rhs[0])
					if !ok || !isIdent(arg, v) {
						return bad("range body assignment")
					}
					stored = true
				case *ast.IfStmt:
					if b.Init != nil || b.Else != nil || len(b.Body.List) != 1 {
						return bad("range body if")
					}
					el, ok := isAppendTo(b.Body.List[0], "required")
					if !ok || !isIdent(el, k) {
						return bad("range body if")
					}
					reqRule = optionalCond(b.Cond, v, self)
				case *ast.ExprStmt, *ast.DeclStmt:
					return bad("range body statement")
				default:
					if el, ok := isAppendTo(bs, "required"); ok && isIdent(el, k) {
						reqRule = "ReqAlways"
						continue
					}
					return bad("range body statement")
				}
			}
			if !stored {
				return bad("properties are not stored")
			}
		default:
			return bad(fmt.Sprintf("statement %T", st))
		}
	}
	if sawProps {
		if reqRule != "ReqNone" && !sawRequiredAssign {
			reqRule = "ReqNone"
		}
		b := "false"
		if reqSorted {
			b = "true"
		}
		a.extra = fmt.Sprintf("XProps %s %s", reqRule, b)
	}
	return a
}

// classifyLoop: how the function iterates over the map expression `chain` to reach the statements `marker` recognises
func classifyLoop(fd *ast.FuncDecl, chain []string, marker func(*ast.BlockStmt) bool) string {
	var overMap []*ast.RangeStmt
	ast.Inspect(fd.Body, func(n ast.Node) bool {
		if r, ok := n.(*ast.RangeStmt); ok && isChain(r.X, chain...) {
			overMap = append(overMap, r)
		}
		return true
	})
	if len(overMap) != 1 {
		return "LoopUnknown"
	}
	r := overMap[0]
	if marker(r.Body) {
		return "LoopMapOrder"
	}
	// collect keys: body is exactly `S = append(S, key)`
	if len(r.Body.List) != 1 || r.Key == nil || r.Value != nil {
		return "LoopUnknown"
	}
	as, ok := r.Body.List[0].(*ast.AssignStmt)
	if !ok || len(as.Lhs) != 1 {
		return "LoopUnknown"
	}
	sl, ok := as.Lhs[0].(*ast.Ident)
	if !ok {
		return "LoopUnknown"
	}
	if el, ok := isAppendTo(as, sl.Name); !ok || !isIdent(el, r.Key.(*ast.Ident).Name) {
		return "LoopUnknown"
	}
	sorted, emitted := false, false
	ast.Inspect(fd.Body, func(n ast.Node) bool {
		switch s := n.(type) {
		case *ast.CallExpr:
			if n.Pos() < r.End() {
				return true
			}
			if isChain(s.Fun, "sort", "Strings") && len(s.Args) == 1 && isIdent(s.Args[0], sl.Name) && !emitted {
				sorted = true
			}
			if isChain(s.Fun, "sort", "Slice") && len(s.Args) == 2 && isIdent(s.Args[0], sl.Name) && !emitted {
				// func(i, j int) bool { return S[i] < S[j] }
				if fl, ok := s.Args[1].(*ast.FuncLit); ok && len(fl.Body.List) == 1 {
					if rt, ok := fl.Body.List[0].(*ast.ReturnStmt); ok && len(rt.Results) == 1 {
						if be, ok := rt.Results[0].(*ast.BinaryExpr); ok && be.Op == token.LSS {
							l, lok := be.X.(*ast.IndexExpr)
							rr, rok := be.Y.(*ast.IndexExpr)
							if lok && rok && isIdent(l.X, sl.Name) && isIdent(rr.X, sl.Name) && isIdent(l.Index, "i") && isIdent(rr.Index, "j") {
								sorted = true
							}
						}
					}
				}
			}
		case *ast.RangeStmt:
			if s.Pos() > r.End() && isIdent(s.X, sl.Name) && marker(s.Body) {
				if !sorted {
					sorted = false
					emitted = true
					return true
				}
				emitted = true
			}
		}
		return true
	})
	if sorted && emitted {
		return "LoopSortedKeys"
	}
	return "LoopUnknown"
}

func containsNode(b *ast.BlockStmt, pred func(ast.Node) bool) bool {
	found := false
	ast.Inspect(b, func(n ast.Node) bool {
		if n != nil && pred(n) {
			found = true
		}
		return !found
	})
	return found
}

func negatedOptional(e ast.Expr) string {
	if u, ok := e.(*ast.UnaryExpr); ok && u.Op == token.NOT {
		if ch := selChain(u.X); len(ch) > 0 && ch[len(ch)-1] == "Optional" {
			return "true"
		}
	}
	if ch := selChain(e); len(ch) > 0 && ch[len(ch)-1] == "Optional" {
		return "false"
	}
	return "?"
}

func exportTables(repo string) (string, error) {
	x := &etx{}
	o3, err := parseGo(repo, "pkg/exporter/openapi3.go")
	if err != nil {
		return "", err
	}
	var b strings.Builder
	b.WriteString("(* GENERATED by translate/exporttables.go from pkg/exporter/openapi3.go, pkg/exporter/type_exporter.go,\n   pkg/syslwrapper/app.go - do not edit *)\n")
	b.WriteString("From Coq Require Import String List.\nImport ListNotations.\nRequire Import Verif.Export.OasTypes.\nLocal Open Scope string_scope.\n\n")

	// ---- exportType arms
	var arms []string
	if fd := etFindFunc(o3, "OpenAPI3Exporter", "exportType"); fd == nil || len(fd.Type.Params.List) != 1 {
		x.unk("exportType not found")
	} else {
		self := fd.Type.Params.List[0].Names[0].Name
		var sw *ast.SwitchStmt
		for _, st := range fd.Body.List {
			if s, ok := st.(*ast.SwitchStmt); ok && isChain(s.Tag, self, "Type") {
				if sw != nil {
					x.unk("exportType: two switches on the type")
				}
				sw = s
			}
		}
		if sw == nil {
			x.unk("exportType: no switch on %s.Type", self)
		} else {
			for _, cl := range sw.Body.List {
				cc := cl.(*ast.CaseClause)
				if cc.List == nil {
					x.unk("exportType: default arm")
					continue
				}
				a := x.classifyArm(fmt.Sprint(len(arms)), cc.Body, self)
				for _, le := range cc.List {
					l, ok := etStrLit(le)
					if !ok {
						x.unk("exportType: non-literal case label")
						continue
					}
					arms = append(arms, fmt.Sprintf("(%s, {| a_ctor := %s; a_format := %s; a_extra := %s |})", etStr(l), a.ctor, a.format, a.extra))
				}
			}
		}
		// statements after the switch must not touch the observables of the model
		post := false
		for _, st := range fd.Body.List {
			if st == ast.Stmt(sw) {
				post = true
				continue
			}
			if !post {
				continue
			}
			switch s := st.(type) {
			case *ast.AssignStmt:
				if strings.Join(selChain(s.Lhs[0]), ".") != "value.Description" {
					x.unk("exportType: assignment after the switch")
				}
			case *ast.ReturnStmt:
				c, ok := s.Results[0].(*ast.CallExpr)
				if !ok || !isChain(c.Fun, "openapi3", "NewSchemaRef") || len(c.Args) != 2 || !isIdent(c.Args[0], "ref") || !isIdent(c.Args[1], "value") {
					x.unk("exportType: return is not NewSchemaRef(ref, value)")
				}
			default:
				x.unk("exportType: statement after the switch")
			}
		}
	}

	// ---- GenerateOpenAPI3 loops, switch paramItem.In, Required expressions
	paramsLoop, respLoop, enumLoop := "LoopUnknown", "LoopUnknown", "LoopUnknown"
	paramReq, bodyReq := "?", "?"
	var paramIn []string
	if fd := etFindFunc(o3, "OpenAPI3Exporter", "GenerateOpenAPI3"); fd == nil {
		x.unk("GenerateOpenAPI3 not found")
	} else {
		isInSwitch := func(n ast.Node) bool {
			s, ok := n.(*ast.SwitchStmt)
			if !ok {
				return false
			}
			ch := selChain(s.Tag)
			return len(ch) == 2 && ch[1] == "In"
		}
		paramsLoop = classifyLoop(fd, []string{"v", "Params"}, func(b *ast.BlockStmt) bool { return containsNode(b, isInSwitch) })
		respLoop = classifyLoop(fd, []string{"v", "Response"}, func(b *ast.BlockStmt) bool {
			return containsNode(b, func(n ast.Node) bool {
				c, ok := n.(*ast.CallExpr)
				if !ok {
					return false
				}
				ch := selChain(c.Fun)
				return len(ch) == 2 && ch[1] == "AddResponse"
			})
		})
		ast.Inspect(fd.Body, func(n ast.Node) bool {
			switch s := n.(type) {
			case *ast.SwitchStmt:
				if !isInSwitch(s) {
					return true
				}
				for _, cl := range s.Body.List {
					cc := cl.(*ast.CaseClause)
					loc := "?"
					if len(cc.Body) == 1 {
						if as, ok := cc.Body[0].(*ast.AssignStmt); ok && len(as.Lhs) == 1 && len(as.Rhs) == 1 {
							if c, ok := as.Rhs[0].(*ast.CallExpr); ok {
								switch {
								case isIdent(as.Lhs[0], "param") && isChain(c.Fun, "openapi3", "NewHeaderParameter"):
									loc = "header"
								case isIdent(as.Lhs[0], "param") && isChain(c.Fun, "openapi3", "NewPathParameter"):
									loc = "path"
								case isIdent(as.Lhs[0], "param") && isChain(c.Fun, "openapi3", "NewQueryParameter"):
									loc = "query"
								case isIdent(as.Lhs[0], "payload"):
									if _, ok := isExportTypeCall(c); ok {
										loc = "body"
									}
								}
							}
						}
					}
					if loc == "?" {
						x.unk("GenerateOpenAPI3: unclassified arm of switch paramItem.In")
					}
					for _, le := range cc.List {
						if l, ok := etStrLit(le); ok {
							paramIn = append(paramIn, fmt.Sprintf("(%s, %s)", etStr(l), etStr(loc)))
						} else {
							x.unk("GenerateOpenAPI3: non-literal label in switch paramItem.In")
						}
					}
				}
			case *ast.AssignStmt:
				if len(s.Lhs) == 1 && isChain(s.Lhs[0], "param", "Required") {
					paramReq = negatedOptional(s.Rhs[0])
				}
			case *ast.CallExpr:
				if sel, ok := s.Fun.(*ast.SelectorExpr); ok && sel.Sel.Name == "WithRequired" && len(s.Args) == 1 {
					bodyReq = negatedOptional(s.Args[0])
				}
			}
			return true
		})
	}
	if fd := etFindFunc(o3, "", "convertEnum"); fd == nil || len(fd.Type.Params.List) != 1 {
		x.unk("convertEnum not found")
	} else {
		enumLoop = classifyLoop(fd, []string{fd.Type.Params.List[0].Names[0].Name}, func(b *ast.BlockStmt) bool {
			return containsNode(b, func(n ast.Node) bool {
				st, ok := n.(ast.Stmt)
				if !ok {
					return false
				}
				_, ok = isAppendTo(st, "enums.Data")
				return ok
			})
		})
	}
	boolOr := func(s, what string) string {
		if s == "?" {
			x.unk("%s not classified", what)
			return "false"
		}
		return s
	}
	paramReq = boolOr(paramReq, "param.Required expression")
	bodyReq = boolOr(bodyReq, "WithRequired argument")

	// ---- IsPrimitive
	var prims []string
	if app, err := parseGo(repo, "pkg/syslwrapper/app.go"); err != nil {
		x.unk("app.go: %v", err)
	} else if fd := etFindFunc(app, "", "IsPrimitive"); fd == nil {
		x.unk("IsPrimitive not found")
	} else {
		ast.Inspect(fd.Body, func(n ast.Node) bool {
			cc, ok := n.(*ast.CaseClause)
			if !ok || cc.List == nil {
				return true
			}
			ret := len(cc.Body) == 1
			if ret {
				r, ok := cc.Body[0].(*ast.ReturnStmt)
				ret = ok && len(r.Results) == 1 && isIdent(r.Results[0], "true")
			}
			if !ret {
				x.unk("IsPrimitive: case does not return true")
				return true
			}
			for _, le := range cc.List {
				if l, ok := etStrLit(le); ok {
					prims = append(prims, etStr(l))
				} else {
					x.unk("IsPrimitive: non-literal label")
				}
			}
			return true
		})
	}

	// ---- repairs: bare status kept (app.go mapResponse), responses always set, content only with a payload type
	bareKept, respAlways, contentGuarded := "false", "false", "false"
	isNilCmp := func(e ast.Expr, op token.Token, chain ...string) bool {
		be, ok := e.(*ast.BinaryExpr)
		return ok && be.Op == op && isIdent(be.Y, "nil") && isChain(be.X, chain...)
	}
	if app, err := parseGo(repo, "pkg/syslwrapper/app.go"); err == nil {
		if fd := etFindFunc(app, "AppMapper", "mapResponse"); fd != nil {
			ast.Inspect(fd.Body, func(n ast.Node) bool {
				is, ok := n.(*ast.IfStmt)
				if !ok || is.Else != nil || len(is.Body.List) != 1 || !isNilCmp(is.Cond, token.EQL, "returnType") {
					return true
				}
				if as, ok := is.Body.List[0].(*ast.AssignStmt); ok && len(as.Lhs) == 1 && isIdent(as.Lhs[0], "returnName") {
					if sel, ok := as.Rhs[0].(*ast.SelectorExpr); ok && sel.Sel.Name == "Payload" {
						bareKept = "true"
					}
				}
				return true
			})
		} else {
			x.unk("mapResponse not found")
		}
	}
	if fd := etFindFunc(o3, "OpenAPI3Exporter", "GenerateOpenAPI3"); fd != nil {
		ast.Inspect(fd.Body, func(n ast.Node) bool {
			is, ok := n.(*ast.IfStmt)
			if !ok || is.Else != nil {
				return true
			}
			if isNilCmp(is.Cond, token.EQL, "operation", "Responses") && len(is.Body.List) == 1 {
				if as, ok := is.Body.List[0].(*ast.AssignStmt); ok && isChain(as.Lhs[0], "operation", "Responses") {
					if c, ok := as.Rhs[0].(*ast.CallExpr); ok && isChain(c.Fun, "openapi3", "NewResponses") {
						respAlways = "true"
					}
				}
			}
			if isNilCmp(is.Cond, token.NEQ, "schemaRef") && containsNode(is.Body, func(m ast.Node) bool {
				c, ok := m.(*ast.CallExpr)
				return ok && isChain(c.Fun, "response", "WithContent")
			}) {
				contentGuarded = "true"
			}
			return true
		})
		// an unguarded WithContent elsewhere?
		nWith := 0
		ast.Inspect(fd.Body, func(n ast.Node) bool {
			if c, ok := n.(*ast.CallExpr); ok && isChain(c.Fun, "response", "WithContent") {
				nWith++
			}
			return true
		})
		if nWith != 1 {
			x.unk("GenerateOpenAPI3: %d calls of response.WithContent", nWith)
		}
	}

	fmt.Fprintf(&b, "Definition tables3_of_source : tables3 := {|\n  t_arms := [\n    %s];\n", strings.Join(arms, ";\n    "))
	fmt.Fprintf(&b, "  t_params_loop := %s;\n  t_responses_loop := %s;\n  t_enum_loop := %s;\n", paramsLoop, respLoop, enumLoop)
	fmt.Fprintf(&b, "  t_param_required_negated := %s;\n  t_body_required_negated := %s;\n", paramReq, bodyReq)
	fmt.Fprintf(&b, "  t_param_in := [%s];\n  t_is_primitive := [%s];\n", strings.Join(paramIn, "; "), strings.Join(prims, "; "))
	fmt.Fprintf(&b, "  t_bare_status_kept := %s;\n  t_responses_always := %s;\n  t_content_guarded := %s\n|}.\n\n", bareKept, respAlways, contentGuarded)

	// ---- Swagger 2
	var p2, find2, comp2 []string
	typesLoop, attrsLoop, membersFresh := "LoopUnknown", "LoopUnknown", "false"
	if te, err := parseGo(repo, "pkg/exporter/type_exporter.go"); err != nil {
		x.unk("type_exporter.go: %v", err)
	} else {
		if fd := etFindFunc(te, "", "makeTypeExporter"); fd == nil {
			x.unk("makeTypeExporter not found")
		} else {
			ast.Inspect(fd.Body, func(n ast.Node) bool {
				kv, ok := n.(*ast.KeyValueExpr)
				if !ok || !isIdent(kv.Key, "primitiveTypesMap") {
					return true
				}
				cl, ok := kv.Value.(*ast.CompositeLit)
				if !ok {
					x.unk("primitiveTypesMap is not a literal")
					return false
				}
				for _, el := range cl.Elts {
					e, ok := el.(*ast.KeyValueExpr)
					ch := []string{}
					if ok {
						ch = selChain(e.Key)
					}
					v, ok2 := e.Value.(*ast.CompositeLit)
					if !ok || !ok2 || len(ch) != 2 || !strings.HasPrefix(ch[1], "Type_") {
						x.unk("primitiveTypesMap entry")
						continue
					}
					f, t := "", ""
					for _, fe := range v.Elts {
						fk, ok := fe.(*ast.KeyValueExpr)
						if !ok {
							x.unk("primitiveTypesMap value")
							continue
						}
						s, ok := etStrLit(fk.Value)
						if !ok {
							x.unk("primitiveTypesMap value")
						}
						if isIdent(fk.Key, "Format") {
							f = s
						} else if isIdent(fk.Key, "Type") {
							t = s
						}
					}
					p2 = append(p2, fmt.Sprintf("(%s, (%s, %s))", etStr(strings.TrimPrefix(ch[1], "Type_")), etStr(f), etStr(t)))
				}
				return false
			})
		}
		if fd := etFindFunc(te, "TypeExporter", "findSwaggerType"); fd == nil {
			x.unk("findSwaggerType not found")
		} else {
			ast.Inspect(fd.Body, func(n ast.Node) bool {
				ts, ok := n.(*ast.TypeSwitchStmt)
				if !ok {
					return true
				}
				for _, cl := range ts.Body.List {
					cc := cl.(*ast.CaseClause)
					arm := "SwUnknown"
					// classify by the first return statement of the arm
					var rets []*ast.ReturnStmt
					for _, st := range cc.Body {
						ast.Inspect(st, func(m ast.Node) bool {
							if r, ok := m.(*ast.ReturnStmt); ok {
								rets = append(rets, r)
							}
							return true
						})
					}
					if len(rets) >= 1 && len(rets[0].Results) == 2 {
						last := rets[len(rets)-1]
						lit, isLit := last.Results[0].(*ast.CompositeLit)
						switch {
						case !isIdent(last.Results[1], "nil"):
							arm = "SwError"
						case isLit:
							var f, t ast.Expr
							for _, fe := range lit.Elts {
								if fk, ok := fe.(*ast.KeyValueExpr); ok {
									if isIdent(fk.Key, "Format") {
										f = fk.Value
									} else if isIdent(fk.Key, "Type") {
										t = fk.Value
									}
								}
							}
							fs, fok := etStrLit(f)
							tsr, tok := etStrLit(t)
							switch {
							case f != nil && t != nil && fok && tok:
								arm = fmt.Sprintf("(SwConst %s %s)", etStr(fs), etStr(tsr))
							case tok && tsr == "object" && len(rets) == 2:
								arm = "SwRefFormat"
							case f != nil && t != nil:
								if sel, ok := f.(*ast.SelectorExpr); ok && sel.Sel.Name == "Format" {
									arm = "SwPrimTable"
								}
							}
						}
					}
					if cc.List == nil {
						find2 = append(find2, fmt.Sprintf("(%s, %s)", etStr("default"), arm))
						continue
					}
					for _, le := range cc.List {
						name := "?"
						if st, ok := le.(*ast.StarExpr); ok {
							if ch := selChain(st.X); len(ch) == 2 {
								name = strings.TrimSuffix(strings.TrimPrefix(ch[1], "Type_"), "_")
							}
						}
						if name == "?" || arm == "SwUnknown" {
							x.unk("findSwaggerType: unclassified arm")
						}
						find2 = append(find2, fmt.Sprintf("(%s, %s)", etStr(name), arm))
					}
				}
				return false
			})
		}
		if fd := etFindFunc(te, "TypeExporter", "isComposite"); fd == nil {
			x.unk("isComposite not found")
		} else {
			ast.Inspect(fd.Body, func(n ast.Node) bool {
				ta, ok := n.(*ast.TypeAssertExpr)
				if !ok || ta.Type == nil {
					return true
				}
				if st, ok := ta.Type.(*ast.StarExpr); ok {
					if ch := selChain(st.X); len(ch) == 2 {
						comp2 = append(comp2, etStr(strings.TrimSuffix(strings.TrimPrefix(ch[1], "Type_"), "_")))
					}
				}
				return true
			})
		}
		if fd := etFindFunc(te, "TypeExporter", "populateTypes"); fd == nil {
			x.unk("populateTypes not found")
		} else {
			stores := func(b *ast.BlockStmt) bool {
				return containsNode(b, func(n ast.Node) bool {
					as, ok := n.(*ast.AssignStmt)
					if !ok || len(as.Lhs) != 1 {
						return false
					}
					ix, ok := as.Lhs[0].(*ast.IndexExpr)
					return ok && isIdent(ix.X, "swaggerTypes")
				})
			}
			// memberTypes must be (re)initialised inside the loop over the types
			ast.Inspect(fd.Body, func(n ast.Node) bool {
				r, ok := n.(*ast.RangeStmt)
				if !ok {
					return true
				}
				ast.Inspect(r.Body, func(m ast.Node) bool {
					if as, ok := m.(*ast.AssignStmt); ok && as.Tok == token.DEFINE && len(as.Lhs) == 1 && isIdent(as.Lhs[0], "memberTypes") {
						if _, isLit := as.Rhs[0].(*ast.CompositeLit); isLit {
							membersFresh = "true"
						}
					}
					return true
				})
				return true
			})
			typesLoop = classifyLoop(fd, []string{"syslTypes"}, stores)
			attrsLoop = classifyLoop(fd, []string{"memberTypes"}, func(b *ast.BlockStmt) bool {
				return containsNode(b, func(n ast.Node) bool {
					as, ok := n.(*ast.AssignStmt)
					if !ok || len(as.Lhs) != 1 {
						return false
					}
					ix, ok := as.Lhs[0].(*ast.IndexExpr)
					return ok && isChain(ix.X, "typeSchema", "Properties")
				})
			})
		}
	}
	fmt.Fprintf(&b, "Definition tables2_of_source : tables2 := {|\n  t2_prims := [%s];\n  t2_find := [%s];\n  t2_composite := [%s];\n  t2_types_loop := %s;\n  t2_attrs_loop := %s;\n  t2_members_fresh := %s\n|}.\n\n",
		strings.Join(p2, ";\n    "), strings.Join(find2, ";\n    "), strings.Join(comp2, "; "), typesLoop, attrsLoop, membersFresh)

	// ---- syslwrapper.MapType: the kind string(s) each arm of the type switch assigns to simpleType; the Optional of a
	// relation attribute that is a TypeRef (repair C12-6)
	var mapArms []string
	tabrefOpt := "false"
	if app, err := parseGo(repo, "pkg/syslwrapper/app.go"); err != nil {
		x.unk("app.go: %v", err)
	} else if fd := etFindFunc(app, "AppMapper", "MapType"); fd == nil {
		x.unk("MapType not found")
	} else {
		var ts *ast.TypeSwitchStmt
		for _, st := range fd.Body.List {
			if s, ok := st.(*ast.TypeSwitchStmt); ok {
				if ts != nil {
					x.unk("MapType: two type switches")
				}
				ts = s
			}
		}
		if ts == nil {
			x.unk("MapType: no type switch")
		} else {
			for _, cl := range ts.Body.List {
				cc := cl.(*ast.CaseClause)
				if cc.List == nil {
					x.unk("MapType: default arm")
					continue
				}
				var kinds []string
				for _, st := range cc.Body {
					ast.Inspect(st, func(n ast.Node) bool {
						as, ok := n.(*ast.AssignStmt)
						if !ok || len(as.Lhs) != 1 || !isIdent(as.Lhs[0], "simpleType") {
							return true
						}
						if l, ok := etStrLit(as.Rhs[0]); ok {
							kinds = append(kinds, etStr(l))
						}
						return true
					})
				}
				for _, le := range cc.List {
					name := "?"
					if st, ok := le.(*ast.StarExpr); ok {
						if ch := selChain(st.X); len(ch) == 2 {
							name = strings.TrimSuffix(strings.TrimPrefix(ch[1], "Type_"), "_")
						}
					}
					if name == "?" {
						x.unk("MapType: unclassified case label")
					}
					mapArms = append(mapArms, fmt.Sprintf("(%s, [%s])", etStr(name), strings.Join(kinds, "; ")))
					if name == "Relation" {
						for _, st := range cc.Body {
							ast.Inspect(st, func(n ast.Node) bool {
								lit, ok := n.(*ast.CompositeLit)
								if !ok || !isIdent(lit.Type, "Type") {
									return true
								}
								for _, fe := range lit.Elts {
									if kv, ok := fe.(*ast.KeyValueExpr); ok && isIdent(kv.Key, "Optional") {
										if c, ok := kv.Value.(*ast.CallExpr); ok {
											if ch := selChain(c.Fun); len(ch) == 2 && ch[1] == "GetOpt" {
												tabrefOpt = "true"
											}
										}
									}
								}
								return true
							})
						}
					}
				}
			}
		}
	}
	fmt.Fprintf(&b, "Definition maptype_of_source : list (string * list string) := [%s].\n\n", strings.Join(mapArms, ";\n    "))
	fmt.Fprintf(&b, "Definition tabref_keeps_optional_of_source : bool := %s.\n\n", tabrefOpt)

	// ---- which statements mapResponse reads: the list syslwrapper.ReturnStatements gives (the arms of its type switch
	// that recurse), or the top-level statements only (the tree as found: no such function, the loop ranges over the parameter)
	var descend []string
	app, aerr := parseGo(repo, "pkg/syslwrapper/app.go")
	if aerr != nil {
		x.unk("pkg/syslwrapper/app.go does not parse")
	} else if fd := etFindFunc(app, "AppMapper", "mapResponse"); fd == nil || len(fd.Type.Params.List) < 1 {
		x.unk("mapResponse not found")
	} else {
		param := fd.Type.Params.List[0].Names[0].Name
		ranged, viaHelper := "", map[string]bool{}
		for _, st := range fd.Body.List {
			switch s := st.(type) {
			case *ast.AssignStmt:
				if c, ok := s.Rhs[0].(*ast.CallExpr); ok && isIdent(c.Fun, "ReturnStatements") && len(c.Args) == 1 && isIdent(c.Args[0], param) {
					if id, ok := s.Lhs[0].(*ast.Ident); ok {
						viaHelper[id.Name] = true
					}
				}
			case *ast.RangeStmt:
				if id, ok := s.X.(*ast.Ident); ok {
					ranged = id.Name
				} else if c, ok := s.X.(*ast.CallExpr); ok && isIdent(c.Fun, "ReturnStatements") && len(c.Args) == 1 && isIdent(c.Args[0], param) {
					ranged = "#helper"
					viaHelper[ranged] = true
				}
			}
		}
		switch {
		case viaHelper[ranged]:
			hd := etFindFunc(app, "", "ReturnStatements")
			if hd == nil {
				x.unk("ReturnStatements not found")
				break
			}
			var ts *ast.TypeSwitchStmt
			ast.Inspect(hd.Body, func(n ast.Node) bool {
				if t, ok := n.(*ast.TypeSwitchStmt); ok && ts == nil {
					ts = t
				}
				return true
			})
			if ts == nil {
				x.unk("ReturnStatements: no type switch")
				break
			}
			sawRet := false
			for _, cl := range ts.Body.List {
				cc := cl.(*ast.CaseClause)
				if cc.List == nil {
					x.unk("ReturnStatements: default arm")
					continue
				}
				recurses, appends := false, false
				for _, b := range cc.Body {
					ast.Inspect(b, func(n ast.Node) bool {
						if c, ok := n.(*ast.CallExpr); ok {
							if isIdent(c.Fun, "ReturnStatements") {
								recurses = true
							}
							if isIdent(c.Fun, "append") && len(c.Args) == 2 && !c.Ellipsis.IsValid() {
								appends = true
							}
						}
						return true
					})
				}
				for _, le := range cc.List {
					name := "?"
					if st, ok := le.(*ast.StarExpr); ok {
						if ch := selChain(st.X); len(ch) == 2 {
							name = strings.TrimPrefix(ch[1], "Statement_")
						}
					}
					switch {
					case name == "Ret" && appends && !recurses:
						sawRet = true
					case name != "?" && name != "Ret" && recurses:
						descend = append(descend, etStr(name))
					default:
						x.unk("ReturnStatements: arm %s neither keeps a return statement nor recurses", name)
					}
				}
			}
			if !sawRet {
				x.unk("ReturnStatements: no arm keeps a return statement")
			}
		case ranged == param:
			// top-level statements only
		default:
			x.unk("mapResponse: the loop ranges over %s", ranged)
		}
	}
	fmt.Fprintf(&b, "Definition ret_descend_of_source : list string := [%s].\n\n", strings.Join(descend, "; "))

	var us []string
	for _, u := range x.unknown {
		us = append(us, etStr(u))
	}
	fmt.Fprintf(&b, "Definition unknown : list string := [%s].\n", strings.Join(us, "; "))
	return b.String(), nil
}
