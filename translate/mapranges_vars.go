package main

// Package-level variables of the generator packages (C19, state between generator runs in one process): every `var` at
// package level, its kind, and whether any function body of the walked packages writes it (assignment to it or through
// it: x = v, x[k] = v, x.f = v, x = append(x, ...), x++, delete(x, k), &x taken, or a method with a pointer receiver is
// called on it).  A variable that is only initialised at its declaration and then read is a constant table; a written
// one is state that survives from one generator run to the next.

import (
	"go/ast"
	"go/token"
	"go/types"
	"sort"
)

type pkgVar struct {
	name    string // package.Name
	kind    string // VMap | VSlice | VPointer | VFunc | VStruct | VScalar | VOther
	written bool
	by      map[string]bool // functions writing it
}

func varKind(t types.Type) string {
	if t == nil {
		return "VOther"
	}
	switch u := t.Underlying().(type) {
	case *types.Map:
		return "VMap"
	case *types.Slice, *types.Array:
		return "VSlice"
	case *types.Pointer:
		return "VPointer"
	case *types.Signature:
		return "VFunc"
	case *types.Struct:
		return "VStruct"
	case *types.Interface:
		return "VPointer"
	case *types.Basic:
		if u.Kind() == types.Invalid {
			return "VOther"
		}
		return "VScalar"
	}
	return "VOther"
}

type varTable struct {
	vars  map[types.Object]*pkgVar
	order []*pkgVar
}

func newVarTable() *varTable { return &varTable{vars: map[types.Object]*pkgVar{}} }

// declare records the package-level variables of one package
func (vt *varTable) declare(pkg string, files []*ast.File, info *types.Info) {
	for _, f := range files {
		for _, d := range f.Decls {
			gd, ok := d.(*ast.GenDecl)
			if !ok || gd.Tok != token.VAR {
				continue
			}
			for _, sp := range gd.Specs {
				vs, ok := sp.(*ast.ValueSpec)
				if !ok {
					continue
				}
				for _, nm := range vs.Names {
					if nm.Name == "_" {
						continue
					}
					obj := info.Defs[nm]
					if obj == nil {
						continue
					}
					v := &pkgVar{name: pkg + "." + nm.Name, kind: varKind(obj.Type()), by: map[string]bool{}}
					vt.vars[obj] = v
					vt.order = append(vt.order, v)
				}
			}
		}
	}
}

// writes records the writes to declared variables in the function bodies of one package
func (vt *varTable) writes(pkg string, files []*ast.File, info *types.Info) {
	mark := func(e ast.Expr, fn string) {
		id := baseIdent(e)
		if id == nil {
			return
		}
		if v := vt.vars[info.Uses[id]]; v != nil {
			v.written = true
			v.by[pkg+"."+fn] = true
		}
	}
	for _, f := range files {
		for _, fd := range funcDecls(f) {
			if fd.Body == nil {
				continue
			}
			fn := funcKey(fd)
			ast.Inspect(fd.Body, func(n ast.Node) bool {
				switch s := n.(type) {
				case *ast.AssignStmt:
					if s.Tok != token.DEFINE {
						for _, l := range s.Lhs {
							mark(l, fn)
						}
					}
				case *ast.IncDecStmt:
					mark(s.X, fn)
				case *ast.UnaryExpr:
					if s.Op == token.AND {
						mark(s.X, fn)
					}
				case *ast.CallExpr:
					if isIdent(s.Fun, "delete") && len(s.Args) > 0 {
						mark(s.Args[0], fn)
					}
					if sel, ok := s.Fun.(*ast.SelectorExpr); ok {
						// method with a pointer receiver called on the variable itself
						if selInfo, ok := info.Selections[sel]; ok && selInfo.Kind() == types.MethodVal {
							if sig, ok := selInfo.Obj().Type().(*types.Signature); ok && sig.Recv() != nil {
								if _, ptr := sig.Recv().Type().(*types.Pointer); ptr {
									// (on a variable that is itself a pointer the call writes the pointee, which is
									// not tracked: *regexp.Regexp and the like)
									if id, ok := sel.X.(*ast.Ident); ok {
										if _, isPtr := info.TypeOf(id).Underlying().(*types.Pointer); !isPtr {
											mark(id, fn)
										}
									}
								}
							}
						}
					}
				}
				return true
			})
		}
	}
}

func (vt *varTable) sorted() []*pkgVar {
	out := append([]*pkgVar{}, vt.order...)
	sort.SliceStable(out, func(i, j int) bool { return out[i].name < out[j].name })
	return out
}
