package main

import (
	"fmt"
	"go/ast"
	"go/token"
	"sort"
	"strconv"
	"strings"
)

// ImportRules: the statement order and guard shapes of pkg/parse/parse.go collectSpecs,
// flattenSpecs, fileNameToIndex and pkg/parse/utils.go cleanImportFilename that the model
// Imports/Collect.v is a transliteration of. Everything is found by role (which call, which
// assignment), never by line number; a shape that is not recognised yields false / *Unknown so
// that the `reflexivity` obligation in Imports/Current.v fails.
func init() { register("ImportRules", importRules) }

func irFindFunc(f *ast.File, name string) *ast.FuncDecl {
	for _, fd := range funcDecls(f) {
		if fd.Name.Name == name {
			return fd
		}
	}
	return nil
}

func irChainIs(e ast.Expr, parts ...string) bool {
	ch := selChain(e)
	if len(ch) != len(parts) {
		return false
	}
	for i := range ch {
		if ch[i] != parts[i] {
			return false
		}
	}
	return true
}

// callStmt: statement is the expression statement `a.b.c(...)`
func irCallStmt(s ast.Stmt, parts ...string) bool {
	es, ok := s.(*ast.ExprStmt)
	if !ok {
		return false
	}
	c, ok := es.X.(*ast.CallExpr)
	return ok && irChainIs(c.Fun, parts...)
}

func irContainsCall(n ast.Node, parts ...string) bool {
	found := false
	ast.Inspect(n, func(x ast.Node) bool {
		if c, ok := x.(*ast.CallExpr); ok && irChainIs(c.Fun, parts...) {
			found = true
		}
		return !found
	})
	return found
}

func irEndsInReturn(b *ast.BlockStmt) bool {
	if b == nil || len(b.List) == 0 {
		return false
	}
	_, ok := b.List[len(b.List)-1].(*ast.ReturnStmt)
	return ok
}

func irIsIntLit(e ast.Expr, v string) bool {
	l, ok := e.(*ast.BasicLit)
	return ok && l.Kind == token.INT && l.Value == v
}

func irBool(b bool) string {
	if b {
		return "true"
	}
	return "false"
}

func importRules(repo string) (string, error) {
	pf, err := parseGo(repo, "pkg/parse/parse.go")
	if err != nil {
		return "", err
	}
	uf, err := parseGo(repo, "pkg/parse/utils.go")
	if err != nil {
		return "", err
	}
	collect := irFindFunc(pf.file, "collectSpecs")
	flatten := irFindFunc(pf.file, "flattenSpecs")
	toIndex := irFindFunc(pf.file, "fileNameToIndex")
	clean := irFindFunc(uf.file, "cleanImportFilename")
	if collect == nil || flatten == nil || toIndex == nil || clean == nil {
		return "", fmt.Errorf("collectSpecs / flattenSpecs / fileNameToIndex / cleanImportFilename not all found")
	}

	// ---------------- collectSpecs ----------------
	// parameter names by position: (ctx, source, reader, retrieved, maxImportDepth, currentImportDepth)
	var pnames []string
	for _, f := range collect.Type.Params.List {
		for _, n := range f.Names {
			pnames = append(pnames, n.Name)
		}
	}
	if len(pnames) != 6 {
		return "", fmt.Errorf("collectSpecs: %d parameters, expected 6", len(pnames))
	}
	pSource, pReader, pRetr, pMax, pCur := pnames[1], pnames[2], pnames[3], pnames[4], pnames[5]
	body := collect.Body.List

	guardFirst, needsPos, cutKind := false, false, "CutUnknown"
	if len(body) > 0 {
		if is, ok := body[0].(*ast.IfStmt); ok && is.Init == nil && is.Else == nil && len(is.Body.List) == 1 {
			if rs, ok := is.Body.List[0].(*ast.ReturnStmt); ok && len(rs.Results) == 1 && isIdent(rs.Results[0], "nil") {
				guardFirst = true
				cmp := func(e ast.Expr) string { // classify `cur OP max`
					be, ok := e.(*ast.BinaryExpr)
					if !ok {
						return ""
					}
					if isIdent(be.X, pCur) && isIdent(be.Y, pMax) {
						switch be.Op {
						case token.GEQ:
							return "CutGe"
						case token.GTR:
							return "CutGt"
						}
					}
					if isIdent(be.X, pMax) && isIdent(be.Y, pCur) {
						switch be.Op {
						case token.LEQ:
							return "CutGe"
						case token.LSS:
							return "CutGt"
						}
					}
					return ""
				}
				pos := func(e ast.Expr) bool {
					be, ok := e.(*ast.BinaryExpr)
					return ok && be.Op == token.GTR && isIdent(be.X, pMax) && irIsIntLit(be.Y, "0")
				}
				if be, ok := is.Cond.(*ast.BinaryExpr); ok && be.Op == token.LAND {
					if pos(be.X) && cmp(be.Y) != "" {
						needsPos, cutKind = true, cmp(be.Y)
					} else if pos(be.Y) && cmp(be.X) != "" {
						needsPos, cutKind = true, cmp(be.X)
					}
				} else if k := cmp(is.Cond); k != "" {
					cutKind = k
				}
			}
		}
	}

	// roles among the top-level statements
	iLock, iLookup, iInsert, iUnlock, iRead, iRecord, iFan, iWait := -1, -1, -1, -1, -1, -1, -1, -1
	lookupOK := false
	indexVar, fiVar, childrenVar, groupVar := "", "", "", ""
	for i, st := range body {
		switch s := st.(type) {
		case *ast.ExprStmt:
			if irCallStmt(s, pRetr, "mutex", "Lock") && iLock < 0 {
				iLock = i
			}
			if irCallStmt(s, pRetr, "mutex", "Unlock") && iUnlock < 0 {
				iUnlock = i
			}
		case *ast.IfStmt:
			// if fi, has := retrieved.l[idx]; has { ... Unlock ... return }
			if as, ok := s.Init.(*ast.AssignStmt); ok && len(as.Lhs) == 2 && len(as.Rhs) == 1 && iLookup < 0 {
				if ix, ok := as.Rhs[0].(*ast.IndexExpr); ok && irChainIs(ix.X, pRetr, "l") {
					iLookup = i
					if id, ok := ix.Index.(*ast.Ident); ok {
						indexVar = id.Name
					}
					has, _ := as.Lhs[1].(*ast.Ident)
					lookupOK = has != nil && isIdent(s.Cond, has.Name) && irEndsInReturn(s.Body) &&
						len(s.Body.List) > 0 && irCallStmt(s.Body.List[0], pRetr, "mutex", "Unlock") && s.Else == nil
				}
			}
			// if err != nil { return ... } directly after g.Wait()
		case *ast.AssignStmt:
			if len(s.Lhs) == 1 && len(s.Rhs) == 1 {
				// retrieved.l[idx] = fi
				if ix, ok := s.Lhs[0].(*ast.IndexExpr); ok && irChainIs(ix.X, pRetr, "l") && iInsert < 0 {
					if id, ok := ix.Index.(*ast.Ident); ok && id.Name == indexVar {
						if v, ok := s.Rhs[0].(*ast.Ident); ok {
							iInsert, fiVar = i, v.Name
						}
					}
				}
				// fi.imports = children
				if fiVar != "" && irChainIs(s.Lhs[0], fiVar, "imports") {
					if v, ok := s.Rhs[0].(*ast.Ident); ok && iRecord < 0 {
						iRecord, childrenVar = i, v.Name
					}
				}
				// err = g.Wait()
				if c, ok := s.Rhs[0].(*ast.CallExpr); ok && groupVar != "" && irChainIs(c.Fun, groupVar, "Wait") && iWait < 0 {
					iWait = i
				}
			}
			// content, hash, branch, err := reader.ReadHashBranch(ctx, source.filename)
			if len(s.Rhs) == 1 {
				if c, ok := s.Rhs[0].(*ast.CallExpr); ok && iRead < 0 {
					ch := selChain(c.Fun)
					if len(ch) == 2 && ch[0] == pReader && strings.HasPrefix(ch[1], "Read") {
						iRead = i
					}
				}
				// g := new(errgroup.Group)
				if c, ok := s.Rhs[0].(*ast.CallExpr); ok && isIdent(c.Fun, "new") && len(c.Args) == 1 && irChainIs(c.Args[0], "errgroup", "Group") {
					if id, ok := s.Lhs[0].(*ast.Ident); ok {
						groupVar = id.Name
					}
				}
			}
		case *ast.RangeStmt:
			if childrenVar != "" && isIdent(s.X, childrenVar) && iFan < 0 {
				iFan = i
			}
		}
	}
	// any other read of the reader (a second fetch) makes the order claim unknown
	nReads := 0
	ast.Inspect(collect.Body, func(n ast.Node) bool {
		if c, ok := n.(*ast.CallExpr); ok {
			ch := selChain(c.Fun)
			if len(ch) == 2 && ch[0] == pReader && strings.HasPrefix(ch[1], "Read") {
				nReads++
			}
		}
		return true
	})
	nInserts := 0
	ast.Inspect(collect.Body, func(n ast.Node) bool {
		if as, ok := n.(*ast.AssignStmt); ok {
			for _, l := range as.Lhs {
				if ix, ok := l.(*ast.IndexExpr); ok && irChainIs(ix.X, pRetr, "l") {
					nInserts++
				}
			}
		}
		return true
	})
	claimUnderMutex := iLock >= 0 && lookupOK && iLock < iLookup && iLookup < iInsert && iInsert < iUnlock && nInserts == 1
	// the fileInfo stored must be the one created for this source: fi := &fileInfo{}; fi.src.src = source
	srcSet := false
	for _, st := range body {
		if as, ok := st.(*ast.AssignStmt); ok && len(as.Lhs) == 1 && len(as.Rhs) == 1 && fiVar != "" {
			if irChainIs(as.Lhs[0], fiVar, "src", "src") && isIdent(as.Rhs[0], pSource) {
				srcSet = true
			}
		}
	}
	claimUnderMutex = claimUnderMutex && srcSet
	claimBeforeRead := iInsert >= 0 && iRead >= 0 && iInsert < iRead && nReads == 1
	recordedBefore := iRecord >= 0 && iFan >= 0 && iRead < iRecord && iRecord < iFan

	// fan-out loop: for _, c := range children { c := c; g.Go(func() error { return p.collectSpecs(ctx, c, reader, retrieved, max, cur+1) }) }
	fanOne, plusOne := false, false
	if iFan >= 0 {
		rs := body[iFan].(*ast.RangeStmt)
		if v, ok := rs.Value.(*ast.Ident); ok && groupVar != "" {
			nGo := 0
			ast.Inspect(rs.Body, func(n ast.Node) bool {
				c, ok := n.(*ast.CallExpr)
				if !ok {
					return true
				}
				if irChainIs(c.Fun, groupVar, "Go") {
					nGo++
				}
				ch := selChain(c.Fun)
				if len(ch) == 2 && ch[1] == "collectSpecs" && len(c.Args) == 6 {
					if isIdent(c.Args[1], v.Name) && isIdent(c.Args[2], pReader) && isIdent(c.Args[3], pRetr) && isIdent(c.Args[4], pMax) {
						fanOne = true
					}
					if be, ok := c.Args[5].(*ast.BinaryExpr); ok && be.Op == token.ADD &&
						((isIdent(be.X, pCur) && irIsIntLit(be.Y, "1")) || (isIdent(be.Y, pCur) && irIsIntLit(be.X, "1"))) {
						plusOne = true
					}
				}
				return true
			})
			fanOne = fanOne && nGo == 1
		}
	}
	// err = g.Wait(); if err != nil { return <non-nil> }
	waitProp := false
	if iWait >= 0 && iFan >= 0 && iWait > iFan && iWait+1 < len(body) {
		as := body[iWait].(*ast.AssignStmt)
		if ev, ok := as.Lhs[0].(*ast.Ident); ok {
			if is, ok := body[iWait+1].(*ast.IfStmt); ok {
				if be, ok := is.Cond.(*ast.BinaryExpr); ok && be.Op == token.NEQ && isIdent(be.X, ev.Name) && isIdent(be.Y, "nil") && irEndsInReturn(is.Body) {
					rs := is.Body.List[len(is.Body.List)-1].(*ast.ReturnStmt)
					waitProp = len(rs.Results) == 1 && !isIdent(rs.Results[0], "nil")
				}
			}
		}
	}

	// blocking primitives inside collectSpecs (closures included): the model's goroutines block only in the
	// read and in g.Wait(); anything else that can block makes the progress theorem inapplicable
	blockFree := groupVar != ""
	nLock, nWait := 0, 0
	ast.Inspect(collect.Body, func(n ast.Node) bool {
		switch x := n.(type) {
		case *ast.SendStmt, *ast.SelectStmt, *ast.GoStmt:
			blockFree = false
		case *ast.UnaryExpr:
			if x.Op == token.ARROW {
				blockFree = false
			}
		case *ast.RangeStmt:
			// ranging over a channel blocks; ranging over the children slice does not
			if id, ok := x.X.(*ast.Ident); !ok || id.Name != childrenVar {
				blockFree = false
			}
		case *ast.CallExpr:
			ch := selChain(x.Fun)
			if len(ch) == 0 {
				return true
			}
			switch ch[len(ch)-1] {
			case "Lock":
				nLock++
				if !irChainIs(x.Fun, pRetr, "mutex", "Lock") {
					blockFree = false
				}
			case "Wait":
				nWait++
				if !(len(ch) == 2 && ch[0] == groupVar) {
					blockFree = false
				}
			case "RLock", "Acquire", "SetLimit", "TryGo", "Sleep", "Do", "After", "Tick", "NewTimer", "WithTimeout", "WithDeadline":
				blockFree = false
			}
		}
		return true
	})
	blockFree = blockFree && nLock == 1 && nWait == 1 && claimUnderMutex

	// ---------------- flattenSpecs ----------------
	var fp []string
	for _, f := range flatten.Type.Params.List {
		for _, n := range f.Names {
			fp = append(fp, n.Name)
		}
	}
	dedup, preorder, dir := false, false, "DirUnknown"
	if len(fp) == 3 {
		fSpecs, fName, fRetr := fp[0], fp[1], fp[2]
		fIndexVar := ""
		for _, st := range flatten.Body.List {
			switch s := st.(type) {
			case *ast.AssignStmt:
				if len(s.Lhs) == 1 && len(s.Rhs) == 1 {
					if c, ok := s.Rhs[0].(*ast.CallExpr); ok && isIdent(c.Fun, "fileNameToIndex") && len(c.Args) == 1 && isIdent(c.Args[0], fName) {
						if id, ok := s.Lhs[0].(*ast.Ident); ok {
							fIndexVar = id.Name
						}
					}
				}
			case *ast.RangeStmt:
				// for _, si := range *specs { if fileNameToIndex(si.src.filename) == idx { return } }
				if st, ok := s.X.(*ast.StarExpr); ok && isIdent(st.X, fSpecs) && len(s.Body.List) == 1 {
					if is, ok := s.Body.List[0].(*ast.IfStmt); ok && irEndsInReturn(is.Body) {
						if be, ok := is.Cond.(*ast.BinaryExpr); ok && be.Op == token.EQL && fIndexVar != "" {
							l, r := be.X, be.Y
							if isIdent(l, fIndexVar) {
								l, r = r, l
							}
							if c, ok := l.(*ast.CallExpr); ok && isIdent(c.Fun, "fileNameToIndex") && isIdent(r, fIndexVar) {
								dedup = true
							}
						}
					}
				}
			case *ast.IfStmt:
				// if found { *specs = append(*specs, fi.src); for _, v := range fi.imports { flattenSpecs(specs, v.filename, retrieved) } }
				iApp, iLoop := -1, -1
				for j, in := range s.Body.List {
					switch x := in.(type) {
					case *ast.AssignStmt:
						if len(x.Rhs) == 1 {
							if c, ok := x.Rhs[0].(*ast.CallExpr); ok && isIdent(c.Fun, "append") && iApp < 0 {
								iApp = j
							}
						}
					case *ast.RangeStmt:
						if ch := selChain(x.X); len(ch) == 2 && ch[1] == "imports" && iLoop < 0 {
							iLoop = j
							if v, ok := x.Value.(*ast.Ident); ok && isIdent(x.Key, "_") && len(x.Body.List) == 1 {
								if es, ok := x.Body.List[0].(*ast.ExprStmt); ok {
									if c, ok := es.X.(*ast.CallExpr); ok && isIdent(c.Fun, "flattenSpecs") && len(c.Args) == 3 &&
										isIdent(c.Args[0], fSpecs) && irChainIs(c.Args[1], v.Name, "filename") && isIdent(c.Args[2], fRetr) {
										dir = "Forward"
									}
								}
							}
						}
					case *ast.ForStmt:
						if iLoop < 0 && irContainsCall(x.Body, "flattenSpecs") {
							iLoop = j
							if p, ok := x.Post.(*ast.IncDecStmt); ok {
								if p.Tok == token.DEC {
									dir = "Reverse"
								} else if as, ok := x.Init.(*ast.AssignStmt); ok && len(as.Rhs) == 1 && irIsIntLit(as.Rhs[0], "0") {
									dir = "Forward"
								}
							}
						}
					}
				}
				if iApp >= 0 && iLoop >= 0 {
					preorder = iApp < iLoop
				}
			}
		}
	}

	// ---------------- fileNameToIndex / cleanImportFilename ----------------
	var ops []string
	cleanIsReplace := false
	if len(clean.Body.List) == 1 {
		if rs, ok := clean.Body.List[0].(*ast.ReturnStmt); ok && len(rs.Results) == 1 {
			if c, ok := rs.Results[0].(*ast.CallExpr); ok && irChainIs(c.Fun, "strings", "ReplaceAll") && len(c.Args) == 3 {
				a, aok := c.Args[1].(*ast.BasicLit)
				b, bok := c.Args[2].(*ast.BasicLit)
				cleanIsReplace = aok && bok && (a.Value == "`\\`" || a.Value == `"\\"`) && (b.Value == "`/`" || b.Value == `"/"`)
			}
		}
	}
	retVar, posVar := "", ""
	for _, st := range toIndex.Body.List {
		switch s := st.(type) {
		case *ast.AssignStmt:
			if len(s.Lhs) != 1 || len(s.Rhs) != 1 {
				ops = append(ops, "IndexUnknown")
				continue
			}
			c, ok := s.Rhs[0].(*ast.CallExpr)
			id, _ := s.Lhs[0].(*ast.Ident)
			switch {
			case ok && id != nil && isIdent(c.Fun, "cleanImportFilename") && len(c.Args) == 1:
				retVar = id.Name
				if cleanIsReplace {
					ops = append(ops, "ReplaceBackslash")
				} else {
					ops = append(ops, "IndexUnknown")
				}
			case ok && id != nil && irChainIs(c.Fun, "strings", "Index") && len(c.Args) == 2 && isIdent(c.Args[0], retVar):
				if l, ok := c.Args[1].(*ast.BasicLit); ok && l.Value == `"@"` {
					posVar = id.Name
				} else {
					ops = append(ops, "IndexUnknown")
				}
			default:
				ops = append(ops, "IndexUnknown")
			}
		case *ast.IfStmt:
			// the normalisation step of fixes/C05-2 (`if syslutil.IsRemoteImport(ret) { ret = "/" + path.Clean(ret) } else
			// { ret = path.Clean(ret) }`) is a fact of the NameRules table (translate/namerules.go, index_shape); this
			// table, which C06 shares, lists the two string operations before it and is the same with and without it
			if retVar != "" && nrIsCleanStep(pf, s, retVar) {
				continue
			}
			// if i > -1 { ret = ret[:i] }
			good := false
			if be, ok := s.Cond.(*ast.BinaryExpr); ok && posVar != "" && isIdent(be.X, posVar) && len(s.Body.List) == 1 && s.Else == nil {
				neg1 := false
				if u, ok := be.Y.(*ast.UnaryExpr); ok && u.Op == token.SUB && irIsIntLit(u.X, "1") && be.Op == token.GTR {
					neg1 = true
				}
				if irIsIntLit(be.Y, "0") && be.Op == token.GEQ {
					neg1 = true
				}
				if as, ok := s.Body.List[0].(*ast.AssignStmt); ok && neg1 && len(as.Lhs) == 1 && len(as.Rhs) == 1 && isIdent(as.Lhs[0], retVar) {
					if sl, ok := as.Rhs[0].(*ast.SliceExpr); ok && isIdent(sl.X, retVar) && sl.Low == nil && isIdent(sl.High, posVar) {
						good = true
					}
				}
			}
			if good {
				ops = append(ops, "CutAtVersion")
			} else {
				ops = append(ops, "IndexUnknown")
			}
		case *ast.ReturnStmt:
			ok := false
			if len(s.Results) == 1 {
				if c, isC := s.Results[0].(*ast.CallExpr); isC && len(c.Args) == 1 && isIdent(c.Args[0], retVar) {
					ok = true
				}
				if isIdent(s.Results[0], retVar) {
					ok = true
				}
			}
			if !ok {
				ops = append(ops, "IndexUnknown")
			}
		default:
			ops = append(ops, "IndexUnknown")
		}
	}

	// ---------------- extractImports ----------------
	// for scanner.Scan() { if <line is an import statement> { importsInput.Write(..); importsInput.WriteByte('\n') } }
	// where the test is either bytes.HasPrefix(line, <var = []byte("import"+sep)>) or isImportLine(line) with
	//   return bytes.HasPrefix(line, kw) && len(line) > len(kw) && (line[len(kw)] == c1 || line[len(kw)] == c2 ...)
	// and kw = []byte("import"). What is extracted: the characters accepted right after the keyword.
	extractAll := false
	var seps []int
	byteVar := func(name string) (string, bool) { // var name = []byte("...")
		for _, d := range pf.file.Decls {
			gd, ok := d.(*ast.GenDecl)
			if !ok || gd.Tok != token.VAR {
				continue
			}
			for _, sp := range gd.Specs {
				vs, ok := sp.(*ast.ValueSpec)
				if !ok || len(vs.Names) != 1 || vs.Names[0].Name != name || len(vs.Values) != 1 {
					continue
				}
				if c, ok := vs.Values[0].(*ast.CallExpr); ok && len(c.Args) == 1 {
					if l, ok := c.Args[0].(*ast.BasicLit); ok && l.Kind == token.STRING {
						if v, err := strconv.Unquote(l.Value); err == nil {
							return v, true
						}
					}
				}
			}
		}
		return "", false
	}
	var conj func(e ast.Expr, op token.Token, out *[]ast.Expr)
	conj = func(e ast.Expr, op token.Token, out *[]ast.Expr) {
		for {
			if p, ok := e.(*ast.ParenExpr); ok {
				e = p.X
				continue
			}
			break
		}
		if be, ok := e.(*ast.BinaryExpr); ok && be.Op == op {
			conj(be.X, op, out)
			conj(be.Y, op, out)
			return
		}
		*out = append(*out, e)
	}
	isLenOf := func(e ast.Expr, name string) bool {
		c, ok := e.(*ast.CallExpr)
		return ok && isIdent(c.Fun, "len") && len(c.Args) == 1 && isIdent(c.Args[0], name)
	}
	// classify the test applied to a line; returns the accepted separators
	lineTest := func(cond ast.Expr) ([]int, bool) {
		c, ok := cond.(*ast.CallExpr)
		if !ok {
			return nil, false
		}
		isLine := func(e ast.Expr) bool {
			a0, ok := e.(*ast.CallExpr)
			return ok && len(selChain(a0.Fun)) == 2 && selChain(a0.Fun)[1] == "Bytes"
		}
		if irChainIs(c.Fun, "bytes", "HasPrefix") && len(c.Args) == 2 && isLine(c.Args[0]) {
			if id, ok := c.Args[1].(*ast.Ident); ok {
				if v, ok := byteVar(id.Name); ok && len(v) == 7 && v[:6] == "import" {
					return []int{int(v[6])}, true
				}
			}
			return nil, false
		}
		id, ok := c.Fun.(*ast.Ident)
		if !ok || len(c.Args) != 1 || !isLine(c.Args[0]) {
			return nil, false
		}
		fd := irFindFunc(pf.file, id.Name)
		if fd == nil || fd.Type.Params == nil || len(fd.Type.Params.List) != 1 || len(fd.Type.Params.List[0].Names) != 1 || len(fd.Body.List) != 1 {
			return nil, false
		}
		param := fd.Type.Params.List[0].Names[0].Name
		rs, ok := fd.Body.List[0].(*ast.ReturnStmt)
		if !ok || len(rs.Results) != 1 {
			return nil, false
		}
		var parts []ast.Expr
		conj(rs.Results[0], token.LAND, &parts)
		if len(parts) != 3 {
			return nil, false
		}
		kw, okPrefix, okLen := "", false, false
		var out []int
		for _, pt := range parts {
			switch x := pt.(type) {
			case *ast.CallExpr:
				if irChainIs(x.Fun, "bytes", "HasPrefix") && len(x.Args) == 2 && isIdent(x.Args[0], param) {
					if id, ok := x.Args[1].(*ast.Ident); ok {
						if v, ok := byteVar(id.Name); ok && v == "import" {
							kw, okPrefix = id.Name, true
						}
					}
				}
			}
		}
		if !okPrefix {
			return nil, false
		}
		for _, pt := range parts {
			be, ok := pt.(*ast.BinaryExpr)
			if !ok {
				continue
			}
			if be.Op == token.GTR && isLenOf(be.X, param) && isLenOf(be.Y, kw) {
				okLen = true
				continue
			}
			var alts []ast.Expr
			conj(pt, token.LOR, &alts)
			for _, a := range alts {
				ab, ok := a.(*ast.BinaryExpr)
				if !ok || ab.Op != token.EQL {
					return nil, false
				}
				ix, ok := ab.X.(*ast.IndexExpr)
				lit, ok2 := ab.Y.(*ast.BasicLit)
				if !ok || !ok2 || !isIdent(ix.X, param) || !isLenOf(ix.Index, kw) || lit.Kind != token.CHAR {
					return nil, false
				}
				v, _, _, err := strconv.UnquoteChar(lit.Value[1:len(lit.Value)-1], '\'')
				if err != nil {
					return nil, false
				}
				out = append(out, int(v))
			}
		}
		if !okLen || len(out) == 0 {
			return nil, false
		}
		sort.Ints(out)
		return out, true
	}
	if ex := irFindFunc(pf.file, "extractImports"); ex != nil {
		nLoops, loopOK := 0, false
		for _, st := range ex.Body.List {
			fs, ok := st.(*ast.ForStmt)
			if !ok {
				continue
			}
			nLoops++
			if fs.Init != nil || fs.Post != nil || len(fs.Body.List) != 1 {
				continue
			}
			cond, ok := fs.Cond.(*ast.CallExpr)
			if !ok || len(selChain(cond.Fun)) != 2 || selChain(cond.Fun)[1] != "Scan" {
				continue
			}
			is, ok := fs.Body.List[0].(*ast.IfStmt)
			if !ok || is.Init != nil || is.Else != nil {
				continue
			}
			sp, ok := lineTest(is.Cond)
			if !ok {
				continue
			}
			// the body only writes (no break / return / continue / nested control flow)
			writes, other := 0, 0
			for _, b := range is.Body.List {
				if es, ok := b.(*ast.ExprStmt); ok {
					if c, ok := es.X.(*ast.CallExpr); ok {
						if ch := selChain(c.Fun); len(ch) == 2 && strings.HasPrefix(ch[1], "Write") {
							writes++
							continue
						}
					}
				}
				other++
			}
			if writes == 2 && other == 0 {
				loopOK, seps = true, sp
			}
		}
		extractAll = loopOK && nLoops == 1
	}
	sepS := make([]string, len(seps))
	for i, c := range seps {
		sepS[i] = fmt.Sprint(c)
	}

	var sb strings.Builder
	sb.WriteString("(* GENERATED by vt ImportRules from pkg/parse/parse.go, pkg/parse/utils.go -- do not edit *)\n")
	sb.WriteString("From Coq Require Import List NArith.\nImport ListNotations.\nRequire Import Verif.Imports.Rules.\n")
	sb.WriteString("Definition current_rules : rules := {|\n")
	fmt.Fprintf(&sb, "  depth_guard_first := %s;\n", irBool(guardFirst))
	fmt.Fprintf(&sb, "  depth_needs_positive_max := %s;\n", irBool(needsPos))
	fmt.Fprintf(&sb, "  depth_cut := %s;\n", cutKind)
	fmt.Fprintf(&sb, "  claim_under_mutex := %s;\n", irBool(claimUnderMutex))
	fmt.Fprintf(&sb, "  claim_before_read := %s;\n", irBool(claimBeforeRead))
	fmt.Fprintf(&sb, "  imports_recorded_before_fanout := %s;\n", irBool(recordedBefore))
	fmt.Fprintf(&sb, "  fanout_one_per_child := %s;\n", irBool(fanOne))
	fmt.Fprintf(&sb, "  child_depth_plus_one := %s;\n", irBool(plusOne))
	fmt.Fprintf(&sb, "  wait_and_propagate := %s;\n", irBool(waitProp))
	fmt.Fprintf(&sb, "  flatten_dedup_by_index := %s;\n", irBool(dedup))
	fmt.Fprintf(&sb, "  flatten_preorder := %s;\n", irBool(preorder))
	fmt.Fprintf(&sb, "  flatten_order := %s;\n", dir)
	fmt.Fprintf(&sb, "  index_ops := [%s];\n", strings.Join(ops, "; "))
	fmt.Fprintf(&sb, "  extract_every_import_line := %s;\n", irBool(extractAll))
	fmt.Fprintf(&sb, "  collect_blocks_only_in_read_and_wait := %s;\n", irBool(blockFree))
	fmt.Fprintf(&sb, "  extract_separators := [%s]%%N\n|}.\n", strings.Join(sepS, "; "))
	return sb.String(), nil
}
