package main

import (
	"fmt"
	"go/ast"
	"go/token"
	"strings"
)

// CmdGuards, second table (C20 round 3, second pass): facts about code that runs on the ERROR paths.
//
//	fmt_current (Cmds/FmtModel.v fguards) - format strings that come from the model's attributes
//	  g_fmt_eager         cmdutils.FormatParser.Expansions: no parsing step - fp.Eat, fp.Pop, the nested fp.Expansions,
//	                      regexp.MustCompile / Compile, panic - is control dependent on the values: it sits in no if / switch /
//	                      for whose condition, and behind no && / || whose left operand, mentions a variable that is computed
//	                      from the `attrs` parameter (directly, or assigned under such a condition). This is what makes one trial
//	                      Parse without values (Check) decide for all values.
//	  g_fmt_check         FormatParser.Check: a deferred function literal that calls recover() and assigns the named result,
//	                      and a call fp.Parse(<empty map literal>)
//	  g_sd_fmt_checked    sequencediagram.DoConstructSequenceDiagrams: every parser it builds (ConstructFormatParser /
//	                      MakeFormatParser, always bound to a variable) is handed to checkFormats / .Check() in an
//	                      `if err := ..; err != nil { return }`; checkFormats calls .Check() on every element and returns the error
//	  g_ints_fmt_checked  integrationdiagram: every MakeFormatParser(<arg>) of ints_view.go takes a call of a package-level
//	                      accessor function, and GenerateIntegrations ranges over a slice literal that calls each of those
//	                      accessors with a body `if err := cmdutils.MakeFormatParser(<range variable>).Check(); err != nil { return }`
//
//	imp_current (Cmds/ImpModel.v iguards) - the name stack of the Swagger / OpenAPI 2 importer
//	  g_imp_restore       OpenAPI3Importer.buildField: where the stack saved before `o.nameStack = nil` is put back relative to
//	                      the nested loadTypeSchema call and its error test: a defer registered before the call (RDeferred), an
//	                      assignment between the call and `if err != nil` (RBeforeCheck), one behind that test (RAfterCheck),
//	                      none / unclassifiable (RNever)
//	  g_imp_resp_err      OpenAPI3Importer.buildResponses: the statement behind `f, err := o.fieldForMediaType(..)` is
//	                      `if err != nil { return .. }`
func mentionsAny(n ast.Node, names map[string]bool) bool {
	found := false
	ast.Inspect(n, func(x ast.Node) bool {
		if id, ok := x.(*ast.Ident); ok && names[id.Name] {
			found = true
		}
		return !found
	})
	return found
}

func assignedIdents(lhs []ast.Expr) []string {
	var out []string
	for _, l := range lhs {
		if id, ok := l.(*ast.Ident); ok && id.Name != "_" {
			out = append(out, id.Name)
		}
	}
	return out
}

// fmtEager: see g_fmt_eager above. Returns the verdict and a note naming the first dependent step.
func fmtEager(fd *ast.FuncDecl) (bool, string) {
	recv := recvVar(fd)
	attrs := ""
	for _, p := range fd.Type.Params.List {
		if _, ok := p.Type.(*ast.MapType); ok && len(p.Names) > 0 {
			attrs = p.Names[0].Name
		}
	}
	if recv == "" || attrs == "" {
		return false, "no receiver / no map parameter"
	}
	tainted := map[string]bool{attrs: true}
	// fixpoint: data flow through assignments, and assignments made under a tainted condition
	for changed := true; changed; {
		changed = false
		var walk func(n ast.Node, under bool)
		mark := func(names []string) {
			for _, n := range names {
				if !tainted[n] {
					tainted[n] = true
					changed = true
				}
			}
		}
		walk = func(n ast.Node, under bool) {
			switch x := n.(type) {
			case nil:
				return
			case *ast.BlockStmt:
				for _, s := range x.List {
					walk(s, under)
				}
			case *ast.AssignStmt:
				dep := under
				for _, r := range x.Rhs {
					if mentionsAny(r, tainted) {
						dep = true
					}
				}
				if dep {
					mark(assignedIdents(x.Lhs))
				}
			case *ast.DeclStmt:
				if gd, ok := x.Decl.(*ast.GenDecl); ok {
					for _, sp := range gd.Specs {
						if vs, ok := sp.(*ast.ValueSpec); ok {
							dep := under
							for _, v := range vs.Values {
								if mentionsAny(v, tainted) {
									dep = true
								}
							}
							if dep {
								for _, nm := range vs.Names {
									mark([]string{nm.Name})
								}
							}
						}
					}
				}
			case *ast.IfStmt:
				walk(x.Init, under)
				u := under || mentionsAny(x.Cond, tainted)
				walk(x.Body, u)
				walk(x.Else, u)
			case *ast.ForStmt:
				u := under || (x.Cond != nil && mentionsAny(x.Cond, tainted))
				walk(x.Body, u)
			case *ast.RangeStmt:
				walk(x.Body, under || mentionsAny(x.X, tainted))
			case *ast.SwitchStmt:
				u := under || (x.Tag != nil && mentionsAny(x.Tag, tainted))
				for _, c := range x.Body.List {
					cc := c.(*ast.CaseClause)
					uc := u
					for _, e := range cc.List {
						if mentionsAny(e, tainted) {
							uc = true
						}
					}
					for _, s := range cc.Body {
						walk(s, uc)
					}
				}
			}
		}
		walk(fd.Body, false)
	}
	isStep := func(c *ast.CallExpr) string {
		if isIdent(c.Fun, "panic") {
			return "panic"
		}
		ch := selChain(c.Fun)
		if len(ch) == 2 && ch[0] == recv && (ch[1] == "Eat" || ch[1] == "Pop" || ch[1] == "Expansions") {
			return recv + "." + ch[1]
		}
		if len(ch) == 2 && ch[0] == "regexp" && (ch[1] == "MustCompile" || ch[1] == "Compile") {
			return "regexp." + ch[1]
		}
		return ""
	}
	containsStep := func(n ast.Node) string {
		hit := ""
		ast.Inspect(n, func(x ast.Node) bool {
			if c, ok := x.(*ast.CallExpr); ok && hit == "" {
				hit = isStep(c)
			}
			return hit == ""
		})
		return hit
	}
	bad := ""
	var scan func(n ast.Node, under bool)
	scanExpr := func(e ast.Node, under bool) {
		if e == nil {
			return
		}
		if under {
			if s := containsStep(e); s != "" && bad == "" {
				bad = s + " under a condition on the values"
			}
		}
		// short-circuit operators
		ast.Inspect(e, func(x ast.Node) bool {
			if b, ok := x.(*ast.BinaryExpr); ok && (b.Op == token.LAND || b.Op == token.LOR) && mentionsAny(b.X, tainted) {
				if s := containsStep(b.Y); s != "" && bad == "" {
					bad = s + " behind a short-circuit test of the values"
				}
			}
			return true
		})
	}
	scan = func(n ast.Node, under bool) {
		switch x := n.(type) {
		case nil:
			return
		case *ast.BlockStmt:
			for _, s := range x.List {
				scan(s, under)
			}
		case *ast.IfStmt:
			scan(x.Init, under)
			scanExpr(x.Cond, under)
			u := under || mentionsAny(x.Cond, tainted)
			scan(x.Body, u)
			scan(x.Else, u)
		case *ast.ForStmt:
			scan(x.Init, under)
			if x.Cond != nil {
				scanExpr(x.Cond, under)
			}
			scan(x.Body, under || (x.Cond != nil && mentionsAny(x.Cond, tainted)))
		case *ast.RangeStmt:
			scanExpr(x.X, under)
			scan(x.Body, under || mentionsAny(x.X, tainted))
		case *ast.SwitchStmt:
			u := under || (x.Tag != nil && mentionsAny(x.Tag, tainted))
			for _, c := range x.Body.List {
				cc := c.(*ast.CaseClause)
				uc := u
				for _, e := range cc.List {
					scanExpr(e, u)
					if mentionsAny(e, tainted) {
						uc = true
					}
				}
				for _, s := range cc.Body {
					scan(s, uc)
				}
			}
		default:
			scanExpr(n, under)
		}
	}
	scan(fd.Body, false)
	if bad != "" {
		return false, bad
	}
	if containsStep(fd.Body) == "" {
		return false, "no parsing step recognised"
	}
	return true, "every Eat / Pop / Expansions / MustCompile / panic is independent of the values"
}

func bodyReturnsAny(b *ast.BlockStmt) bool {
	for _, s := range b.List {
		if _, ok := s.(*ast.ReturnStmt); ok {
			return true
		}
	}
	return false
}

// `if err := <call>; err != nil { return .. }` : the call
func errGuardedCall(s ast.Stmt) *ast.CallExpr {
	is, ok := s.(*ast.IfStmt)
	if !ok || is.Init == nil || !bodyReturnsAny(is.Body) {
		return nil
	}
	as, ok := is.Init.(*ast.AssignStmt)
	if !ok || len(as.Rhs) != 1 {
		return nil
	}
	be, ok := is.Cond.(*ast.BinaryExpr)
	if !ok || be.Op != token.NEQ || !(isNilIdent(be.X) || isNilIdent(be.Y)) {
		return nil
	}
	c, _ := as.Rhs[0].(*ast.CallExpr)
	return c
}

func isParserCtor(c *ast.CallExpr) bool {
	ch := selChain(c.Fun)
	if len(ch) == 0 {
		return false
	}
	n := ch[len(ch)-1]
	return n == "ConstructFormatParser" || n == "MakeFormatParser"
}

func fmtCheckMethod(fd *ast.FuncDecl) bool {
	if fd == nil || fd.Body == nil || fd.Type.Results == nil || len(fd.Type.Results.List) != 1 || len(fd.Type.Results.List[0].Names) != 1 {
		return false
	}
	res := fd.Type.Results.List[0].Names[0].Name
	recovers, trial := false, false
	ast.Inspect(fd.Body, func(n ast.Node) bool {
		switch x := n.(type) {
		case *ast.DeferStmt:
			if fl, ok := x.Call.Fun.(*ast.FuncLit); ok {
				hasRec, sets := false, false
				ast.Inspect(fl.Body, func(m ast.Node) bool {
					if c, ok := m.(*ast.CallExpr); ok && isIdent(c.Fun, "recover") {
						hasRec = true
					}
					if as, ok := m.(*ast.AssignStmt); ok {
						for _, l := range as.Lhs {
							if isIdent(l, res) {
								sets = true
							}
						}
					}
					return true
				})
				recovers = recovers || (hasRec && sets)
			}
		case *ast.CallExpr:
			if ch := selChain(x.Fun); len(ch) == 2 && ch[1] == "Parse" && len(x.Args) == 1 {
				if cl, ok := x.Args[0].(*ast.CompositeLit); ok && len(cl.Elts) == 0 {
					trial = true
				}
			}
		}
		return true
	})
	return recovers && trial
}

func sdFmtChecked(gf *goFile) (bool, string) {
	fd := findFunc(gf, "", "DoConstructSequenceDiagrams")
	cf := findFunc(gf, "", "checkFormats")
	if fd == nil || fd.Body == nil {
		return false, "DoConstructSequenceDiagrams not found"
	}
	// checkFormats: for _, fp := range <param> { if err := fp.Check(); err != nil { return err } }
	cfOK := false
	if cf != nil && cf.Body != nil && len(cf.Type.Params.List) == 1 && len(cf.Type.Params.List[0].Names) == 1 {
		prm := cf.Type.Params.List[0].Names[0].Name
		for _, s := range cf.Body.List {
			if rs, ok := s.(*ast.RangeStmt); ok && isIdent(rs.X, prm) && rs.Value != nil {
				v := rs.Value.(*ast.Ident).Name
				for _, bs := range rs.Body.List {
					if c := errGuardedCall(bs); c != nil {
						if ch := selChain(c.Fun); len(ch) == 2 && ch[0] == v && ch[1] == "Check" {
							cfOK = true
						}
					}
				}
			}
		}
	}
	// per statement list: a parser bound to a variable must be checked further down the SAME list (the same variable name
	// checked in another branch does not count)
	nBuilt := 0
	var missing []string
	unbound := 0
	bound := map[*ast.CallExpr]bool{}
	ast.Inspect(fd.Body, func(n ast.Node) bool {
		var list []ast.Stmt
		switch x := n.(type) {
		case *ast.BlockStmt:
			list = x.List
		case *ast.CaseClause:
			list = x.Body
		default:
			return true
		}
		for i, st := range list {
			as, ok := st.(*ast.AssignStmt)
			if !ok || len(as.Lhs) != 1 || len(as.Rhs) != 1 {
				continue
			}
			c, ok := as.Rhs[0].(*ast.CallExpr)
			if !ok || !isParserCtor(c) {
				continue
			}
			id, ok := as.Lhs[0].(*ast.Ident)
			if !ok {
				continue
			}
			bound[c] = true
			nBuilt++
			okHere := false
			for _, later := range list[i+1:] {
				gc := errGuardedCall(later)
				if gc == nil {
					// a use of the parser before it is checked
					if mentionsAny(later, map[string]bool{id.Name: true}) {
						break
					}
					continue
				}
				ch := selChain(gc.Fun)
				if len(ch) == 1 && ch[0] == "checkFormats" && cfOK {
					for _, a := range gc.Args {
						if isIdent(a, id.Name) {
							okHere = true
						}
					}
				}
				if len(ch) == 2 && ch[0] == id.Name && ch[1] == "Check" {
					okHere = true
				}
				if okHere {
					break
				}
			}
			if !okHere {
				missing = append(missing, id.Name)
			}
		}
		return true
	})
	ast.Inspect(fd.Body, func(n ast.Node) bool {
		if c, ok := n.(*ast.CallExpr); ok && isParserCtor(c) && !bound[c] {
			unbound++
		}
		return true
	})
	if nBuilt == 0 {
		return false, "no parser construction recognised"
	}
	if unbound > 0 || len(missing) > 0 {
		return false, fmt.Sprintf("unchecked parsers: %v, parsers used without a variable: %d", missing, unbound)
	}
	return true, fmt.Sprintf("%d parsers built, each checked before it is used", nBuilt)
}

func intsFmtChecked(repo string) (bool, string) {
	gv, err := parseGo(repo, "pkg/integrationdiagram/ints_view.go")
	if err != nil {
		return false, err.Error()
	}
	gi, err := parseGo(repo, "pkg/integrationdiagram/integrationdiagram.go")
	if err != nil {
		return false, err.Error()
	}
	accessors := map[string]bool{}
	other := 0
	ast.Inspect(gv.file, func(n ast.Node) bool {
		if c, ok := n.(*ast.CallExpr); ok && isParserCtor(c) && len(c.Args) >= 1 {
			if a, ok := c.Args[0].(*ast.CallExpr); ok {
				if id, ok := a.Fun.(*ast.Ident); ok {
					accessors[id.Name] = true
					return true
				}
			}
			other++
		}
		return true
	})
	if other > 0 {
		return false, fmt.Sprintf("%d MakeFormatParser calls of ints_view.go take something else than an accessor call", other)
	}
	fd := findFunc(gi, "", "GenerateIntegrations")
	if fd == nil || fd.Body == nil {
		return false, "GenerateIntegrations not found"
	}
	tried := map[string]bool{}
	ast.Inspect(fd.Body, func(n ast.Node) bool {
		rs, ok := n.(*ast.RangeStmt)
		if !ok || rs.Value == nil {
			return true
		}
		cl, ok := rs.X.(*ast.CompositeLit)
		v, ok2 := rs.Value.(*ast.Ident)
		if !ok || !ok2 {
			return true
		}
		guarded := false
		for _, s := range rs.Body.List {
			if c := errGuardedCall(s); c != nil {
				if sel, ok := c.Fun.(*ast.SelectorExpr); ok && sel.Sel.Name == "Check" {
					if mk, ok := sel.X.(*ast.CallExpr); ok && isParserCtor(mk) && len(mk.Args) == 1 && isIdent(mk.Args[0], v.Name) {
						guarded = true
					}
				}
			}
		}
		if guarded {
			for _, e := range cl.Elts {
				if c, ok := e.(*ast.CallExpr); ok {
					if id, ok := c.Fun.(*ast.Ident); ok {
						tried[id.Name] = true
					}
				}
			}
		}
		return true
	})
	var missing []string
	for a := range accessors {
		if !tried[a] {
			missing = append(missing, a)
		}
	}
	if len(missing) > 0 {
		return false, fmt.Sprintf("format accessors not tried up front: %v", missing)
	}
	return true, fmt.Sprintf("%d accessors, all tried by GenerateIntegrations", len(accessors))
}

func impRestore(fd *ast.FuncDecl) (string, string) {
	recv := recvVar(fd)
	isStackAssign := func(s ast.Stmt, wantNil bool) bool {
		as, ok := s.(*ast.AssignStmt)
		if !ok || len(as.Lhs) != 1 || len(as.Rhs) != 1 {
			return false
		}
		ch := selChain(as.Lhs[0])
		if len(ch) != 2 || ch[0] != recv || ch[1] != "nameStack" {
			return false
		}
		if wantNil {
			return isNilIdent(as.Rhs[0])
		}
		_, isId := as.Rhs[0].(*ast.Ident)
		return isId && !isNilIdent(as.Rhs[0])
	}
	verdict, note := "RNever", "no `"+recv+".nameStack = nil` found"
	ast.Inspect(fd.Body, func(n ast.Node) bool {
		var list []ast.Stmt
		switch x := n.(type) {
		case *ast.BlockStmt:
			list = x.List
		case *ast.CaseClause:
			list = x.Body
		default:
			return true
		}
		iNil := -1
		for i, s := range list {
			if isStackAssign(s, true) {
				iNil = i
			}
		}
		if iNil < 0 {
			return true
		}
		iCall, iCheck, iDefer, iAssign := -1, -1, -1, -1
		for i := iNil + 1; i < len(list); i++ {
			s := list[i]
			if ds, ok := s.(*ast.DeferStmt); ok && iDefer < 0 {
				if fl, ok := ds.Call.Fun.(*ast.FuncLit); ok {
					for _, bs := range fl.Body.List {
						if isStackAssign(bs, false) {
							iDefer = i
						}
					}
				}
			}
			if iCall < 0 {
				if as, ok := s.(*ast.AssignStmt); ok {
					for _, r := range as.Rhs {
						if c, ok := r.(*ast.CallExpr); ok {
							if ch := selChain(c.Fun); len(ch) == 2 && ch[1] == "loadTypeSchema" {
								iCall = i
							}
						}
					}
				}
			}
			if is, ok := s.(*ast.IfStmt); ok && iCall >= 0 && iCheck < 0 {
				if be, ok := is.Cond.(*ast.BinaryExpr); ok && be.Op == token.NEQ && isIdent(be.X, "err") && isNilIdent(be.Y) && bodyReturnsAny(is.Body) {
					iCheck = i
				}
			}
			if isStackAssign(s, false) && iAssign < 0 {
				iAssign = i
			}
		}
		switch {
		case iCall < 0 || iCheck < 0:
			verdict, note = "RNever", "the nested loadTypeSchema call / its error test was not recognised"
		case iDefer >= 0 && iDefer < iCall:
			verdict, note = "RDeferred", "defer func() { nameStack = saved }() registered before the nested call"
		case iAssign > iCall && iAssign < iCheck:
			verdict, note = "RBeforeCheck", "assignment between the nested call and its error test"
		case iAssign > iCheck:
			verdict, note = "RAfterCheck", "assignment behind `if err != nil { return }`: the error path keeps the emptied stack"
		default:
			verdict, note = "RNever", "the saved stack is not put back"
		}
		return false
	})
	return verdict, note
}

func impRespErrFirst(fd *ast.FuncDecl) bool {
	ok := false
	seen := false
	ast.Inspect(fd.Body, func(n ast.Node) bool {
		b, isB := n.(*ast.BlockStmt)
		if !isB {
			return true
		}
		for i, s := range b.List {
			as, isA := s.(*ast.AssignStmt)
			if !isA || len(as.Rhs) != 1 {
				continue
			}
			c, isC := as.Rhs[0].(*ast.CallExpr)
			if !isC {
				continue
			}
			if ch := selChain(c.Fun); len(ch) == 2 && ch[1] == "fieldForMediaType" {
				seen = true
				if i+1 < len(b.List) {
					if is, isI := b.List[i+1].(*ast.IfStmt); isI && is.Init == nil && bodyReturnsAny(is.Body) {
						if be, isBe := is.Cond.(*ast.BinaryExpr); isBe && be.Op == token.NEQ && isIdent(be.X, "err") && isNilIdent(be.Y) {
							ok = true
						}
					}
				}
			}
		}
		return true
	})
	return seen && ok
}

// cmdGuardsErrorPaths renders fmt_current and imp_current (appended to Gen/CmdGuards.v).
func cmdGuardsErrorPaths(repo string) (string, error) {
	var b strings.Builder
	var notes []string
	gfFmt, err := parseGo(repo, "pkg/cmdutils/fmtparser.go")
	if err != nil {
		return "", err
	}
	eager, checkOK := false, false
	if fd := findFunc(gfFmt, "FormatParser", "Expansions"); fd != nil && fd.Body != nil {
		var why string
		eager, why = fmtEager(fd)
		notes = append(notes, "FormatParser.Expansions: "+why)
	} else {
		notes = append(notes, "FormatParser.Expansions not found")
	}
	checkOK = fmtCheckMethod(findFunc(gfFmt, "FormatParser", "Check"))
	gfSd, err := parseGo(repo, "pkg/sequencediagram/sequencediagram.go")
	if err != nil {
		return "", err
	}
	sdOK, sdWhy := sdFmtChecked(gfSd)
	notes = append(notes, "DoConstructSequenceDiagrams: "+sdWhy)
	intsOK, intsWhy := intsFmtChecked(repo)
	notes = append(notes, "integrationdiagram: "+intsWhy)
	fmt.Fprintf(&b, "(* format strings taken from the model: cmdutils.FormatParser, sequencediagram.DoConstructSequenceDiagrams, integrationdiagram *)\nDefinition fmt_current : fguards := {|\n  g_fmt_eager := %s;\n  g_fmt_check := %s;\n  g_sd_fmt_checked := %s;\n  g_ints_fmt_checked := %s |}.\n\n",
		coqBool(eager), coqBool(checkOK), coqBool(sdOK), coqBool(intsOK))
	gfImp, err := parseGo(repo, "pkg/importer/openapi3_legacy.go")
	if err != nil {
		return "", err
	}
	restore, respOK := "RNever", false
	if fd := findFunc(gfImp, "OpenAPI3Importer", "buildField"); fd != nil && fd.Body != nil {
		var why string
		restore, why = impRestore(fd)
		notes = append(notes, "OpenAPI3Importer.buildField: "+why)
	} else {
		notes = append(notes, "OpenAPI3Importer.buildField not found")
	}
	if fd := findFunc(gfImp, "OpenAPI3Importer", "buildResponses"); fd != nil && fd.Body != nil {
		respOK = impRespErrFirst(fd)
	}
	fmt.Fprintf(&b, "(* the name stack of the Swagger / OpenAPI 2 importer (pkg/importer/openapi3_legacy.go) *)\nDefinition imp_current : iguards := {|\n  g_imp_restore := %s;\n  g_imp_resp_err := %s |}.\n\n", restore, coqBool(respOK))
	for _, n := range notes {
		fmt.Fprintf(&b, "(* %s *)\n", strings.ReplaceAll(strings.ReplaceAll(n, "(*", "( *"), "*)", "* )"))
	}
	return b.String(), nil
}
