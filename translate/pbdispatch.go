package main

import (
	"fmt"
	"go/ast"
	"go/token"
	"sort"
	"strings"
)

// PbDispatch: how a file name selects a decoder of compiled models, and which file extensions the
// foreign-format importers own.
//
//	cases            pkg/pbutil/input.go fromPBContents: the arms of the tagless switch, in order:
//	                 (suffix tested with strings.HasSuffix(pbPath, ..), package whose Unmarshal the arm calls)
//	after_switch     what the function returns when no arm matched (DecUnknown = ErrUnknownExtension)
//	frompb_fallback  pkg/pbutil/input.go FromPB: the decoder tried when the extension is unknown
//	formats          pkg/importer/formats.go: every `var X = Format{Name:.., FileExt:..}`
//	parser_formats   pkg/parse/parse.go detectFileType: the formats an `import` statement may resolve to
//	modes            cmd/sysl/cmd_protobuf.go: the --mode values
func init() { register("PbDispatch", pbDispatch) }

func c09decoder(body []ast.Stmt) string {
	found := map[string]bool{}
	for _, st := range body {
		ast.Inspect(st, func(n ast.Node) bool {
			c, ok := n.(*ast.CallExpr)
			if !ok {
				return true
			}
			ch := selChain(c.Fun)
			if len(ch) == 2 && ch[1] == "Unmarshal" {
				found[ch[0]] = true
			}
			return true
		})
	}
	if len(found) != 1 {
		return "DecOther"
	}
	for p := range found {
		switch p {
		case "proto":
			return "DecBinary"
		case "protojson":
			return "DecJson"
		case "prototext":
			return "DecText"
		}
	}
	return "DecOther"
}

func pbDispatch(repo string) (string, error) {
	gf, err := parseGo(repo, "pkg/pbutil/input.go")
	if err != nil {
		return "", err
	}
	var cases []string
	after := "DecOther"
	fallback := "DecOther"
	for _, fd := range funcDecls(gf.file) {
		switch fd.Name.Name {
		case "fromPBContents":
			pathParam := ""
			if len(fd.Type.Params.List) > 0 && len(fd.Type.Params.List[0].Names) > 0 {
				pathParam = fd.Type.Params.List[0].Names[0].Name
			}
			nSwitch := 0
			for i, st := range fd.Body.List {
				sw, ok := st.(*ast.SwitchStmt)
				if ok {
					nSwitch++
					if sw.Tag != nil || sw.Init != nil || nSwitch > 1 {
						cases = append(cases, "(\"?\", DecOther)")
						continue
					}
					for _, cc := range sw.Body.List {
						cl := cc.(*ast.CaseClause)
						if cl.List == nil { // default arm
							cases = append(cases, "(\"\", "+c09decoder(cl.Body)+")")
							continue
						}
						for _, e := range cl.List {
							suffix, okc := "?", false
							if c, ok := e.(*ast.CallExpr); ok && len(c.Args) == 2 {
								ch := selChain(c.Fun)
								if len(ch) == 2 && ch[0] == "strings" && ch[1] == "HasSuffix" && isIdent(c.Args[0], pathParam) {
									if s, ok := c09strLit(c.Args[1]); ok {
										suffix, okc = s, true
									}
								}
							}
							dec := c09decoder(cl.Body)
							if !okc {
								dec = "DecOther"
							}
							// an arm must return
							hasRet := false
							for _, b := range cl.Body {
								if _, ok := b.(*ast.ReturnStmt); ok {
									hasRet = true
								}
							}
							if !hasRet {
								dec = "DecOther"
							}
							cases = append(cases, "("+c09str(suffix)+", "+dec+")")
						}
					}
					continue
				}
				if rs, ok := st.(*ast.ReturnStmt); ok && i == len(fd.Body.List)-1 && len(rs.Results) == 2 {
					if isIdent(rs.Results[0], "nil") && isIdent(rs.Results[1], "ErrUnknownExtension") {
						after = "DecUnknown"
					}
				}
			}
		case "FromPB":
			// if errors.Is(err, ErrUnknownExtension) { ...; err = X.Unmarshal(in, m) }
			ast.Inspect(fd.Body, func(n ast.Node) bool {
				is, ok := n.(*ast.IfStmt)
				if !ok {
					return true
				}
				c, ok := is.Cond.(*ast.CallExpr)
				if !ok || len(c.Args) != 2 {
					return true
				}
				ch := selChain(c.Fun)
				if len(ch) == 2 && ch[0] == "errors" && ch[1] == "Is" && (isIdent(c.Args[1], "ErrUnknownExtension") || isIdent(c.Args[0], "ErrUnknownExtension")) {
					fallback = c09decoder(is.Body.List)
				}
				return true
			})
		}
	}
	// formats
	ff, err := parseGo(repo, "pkg/importer/formats.go")
	if err != nil {
		return "", err
	}
	type format struct {
		v, name string
		exts    []string
	}
	var formats []format
	for _, d := range ff.file.Decls {
		gd, ok := d.(*ast.GenDecl)
		if !ok || gd.Tok != token.VAR {
			continue
		}
		for _, sp := range gd.Specs {
			vs, ok := sp.(*ast.ValueSpec)
			if !ok || len(vs.Names) != 1 || len(vs.Values) != 1 {
				continue
			}
			cl, ok := vs.Values[0].(*ast.CompositeLit)
			if !ok || !isIdent(cl.Type, "Format") {
				continue
			}
			f := format{v: vs.Names[0].Name, name: "?"}
			for _, el := range cl.Elts {
				kv, ok := el.(*ast.KeyValueExpr)
				if !ok {
					continue
				}
				switch c09exprText(kv.Key) {
				case "Name":
					if s, ok := c09strLit(kv.Value); ok {
						f.name = s
					}
				case "FileExt":
					if l, ok := kv.Value.(*ast.CompositeLit); ok {
						for _, e := range l.Elts {
							if s, ok := c09strLit(e); ok {
								f.exts = append(f.exts, s)
							} else {
								f.exts = append(f.exts, "?")
							}
						}
					}
				}
			}
			formats = append(formats, f)
		}
	}
	sort.Slice(formats, func(i, j int) bool { return formats[i].v < formats[j].v })
	// parser formats
	pf, err := parseGo(repo, "pkg/parse/parse.go")
	if err != nil {
		return "", err
	}
	var parserFormats []string
	for _, fd := range funcDecls(pf.file) {
		if fd.Name.Name != "detectFileType" {
			continue
		}
		ast.Inspect(fd.Body, func(n ast.Node) bool {
			cl, ok := n.(*ast.CompositeLit)
			if !ok {
				return true
			}
			at, ok := cl.Type.(*ast.ArrayType)
			if !ok {
				return true
			}
			if ch := selChain(at.Elt); len(ch) == 2 && ch[0] == "importer" && ch[1] == "Format" {
				for _, e := range cl.Elts {
					if c := selChain(e); len(c) == 2 && c[0] == "importer" {
						parserFormats = append(parserFormats, c[1])
					} else {
						parserFormats = append(parserFormats, "?")
					}
				}
			}
			return true
		})
	}
	// modes
	cf, err := parseGo(repo, "cmd/sysl/cmd_protobuf.go")
	if err != nil {
		return "", err
	}
	var modes []string
	for _, fd := range funcDecls(cf.file) {
		if fd.Name.Name != "Configure" || recvName(fd) != "protobufCmd" {
			continue
		}
		ast.Inspect(fd.Body, func(n ast.Node) bool {
			as, ok := n.(*ast.AssignStmt)
			if !ok || len(as.Lhs) != 1 || len(as.Rhs) != 1 || !isIdent(as.Lhs[0], "opts") {
				return true
			}
			if cl, ok := as.Rhs[0].(*ast.CompositeLit); ok {
				for _, e := range cl.Elts {
					if s, ok := c09strLit(e); ok {
						modes = append(modes, s)
					}
				}
			}
			return true
		})
	}
	var b strings.Builder
	b.WriteString("(* GENERATED by vt PbDispatch from pkg/pbutil/input.go, pkg/importer/formats.go, pkg/parse/parse.go, cmd/sysl/cmd_protobuf.go -- do not edit *)\n")
	b.WriteString("From Coq Require Import List String.\nImport ListNotations.\nRequire Import Verif.Codec.Dispatch.\nLocal Open Scope string_scope.\n")
	fmt.Fprintf(&b, "Definition cases : list (string * decoder) := [%s].\n", strings.Join(cases, "; "))
	fmt.Fprintf(&b, "Definition after_switch : decoder := %s.\n", after)
	fmt.Fprintf(&b, "Definition frompb_fallback : decoder := %s.\n", fallback)
	it := make([]string, len(formats))
	for i, f := range formats {
		ex := make([]string, len(f.exts))
		for j, e := range f.exts {
			ex[j] = c09str(e)
		}
		it[i] = fmt.Sprintf("  (%s, %s, [%s])", c09str(f.v), c09str(f.name), strings.Join(ex, "; "))
	}
	fmt.Fprintf(&b, "Definition formats : list (string * string * list string) := [\n%s\n].\n", strings.Join(it, ";\n"))
	q := func(l []string) string {
		o := make([]string, len(l))
		for i, s := range l {
			o[i] = c09str(s)
		}
		return "[" + strings.Join(o, "; ") + "]"
	}
	fmt.Fprintf(&b, "Definition parser_formats : list string := %s.\n", q(parserFormats))
	fmt.Fprintf(&b, "Definition modes : list string := %s.\n", q(modes))
	return b.String(), nil
}
