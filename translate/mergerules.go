package main

import (
	"bytes"
	"fmt"
	"go/ast"
	"go/printer"
	"go/token"
	"sort"
	"strings"
)

// MergeRules: the shapes of pkg/parse/listener_impl.go that the C04 model Merge/Model.v transliterates.
//
//	pk_mode      how ExitTable combines this block's ~pk fields with the key the table already has:
//	             PkReplace  `pks := []string{}` ... append on `a.GetS() == "pk"`
//	             PkUnion    `pks := append([]string{}, rel.GetPrimaryKey().GetAttrName()...)` ... append on
//	                        `a.GetS() == "pk" && !isKey(name)` where isKey ranges over pks
//	             PkUnknown  anything else
//	pk_only_nonempty   the assignment to rel.PrimaryKey sits under `if len(pks) > 0`
//	lazy_maps    every assignment `X.Types = / X.Endpoints = / X.Views =` of a whole map in the listener, with
//	             whether it sits under a `== nil` test of that same map (so a re-opened app keeps its entries)
//	creates      every `M[k] = v` into module.Apps / app.Types / app.Endpoints in the functions the model follows,
//	             with its guard: IfAbsent (`_, has := M[k]; !has` or `x := M[k]` ... `x == nil`) or Always
//
//	appends      every self-append `X = append(X, ...)` in the functions whose lists grow in declaration order when a
//	             declaration is met again (ExitParams, ExitMixin, EnterSubscribe, ExitMethod_def, addToCurrentScope,
//	             ExitUnion, EnterTypes): (function, printed target)
//	anno_rule    the shape of addAttrWithPrecedence: FirstNonEmptyWins = "patterns" arrays appended, an existing
//	             non-empty string / non-empty array kept (return before the assignment), otherwise attrs[key] = attr
//	field_redecl EnterField looks the field up in s.typemap and only builds a new type when it is absent, and
//	             EnterField_type merges the attributes with mergeAttrsWithPrecendence and sets Opt only under
//	             `ctx.QN() != nil`: FieldMerged; anything else FieldUnknown
//
//	event_attrs  the assignments to ep.Attrs in EnterEvent with all enclosing conditions, innermost first (attributes of an event REPLACE)
//	rest_inherit the statements of EnterMethod_def that read s.rest_attrs / write restEndpoint.Attrs (attributes of the
//	             enclosing paths, outermost first, merged into {patterns: [rest]}, then the method's own, then into the endpoint)
//	rest_attrs_stack  every assignment to s.rest_attrs (push in EnterRest_endpoint, pop in ExitRest_endpoint, reset)
//	pb_merges    every call of package mergo in pkg/parse/parse.go: `mergo.Merge(listener.module, v.syslProtoImport)`
//	             without options is what Merge/Model.v mergo_state transliterates
//
// Everything is found by role, never by line number.
func init() { register("MergeRules", mergeRules) }

func mrPrint(fset *token.FileSet, n ast.Node) string {
	var b bytes.Buffer
	printer.Fprint(&b, fset, n)
	return b.String()
}

// parents of every node of a function body
func mrParents(root ast.Node) map[ast.Node]ast.Node {
	par := map[ast.Node]ast.Node{}
	var stack []ast.Node
	ast.Inspect(root, func(n ast.Node) bool {
		if n == nil {
			stack = stack[:len(stack)-1]
			return true
		}
		if len(stack) > 0 {
			par[n] = stack[len(stack)-1]
		}
		stack = append(stack, n)
		return true
	})
	return par
}

func mrConjuncts(e ast.Expr) []ast.Expr {
	if b, ok := e.(*ast.BinaryExpr); ok && b.Op == token.LAND {
		return append(mrConjuncts(b.X), mrConjuncts(b.Y)...)
	}
	if p, ok := e.(*ast.ParenExpr); ok {
		return mrConjuncts(p.X)
	}
	return []ast.Expr{e}
}

// enclosing if statements in whose THEN branch n sits (innermost first)
func mrEnclosingIfs(par map[ast.Node]ast.Node, n ast.Node) []*ast.IfStmt {
	var out []*ast.IfStmt
	child := n
	for p := par[n]; p != nil; child, p = p, par[p] {
		if is, ok := p.(*ast.IfStmt); ok && child == ast.Node(is.Body) {
			out = append(out, is)
		}
	}
	return out
}

// local aliases `x := <expr>` / `x = <expr>` of a function: ident -> printed expressions it was assigned
func mrAliases(fset *token.FileSet, fd *ast.FuncDecl) map[string][]string {
	al := map[string][]string{}
	ast.Inspect(fd.Body, func(n ast.Node) bool {
		if as, ok := n.(*ast.AssignStmt); ok && len(as.Lhs) >= 1 && len(as.Rhs) == 1 {
			if id, ok := as.Lhs[0].(*ast.Ident); ok {
				al[id.Name] = append(al[id.Name], mrPrint(fset, as.Rhs[0]))
			}
		}
		return true
	})
	return al
}

func mrIsNilTest(fset *token.FileSet, e ast.Expr, target string, al map[string][]string) bool {
	b, ok := e.(*ast.BinaryExpr)
	if !ok || b.Op != token.EQL || !isIdent(b.Y, "nil") {
		return false
	}
	x := mrPrint(fset, b.X)
	if x == target {
		return true
	}
	if id, ok := b.X.(*ast.Ident); ok {
		for _, v := range al[id.Name] {
			if v == target {
				return true
			}
		}
	}
	return false
}

func mergeRules(repo string) (string, error) {
	gf, err := parseGo(repo, "pkg/parse/listener_impl.go")
	if err != nil {
		return "", err
	}
	fset := gf.fset
	funcs := map[string]*ast.FuncDecl{}
	for _, fd := range funcDecls(gf.file) {
		if fd.Body != nil {
			funcs[fd.Name.Name] = fd
		}
	}

	// ---- pk_mode
	pkMode, pkNonEmpty := "PkUnknown", false
	if fd := funcs["ExitTable"]; fd != nil {
		par := mrParents(fd.Body)
		init, guard := "", ""
		nInit, nAppend, nAssignPK := 0, 0, 0
		ast.Inspect(fd.Body, func(n ast.Node) bool {
			as, ok := n.(*ast.AssignStmt)
			if !ok || len(as.Lhs) != 1 || len(as.Rhs) != 1 {
				return true
			}
			lhs := mrPrint(fset, as.Lhs[0])
			rhs := strings.Join(strings.Fields(mrPrint(fset, as.Rhs[0])), " ")
			switch {
			case lhs == "pks" && as.Tok == token.DEFINE:
				nInit++
				switch rhs {
				case "[]string{}":
					init = "empty"
				case "append([]string{}, rel.GetPrimaryKey().GetAttrName()...)":
					init = "existing"
				default:
					init = "?"
				}
			case lhs == "pks" && rhs == "append(pks, name)":
				nAppend++
				ifs := mrEnclosingIfs(par, n)
				if len(ifs) == 0 {
					guard = "?"
					break
				}
				guard = strings.Join(strings.Fields(mrPrint(fset, ifs[0].Cond)), " ")
			case strings.HasSuffix(lhs, ".PrimaryKey"):
				nAssignPK++
				ifs := mrEnclosingIfs(par, n)
				if len(ifs) > 0 && strings.Join(strings.Fields(mrPrint(fset, ifs[0].Cond)), " ") == "len(pks) > 0" &&
					strings.Contains(rhs, "AttrName: pks") {
					pkNonEmpty = true
				}
			}
			return true
		})
		// isKey must be the membership test over pks
		isKeyOK := false
		ast.Inspect(fd.Body, func(n ast.Node) bool {
			as, ok := n.(*ast.AssignStmt)
			if !ok || len(as.Lhs) != 1 || !isIdent(as.Lhs[0], "isKey") || len(as.Rhs) != 1 {
				return true
			}
			fl, ok := as.Rhs[0].(*ast.FuncLit)
			if !ok || len(fl.Body.List) != 2 {
				return true
			}
			rs, ok1 := fl.Body.List[0].(*ast.RangeStmt)
			ret, ok2 := fl.Body.List[1].(*ast.ReturnStmt)
			if ok1 && ok2 && isIdent(rs.X, "pks") && len(ret.Results) == 1 && isIdent(ret.Results[0], "false") &&
				strings.Join(strings.Fields(mrPrint(fset, rs.Body)), " ") == "{ if k == name { return true } }" {
				isKeyOK = true
			}
			return true
		})
		if nInit == 1 && nAppend == 1 && nAssignPK == 1 {
			switch {
			case init == "empty" && guard == `a.GetS() == "pk"`:
				pkMode = "PkReplace"
			case init == "existing" && guard == `a.GetS() == "pk" && !isKey(name)` && isKeyOK:
				pkMode = "PkUnion"
			}
		}
	}

	// ---- lazy_maps
	type lazy struct {
		fn, field string
		guarded   bool
	}
	var lazies []lazy
	for name, fd := range funcs {
		par := mrParents(fd.Body)
		al := mrAliases(fset, fd)
		ast.Inspect(fd.Body, func(n ast.Node) bool {
			as, ok := n.(*ast.AssignStmt)
			if !ok {
				return true
			}
			for _, l := range as.Lhs {
				se, ok := l.(*ast.SelectorExpr)
				if !ok || (se.Sel.Name != "Types" && se.Sel.Name != "Endpoints" && se.Sel.Name != "Views") {
					continue
				}
				target := mrPrint(fset, se)
				if strings.Contains(target, "Wrapped") {
					continue
				}
				g := false
				for _, is := range mrEnclosingIfs(par, n) {
					for _, cj := range mrConjuncts(is.Cond) {
						if mrIsNilTest(fset, cj, target, al) {
							g = true
						}
					}
				}
				lazies = append(lazies, lazy{name, se.Sel.Name, g})
			}
			return true
		})
	}
	sort.Slice(lazies, func(i, j int) bool {
		if lazies[i].fn != lazies[j].fn {
			return lazies[i].fn < lazies[j].fn
		}
		return lazies[i].field < lazies[j].field
	})

	// ---- creates
	type create struct{ fn, m, guard string }
	var creates []create
	follow := []string{"EnterName_with_attribs", "EnterTable", "EnterEnum", "EnterSimple_endpoint", "EnterMethod_def", "EnterEvent",
		"EnterAlias", "ExitAlias", "EnterUnion", "EnterSubscribe", "EnterView"}
	for _, name := range follow {
		fd := funcs[name]
		if fd == nil {
			creates = append(creates, create{name, "Missing", "GUnknown"})
			continue
		}
		par := mrParents(fd.Body)
		al := mrAliases(fset, fd)
		ast.Inspect(fd.Body, func(n ast.Node) bool {
			as, ok := n.(*ast.AssignStmt)
			if !ok || len(as.Lhs) != 1 {
				return true
			}
			ix, ok := as.Lhs[0].(*ast.IndexExpr)
			if !ok {
				return true
			}
			mexpr := mrPrint(fset, ix.X)
			which := ""
			resolved := []string{mexpr}
			if id, ok := ix.X.(*ast.Ident); ok {
				resolved = append(resolved, al[id.Name]...)
			}
			for _, r := range resolved {
				switch {
				case strings.HasSuffix(r, "module.Apps"):
					which = "Apps"
				case strings.HasSuffix(r, "currentApp().Types"):
					which = "Types"
				case strings.HasSuffix(r, "currentApp().Endpoints"):
					which = "Endpoints"
				case strings.HasSuffix(r, "currentApp().Views"):
					which = "Views"
				case r == "srcApp.Endpoints":
					which = "PublisherEndpoints"
				}
			}
			if which == "" {
				return true
			}
			key := mrPrint(fset, ix.Index)
			guard := "Always"
			for _, is := range mrEnclosingIfs(par, n) {
				// if _, has := M[k]; !has
				if ia, ok := is.Init.(*ast.AssignStmt); ok && len(ia.Lhs) == 2 && len(ia.Rhs) == 1 {
					if rix, ok := ia.Rhs[0].(*ast.IndexExpr); ok && mrPrint(fset, rix.X) == mexpr && mrPrint(fset, rix.Index) == key {
						if u, ok := is.Cond.(*ast.UnaryExpr); ok && u.Op == token.NOT && mrPrint(fset, u.X) == mrPrint(fset, ia.Lhs[1]) {
							guard = "IfAbsent"
						}
					}
				}
				// x := M[k] ... if x == nil
				if b, ok := is.Cond.(*ast.BinaryExpr); ok && b.Op == token.EQL && isIdent(b.Y, "nil") {
					if id, ok := b.X.(*ast.Ident); ok {
						for _, v := range al[id.Name] {
							if v == mexpr+"["+key+"]" {
								guard = "IfAbsent"
							}
							// srcApp := syslutil.GetApp(app_src, s.module) ... if srcApp == nil { s.module.Apps[..] = }
							if which == "Apps" && strings.HasPrefix(v, "syslutil.GetApp(") && strings.HasSuffix(v, "s.module)") {
								guard = "IfAbsent"
							}
						}
					}
				}
			}
			creates = append(creates, create{name, which, guard})
			return true
		})
	}
	sort.SliceStable(creates, func(i, j int) bool {
		if creates[i].fn != creates[j].fn {
			return creates[i].fn < creates[j].fn
		}
		if creates[i].m != creates[j].m {
			return creates[i].m < creates[j].m
		}
		return creates[i].guard < creates[j].guard
	})

	// ---- appends
	type app2 struct{ fn, target string }
	var appends []app2
	for _, name := range []string{"ExitParams", "ExitMixin", "EnterSubscribe", "ExitMethod_def", "addToCurrentScope", "ExitUnion", "EnterTypes"} {
		fd := funcs[name]
		if fd == nil {
			appends = append(appends, app2{name, "Missing"})
			continue
		}
		ast.Inspect(fd.Body, func(n ast.Node) bool {
			as, ok := n.(*ast.AssignStmt)
			if !ok || len(as.Lhs) != 1 || len(as.Rhs) != 1 {
				return true
			}
			call, ok := as.Rhs[0].(*ast.CallExpr)
			if !ok || !isIdent(call.Fun, "append") || len(call.Args) < 2 {
				return true
			}
			lhs := mrPrint(fset, as.Lhs[0])
			if mrPrint(fset, call.Args[0]) == lhs {
				appends = append(appends, app2{name, lhs})
			}
			return true
		})
	}
	sort.SliceStable(appends, func(i, j int) bool {
		if appends[i].fn != appends[j].fn {
			return appends[i].fn < appends[j].fn
		}
		return appends[i].target < appends[j].target
	})

	// ---- anno_rule
	annoRule := "AnnoUnknown"
	if fd := funcs["addAttrWithPrecedence"]; fd != nil {
		body := strings.Join(strings.Fields(mrPrint(fset, fd.Body)), "")
		frags := []string{
			"ifpatterns,hasPatterns:=attrs[patternsKey];hasPatterns&&key==patternsKey{",
			"currPatterns.A.Elt=append(currPatterns.A.GetElt(),newPatterns.A.GetElt()...)returnattrs}",
			"ifv,exists:=attrs[key];exists&&v.Attribute!=nil{switchx:=v.Attribute.(type){",
			"case*sysl.Attribute_S:ifx.S!=\"\"{",
			"returnattrs}",
			"case*sysl.Attribute_A:iflen(x.A.GetElt())>0{",
			"returnattrs}",
			"attrs[key]=attrreturnattrs}",
		}
		pos, ok := 0, true
		for _, f := range frags {
			i := strings.Index(body[pos:], f)
			if i < 0 {
				ok = false
				break
			}
			pos += i + len(f)
		}
		if ok && pos == len(body) && strings.Count(body, "returnattrs") == 4 && strings.Count(body, "attrs[key]=") == 1 {
			annoRule = "FirstNonEmptyWins"
		}
	}

	// ---- field_redecl
	fieldRedecl := "FieldUnknown"
	if f1, f2 := funcs["EnterField"], funcs["EnterField_type"]; f1 != nil && f2 != nil {
		b1 := strings.Join(strings.Fields(mrPrint(fset, f1.Body)), "")
		b2 := strings.Join(strings.Fields(mrPrint(fset, f2.Body)), "")
		lookup := strings.Contains(b1, "type1,has:=s.typemap[fieldName]ifhas{") && strings.Contains(b1, "}else{type1=&sysl.Type{}") &&
			strings.Count(b1, "type1=&sysl.Type{}") == 1 && strings.Contains(b1, "s.typemap[fieldName]=type1")
		merge := strings.Contains(b2, "type1.Attrs=mergeAttrsWithPrecendence(type1.Attrs,s.makeAttributeArray(attribs))") &&
			strings.Count(b2, "type1.Attrs=")-strings.Count(b2, "type1.Attrs==") == 2 && strings.Contains(b2, "iftype1.Attrs==nil{type1.Attrs=map[string]*sysl.Attribute{}}")
		opt := strings.Contains(b2, "ifctx.QN()!=nil{type1.Opt=true}") && strings.Count(b2, "type1.Opt=") == 1
		if lookup && merge && opt {
			fieldRedecl = "FieldMerged"
		}
	}

	// ---- round 3, second pass: statement texts (whitespace removed)
	squash := func(n ast.Node) string { return strings.Join(strings.Fields(mrPrint(fset, n)), "") }
	// event_attrs: every assignment to ep.Attrs in EnterEvent, with the condition of the innermost enclosing if
	var eventAttrs []string
	if fd := funcs["EnterEvent"]; fd != nil {
		par := mrParents(fd.Body)
		ast.Inspect(fd.Body, func(n ast.Node) bool {
			if as, ok := n.(*ast.AssignStmt); ok && len(as.Lhs) == 1 && mrPrint(fset, as.Lhs[0]) == "ep.Attrs" {
				cond := "-"
				if ifs := mrEnclosingIfs(par, as); len(ifs) > 0 { // every enclosing condition, innermost first
					var cs []string
					for _, i := range ifs {
						cs = append(cs, squash(i.Cond))
					}
					cond = strings.Join(cs, "&&")
				}
				eventAttrs = append(eventAttrs, cond+" => "+squash(as))
			}
			return true
		})
	}
	// rest_inherit: the statements of EnterMethod_def that mention s.rest_attrs or write restEndpoint.Attrs
	var restInherit []string
	if fd := funcs["EnterMethod_def"]; fd != nil {
		for _, st := range fd.Body.List {
			t := squash(st)
			if strings.Contains(t, "s.rest_attrs") || strings.Contains(t, "restEndpoint.Attrs") || strings.HasPrefix(t, "ifctx.Attribs_or_modifiers()") {
				restInherit = append(restInherit, t)
			}
		}
	}
	// rest_attrs_stack: every statement that assigns s.rest_attrs anywhere in the listener (function, text)
	var restStack []string
	{
		var names []string
		for n := range funcs {
			names = append(names, n)
		}
		sort.Strings(names)
		for _, fn := range names {
			ast.Inspect(funcs[fn].Body, func(n ast.Node) bool {
				if as, ok := n.(*ast.AssignStmt); ok && len(as.Lhs) == 1 && mrPrint(fset, as.Lhs[0]) == "s.rest_attrs" {
					restStack = append(restStack, fn+": "+squash(as))
				}
				return true
			})
		}
	}
	// pb_merges: every call of package mergo in pkg/parse/parse.go (function, text) - compiled modules in the closure
	var pbMerges []string
	if pf, err := parseGo(repo, "pkg/parse/parse.go"); err == nil {
		for _, fd := range funcDecls(pf.file) {
			if fd.Body == nil {
				continue
			}
			ast.Inspect(fd.Body, func(n ast.Node) bool {
				if ce, ok := n.(*ast.CallExpr); ok {
					if se, ok := ce.Fun.(*ast.SelectorExpr); ok {
						if id, ok := se.X.(*ast.Ident); ok && id.Name == "mergo" {
							var b bytes.Buffer
							printer.Fprint(&b, pf.fset, ce)
							pbMerges = append(pbMerges, fd.Name.Name+": "+strings.Join(strings.Fields(b.String()), ""))
						}
					}
				}
				return true
			})
		}
	} else {
		pbMerges = append(pbMerges, "unreadable")
	}
	strList := func(name string, l []string) string {
		var q []string
		for _, x := range l {
			q = append(q, "\""+strings.ReplaceAll(strings.ReplaceAll(x, "\"", "'"), "(*", "( *")+"\"")
		}
		return "Definition " + name + " : list string := [\n  " + strings.Join(q, ";\n  ") + "].\n"
	}

	var sb strings.Builder
	sb.WriteString("(* GENERATED by vt MergeRules from pkg/parse/listener_impl.go -- do not edit *)\n")
	sb.WriteString("From Coq Require Import String List Bool.\nImport ListNotations.\nRequire Import Verif.Merge.Model.\nLocal Open Scope string_scope.\n")
	sb.WriteString("Inductive guard := IfAbsent | Always | GUnknown.\n")
	sb.WriteString("Inductive annorule := FirstNonEmptyWins | AnnoUnknown.\nInductive fieldrule := FieldMerged | FieldUnknown.\n")
	fmt.Fprintf(&sb, "Definition anno_rule : annorule := %s.\nDefinition field_redecl : fieldrule := %s.\n", annoRule, fieldRedecl)
	sb.WriteString("Definition appends : list (string * string) := [\n")
	for i, a := range appends {
		sep := ";"
		if i == len(appends)-1 {
			sep = ""
		}
		fmt.Fprintf(&sb, "  (\"%s\", \"%s\")%s\n", a.fn, a.target, sep)
	}
	sb.WriteString("].\n")
	fmt.Fprintf(&sb, "Definition pk_mode : pkmode := %s.\n", pkMode)
	fmt.Fprintf(&sb, "Definition pk_only_nonempty : bool := %v.\n", pkNonEmpty)
	sb.WriteString("Definition lazy_maps : list (string * string * bool) := [\n")
	for i, l := range lazies {
		sep := ";"
		if i == len(lazies)-1 {
			sep = ""
		}
		fmt.Fprintf(&sb, "  (\"%s\", \"%s\", %v)%s\n", l.fn, l.field, l.guarded, sep)
	}
	sb.WriteString("].\nDefinition creates : list (string * string * guard) := [\n")
	for i, c := range creates {
		sep := ";"
		if i == len(creates)-1 {
			sep = ""
		}
		fmt.Fprintf(&sb, "  (\"%s\", \"%s\", %s)%s\n", c.fn, c.m, c.guard, sep)
	}
	sb.WriteString("].\n")
	sb.WriteString(strList("event_attrs", eventAttrs) + strList("rest_inherit", restInherit) + strList("rest_attrs_stack", restStack) + strList("pb_merges", pbMerges))
	return sb.String(), nil
}
